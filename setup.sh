#!/bin/bash
# Offline build of the framework from files on disk: translators, then a full .vo build of
# every claimed property's closure (Properties/Cxx.vo and the model glue CxxRun.vo).
set -e
cd "$(dirname "$0")"
export YV_REPO="${YV_REPO:-/repo}"
export PYTHONPATH="$YV_REPO:$(pwd)" PYTHONHASHSEED=0 PYTHONDONTWRITEBYTECODE=1
mkdir -p evidence/replay ocaml/build coq/Gen
/venv/bin/python -m harness.regen_all
/venv/bin/python -c "from harness import checklib; checklib.regen_coqproject()"
targets=""
for p in $(cat harness/manifest/READY); do
  targets="$targets Properties/$p.vo"
  [ -f coq/$p/${p}Run.v ] && targets="$targets $p/${p}Run.vo"
done
cd coq
timeout 3000 make -j16 $targets 2>&1 | grep -v '^Closed under\|^COQDEP\|^COQC' | tail -40
test "${PIPESTATUS[0]}" = 0
