#!/bin/bash
# Offline build of the whole framework from files on disk: translators, full .vo build.
set -e
cd "$(dirname "$0")"
export YV_REPO="${YV_REPO:-/repo}"
export PYTHONPATH="$YV_REPO:$(pwd)" PYTHONHASHSEED=0 PYTHONDONTWRITEBYTECODE=1
mkdir -p evidence/replay ocaml/build coq/Gen
/venv/bin/python -m harness.regen_all
cd coq
(cat _CoqProject.head; find . -name '*.v' | sed 's|^\./||' | sort) > _CoqProject
coq_makefile -f _CoqProject -o Makefile >/dev/null 2>&1
timeout 3000 make -j16 2>&1 | grep -v '^Closed under\|^COQDEP\|^COQC' | tail -40
test "${PIPESTATUS[0]}" = 0
