(* Glue between the sx line format and the C16 model (unverified, trusted, small). *)
From YV Require Import Common.Tac Common.Sx C16.C16Model.

Definition dec_kind (n : N) : kind :=
  match n with 0%N => KConflict | 1%N => KAck | _ => KXml end.

Definition dec_event (x : sx) : event :=
  let a := sx_get_n (sx_nth x 1) in
  match sx_get_n (sx_nth x 0) with
  | 0%N => EConnectReq | 1%N => EConnectCall | 2%N => EDisconnectReq | 3%N => EDispConnected
  | 4%N => ESockError | 5%N => EPeerClose | 6%N => ESuccess | 7%N => EFailure
  | 8%N => EStreamError (dec_kind a) | 9%N => EPong a | 10%N => ETick | 11%N => EAppSend
  | 13%N => EKeysResult | 14%N => EKeysError
  | _ => ELoop
  end.

Definition dec_cfg (x : sx) : cfg :=
  mkCfg (sx_get_bool (sx_nth x 0)) (sx_get_bool (sx_nth x 1)) (sx_get_bool (sx_nth x 2))
        (sx_get_bool (sx_nth x 3)) (sx_get_bool (sx_nth x 4)) (sx_get_bool (sx_nth x 5)).

Definition enc_reason (r : reason) : N := match r with RNone => 0 | RAuthFail => 1 | RPing => 2 end.
Definition enc_kind (k : kind) : N := match k with KConflict => 0 | KAck => 1 | KXml => 2 end.
Definition nb (b : bool) : N := if b then 1%N else 0%N.

Definition enc_obs (o : obs) : sx :=
  match o with
  | OProbe p PConnect => SL [SN p; SN 0; SN 0]
  | OProbe p (PDisconnect r) => SL [SN p; SN 1; SN (enc_reason r)]
  | OProbe p PConnected => SL [SN p; SN 2; SN 0]
  | OProbe p (PDisconnected r) => SL [SN p; SN 3; SN (enc_reason r)]
  | OProbe p (PAuth b) => SL [SN p; SN 4; SN (nb b)]
  | OProbe p (PAuthed b) => SL [SN p; SN 5; SN (nb b)]
  | ODispCreate => SL [SN 4; SN 0]
  | ODispConnect => SL [SN 4; SN 1]
  | ODispDisconnect => SL [SN 4; SN 2]
  | OWrite WHeader up => SL [SN 4; SN 3; SN 0; SN 0; SN (nb up)]
  | OWrite (WPing i) up => SL [SN 4; SN 3; SN 1; SN i; SN (nb up)]
  | OWrite WApp up => SL [SN 4; SN 3; SN 2; SN 0; SN (nb up)]
  | OWrite WKeys up => SL [SN 4; SN 3; SN 4; SN 0; SN (nb up)]
  | OHandshake b => SL [SN 5; SN (nb b)]
  | OApp ASuccess => SL [SN 6; SN 0; SN 0]
  | OApp AFailure => SL [SN 6; SN 1; SN 0]
  | OApp (AStreamError k) => SL [SN 6; SN 2; SN (enc_kind k)]
  | OApp (APong i) => SL [SN 6; SN 3; SN i]
  | ORaise => SL [SN 7]
  end.

Definition enc_state (s : state) : sx :=
  SL [SN (match ns s with NsDisconnected => 0 | NsConnecting => 1 | NsConnected => 2
                          | NsDisconnecting => 3 end);
      SN (nb (conn s));
      SN (match dp s with DpNone => 0 | DpConnecting => 1 | DpUp => 2 | DpClosed => 3 end);
      SN (orphans s);
      SN (match nz s with NzInit => 0 | NzHandshake => 1 | NzTransport => 2 end);
      SN (nb (recon s)); SN (nb (pth s));
      SN (N.of_nat (length (pq s))); SN (N.of_nat (length (dq s)));
      SN (nb (psv s)); SN (nb (ud s)); SN (nb (kp s)); SN (nb (um s)); SN (nb (rb s))].

(* per step: (in-domain?  observations  state-after); the run continues past out-of-domain events *)
Fixpoint trace_steps (c : cfg) (s : state) (h : list event) : list sx :=
  match h with
  | [] => []
  | e :: h' =>
    let '(s1, o1) := step c s e in
    SL [sx_bool (enabled c s e); SL (map enc_obs o1); enc_state s1] :: trace_steps c s1 h'
  end.

(* arg: ((reconnect passive ping fix_create fix_destroy unsent) ((tag arg) ...)) *)
Definition run_hist (arg : sx) : sx :=
  SL (trace_steps (dec_cfg (sx_nth arg 0)) (init (dec_cfg (sx_nth arg 0))) (map dec_event (sx_get_l (sx_nth arg 1)))).

(* the monitors of the statements, run on the model's own trace: (mon accepts?  proj equalities hold?) *)
Definition run_monitors (arg : sx) : sx :=
  let c := dec_cfg (sx_nth arg 0) in
  let '(s, tr) := exec_any c (init c) (map dec_event (sx_get_l (sx_nth arg 1))) in
  SL [sx_bool (match mon_run MIdle tr with Some _ => true | None => false end);
      SN (N.of_nat (countb is_down_write tr)); SN (N.of_nat (countb is_raise tr)); SN (orphans s)].

(* keep only the events that are inside the domain: (index  observations  state-after) per kept event *)
Fixpoint filter_steps (c : cfg) (s : state) (h : list event) (idx : N) : list sx :=
  match h with
  | [] => []
  | e :: h' =>
    if enabled c s e then
      let '(s1, o1) := step c s e in
      SL [SN idx; SL (map enc_obs o1); enc_state s1] :: filter_steps c s1 h' (idx + 1)
    else filter_steps c s h' (idx + 1)
  end.

Definition run_filter (arg : sx) : sx :=
  SL (filter_steps (dec_cfg (sx_nth arg 0)) (init (dec_cfg (sx_nth arg 0))) (map dec_event (sx_get_l (sx_nth arg 1))) 0).

(* arg: (cfg prefix candidates) -> which candidates are in the domain after the prefix *)
Definition run_enabled (arg : sx) : sx :=
  let c := dec_cfg (sx_nth arg 0) in
  let '(s, _) := exec_any c (init c) (map dec_event (sx_get_l (sx_nth arg 1))) in
  SL (map (fun x => sx_bool (enabled c s (dec_event x))) (sx_get_l (sx_nth arg 2))).
