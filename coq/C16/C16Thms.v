(* C16 — the theorems (trace level), built on C16Proofs. *)
From YV Require Import Common.Tac C16.C16Model C16.C16Proofs.

Lemma counts_exec c (f : obs -> bool) (g : event -> bool) :
  (forall s e, inv s -> enabled c s e = true -> countb f (snd (step c s e)) = b2n (g e)) ->
  forall h s s2 tr, inv s -> exec c s h = Some (s2, tr) -> countb f tr = count_ev g h.
Proof.
  intros Hstep. apply (exec_ind_inv c (fun _ h _ tr => countb f tr = count_ev g h)).
  - reflexivity.
  - intros s e h s2 o2 Hi He _ _ IH. rewrite countb_app, count_ev_cons, IH, Hstep; auto.
Qed.

Lemma step_counts_parts c s e : inv s -> enabled c s e = true ->
  let o := snd (step c s e) in
  (forall p, In p [0; 1; 2; 3]%N -> countb (is_up_at p) o = b2n (ev_disp_connected e)) /\
  (forall p, In p [0; 1; 2]%N -> countb (is_auth_at p) o = b2n (ev_disp_connected e)) /\
  countb is_handshake o = b2n (ev_disp_connected e) /\
  (forall p, In p [0; 1; 2]%N -> countb (is_authed_at p) o = b2n (ev_success e)) /\
  countb is_app_success o = b2n (ev_success e) /\
  countb is_down_write o = 0%nat /\ countb is_raise o = 0%nat.
Proof.
  intros Hi He o. pose proof (step_counts c s e Hi He) as H. fold o in H.
  unfold step_counts_ok in H.
  apply andb_prop in H. destruct H as [H H7].
  apply andb_prop in H. destruct H as [H H6].
  apply andb_prop in H. destruct H as [H H5].
  apply andb_prop in H. destruct H as [H H4].
  apply andb_prop in H. destruct H as [H H3].
  apply andb_prop in H. destruct H as [H1 H2].
  rewrite forallb_forall in H1, H2, H4.
  repeat split; intros; apply Nat.eqb_eq; auto.
Qed.

(* ---------- C16_connect_once / C16_authed_once / C16_no_write_when_down ---------- *)
Theorem connect_once_thm : forall c h s tr, exec c init h = Some (s, tr) ->
  orphans s = 0%N /\
  (forall p, In p [0; 1; 2; 3]%N -> countb (is_up_at p) tr = count_ev ev_disp_connected h) /\
  (forall p, In p [0; 1; 2]%N -> countb (is_auth_at p) tr = count_ev ev_disp_connected h) /\
  countb is_handshake tr = count_ev ev_disp_connected h.
Proof.
  intros c h s tr Hx. split; [apply (reach_inv c h s tr Hx)|].
  repeat split; intros;
  (eapply counts_exec; [|apply inv_init|exact Hx]); intros s0 e0 Hi He;
  pose proof (step_counts_parts c s0 e0 Hi He) as Hp; cbv zeta in Hp; intuition.
Qed.

Theorem authed_once_thm : forall c h s tr, exec c init h = Some (s, tr) ->
  (forall p, In p [0; 1; 2]%N -> countb (is_authed_at p) tr = count_ev ev_success h) /\
  countb is_app_success tr = count_ev ev_success h.
Proof.
  intros c h s tr Hx.
  repeat split; intros;
  (eapply counts_exec; [|apply inv_init|exact Hx]); intros s0 e0 Hi He;
  pose proof (step_counts_parts c s0 e0 Hi He) as Hp; cbv zeta in Hp; intuition.
Qed.

Lemma count_ev_false h : count_ev (fun _ => false) h = 0%nat.
Proof. induction h; cbn; auto. Qed.

Theorem no_write_when_down_thm : forall c h s tr, exec c init h = Some (s, tr) ->
  countb is_down_write tr = 0%nat /\ countb is_raise tr = 0%nat.
Proof.
  intros c h s tr Hx. split; rewrite <- (count_ev_false h);
  (eapply counts_exec; [|apply inv_init|exact Hx]); intros s0 e0 Hi He;
  pose proof (step_counts_parts c s0 e0 Hi He) as Hp; cbv zeta in Hp; cbn [b2n]; intuition.
Qed.

(* ---------- enumeration for a fixed event ---------- *)
Ltac enum_state_only c Hinv :=
  let Hs := fresh "Hs" in let Ha := fresh "Ha" in let Ho := fresh "Ho" in
  destruct Hinv as [Hs [Ha Ho]];
  destruct c as [crec cpas cpng cfc cfd];
  enum_state Hs Ha; cbn in Ho; subst.

Ltac split_ifs_light :=
  repeat match goal with
         | |- context [if ?b then _ else _] =>
           match b with
           | context [if _ then _ else _] => fail 1
           | _ => destruct b eqn:?
           end; cbn [fst snd]
         end.

Ltac solve_in := cbn [In]; repeat first [left; reflexivity | right]; fail.

(* ---------- C16_down_once ---------- *)
Lemma mon_run_app m a b :
  mon_run m (a ++ b) = match mon_run m a with Some m' => mon_run m' b | None => None end.
Proof.
  revert m. induction a as [|o a IH]; intros m; cbn [app mon_run]; [reflexivity|].
  destruct (mon_step m o); [apply IH|reflexivity].
Qed.

Lemma proj_app p a b : proj p (a ++ b) = proj p a ++ proj p b.
Proof.
  induction a as [|o a IH]; cbn [app proj]; [reflexivity|].
  destruct (ann_at p o); cbn [app]; rewrite IH; reflexivity.
Qed.

Lemma step_mon_proj c s e : inv s -> enabled c s e = true ->
  mon_run (mon_of (ns s)) (snd (step c s e)) = Some (mon_of (ns (fst (step c s e)))) /\
  map ADown (dq s) ++ proj 0 (snd (step c s e)) = proj 1 (snd (step c s e)) ++ map ADown (dq (fst (step c s e))) /\
  map ADown (dq s) ++ proj 0 (snd (step c s e)) = proj 2 (snd (step c s e)) ++ map ADown (dq (fst (step c s e))) /\
  map ADown (dq s) ++ proj 0 (snd (step c s e)) = proj 3 (snd (step c s e)) ++ map ADown (dq (fst (step c s e))).
Proof.
  intros Hinv He. enum_step c s e Hinv He;
  compute_step; rewrite ?memN_nil, ?memN_single, ?N.eqb_refl; split_ifs_light; prune He;
  repeat split; vm_compute; reflexivity.
Qed.

Theorem down_once_thm : forall c h s tr, exec c init h = Some (s, tr) ->
  mon_run MIdle tr = Some (mon_of (ns s)) /\
  (forall p, In p [1; 2; 3]%N -> proj 0 tr = proj p tr ++ map ADown (dq s)).
Proof.
  intros c h s tr Hx.
  assert (G : forall h s0 s2 tr, inv s0 -> exec c s0 h = Some (s2, tr) ->
            mon_run (mon_of (ns s0)) tr = Some (mon_of (ns s2)) /\
            (forall p, In p [1; 2; 3]%N ->
                       map ADown (dq s0) ++ proj 0 tr = proj p tr ++ map ADown (dq s2))).
  { apply (exec_ind_inv c (fun s0 _ s2 tr =>
            mon_run (mon_of (ns s0)) tr = Some (mon_of (ns s2)) /\
            (forall p, In p [1; 2; 3]%N ->
                       map ADown (dq s0) ++ proj 0 tr = proj p tr ++ map ADown (dq s2)))).
    - intros s0 _. split; [reflexivity|]. intros p _. cbn [proj app]. rewrite app_nil_r. reflexivity.
    - intros s0 e h0 s2 o2 Hi He _ _ [IH1 IH2].
      destruct (step_mon_proj c s0 e Hi He) as [M [P1 [P2 P3]]].
      split.
      + rewrite mon_run_app, M. exact IH1.
      + intros p Hp. rewrite !proj_app, app_assoc.
        assert (Hpp : map ADown (dq s0) ++ proj 0 (snd (step c s0 e)) =
                      proj p (snd (step c s0 e)) ++ map ADown (dq (fst (step c s0 e)))).
        { cbn [In] in Hp. destruct Hp as [Hp|[Hp|[Hp|[]]]]; subst p; assumption. }
        rewrite Hpp, <- app_assoc, (IH2 p Hp), app_assoc. reflexivity. }
  destruct (G h init s tr inv_init Hx) as [G1 G2]. split; [exact G1|].
  intros p Hp. specialize (G2 p Hp). cbn [init dq map app] in G2. exact G2.
Qed.

(* ---------- C16_failure_closes / C16_stream_error_delivered_and_closes ---------- *)
Theorem failure_closes_thm : forall c h s tr, exec c init h = Some (s, tr) ->
  enabled c s EFailure = true ->
  In (OApp AFailure) (snd (step c s EFailure)) /\
  In ODispDisconnect (snd (step c s EFailure)) /\
  In (OProbe 0 (PDisconnected RAuthFail)) (snd (step c s EFailure)) /\
  ns (fst (step c s EFailure)) = NsDisconnected /\ conn (fst (step c s EFailure)) = false /\
  dp (fst (step c s EFailure)) = DpClosed.
Proof.
  intros c h s tr Hx He. pose proof (reach_inv c h s tr Hx) as Hinv.
  enum_state_only c Hinv; red_in He; try discriminate He;
  destruct cfd; compute_step; repeat split; try reflexivity; solve_in.
Qed.

Theorem stream_error_closes_thm : forall c h s tr k, exec c init h = Some (s, tr) ->
  enabled c s (EStreamError k) = true ->
  In (OApp (AStreamError k)) (snd (step c s (EStreamError k))) /\
  In ODispDisconnect (snd (step c s (EStreamError k))) /\
  In (OProbe 0 (PDisconnected RNone)) (snd (step c s (EStreamError k))) /\
  ns (fst (step c s (EStreamError k))) = NsDisconnected /\
  conn (fst (step c s (EStreamError k))) = false /\
  dp (fst (step c s (EStreamError k))) = DpClosed /\
  recon (fst (step c s (EStreamError k))) = (c_reconnect c && negb (is_conflict k)).
Proof.
  intros c h s tr k Hx He. pose proof (reach_inv c h s tr Hx) as Hinv.
  enum_state_only c Hinv; red_in He; try discriminate He;
  destruct cfd, crec, k; compute_step; repeat split; try reflexivity; solve_in.
Qed.

(* ---------- C16_fresh_login ---------- *)
Theorem fresh_login_thm : forall c h s tr, exec c init h = Some (s, tr) ->
  (ns s = NsConnecting -> nz s = NzInit) /\
  (ns s = NsDisconnected -> dq s = [] -> nz s = NzInit) /\
  (enabled c s EDispConnected = true ->
     In (OHandshake (c_passive c)) (snd (step c s EDispConnected)) /\
     In (OWrite WHeader true) (snd (step c s EDispConnected)) /\
     nz (fst (step c s EDispConnected)) = NzHandshake).
Proof.
  intros c h s tr Hx. pose proof (reach_inv c h s tr Hx) as Hinv.
  enum_state_only c Hinv; (split; [|split]); intros; try discriminate; try reflexivity;
  match goal with He : enabled _ _ _ = true |- _ => red_in He; try discriminate He end;
  compute_step; repeat split; try reflexivity; solve_in.
Qed.

(* ---------- C16_auto_reconnect ---------- *)
Theorem auto_reconnect_thm : forall c h s tr k, exec c init h = Some (s, tr) ->
  stanza_ok s = true ->
  exists s2 tr2, exec c s [EStreamError k; ELoop] = Some (s2, tr2) /\
    existsb is_create tr2 = (c_reconnect c && negb (is_conflict k)) /\
    ns s2 = (if c_reconnect c && negb (is_conflict k) then NsConnecting else NsDisconnected).
Proof.
  intros c h s tr k Hx He. pose proof (reach_inv c h s tr Hx) as Hinv.
  enum_state_only c Hinv; red_in He; try discriminate He;
  destruct crec, cfc, cfd, k; eexists; eexists; (split; [red_all; reflexivity|]); split; reflexivity.
Qed.

Theorem auto_reconnect_only_thm : forall c h s tr e, exec c init h = Some (s, tr) ->
  enabled c s e = true ->
  (existsb is_create (snd (step c s e)) = true ->
     e = EConnectReq \/ e = EConnectCall \/ (e = ELoop /\ recon s = true)) /\
  (recon (fst (step c s e)) = true ->
     recon s = true \/ (c_reconnect c = true /\ exists k, e = EStreamError k /\ k <> KConflict)).
Proof.
  intros c h s tr e Hx He. pose proof (reach_inv c h s tr Hx) as Hinv.
  enum_step c s e Hinv He; try destruct k; try destruct crec;
  compute_step; red_all; rewrite ?memN_nil, ?memN_single, ?N.eqb_refl; split_ifs; prune He;
  (split; intros Hq; try discriminate Hq; auto 6);
  right; (split; [reflexivity|]); eexists; (split; [reflexivity|discriminate]).
Qed.

(* ---------- C16_keepalive ---------- *)
Lemma tick_facts c s : inv s -> enabled c s ETick = true ->
  existsb is_ping_timeout (snd (step c s ETick)) = (pth s && nonempty (pq s)) /\
  (pq (fst (step c s ETick)) = [] \/ pq (fst (step c s ETick)) = [nping s]).
Proof.
  intros Hinv He. enum_state_only c Hinv; red_in He; try discriminate He;
  destruct cfd; red_in He; try discriminate He; compute_step; split; auto.
Qed.

Lemma nontick_pq c s e : inv s -> enabled c s e = true -> ev_tick e = false ->
  pq (fst (step c s e)) = pq s \/ pq (fst (step c s e)) = [].
Proof.
  intros Hinv He Ht. enum_step c s e Hinv He; try discriminate Ht;
  compute_step; red_all; rewrite ?memN_nil, ?memN_single; split_ifs; auto.
Qed.

Lemma pong_clears c s i : inv s -> enabled c s (EPong i) = true -> pq s = [i] ->
  pq (fst (step c s (EPong i))) = [].
Proof.
  intros [_ [Ha _]] _ Hq. unfold aux_ok in Ha. rewrite Hq in Ha.
  apply andb_prop in Ha. destruct Ha as [_ Ha].
  apply andb_prop in Ha. destruct Ha as [_ Hm].
  cbn [step]. unfold on_pong. cbn [set_nz reg pq pth nping]. rewrite Hm.
  cbn [fst set_ping pq]. rewrite Hq, memN_single, N.eqb_refl. reflexivity.
Qed.

Theorem keepalive_thm : forall c h s tr, exec c init h = Some (s, tr) ->
  (* at most one ping is outstanding, it is the last one issued, the thread is alive and the
     ping is registered for its pong *)
  (pq s = [] \/ exists x, pq s = [x] /\ (x + 1)%N = nping s /\ pth s = true /\ memN x (reg s) = true) /\
  (* at a tick the layer asks for a disconnect iff a ping is outstanding *)
  (enabled c s ETick = true ->
     existsb is_ping_timeout (snd (step c s ETick)) = (pth s && nonempty (pq s))) /\
  (* the pong of the outstanding ping clears it; no other event makes a ping outstanding *)
  (forall i, enabled c s (EPong i) = true -> pq s = [i] -> pq (fst (step c s (EPong i))) = []) /\
  (forall e, enabled c s e = true -> ev_tick e = false ->
     pq (fst (step c s e)) = pq s \/ pq (fst (step c s e)) = []).
Proof.
  intros c h s tr Hx. pose proof (reach_inv c h s tr Hx) as Hinv.
  split; [|split; [|split]].
  - destruct Hinv as [_ [Ha _]]. unfold aux_ok in Ha.
    destruct (pq s) as [|x [|y q]]; [left; reflexivity| |].
    + right. exists x. use_bools. repeat split; auto.
    + rewrite !andb_false_r in Ha. discriminate Ha.
  - intros He. apply (tick_facts c s Hinv He).
  - intros i He Hq. apply (pong_clears c s i Hinv He Hq).
  - intros e He Ht. apply (nontick_pq c s e Hinv He Ht).
Qed.

(* no tick in mid: an empty queue stays empty; [n] stays [n] or is cleared, and survives only if
   its pong was not in mid *)
Lemma mid_pq c : forall mid s s1 tr, inv s -> exec c s mid = Some (s1, tr) ->
  count_ev ev_tick mid = 0%nat ->
  (pq s = [] -> pq s1 = []) /\
  (forall n, pq s = [n] -> pq s1 = [] \/ (pq s1 = [n] /\ ~ In (EPong n) mid)).
Proof.
  induction mid as [|e mid IH]; intros s s1 tr Hi Hx Hc.
  - cbn in Hx. apply Some_inj in Hx. apply pair_inj in Hx. destruct Hx; subst.
    split; [auto|]. intros n Hn. right. split; [exact Hn|intros []].
  - apply exec_cons in Hx. destruct Hx as [He [o2 [Hx _]]].
    rewrite count_ev_cons in Hc.
    assert (Ht : ev_tick e = false) by (destruct (ev_tick e); [discriminate Hc|reflexivity]).
    rewrite Ht in Hc. cbn [b2n plus] in Hc.
    pose proof (step_inv c s e Hi He) as Hi1.
    destruct (IH _ _ _ Hi1 Hx Hc) as [IH0 IH1].
    pose proof (nontick_pq c s e Hi He Ht) as Hq.
    split.
    + intros H0. apply IH0. destruct Hq as [Hq|Hq]; congruence.
    + intros n Hn. destruct Hq as [Hq|Hq]; [|left; apply IH0, Hq].
      assert (D : e = EPong n \/ e <> EPong n).
      { destruct e; try (right; discriminate). destruct (N.eq_dec i n); [left; congruence|right; congruence]. }
      destruct D as [D|D].
      * subst e. left. apply IH0. apply (pong_clears c s n Hi He Hn).
      * rewrite Hn in Hq. destruct (IH1 n Hq) as [H1|[H1 H2]]; [left; exact H1|].
        right. split; [exact H1|]. intros [Hin|Hin]; [congruence|auto].
Qed.

Theorem keepalive_answered_never_thm : forall c h s tr mid s1 tr1,
  exec c init h = Some (s, tr) ->
  exec c s (ETick :: mid) = Some (s1, tr1) ->
  count_ev ev_tick mid = 0%nat ->
  In (EPong (nping s)) mid ->
  enabled c s1 ETick = true ->
  existsb is_ping_timeout (snd (step c s1 ETick)) = false.
Proof.
  intros c h s tr mid s1 tr1 Hx Hm Hc Hin He1.
  pose proof (reach_inv c h s tr Hx) as Hi.
  apply exec_cons in Hm. destruct Hm as [He [o2 [Hm _]]].
  pose proof (step_inv c s ETick Hi He) as Hi'.
  destruct (tick_facts c s Hi He) as [_ Hq].
  destruct (mid_pq c mid _ _ _ Hi' Hm Hc) as [M0 M1].
  assert (Hq1 : pq s1 = []).
  { destruct Hq as [Hq|Hq]; [apply M0, Hq|].
    destruct (M1 _ Hq) as [H1|[_ H2]]; [exact H1|contradiction]. }
  pose proof (exec_inv c mid _ _ _ Hi' Hm) as Hi1.
  destruct (tick_facts c s1 Hi1 He1) as [K _]. rewrite K, Hq1. cbn. apply andb_false_r.
Qed.

(* ---------- refuted: the unguarded code, and the early connect ---------- *)
Definition cfg_asis : cfg := mkCfg true false true false false.
Definition cfg_fixed : cfg := mkCfg true false true true true.

Theorem double_connect_refuted :
  let '(s, tr) := exec_any cfg_asis init [EConnectReq; EConnectReq] in
  orphans s = 1%N /\ mon_run MIdle tr = None.
Proof. vm_compute. split; reflexivity. Qed.

Theorem down_disconnect_refuted :
  let '(s, tr) := exec_any cfg_asis init
                    [EConnectReq; EDispConnected; ESuccess; ETick; EPeerClose; ETick] in
  mon_run MIdle tr = None /\ proj 0 tr = [AUp; ADown RNone; ADown RPing].
Proof. vm_compute. split; reflexivity. Qed.

Theorem early_connect_refuted :
  let '(s, tr) := exec_any cfg_fixed init
                    [EConnectReq; EDispConnected; EPeerClose; EConnectReq; EDispConnected; ELoop] in
  ns s = NsConnected /\ nz s = NzInit /\ proj 3 tr = [AUp; AUp; ADown RNone] /\
  exec cfg_fixed init [EConnectReq; EDispConnected; EPeerClose; EConnectReq] = None.
Proof. vm_compute. repeat split; reflexivity. Qed.

(* ---------- non-vacuity: a long history inside the domain ---------- *)
Example nonvacuous :
  exists s tr, exec cfg_fixed init
    [EConnectReq; EDispConnected; ESuccess; ETick; EPong 0; ETick; EStreamError KAck; ELoop;
     EDispConnected; ESuccess; ETick; ETick; ELoop; EConnectCall; EDispConnected; EFailure; ELoop]
    = Some (s, tr) /\ countb (is_up_at 3) tr = 3%nat /\ ns s = NsDisconnected /\
    countb is_ping_timeout tr = 4%nat.
Proof. eexists. eexists. vm_compute. repeat split; reflexivity. Qed.
