(* C16 — the theorems (trace level), built on C16Proofs. *)
From YV Require Import Common.Tac C16.C16Model C16.C16Proofs C16.C16Tac.

Lemma counts_exec c (f : obs -> bool) (g : event -> bool) :
  (forall s e, inv s -> enabled c s e = true -> countb f (snd (step c s e)) = b2n (g e)) ->
  forall h s s2 tr, inv s -> exec c s h = Some (s2, tr) -> countb f tr = count_ev g h.
Proof.
  intros Hstep. apply (exec_ind_inv c (fun _ h _ tr => countb f tr = count_ev g h)).
  - reflexivity.
  - intros s e h s2 o2 Hi He _ _ IH. rewrite countb_app, count_ev_cons, IH, Hstep; auto.
Qed.

Lemma step_counts_parts c s e : inv s -> enabled c s e = true ->
  let o := snd (step c s e) in
  (forall p, In p [0; 1; 2; 3]%N -> countb (is_up_at p) o = b2n (ev_disp_connected e)) /\
  (forall p, In p [0; 1; 2]%N -> countb (is_auth_at p) o = b2n (ev_disp_connected e)) /\
  countb is_handshake o = b2n (ev_disp_connected e) /\
  (forall p, In p [0; 1; 2]%N -> countb (is_authed_at p) o = b2n (ev_success e)) /\
  countb is_app_success o = b2n (ev_success e) /\
  countb is_down_write o = 0%nat /\ countb is_raise o = b2n (ev_keys_error e).
Proof.
  intros Hi He o. pose proof (step_counts c s e Hi He) as H. fold o in H.
  unfold step_counts_ok in H.
  apply andb_prop in H. destruct H as [H H7].
  apply andb_prop in H. destruct H as [H H6].
  apply andb_prop in H. destruct H as [H H5].
  apply andb_prop in H. destruct H as [H H4].
  apply andb_prop in H. destruct H as [H H3].
  apply andb_prop in H. destruct H as [H1 H2].
  rewrite forallb_forall in H1, H2, H4.
  repeat split; intros; apply Nat.eqb_eq; auto.
Qed.

(* ---------- C16_connect_once / C16_authed_once / C16_no_write_when_down ---------- *)
Theorem connect_once_thm : forall c h s tr, exec c (init c) h = Some (s, tr) ->
  orphans s = 0%N /\
  (forall p, In p [0; 1; 2; 3]%N -> countb (is_up_at p) tr = count_ev ev_disp_connected h) /\
  (forall p, In p [0; 1; 2]%N -> countb (is_auth_at p) tr = count_ev ev_disp_connected h) /\
  countb is_handshake tr = count_ev ev_disp_connected h.
Proof.
  intros c h s tr Hx. split; [apply (reach_inv c h s tr Hx)|].
  repeat split; intros;
  (eapply counts_exec; [|apply (inv_init c)|exact Hx]); intros s0 e0 Hi He;
  pose proof (step_counts_parts c s0 e0 Hi He) as Hp; cbv zeta in Hp; intuition.
Qed.

Theorem authed_once_thm : forall c h s tr, exec c (init c) h = Some (s, tr) ->
  (forall p, In p [0; 1; 2]%N -> countb (is_authed_at p) tr = count_ev ev_success h) /\
  countb is_app_success tr = count_ev ev_success h.
Proof.
  intros c h s tr Hx.
  repeat split; intros;
  (eapply counts_exec; [|apply (inv_init c)|exact Hx]); intros s0 e0 Hi He;
  pose proof (step_counts_parts c s0 e0 Hi He) as Hp; cbv zeta in Hp; intuition.
Qed.

Lemma count_ev_false h : count_ev (fun _ => false) h = 0%nat.
Proof. induction h; cbn; auto. Qed.

Theorem no_write_when_down_thm : forall c h s tr, exec c (init c) h = Some (s, tr) ->
  countb is_down_write tr = 0%nat /\ countb is_raise tr = count_ev ev_keys_error h.
Proof.
  intros c h s tr Hx. split.
  - rewrite <- (count_ev_false h).
    (eapply counts_exec; [|apply (inv_init c)|exact Hx]); intros s0 e0 Hi He;
    pose proof (step_counts_parts c s0 e0 Hi He) as Hp; cbv zeta in Hp; cbn [b2n]; intuition.
  - (eapply counts_exec; [|apply (inv_init c)|exact Hx]); intros s0 e0 Hi He;
    pose proof (step_counts_parts c s0 e0 Hi He) as Hp; cbv zeta in Hp; intuition.
Qed.

(* ---------- C16_down_once ---------- *)
Lemma mon_run_app m a b :
  mon_run m (a ++ b) = match mon_run m a with Some m' => mon_run m' b | None => None end.
Proof.
  revert m. induction a as [|o a IH]; intros m; cbn [app mon_run]; [reflexivity|].
  destruct (mon_step m o); [apply IH|reflexivity].
Qed.

Lemma proj_app p a b : proj p (a ++ b) = proj p a ++ proj p b.
Proof.
  induction a as [|o a IH]; cbn [app proj]; [reflexivity|].
  destruct (ann_at p o); cbn [app]; rewrite IH; reflexivity.
Qed.

Lemma step_mon_proj c s e : inv s -> enabled c s e = true ->
  mon_run (mon_of (ns s)) (snd (step c s e)) = Some (mon_of (ns (fst (step c s e)))) /\
  map ADown (dq s) ++ proj 0 (snd (step c s e)) = proj 1 (snd (step c s e)) ++ map ADown (dq (fst (step c s e))) /\
  map ADown (dq s) ++ proj 0 (snd (step c s e)) = proj 2 (snd (step c s e)) ++ map ADown (dq (fst (step c s e))) /\
  map ADown (dq s) ++ proj 0 (snd (step c s e)) = proj 3 (snd (step c s e)) ++ map ADown (dq (fst (step c s e))).
Proof.
  intros Hinv He. enum_step c s e Hinv He;
  compute_step; rewrite ?memN_nil, ?memN_single, ?N.eqb_refl; split_ifs_light; prune He;
  try solve [repeat split; vm_compute; reflexivity]; close_hyps.
Qed.

Theorem down_once_thm : forall c h s tr, exec c (init c) h = Some (s, tr) ->
  mon_run MIdle tr = Some (mon_of (ns s)) /\
  (forall p, In p [1; 2; 3]%N -> proj 0 tr = proj p tr ++ map ADown (dq s)).
Proof.
  intros c h s tr Hx.
  assert (G : forall h s0 s2 tr, inv s0 -> exec c s0 h = Some (s2, tr) ->
            mon_run (mon_of (ns s0)) tr = Some (mon_of (ns s2)) /\
            (forall p, In p [1; 2; 3]%N ->
                       map ADown (dq s0) ++ proj 0 tr = proj p tr ++ map ADown (dq s2))).
  { apply (exec_ind_inv c (fun s0 _ s2 tr =>
            mon_run (mon_of (ns s0)) tr = Some (mon_of (ns s2)) /\
            (forall p, In p [1; 2; 3]%N ->
                       map ADown (dq s0) ++ proj 0 tr = proj p tr ++ map ADown (dq s2)))).
    - intros s0 _. split; [reflexivity|]. intros p _. cbn [proj app]. rewrite app_nil_r. reflexivity.
    - intros s0 e h0 s2 o2 Hi He _ _ [IH1 IH2].
      destruct (step_mon_proj c s0 e Hi He) as [M [P1 [P2 P3]]].
      split.
      + rewrite mon_run_app, M. exact IH1.
      + intros p Hp. rewrite !proj_app, app_assoc.
        assert (Hpp : map ADown (dq s0) ++ proj 0 (snd (step c s0 e)) =
                      proj p (snd (step c s0 e)) ++ map ADown (dq (fst (step c s0 e)))).
        { cbn [In] in Hp. destruct Hp as [Hp|[Hp|[Hp|[]]]]; subst p; assumption. }
        rewrite Hpp, <- app_assoc, (IH2 p Hp), app_assoc. reflexivity. }
  destruct (G h (init c) s tr (inv_init c) Hx) as [G1 G2]. split; [exact G1|].
  intros p Hp. specialize (G2 p Hp). cbn [init dq map app] in G2. exact G2.
Qed.

(* ---------- C16_failure_closes / C16_stream_error_delivered_and_closes ---------- *)
Theorem failure_closes_thm : forall c h s tr, exec c (init c) h = Some (s, tr) ->
  enabled c s EFailure = true ->
  In (OApp AFailure) (snd (step c s EFailure)) /\
  In ODispDisconnect (snd (step c s EFailure)) /\
  In (OProbe 0 (PDisconnected RAuthFail)) (snd (step c s EFailure)) /\
  ns (fst (step c s EFailure)) = NsDisconnected /\ conn (fst (step c s EFailure)) = false /\
  dp (fst (step c s EFailure)) = DpClosed.
Proof.
  intros c h s tr Hx He. pose proof (reach_inv c h s tr Hx) as Hinv.
  enum_state_only c Hinv; red_in He; try discriminate He;
  destruct cfd; compute_step; repeat split; try reflexivity; solve_in.
Qed.

Theorem stream_error_closes_thm : forall c h s tr k, exec c (init c) h = Some (s, tr) ->
  enabled c s (EStreamError k) = true ->
  In (OApp (AStreamError k)) (snd (step c s (EStreamError k))) /\
  In ODispDisconnect (snd (step c s (EStreamError k))) /\
  In (OProbe 0 (PDisconnected RNone)) (snd (step c s (EStreamError k))) /\
  ns (fst (step c s (EStreamError k))) = NsDisconnected /\
  conn (fst (step c s (EStreamError k))) = false /\
  dp (fst (step c s (EStreamError k))) = DpClosed /\
  recon (fst (step c s (EStreamError k))) = (c_reconnect c && negb (is_conflict k)).
Proof.
  intros c h s tr k Hx He. pose proof (reach_inv c h s tr Hx) as Hinv.
  enum_state_only c Hinv; red_in He; try discriminate He;
  destruct cfd, crec, k; compute_step; repeat split; try reflexivity; solve_in.
Qed.

(* ---------- C16_fresh_login ---------- *)
Theorem fresh_login_thm : forall c h s tr, exec c (init c) h = Some (s, tr) ->
  (ns s = NsConnecting -> nz s = NzInit /\ pth s = false /\ pq s = []) /\
  (ns s = NsDisconnected -> dq s = [] -> nz s = NzInit /\ pth s = false /\ pq s = []) /\
  (enabled c s EDispConnected = true ->
     let s1 := fst (step c s EDispConnected) in
     psv s1 = (psv s || (um s || ud s)) /\
     In (OHandshake (psv s1)) (snd (step c s EDispConnected)) /\
     In (OProbe 2 (PAuth (psv s1))) (snd (step c s EDispConnected)) /\
     In (OWrite WHeader true) (snd (step c s EDispConnected)) /\
     nz s1 = NzHandshake).
Proof.
  intros c h s tr Hx. pose proof (reach_inv c h s tr Hx) as Hinv.
  enum_state_only c Hinv; (split; [|split]); intros; try discriminate; try (repeat split; reflexivity);
  match goal with He : enabled _ _ _ = true |- _ => red_in He; try discriminate He end;
  cbv zeta; compute_step; repeat split; try reflexivity; solve_in.
Qed.

(* ---------- C16_auto_reconnect ---------- *)
Theorem auto_reconnect_thm : forall c h s tr k, exec c (init c) h = Some (s, tr) ->
  stanza_ok s = true ->
  exists s2 tr2, exec c s [EStreamError k; ELoop] = Some (s2, tr2) /\
    existsb is_create tr2 = (c_reconnect c && negb (is_conflict k)) /\
    ns s2 = (if c_reconnect c && negb (is_conflict k) then NsConnecting else NsDisconnected).
Proof.
  intros c h s tr k Hx He. pose proof (reach_inv c h s tr Hx) as Hinv.
  enum_full c Hinv; red_in He; try discriminate He;
  destruct crec, cfc, cfd, k; eexists; eexists; (split; [red_all; reflexivity|]); split; reflexivity.
Qed.

Theorem auto_reconnect_only_thm : forall c h s tr e, exec c (init c) h = Some (s, tr) ->
  enabled c s e = true ->
  (existsb is_create (snd (step c s e)) = true ->
     e = EConnectReq \/ e = EConnectCall \/ (e = ELoop /\ (recon s = true \/ rb s = true))) /\
  (recon (fst (step c s e)) = true ->
     recon s = true \/ (c_reconnect c = true /\ exists k, e = EStreamError k /\ k <> KConflict)) /\
  (rb (fst (step c s e)) = true -> rb s = true \/ e = EKeysResult).
Proof.
  intros c h s tr e Hx He. pose proof (reach_inv c h s tr Hx) as Hinv.
  enum_step c s e Hinv He; try destruct k; try destruct crec;
  compute_step; red_all; rewrite ?memN_nil, ?memN_single, ?N.eqb_refl; split_ifs; prune He;
  (split; [|split]); intros Hq; try discriminate Hq; auto 8;
  try (right; (split; [reflexivity|]); eexists; (split; [reflexivity|discriminate])).
Qed.

