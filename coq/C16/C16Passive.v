(* C16 — the passive login path through the axolotl control layer: prekeys never uploaded -> passive login ->
   set-keys upload after success -> result -> the control layer closes the connection and reconnects with
   passive off.  Histories through the reboot, the witness for the variant that consumes the DISCONNECTED
   (shape of seeded change C16-4), non-vacuity. *)
From YV Require Import Common.Tac C16.C16Model C16.C16Proofs C16.C16Tac.

Ltac solve_in_p := solve_in.

(* the confirmed upload, the loop run, the next connection: every position sees DISCONNECTED for the passive
   connection and then CONNECTED for the next one; exactly one connection is opened, by the stack itself; its
   login is active; the keep-alive state of the passive connection is gone *)
Theorem reboot_thm : forall c h s tr, exec c (init c) h = Some (s, tr) ->
  enabled c s EKeysResult = true ->
  exists s2 tr2, exec c s [EKeysResult; ELoop; EDispConnected] = Some (s2, tr2) /\
    (forall p, In p [0; 1; 2; 3]%N -> proj p tr2 = [ADown RNone; AUp]) /\
    countb is_create tr2 = 1%nat /\ auto_creates c s [EKeysResult; ELoop; EDispConnected] = 1%nat /\
    In (OHandshake false) tr2 /\ countb is_passive_login tr2 = 0%nat /\
    ns s2 = NsConnected /\ psv s2 = false /\ um s2 = false /\ ud s2 = false /\ rb s2 = false /\
    pth s2 = false /\ pq s2 = [].
Proof.
  intros c h s tr Hx He. pose proof (reach_inv c h s tr Hx) as Hinv.
  enum_full c Hinv; red_in He; try discriminate He;
  destruct cfc, cfd; eexists; eexists; (split; [red_all; reflexivity|]);
  (split; [intros p Hp; cbn [In] in Hp;
           repeat (destruct Hp as [Hp|Hp]; [subst p; vm_compute; reflexivity|]); destruct Hp|]);
  repeat split; try (vm_compute; reflexivity); solve_in_p.
Qed.

(* the upload is written exactly when a login is passive and keys are waiting in memory, on an up connection *)
Theorem upload_on_passive_success_thm : forall c h s tr, exec c (init c) h = Some (s, tr) ->
  enabled c s ESuccess = true ->
  countb (fun o => match o with OWrite WKeys _ => true | _ => false end) (snd (step c s ESuccess)) =
    (if psv s && um s then 1%nat else 0%nat) /\
  (psv s && um s = true -> In (OWrite WKeys true) (snd (step c s ESuccess)) /\
                           kp (fst (step c s ESuccess)) = true /\ um (fst (step c s ESuccess)) = false).
Proof.
  intros c h s tr Hx He. pose proof (reach_inv c h s tr Hx) as Hinv.
  enum_full c Hinv; red_in He; try discriminate He;
  destruct pv, cpng; compute_step; (split; [reflexivity|]); intros Hq; try discriminate Hq;
  repeat split; try reflexivity; solve_in_p.
Qed.

(* ---------- full passive -> reboot -> active history, with a ping in flight at the reboot ---------- *)
Definition cfg_passive : cfg := mkCfg true false true true true true.
Definition hist_passive : list event :=
  [EConnectReq; EDispConnected; ESuccess; ETick; EKeysResult; ELoop;
   EDispConnected; ESuccess; ETick; EPong 1; ETick; EPong 2; ETick].

Example passive_reboot_nonvacuous :
  exists s tr, exec cfg_passive (init cfg_passive) hist_passive = Some (s, tr) /\
    proj 3 tr = [AUp; ADown RNone; AUp] /\ proj 2 tr = [AUp; ADown RNone; AUp] /\
    countb is_ping_timeout tr = 0%nat /\ countb is_create tr = 2%nat /\
    auto_creates cfg_passive (init cfg_passive) hist_passive = 1%nat /\
    countb is_handshake tr = 2%nat /\ In (OHandshake true) tr /\ In (OHandshake false) tr /\
    In (OWrite WKeys true) tr /\ In (OWrite (WPing 0) true) tr /\
    ns s = NsConnected /\ psv s = false /\ pq s = [3%N].
Proof. eexists. eexists. vm_compute. repeat split; try reflexivity; solve_in_p. Qed.

(* ---------- refuted: the control layer consumes the DISCONNECTED of its own reboot ----------
   (AxolotlControlLayer.on_disconnected returning True after handling the reboot: not today's code.)  On the
   same history the application sees CONNECTED twice in a row, and the ping written on the passive connection,
   unanswered at the reboot, is counted against the next connection: its first tick asks for a disconnect
   although no ping was ever written on it. *)
Theorem reboot_consumed_refuted :
  let '(s, tr) := exec_any_gen true cfg_passive (init cfg_passive)
                    [EConnectReq; EDispConnected; ESuccess; ETick; EKeysResult; ELoop;
                     EDispConnected; ESuccess; ETick] in
  proj 3 tr = [AUp; AUp] /\ proj 2 tr = [AUp; AUp] /\ proj 1 tr = [AUp; ADown RNone; AUp] /\
  countb is_ping_timeout tr = 4%nat /\
  ~ In (OWrite (WPing 1) true) tr /\
  (let '(s', tr') := exec_any_gen false cfg_passive (init cfg_passive)
                       [EConnectReq; EDispConnected; ESuccess; ETick; EKeysResult; ELoop;
                        EDispConnected; ESuccess; ETick] in
   proj 3 tr' = [AUp; ADown RNone; AUp] /\ countb is_ping_timeout tr' = 0%nat /\
   In (OWrite (WPing 1) true) tr').
Proof.
  vm_compute. repeat split; try reflexivity.
  - intros H. repeat (destruct H as [H|H]; [discriminate H|]). exact H.
  - solve_in_p.
Qed.

(* once passive is off and nothing is left to upload, it stays so: every later login is active *)
Definition is_active (s : state) : bool := negb (psv s) && negb (um s) && negb (ud s).

Lemma active_step c s e : inv s -> (enabled c s e && is_active s) = true ->
  is_active (fst (step c s e)) = true /\ countb is_passive_login (snd (step c s e)) = 0%nat.
Proof.
  intros Hinv He.
  destruct e; enum_full c Hinv; red_in He; try discriminate He;
  destruct pv; prune He; prune_hyp He;
  compute_step; red_all; rewrite ?memN_nil, ?memN_single, ?N.eqb_refl; split_ifs; prune He; prune_hyp He;
  repeat split; kill; close_hyps.
Qed.

Theorem active_stays_active_thm : forall c h s tr h2 s2 tr2,
  exec c (init c) h = Some (s, tr) -> is_active s = true -> exec c s h2 = Some (s2, tr2) ->
  is_active s2 = true /\ countb is_passive_login tr2 = 0%nat.
Proof.
  intros c h s tr h2 s2 tr2 Hx Ha Hx2. pose proof (reach_inv c h s tr Hx) as Hinv.
  clear Hx h tr. revert s s2 tr2 Hinv Ha Hx2.
  induction h2 as [|e h2 IH]; intros s s2 tr2 Hi Hd Hx.
  - cbn in Hx. apply Some_inj in Hx. apply pair_inj in Hx. destruct Hx; subst. split; [exact Hd|reflexivity].
  - apply exec_cons in Hx. destruct Hx as [He [o2 [Hx Ht]]]. subst tr2.
    assert (HE : (enabled c s e && is_active s) = true) by (rewrite He, Hd; reflexivity).
    destruct (active_step c s e Hi HE) as [D1 D2].
    pose proof (step_inv c s e Hi He) as Hi1.
    destruct (IH _ _ _ Hi1 D1 Hx) as [I1 I2].
    split; [exact I1|]. rewrite countb_app, D2, I2. reflexivity.
Qed.
