(* C16 — invariant of the lifecycle model and the per-step facts the theorems are built from. *)
From YV Require Import Common.Tac C16.C16Model.

(* ---------- list helpers ---------- *)
Lemma memN_app_last x l : memN x (l ++ [x]) = true.
Proof.
  unfold memN. rewrite existsb_app. cbn [existsb]. rewrite N.eqb_refl.
  rewrite orb_true_r. reflexivity.
Qed.

Lemma memN_removeN x i l : memN x l = true -> N.eqb i x = false -> memN x (removeN i l) = true.
Proof.
  unfold memN, removeN. intros H Hne. apply existsb_exists in H. destruct H as [y [Hin Hy]].
  apply existsb_exists. exists y. split; [|exact Hy].
  apply filter_In. split; [exact Hin|]. apply N.eqb_eq in Hy. subst y. rewrite Hne. reflexivity.
Qed.

(* ---------- the invariant (domain D: see C16Model.enabled) ---------- *)
Definition shape_ok (s : state) : bool :=
  match ns s, conn s, dp s, dq s with
  | NsDisconnected, false, DpNone, [] => true
  | NsDisconnected, false, DpClosed, [] => true
  | NsDisconnected, false, DpClosed, [_] => true
  | NsConnecting, false, DpConnecting, [] => true
  | NsConnected, true, DpUp, [] => true
  | _, _, _, _ => false
  end.

Definition nz_is_transport (z : nzstate) : bool := match z with NzTransport => true | _ => false end.
Definition nz_is_init (z : nzstate) : bool := match z with NzInit => true | _ => false end.

(* the control layer's clauses come last: enum_state leaves its booleans symbolic, and the clauses over the
   enumerated fields must reduce (and prune) before a symbolic one blocks the evaluation of the conjunction *)
Definition aux_ok (s : state) : bool :=
  (negb (recon s) || (ns_eqb (ns s) NsDisconnected && nonempty (dq s))) &&
  (match ns s with
   | NsDisconnected => nonempty (dq s) || nz_is_init (nz s)
   | NsConnecting => nz_is_init (nz s)
   | NsConnected => negb (nz_is_init (nz s))
   | NsDisconnecting => false
   end) &&
  (negb (pth s) || (nz_is_transport (nz s) && (ns_eqb (ns s) NsConnected || nonempty (dq s)))) &&
  (match pq s with
   | [] => true
   | [x] => pth s && N.eqb (x + 1) (nping s) && memN x (reg s)
   | _ => false
   end) &&
  (negb (rb s) || (ns_eqb (ns s) NsDisconnected && nonempty (dq s) && negb (recon s) && negb (um s)
                   && negb (ud s))) &&
  (negb (kp s) || negb (um s)).

Definition inv (s : state) : Prop := shape_ok s = true /\ aux_ok s = true /\ orphans s = 0%N.

Lemma inv_init c : inv (init c).
Proof. repeat split. Qed.

Ltac kill := try discriminate; try reflexivity; try congruence.

Ltac destr_state s :=
  destruct s as [n cn d o r z rc pt q rg np dqq pv u_m u_d r_b k_p].

(* case analysis on everything finite; lists by shape *)
Ltac split_state :=
  match goal with
  | |- _ => idtac
  end.

Lemma memN_nil i : memN i [] = false.
Proof. reflexivity. Qed.
Lemma memN_single i x : memN i [x] = N.eqb i x.
Proof. unfold memN. cbn. apply orb_false_r. Qed.

Ltac red_all := cbv -[memN removeN N.eqb N.add app]; cbn [app].
Ltac red_in H := cbv -[memN removeN N.eqb N.add app] in H; cbn [app] in H.

Ltac split_ifs :=
  repeat match goal with
         | |- context [if ?b then _ else _] =>
           match b with
           | context [if _ then _ else _] => fail 1
           | _ => destruct b eqn:?
           end; red_all
         end.

Ltac use_bools :=
  repeat match goal with
         | H : (_ && _) = true |- _ => apply andb_prop in H; destruct H
         | H : (_ =? _)%N = true |- _ => apply N.eqb_eq in H
         end.

Ltac compute_step :=
  match goal with
  | |- context [step ?c ?s ?e] =>
    let r := eval cbv -[memN removeN N.eqb N.add app] in (step c s e) in
    change (step c s e) with r
  end; cbn [app fst snd].

Ltac norm_hyp H :=
  rewrite ?orb_false_r, ?orb_true_r, ?andb_true_r, ?andb_false_r, ?orb_false_l, ?orb_true_l,
          ?andb_true_l, ?andb_false_l in H.

(* all reachable shapes of the finite part of the state, from the invariant *)
Ltac enum_state Hs Ha :=
  match goal with
  | s : state |- _ =>
    destruct s as [n cn d o r z rc pt q rg np dqq pv u_m u_d r_b k_p];
    unfold shape_ok in Hs; cbn in Hs;
    destruct n, cn, d; try discriminate Hs;
    destruct dqq as [|r0 [|r1 dqq]]; try discriminate Hs; clear Hs;
    red_in Ha;
    destruct rc, z, pt; try discriminate Ha;
    destruct q as [|x [|y q]]; try discriminate Ha
  end.

(* the control layer's booleans (psv, um, ud, rb, kp) stay symbolic in enum_state; whatever is left open after
   the case analysis of the goal follows from a hypothesis once the booleans it mentions are split *)
Ltac close_hyps :=
  try solve [repeat match goal with
                    | H : context [if ?b then _ else _] |- _ =>
                      match b with
                      | context [if _ then _ else _] => fail 1
                      | _ => destruct b eqn:?
                      end
                    end;
             first [exfalso; discriminate
                   | match goal with H : _ |- _ => exact H end
                   | exfalso;
                     match goal with
                     | H : memN ?x (removeN ?i ?l) = false |- _ =>
                       rewrite memN_removeN in H; [discriminate H | assumption | assumption]
                     | H : memN ?x (?l ++ [?x]) = false |- _ =>
                       rewrite memN_app_last in H; discriminate H
                     end]].

(* the same with the control layer's booleans split as well (for statements about one event) *)
Ltac enum_state_full Hs Ha :=
  enum_state Hs Ha;
  match goal with
  | u_m : bool, u_d : bool, r_b : bool, k_p : bool |- _ =>
    destruct r_b, k_p, u_m, u_d; try discriminate Ha
  end.

Ltac finish_inv :=
  unfold inv; red_all; rewrite ?memN_nil, ?memN_single, ?N.eqb_refl, ?memN_app_last; split_ifs; kill;
  repeat split; kill; use_bools; subst;
  rewrite ?N.eqb_refl, ?memN_app_last; kill;
  try (rewrite memN_removeN; kill).

Lemma step_inv c s e : inv s -> enabled c s e = true -> inv (fst (step c s e)).
Proof.
  intros [Hs [Ha Ho]] He.
  destruct c as [crec cpas cpng cfc cfd cuns].
  destruct e.
  - (* EConnectReq *)
    enum_state Hs Ha; cbn in Ho; subst o; red_in He; try discriminate He;
    destruct cfc; red_in He; try discriminate He; compute_step; finish_inv; close_hyps.
  - enum_state Hs Ha; cbn in Ho; subst o; red_in He; try discriminate He;
    destruct cfc; red_in He; try discriminate He; compute_step; finish_inv; close_hyps.
  - enum_state Hs Ha; cbn in Ho; subst o; red_in He; try discriminate He;
    destruct cfd; compute_step; finish_inv; close_hyps.
  - enum_state Hs Ha; cbn in Ho; subst o; red_in He; try discriminate He;
    compute_step; finish_inv; close_hyps.
  - enum_state Hs Ha; cbn in Ho; subst o; red_in He; try discriminate He;
    compute_step; finish_inv; close_hyps.
  - enum_state Hs Ha; cbn in Ho; subst o; red_in He; try discriminate He;
    compute_step; finish_inv; close_hyps.
  - enum_state Hs Ha; cbn in Ho; subst o; red_in He; try discriminate He;
    destruct cpng; compute_step; finish_inv; close_hyps.
  - enum_state Hs Ha; cbn in Ho; subst o; red_in He; try discriminate He;
    destruct cfd; compute_step; finish_inv; close_hyps.
  - enum_state Hs Ha; cbn in Ho; subst o; red_in He; try discriminate He;
    destruct cfd, crec, k; compute_step; finish_inv; close_hyps.
  - enum_state Hs Ha; cbn in Ho; subst o; red_in He; try discriminate He;
    compute_step; finish_inv; close_hyps.
  - (* EKeysResult *)
    enum_state Hs Ha; cbn in Ho; subst o; red_in He; try discriminate He;
    destruct cfd; compute_step; finish_inv; close_hyps.
  - (* EKeysError *)
    enum_state Hs Ha; cbn in Ho; subst o; red_in He; try discriminate He;
    compute_step; finish_inv; close_hyps.
  - enum_state Hs Ha; cbn in Ho; subst o; red_in He; try discriminate He;
    destruct cfd; red_in He; try discriminate He; compute_step; finish_inv; close_hyps.
  - enum_state Hs Ha; cbn in Ho; subst o; red_in He; try discriminate He;
    compute_step; finish_inv; close_hyps.
  - enum_state Hs Ha; cbn in Ho; subst o; red_in He; try discriminate He;
    destruct cfc; compute_step; finish_inv; close_hyps.
Qed.

(* generic enumeration of (event, reachable state shape) with the step computed once *)
Ltac enum_step c s e Hinv He :=
  let Hs := fresh "Hs" in let Ha := fresh "Ha" in let Ho := fresh "Ho" in
  destruct Hinv as [Hs [Ha Ho]];
  destruct c as [crec cpas cpng cfc cfd cuns];
  destruct e; enum_state Hs Ha; cbn in Ho; subst; red_in He; try discriminate He.

Ltac prune He := try (red_in He; norm_hyp He; discriminate He).

(* ---------- exec: inversion and induction ---------- *)
Lemma exec_cons c s e h s2 tr :
  exec c s (e :: h) = Some (s2, tr) ->
  enabled c s e = true /\
  exists o2, exec c (fst (step c s e)) h = Some (s2, o2) /\ tr = snd (step c s e) ++ o2.
Proof.
  cbn [exec]. destruct (enabled c s e); [|discriminate].
  destruct (step c s e) as [s1 o1]. cbn [fst snd].
  destruct (exec c s1 h) as [[s3 o3]|]; [|discriminate].
  intros H. apply Some_inj in H. apply pair_inj in H. destruct H; subst.
  split; [reflexivity|]. exists o3. split; reflexivity.
Qed.

Lemma exec_ind_inv (c : cfg) (P : state -> list event -> state -> list obs -> Prop) :
  (forall s, inv s -> P s [] s []) ->
  (forall s e h s2 o2, inv s -> enabled c s e = true -> inv (fst (step c s e)) ->
     exec c (fst (step c s e)) h = Some (s2, o2) -> P (fst (step c s e)) h s2 o2 ->
     P s (e :: h) s2 (snd (step c s e) ++ o2)) ->
  forall h s s2 tr, inv s -> exec c s h = Some (s2, tr) -> P s h s2 tr.
Proof.
  intros Hnil Hcons. induction h as [|e h IH]; intros s s2 tr Hi Hx.
  - cbn in Hx. apply Some_inj in Hx. apply pair_inj in Hx. destruct Hx; subst. apply Hnil, Hi.
  - apply exec_cons in Hx. destruct Hx as [He [o2 [Hx Ht]]]. subst tr.
    pose proof (step_inv c s e Hi He) as Hi1.
    apply Hcons; auto.
Qed.

Lemma exec_inv c h s s2 tr : inv s -> exec c s h = Some (s2, tr) -> inv s2.
Proof.
  apply (exec_ind_inv c (fun _ _ s2 _ => inv s2)); auto.
Qed.

Lemma reach_inv c h s tr : exec c (init c) h = Some (s, tr) -> inv s.
Proof. apply exec_inv, inv_init. Qed.

(* ---------- counting ---------- *)
Lemma countb_app f a b : countb f (a ++ b) = (countb f a + countb f b)%nat.
Proof. unfold countb. rewrite filter_app, app_length. reflexivity. Qed.

Definition b2n (b : bool) : nat := if b then 1%nat else 0%nat.

Lemma count_ev_cons g e h : count_ev g (e :: h) = (b2n (g e) + count_ev g h)%nat.
Proof. unfold count_ev. cbn [filter]. destruct (g e); reflexivity. Qed.

(* what one step contributes to each counter *)
Definition step_counts_ok (e : event) (o : list obs) : bool :=
  forallb (fun p => Nat.eqb (countb (is_up_at p) o) (b2n (ev_disp_connected e))) [0; 1; 2; 3]%N &&
  forallb (fun p => Nat.eqb (countb (is_auth_at p) o) (b2n (ev_disp_connected e))) [0; 1; 2]%N &&
  Nat.eqb (countb is_handshake o) (b2n (ev_disp_connected e)) &&
  forallb (fun p => Nat.eqb (countb (is_authed_at p) o) (b2n (ev_success e))) [0; 1; 2]%N &&
  Nat.eqb (countb is_app_success o) (b2n (ev_success e)) &&
  Nat.eqb (countb is_down_write o) 0 &&
  Nat.eqb (countb is_raise o) (b2n (ev_keys_error e)).

Ltac finish_bool He :=
  compute_step; red_all; rewrite ?memN_nil, ?memN_single, ?N.eqb_refl;
  split_ifs; kill; prune He; close_hyps.

Lemma step_counts c s e : inv s -> enabled c s e = true -> step_counts_ok e (snd (step c s e)) = true.
Proof.
  intros Hinv He. enum_step c s e Hinv He; finish_bool He.
Qed.

