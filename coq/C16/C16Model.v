(* C16 — connection lifecycle.  Executable model of the product of
     yowsup/layers/network/layer.py        (state, connected, dispatcher, _disconnect_reason)
     yowsup/layers/auth/layer_authentication.py
     yowsup/layers/noise/layer.py          (protocol state: on_auth / on_disconnected)
     yowsup/layers/interface/interface.py  (reconnect flag, option)
     yowsup/layers/protocol_iq/layer.py    (ping thread, _pingQueue, iq registry of pings)
     yowsup/layers/axolotl/layer_control.py + layer_base.py  (lifecycle part: PROP_PASSIVE, _unsent_prekeys,
                                           set-keys upload after a passive login, _reboot_connection)
     yowsup/stacks/yowstack.py             (queue of deferred event continuations)
   in the stack  network | P0 | segments | noise | coder | P1 | control | (auth, iq, P2) | interface | P3
   where P0..P3 are probes that see every event passing their position, over a dispatcher with
   the contract of AsyncoreConnectionDispatcher (disconnect() closes and synchronously calls
   onDisconnected(), also when already closed).
   Definitions only.                                                                            *)
From YV Require Import Common.Tac.

Inductive nstate := NsDisconnected | NsConnecting | NsConnected | NsDisconnecting.
Inductive dphase := DpNone | DpConnecting | DpUp | DpClosed.      (* the current dispatcher *)
Inductive nzstate := NzInit | NzHandshake | NzTransport.          (* WANoiseProtocol.state *)
Inductive kind := KConflict | KAck | KXml.                        (* StreamErrorProtocolEntity.TYPES *)
Inductive reason := RNone | RAuthFail | RPing.

Record cfg := mkCfg {
  c_reconnect : bool;      (* PROP_RECONNECT_ON_STREAM_ERR (default True) *)
  c_passive : bool;        (* PROP_PASSIVE *)
  c_ping : bool;           (* PROP_PING_INTERVAL > 0 *)
  c_fix_create : bool;     (* createConnection ignores a request unless state = DISCONNECTED *)
  c_fix_destroy : bool;    (* destroyConnection ignores a request when state = DISCONNECTED *)
  c_unsent : bool          (* the profile's store holds one-time prekeys that were never uploaded *)
}.

Record state := mkSt {
  ns : nstate;             (* YowNetworkLayer.state *)
  conn : bool;             (* YowNetworkLayer.connected *)
  dp : dphase;             (* phase of YowNetworkLayer._dispatcher *)
  orphans : N;             (* dispatchers replaced while connecting / up: never closed by the layer *)
  rsn : reason;            (* _disconnect_reason *)
  nz : nzstate;            (* noise protocol state *)
  recon : bool;            (* YowInterfaceLayer.reconnect *)
  pth : bool;              (* YowIqProtocolLayer._pingThread is set *)
  pq : list N;             (* _pingQueue keys (ping ordinals) *)
  reg : list N;            (* ping ids in the iq layer's iqRegistry *)
  nping : N;               (* ordinal of the next ping entity *)
  dq : list reason;        (* YowStack.__detachedQueue: DISCONNECTED(reason) continuations above P0 *)
  psv : bool;              (* stack property PROP_PASSIVE (read by the auth layer at CONNECTED and at success) *)
  um : bool;               (* AxolotlControlLayer._unsent_prekeys is non-empty *)
  ud : bool;               (* the store has prekeys not marked as sent *)
  rb : bool;               (* AxolotlControlLayer._reboot_connection *)
  kp : bool                (* a set-keys iq sent on the current connection is unanswered *)
}.

Definition init (c : cfg) : state :=
  mkSt NsDisconnected false DpNone 0 RNone NzInit false false [] [] 0 [] (c_passive c) false (c_unsent c)
       false false.

Inductive event :=
| EConnectReq            (* stack.broadcastEvent(EVENT_STATE_CONNECT) *)
| EConnectCall           (* interfaceLayer.connect() -> network interface connect() *)
| EDisconnectReq         (* interfaceLayer.disconnect() *)
| EDispConnected         (* dispatcher: onConnected *)
| ESockError             (* dispatcher: onConnectionError *)
| EPeerClose             (* dispatcher: onDisconnected (may be reported again) *)
| ESuccess | EFailure | EStreamError (k : kind) | EPong (i : N)     (* stanzas from the peer *)
| EKeysResult | EKeysError   (* the peer answers the set-keys iq of this connection: result / error *)
| ETick                  (* one keep-alive interval elapses *)
| EAppSend               (* application writes a stanza through the interface layer *)
| ELoop.                 (* YowStack.loop runs one deferred callback *)

Inductive pev :=
| PConnect | PDisconnect (r : reason) | PConnected | PDisconnected (r : reason)
| PAuth (passive : bool) | PAuthed (passive : bool).
Inductive wr := WHeader | WPing (i : N) | WApp | WKeys.
Inductive appent := ASuccess | AFailure | AStreamError (k : kind) | APong (i : N).

Inductive obs :=
| OProbe (pos : N) (e : pev)              (* probe P<pos> saw the event *)
| ODispCreate | ODispConnect | ODispDisconnect
| OWrite (w : wr) (up : bool)             (* dispatcher.sendData; up = that dispatcher is connected *)
| OHandshake (passive : bool)             (* noise layer started a handshake worker *)
| OApp (a : appent)                       (* entity received by the application (P3) *)
| ORaise.                                 (* an exception escaped the entry point *)

(* ---------- small equalities ---------- *)
Definition ns_eqb (a b : nstate) : bool :=
  match a, b with
  | NsDisconnected, NsDisconnected | NsConnecting, NsConnecting
  | NsConnected, NsConnected | NsDisconnecting, NsDisconnecting => true
  | _, _ => false
  end.
Definition dp_live (d : dphase) : bool :=
  match d with DpConnecting | DpUp => true | _ => false end.
Definition dp_is_up (d : dphase) : bool := match d with DpUp => true | _ => false end.
Definition is_conflict (k : kind) : bool := match k with KConflict => true | _ => false end.
Definition memN (i : N) (l : list N) : bool := existsb (N.eqb i) l.
Definition removeN (i : N) (l : list N) : list N := filter (fun j => negb (N.eqb i j)) l.
Definition nonempty {A} (l : list A) : bool := match l with [] => false | _ => true end.

(* ---------- state updates ---------- *)
Definition set_net (s : state) (n : nstate) (c : bool) (d : dphase) (o : N) (r : reason) : state :=
  mkSt n c d o r (nz s) (recon s) (pth s) (pq s) (reg s) (nping s) (dq s) (psv s) (um s) (ud s) (rb s) (kp s).
Definition set_nz (s : state) (z : nzstate) : state :=
  mkSt (ns s) (conn s) (dp s) (orphans s) (rsn s) z (recon s) (pth s) (pq s) (reg s) (nping s) (dq s) (psv s) (um s) (ud s) (rb s) (kp s).
Definition set_recon (s : state) (b : bool) : state :=
  mkSt (ns s) (conn s) (dp s) (orphans s) (rsn s) (nz s) b (pth s) (pq s) (reg s) (nping s) (dq s) (psv s) (um s) (ud s) (rb s) (kp s).
Definition set_ping (s : state) (t : bool) (q r : list N) (n : N) : state :=
  mkSt (ns s) (conn s) (dp s) (orphans s) (rsn s) (nz s) (recon s) t q r n (dq s) (psv s) (um s) (ud s) (rb s) (kp s).
Definition set_dq (s : state) (q : list reason) : state :=
  mkSt (ns s) (conn s) (dp s) (orphans s) (rsn s) (nz s) (recon s) (pth s) (pq s) (reg s) (nping s) q
       (psv s) (um s) (ud s) (rb s) (kp s).
Definition set_ctl (s : state) (p u d r k : bool) : state :=
  mkSt (ns s) (conn s) (dp s) (orphans s) (rsn s) (nz s) (recon s) (pth s) (pq s) (reg s) (nping s) (dq s)
       p u d r k.

Definition res := (state * list obs)%type.
Definition andthen (r : res) (f : state -> res) : res :=
  let '(s, o) := r in let '(s', o') := f s in (s', o ++ o').
Notation "r >>= f" := (andthen r f) (at level 50, left associativity).
Definition emit (o : list obs) (s : state) : res := (s, o).

(* ---------- network layer ---------- *)
(* YowNetworkLayer.createConnection (with c_fix_create: guarded by the state) *)
Definition create_connection (c : cfg) (s : state) : res :=
  if c_fix_create c && negb (ns_eqb (ns s) NsDisconnected) then (s, [])
  else (set_net s NsConnecting (conn s) DpConnecting
                (if dp_live (dp s) then orphans s + 1 else orphans s)%N RNone,
        [ODispCreate; ODispConnect]).

(* YowNetworkLayer.onDisconnected: announce only on a state change; the event is detached, so P0
   sees it now and the rest of the stack when the loop runs the queued continuation *)
Definition net_on_disconnected (s : state) : res :=
  if ns_eqb (ns s) NsDisconnected then (s, [])
  else (set_dq (set_net s NsDisconnected false (dp s) (orphans s) (rsn s)) (dq s ++ [rsn s]),
        [OProbe 0 (PDisconnected (rsn s))]).

(* YowNetworkLayer.destroyConnection; dispatcher.disconnect() calls back synchronously *)
Definition destroy_connection (c : cfg) (r : reason) (s : state) : res :=
  if c_fix_destroy c && ns_eqb (ns s) NsDisconnected then (s, [])
  else match dp s with
       | DpNone => (set_net s NsDisconnecting (conn s) DpNone (orphans s) r, [ORaise])
       | _ => (set_net s NsDisconnecting (conn s) DpClosed (orphans s) r, [ODispDisconnect])
              >>= net_on_disconnected
       end.

(* YowNetworkLayer.send *)
Definition net_send (w : wr) (s : state) : res :=
  (s, if conn s then [OWrite w (dp_is_up (dp s))] else []).

(* ---------- iq layer ---------- *)
Definition stop_thread (s : state) : state :=
  if pth s then set_ping s false [] (reg s) (nping s) else s.

(* a DISCONNECT event broadcast from the interface layer / the protocol group (from_top = false)
   or from the top of the stack (from_top = true): iq layer stops its thread, the probes below see
   it, the network layer consumes it *)
Definition bcast_disconnect (c : cfg) (r : reason) (from_top : bool) (s : state) : res :=
  (stop_thread s,
   (if from_top then [OProbe 3 (PDisconnect r)] else []) ++
   [OProbe 2 (PDisconnect r); OProbe 1 (PDisconnect r); OProbe 0 (PDisconnect r)])
  >>= destroy_connection c r.

(* a DISCONNECT event broadcast by the axolotl control layer: broadcasts travel downwards only, so the
   protocol group above it (auth, iq, P2) does not see it and the keep-alive thread is not stopped *)
Definition bcast_disconnect_ctl (c : cfg) (r : reason) (s : state) : res :=
  (s, [OProbe 1 (PDisconnect r); OProbe 0 (PDisconnect r)]) >>= destroy_connection c r.

(* data written by a layer above the noise layer: needs the transport state *)
Definition send_down (w : wr) (s : state) : res :=
  match nz s with
  | NzTransport => net_send w s
  | _ => (s, [ORaise])
  end.

(* ---------- the reactions ---------- *)
(* CONNECTED travels upwards: P0, P1, the control layer (on_connected: level_prekeys, extend _unsent_prekeys
   with the store's unsent keys, PROP_PASSIVE := True if any), then the auth layer broadcasts AUTH with the
   property as it is now, ... *)
Definition on_disp_connected (c : cfg) (s : state) : res :=
  let s1 := set_net s NsConnected true DpUp (orphans s) (rsn s) in
  (s1, [OProbe 0 PConnected; OProbe 1 PConnected])
  >>= (fun s => let u := um s || ud s in (set_ctl s (psv s || u) u (ud s) (rb s) false, []))
  >>= (fun s => (s, [OProbe 2 (PAuth (psv s)); OProbe 1 (PAuth (psv s))]))
  >>= net_send WHeader
  >>= (fun s => match nz s with
                | NzHandshake => (s, [])
                | _ => (set_nz s NzHandshake, [OHandshake (psv s)])
                end)
  >>= (fun s => (s, [OProbe 0 (PAuth (psv s)); OProbe 2 PConnected]))
  >>= (fun s => (set_recon s false, [OProbe 3 PConnected])).

(* success: the auth layer broadcasts AUTHED(passive = the property); the iq layer starts its thread; the
   control layer, below the protocol group, gets the broadcast next: a passive login with keys waiting
   uploads them (set-keys iq) and empties _unsent_prekeys *)
Definition on_success (c : cfg) (s : state) : res :=
  let s1 := set_nz s NzTransport in
  let s2 := if negb (pth s1) && c_ping c then set_ping s1 true [] (reg s1) (nping s1) else s1 in
  (s2, [OProbe 2 (PAuthed (psv s2))])
  >>= (fun s => if psv s && um s
                then send_down WKeys (set_ctl s (psv s) false (ud s) (rb s) true)
                else (s, []))
  >>= (fun s => (s, [OProbe 1 (PAuthed (psv s)); OProbe 0 (PAuthed (psv s)); OApp ASuccess])).

(* the result of the set-keys iq: set_prekeys_as_sent, _reboot_connection := True, DISCONNECT broadcast *)
Definition on_keys_result (c : cfg) (s : state) : res :=
  let s1 := set_nz s NzTransport in
  (set_ctl s1 (psv s1) (um s1) false true false, []) >>= bcast_disconnect_ctl c RNone.

(* its error: onSentKeysError raises; the registry entry is gone *)
Definition on_keys_error (s : state) : res :=
  let s1 := set_nz s NzTransport in
  (set_ctl s1 (psv s1) (um s1) (ud s1) (rb s1) false, [ORaise]).

Definition on_failure (c : cfg) (s : state) : res :=
  (set_nz s NzTransport, [OApp AFailure]) >>= bcast_disconnect c RAuthFail false.

Definition on_stream_error (c : cfg) (k : kind) (s : state) : res :=
  let s1 := set_nz s NzTransport in
  let s2 := if c_reconnect c && negb (is_conflict k) then set_recon s1 true else s1 in
  (s2, [OApp (AStreamError k)]) >>= bcast_disconnect c RNone false.

Definition on_pong (i : N) (s : state) : res :=
  let s1 := set_nz s NzTransport in
  if memN i (reg s1) then
    (set_ping s1 (pth s1) (if memN i (pq s1) then [] else pq s1) (removeN i (reg s1)) (nping s1),
     [OApp (APong i)])
  else (s1, []).

Definition on_tick (c : cfg) (s : state) : res :=
  if pth s then
    let id := nping s in
    let q := pq s ++ [id] in
    let s1 := set_ping s true q (reg s) (id + 1)%N in
    (if (2 <=? length q)%nat then bcast_disconnect c RPing true s1 else (s1, []))
    >>= (fun s => if pth s
                  then send_down (WPing id) (set_ping s true (pq s) (reg s ++ [id]) (nping s))
                  else (s, []))
  else (s, []).

(* the loop delivers a queued DISCONNECTED to the layers above P0: noise (reset), P1, the control layer
   (on_disconnected: with _reboot_connection set it clears it, sets PROP_PASSIVE False and calls connect()),
   then - the control layer's callback returns None - the protocol group (iq stops its thread), the interface
   layer (pending reconnect) and the application.  `consume` = the variant in which the control layer returns
   True after a reboot, which stops the event there (not today's code; used for the refuted witness). *)
Definition on_loop_gen (consume : bool) (c : cfg) (s : state) : res :=
  match dq s with
  | [] => (s, [])
  | r :: rest =>
    (set_nz (set_dq s rest) NzInit, [OProbe 1 (PDisconnected r)])
    >>= (fun s =>
      if rb s && consume then create_connection c (set_ctl s false (um s) (ud s) false (kp s))
      else
        (if rb s then create_connection c (set_ctl s false (um s) (ud s) false (kp s)) else (s, []))
        >>= (fun s => (stop_thread s, [OProbe 2 (PDisconnected r)]))
        >>= (fun s => if recon s then create_connection c (set_recon s false) else (s, []))
        >>= emit [OProbe 3 (PDisconnected r)])
  end.

Definition on_connect_req (c : cfg) (s : state) : res :=
  (s, [OProbe 3 PConnect; OProbe 2 PConnect; OProbe 1 PConnect; OProbe 0 PConnect])
  >>= (fun s => if conn s then (s, []) else create_connection c s).

Definition on_close (s : state) : res :=
  net_on_disconnected (set_net s (ns s) (conn s) DpClosed (orphans s) (rsn s)).

Definition step_gen (consume : bool) (c : cfg) (s : state) (e : event) : res :=
  match e with
  | EConnectReq => on_connect_req c s
  | EConnectCall => create_connection c s
  | EDisconnectReq => bcast_disconnect c RNone false s
  | EDispConnected => on_disp_connected c s
  | ESockError | EPeerClose => on_close s
  | ESuccess => on_success c s
  | EFailure => on_failure c s
  | EStreamError k => on_stream_error c k s
  | EPong i => on_pong i s
  | EKeysResult => on_keys_result c s
  | EKeysError => on_keys_error s
  | ETick => on_tick c s
  | EAppSend => send_down WApp s
  | ELoop => on_loop_gen consume c s
  end.

Definition step : cfg -> state -> event -> res := step_gen false.

(* ---------- the property's alphabet (domain) ----------
   Environment: a dispatcher event needs a dispatcher in the right phase; a stanza needs a connected
   socket and a login exchange in progress; the loop needs a queued callback.
   Property text: a disconnect request only while a connection is up or being established.
   Domain restriction (finding connect-before-deferred-disconnected): the application asks for a
   connection only after the previous disconnection has been announced to it (queue empty).
   Without the two guards c_fix_create, c_fix_destroy the histories that reach the unguarded code are excluded; they are
   the witnesses of the refuted lemmas.                                                            *)
Definition stanza_ok (s : state) : bool :=
  dp_is_up (dp s) && match nz s with NzInit => false | _ => true end.

Definition enabled (c : cfg) (s : state) (e : event) : bool :=
  match e with
  | EConnectReq =>
      negb (nonempty (dq s)) && (c_fix_create c || negb (ns_eqb (ns s) NsConnecting))
  | EConnectCall =>
      negb (nonempty (dq s)) && (c_fix_create c || ns_eqb (ns s) NsDisconnected)
  | EDisconnectReq => ns_eqb (ns s) NsConnecting || ns_eqb (ns s) NsConnected
  | EDispConnected => match dp s with DpConnecting => true | _ => false end
  | ESockError | EPeerClose => match dp s with DpNone => false | _ => true end
  | ESuccess | EFailure | EStreamError _ | EPong _ => stanza_ok s
  | EKeysResult | EKeysError => stanza_ok s && kp s
  | ETick =>
      c_fix_destroy c || negb (pth s && nonempty (pq s) && ns_eqb (ns s) NsDisconnected)
  | EAppSend => match nz s with NzTransport => true | _ => false end
  | ELoop => nonempty (dq s)
  end.

(* run a history inside the domain; None as soon as an event is outside it *)
Fixpoint exec (c : cfg) (s : state) (h : list event) : option (state * list obs) :=
  match h with
  | [] => Some (s, [])
  | e :: h' =>
    if enabled c s e then
      let '(s1, o1) := step c s e in
      match exec c s1 h' with
      | Some (s2, o2) => Some (s2, o1 ++ o2)
      | None => None
      end
    else None
  end.

(* the same without the domain check (used for the refuted witnesses), for either variant of the loop *)
Fixpoint exec_any_gen (consume : bool) (c : cfg) (s : state) (h : list event) : state * list obs :=
  match h with
  | [] => (s, [])
  | e :: h' => let '(s1, o1) := step_gen consume c s e in
               let '(s2, o2) := exec_any_gen consume c s1 h' in (s2, o1 ++ o2)
  end.
Definition exec_any : cfg -> state -> list event -> state * list obs := exec_any_gen false.

(* ---------- trace monitors used in the statements ---------- *)
Definition is_up_at (p : N) (o : obs) : bool :=
  match o with OProbe q PConnected => N.eqb p q | _ => false end.
Definition is_down_at (p : N) (o : obs) : bool :=
  match o with OProbe q (PDisconnected _) => N.eqb p q | _ => false end.

(* connection attempts as seen directly above the network layer (P0): a dispatcher is created only
   when idle; it is announced up at most once; whatever was attempted or up is announced down
   exactly once, and nothing is announced down when idle *)
Inductive mon := MIdle | MAttempt | MUp.
Definition mon_step (m : mon) (o : obs) : option mon :=
  match o with
  | ODispCreate => match m with MIdle => Some MAttempt | _ => None end
  | OProbe 0 PConnected => match m with MAttempt => Some MUp | _ => None end
  | OProbe 0 (PDisconnected _) => match m with MIdle => None | _ => Some MIdle end
  | _ => Some m
  end.
Fixpoint mon_run (m : mon) (tr : list obs) : option mon :=
  match tr with
  | [] => Some m
  | o :: tr' => match mon_step m o with Some m' => mon_run m' tr' | None => None end
  end.
Definition mon_of (n : nstate) : mon :=
  match n with NsDisconnected => MIdle | NsConnecting => MAttempt | _ => MUp end.

(* up / down announcements at one position *)
Inductive ann := AUp | ADown (r : reason).
Definition ann_at (p : N) (o : obs) : option ann :=
  match o with
  | OProbe q PConnected => if N.eqb p q then Some AUp else None
  | OProbe q (PDisconnected r) => if N.eqb p q then Some (ADown r) else None
  | _ => None
  end.
Fixpoint proj (p : N) (tr : list obs) : list ann :=
  match tr with
  | [] => []
  | o :: tr' => match ann_at p o with Some a => a :: proj p tr' | None => proj p tr' end
  end.

Definition countb (f : obs -> bool) (tr : list obs) : nat := length (filter f tr).
Definition count_ev (f : event -> bool) (h : list event) : nat := length (filter f h).

Definition is_auth_at (p : N) (o : obs) : bool :=
  match o with OProbe q (PAuth _) => N.eqb p q | _ => false end.
Definition is_authed_at (p : N) (o : obs) : bool :=
  match o with OProbe q (PAuthed _) => N.eqb p q | _ => false end.
Definition is_handshake (o : obs) : bool := match o with OHandshake _ => true | _ => false end.
Definition is_create (o : obs) : bool := match o with ODispCreate => true | _ => false end.
Definition is_app_success (o : obs) : bool := match o with OApp ASuccess => true | _ => false end.
Definition is_down_write (o : obs) : bool := match o with OWrite _ false => true | _ => false end.
Definition is_ping_timeout (o : obs) : bool :=
  match o with OProbe _ (PDisconnect RPing) => true | _ => false end.
Definition is_raise (o : obs) : bool := match o with ORaise => true | _ => false end.
Definition ev_disp_connected (e : event) : bool := match e with EDispConnected => true | _ => false end.
Definition ev_success (e : event) : bool := match e with ESuccess => true | _ => false end.
Definition ev_tick (e : event) : bool := match e with ETick => true | _ => false end.
Definition ev_keys_result (e : event) : bool := match e with EKeysResult => true | _ => false end.
Definition ev_keys_error (e : event) : bool := match e with EKeysError => true | _ => false end.
Definition is_passive_login (o : obs) : bool :=
  match o with OHandshake true | OProbe _ (PAuth true) => true | _ => false end.

(* ---------- automatic reconnect: what the statements count ---------- *)
Definition ev_connect (e : event) : bool :=
  match e with EConnectReq | EConnectCall => true | _ => false end.
(* a stream error after which the interface layer reconnects when the option is on *)
Definition ev_reconnecting_error (e : event) : bool :=
  match e with EStreamError k => negb (is_conflict k) | _ => false end.

(* dispatchers the stack created on its own: creations in reaction to an event that is not a connect
   request / connect call of the application *)
Fixpoint auto_creates (c : cfg) (s : state) (h : list event) : nat :=
  match h with
  | [] => 0%nat
  | e :: h' =>
    ((if ev_connect e then 0%nat else countb is_create (snd (step c s e)))
     + auto_creates c (fst (step c s e)) h')%nat
  end.
(* dispatchers created in reaction to a connect request / connect call *)
Fixpoint req_creates (c : cfg) (s : state) (h : list event) : nat :=
  match h with
  | [] => 0%nat
  | e :: h' =>
    ((if ev_connect e then countb is_create (snd (step c s e)) else 0%nat)
     + req_creates c (fst (step c s e)) h')%nat
  end.

(* events that end a session without a pending automatic reconnect: a disconnect request, a login
   failure, a stream error that is a sign-in conflict or arrives with the option off, and a socket
   error / peer close of a connection that is up or being established *)
Definition ends_session (c : cfg) (s : state) (e : event) : bool :=
  match e with
  | EDisconnectReq | EFailure => true
  | EStreamError k => negb (c_reconnect c && negb (is_conflict k))
  | ESockError | EPeerClose => negb (ns_eqb (ns s) NsDisconnected)
  | _ => false
  end.
