(* C16 — the interface layer's reconnect bookkeeping at trace level: how many connections the stack
   opens on its own, when, and that a session ended by the application / a login failure / a
   conflict / a socket error stays down until the application asks again. *)
From YV Require Import Common.Tac C16.C16Model C16.C16Proofs C16.C16Tac.

Ltac finish_eq He :=
  compute_step; red_all; rewrite ?memN_nil, ?memN_single, ?N.eqb_refl;
  split_ifs; prune He; prune_hyp He; repeat split; kill; close_hyps.

(* ---------- one step: the balance of automatic creations and the pending flag ---------- *)
Lemma step_auto_balance c s e : inv s -> enabled c s e = true ->
  ((if ev_connect e then 0 else countb is_create (snd (step c s e)))
   + b2n (recon (fst (step c s e))) + b2n (rb (fst (step c s e))) =
   b2n (recon s) + b2n (rb s) + (if c_reconnect c then b2n (ev_reconnecting_error e) else 0)
   + b2n (ev_keys_result e))%nat.
Proof.
  intros Hinv He. enum_step c s e Hinv He; try destruct k; try destruct crec; finish_eq He.
Qed.

Lemma step_create_split c s e :
  countb is_create (snd (step c s e)) =
  ((if ev_connect e then 0 else countb is_create (snd (step c s e))) +
   (if ev_connect e then countb is_create (snd (step c s e)) else 0))%nat.
Proof. destruct (ev_connect e); lia. Qed.

Theorem auto_reconnect_count_thm : forall c h s tr h2 s2 tr2,
  exec c (init c) h = Some (s, tr) -> exec c s h2 = Some (s2, tr2) ->
  (auto_creates c s h2 + b2n (recon s2) + b2n (rb s2) =
   b2n (recon s) + b2n (rb s) + (if c_reconnect c then count_ev ev_reconnecting_error h2 else 0)
   + count_ev ev_keys_result h2)%nat /\
  countb is_create tr2 = (auto_creates c s h2 + req_creates c s h2)%nat.
Proof.
  intros c h s tr h2 s2 tr2 Hx Hx2. pose proof (reach_inv c h s tr Hx) as Hinv.
  clear Hx h tr. revert h2 s s2 tr2 Hinv Hx2.
  apply (exec_ind_inv c (fun s h2 s2 tr2 =>
    (auto_creates c s h2 + b2n (recon s2) + b2n (rb s2) =
     b2n (recon s) + b2n (rb s) + (if c_reconnect c then count_ev ev_reconnecting_error h2 else 0)
     + count_ev ev_keys_result h2)%nat /\
    countb is_create tr2 = (auto_creates c s h2 + req_creates c s h2)%nat)).
  - intros s _. unfold count_ev, countb. cbn [auto_creates req_creates filter length]. split; [|reflexivity].
    destruct (c_reconnect c); rewrite !Nat.add_0_r; reflexivity.
  - intros s e h s2 o2 Hi He _ _ [IH1 IH2].
    pose proof (step_auto_balance c s e Hi He) as B.
    cbn [auto_creates req_creates]. rewrite !count_ev_cons, countb_app, IH2.
    revert B IH1. generalize (b2n (recon s)) (b2n (recon s2)) (b2n (recon (fst (step c s e))))
      (b2n (ev_reconnecting_error e)) (countb is_create (snd (step c s e)))
      (b2n (rb s)) (b2n (rb s2)) (b2n (rb (fst (step c s e)))) (b2n (ev_keys_result e)).
    intros n1 n2 n3 n4 n5 n6 n7 n8 n9 B IH1.
    split; [destruct (c_reconnect c); lia|destruct (ev_connect e); lia].
Qed.

Theorem auto_reconnect_count_init_thm : forall c h s tr, exec c (init c) h = Some (s, tr) ->
  (auto_creates c (init c) h + b2n (recon s) + b2n (rb s) =
   (if c_reconnect c then count_ev ev_reconnecting_error h else 0) + count_ev ev_keys_result h)%nat /\
  countb is_create tr = (auto_creates c (init c) h + req_creates c (init c) h)%nat.
Proof.
  intros c h s tr Hx.
  destruct (auto_reconnect_count_thm c [] (init c) [] h s tr eq_refl Hx) as [A B].
  split; [exact A|exact B].
Qed.

(* ---------- a pending reconnect is executed by the next loop run, once ---------- *)
Lemma pending_facts c s e : inv s -> (enabled c s e && recon s) = true ->
  ns s = NsDisconnected /\ enabled c s ELoop = true /\
  (e = ELoop ->
     countb is_create (snd (step c s e)) = 1%nat /\ recon (fst (step c s e)) = false /\
     ns (fst (step c s e)) = NsConnecting) /\
  (e <> ELoop ->
     countb is_create (snd (step c s e)) = 0%nat /\ recon (fst (step c s e)) = true /\
     ns (fst (step c s e)) = NsDisconnected).
Proof.
  intros Hinv He. enum_step c s e Hinv He; destruct cfc, cfd; prune He; prune_hyp He;
  (split; [reflexivity|]); (split; [reflexivity|]);
  (split; intros Hq; try discriminate Hq; try (exfalso; apply Hq; reflexivity));
  finish_eq He.
Qed.

Lemma pending_loop_enabled c s : inv s -> recon s = true ->
  ns s = NsDisconnected /\ enabled c s ELoop = true.
Proof.
  intros [Hs [Ha _]] Hr. unfold aux_ok in Ha.
  apply andb_prop in Ha. destruct Ha as [Ha _].
  apply andb_prop in Ha. destruct Ha as [Ha _].
  apply andb_prop in Ha. destruct Ha as [Ha _].
  apply andb_prop in Ha. destruct Ha as [Ha _].
  apply andb_prop in Ha. destruct Ha as [Ha _].
  rewrite Hr in Ha. cbn [negb orb] in Ha.
  apply andb_prop in Ha. destruct Ha as [H1 H2].
  split; [destruct (ns s); try discriminate H1; reflexivity|exact H2].
Qed.

Theorem pending_reconnect_thm : forall c h s tr, exec c (init c) h = Some (s, tr) ->
  recon s = true ->
  ns s = NsDisconnected /\ enabled c s ELoop = true /\
  countb is_create (snd (step c s ELoop)) = 1%nat /\
  recon (fst (step c s ELoop)) = false /\ ns (fst (step c s ELoop)) = NsConnecting /\
  (forall e, enabled c s e = true -> e <> ELoop ->
     countb is_create (snd (step c s e)) = 0%nat /\ recon (fst (step c s e)) = true /\
     ns (fst (step c s e)) = NsDisconnected).
Proof.
  intros c h s tr Hx Hr. pose proof (reach_inv c h s tr Hx) as Hinv.
  destruct (pending_loop_enabled c s Hinv Hr) as [Hn Hl].
  assert (HL : (enabled c s ELoop && recon s) = true) by (rewrite Hl, Hr; reflexivity).
  destruct (pending_facts c s ELoop Hinv HL) as [_ [_ [P _]]].
  destruct (P eq_refl) as [P1 [P2 P3]].
  split; [exact Hn|]. split; [exact Hl|]. split; [exact P1|]. split; [exact P2|]. split; [exact P3|].
  intros e He Hne.
  assert (HE : (enabled c s e && recon s) = true) by (rewrite He, Hr; reflexivity).
  destruct (pending_facts c s e Hinv HE) as [_ [_ [_ Q]]]. exact (Q Hne).
Qed.

(* ---------- down and nothing pending: stays down until the application asks ---------- *)
Definition is_down (s : state) : bool :=
  ns_eqb (ns s) NsDisconnected && negb (conn s) && negb (recon s) && negb (rb s).

Lemma down_step c s e : inv s -> (enabled c s e && is_down s && negb (ev_connect e)) = true ->
  is_down (fst (step c s e)) = true /\ countb is_create (snd (step c s e)) = 0%nat.
Proof.
  intros Hinv He. enum_step c s e Hinv He; destruct cfc, cfd; prune He; prune_hyp He; finish_eq He.
Qed.

Lemma ends_step c s e : inv s -> (enabled c s e && ends_session c s e) = true ->
  is_down (fst (step c s e)) = true /\ countb is_create (snd (step c s e)) = 0%nat.
Proof.
  intros Hinv He. enum_step c s e Hinv He; try destruct k; destruct crec, cfc, cfd; prune He; prune_hyp He; finish_eq He.
Qed.

Lemma down_stays c : forall mid s s1 tr1, inv s -> is_down s = true ->
  exec c s mid = Some (s1, tr1) -> count_ev ev_connect mid = 0%nat ->
  is_down s1 = true /\ countb is_create tr1 = 0%nat.
Proof.
  induction mid as [|e mid IH]; intros s s1 tr1 Hi Hd Hx Hc.
  - cbn in Hx. apply Some_inj in Hx. apply pair_inj in Hx. destruct Hx; subst. split; [exact Hd|reflexivity].
  - apply exec_cons in Hx. destruct Hx as [He [o2 [Hx Ht]]]. subst tr1.
    rewrite count_ev_cons in Hc.
    assert (Hcn : ev_connect e = false) by (destruct (ev_connect e); [discriminate Hc|reflexivity]).
    rewrite Hcn in Hc. cbn [b2n plus] in Hc.
    assert (HE : (enabled c s e && is_down s && negb (ev_connect e)) = true)
      by (rewrite He, Hd, Hcn; reflexivity).
    destruct (down_step c s e Hi HE) as [D1 D2].
    pose proof (step_inv c s e Hi He) as Hi1.
    destruct (IH _ _ _ Hi1 D1 Hx Hc) as [I1 I2].
    split; [exact I1|]. rewrite countb_app, D2, I2. reflexivity.
Qed.

Lemma is_down_parts s : is_down s = true ->
  ns s = NsDisconnected /\ conn s = false /\ recon s = false /\ rb s = false.
Proof.
  unfold is_down. intros H. apply andb_prop in H. destruct H as [H H4].
  apply andb_prop in H. destruct H as [H H3].
  apply andb_prop in H. destruct H as [H1 H2].
  repeat split.
  - destruct (ns s); try discriminate H1; reflexivity.
  - destruct (conn s); [discriminate H2|reflexivity].
  - destruct (recon s); [discriminate H3|reflexivity].
  - destruct (rb s); [discriminate H4|reflexivity].
Qed.

Theorem session_end_stays_down_thm : forall c h s tr e mid s1 tr1,
  exec c (init c) h = Some (s, tr) ->
  ends_session c s e = true ->
  exec c s (e :: mid) = Some (s1, tr1) ->
  count_ev ev_connect mid = 0%nat ->
  ns s1 = NsDisconnected /\ conn s1 = false /\ recon s1 = false /\ rb s1 = false /\
  countb is_create tr1 = 0%nat.
Proof.
  intros c h s tr e mid s1 tr1 Hx Hend Hm Hc.
  pose proof (reach_inv c h s tr Hx) as Hi.
  apply exec_cons in Hm. destruct Hm as [He [o2 [Hm Ht]]]. subst tr1.
  assert (HE : (enabled c s e && ends_session c s e) = true) by (rewrite He, Hend; reflexivity).
  destruct (ends_step c s e Hi HE) as [D1 D2].
  pose proof (step_inv c s e Hi He) as Hi1.
  destruct (down_stays c mid _ _ _ Hi1 D1 Hm Hc) as [I1 I2].
  destruct (is_down_parts s1 I1) as [A [B [C D]]].
  repeat split; auto. rewrite countb_app, D2, I2. reflexivity.
Qed.

(* non-vacuity on the two histories on which an interface layer that keeps its flag set after issuing
   the reconnect misbehaves (second automatic connection after a socket error on the reconnect
   attempt; a disconnect request overridden): the model opens exactly one connection on its own and
   ends down with nothing pending. *)
Definition hist_sock_error_on_reconnect : list event :=
  [EConnectReq; EDispConnected; EStreamError KAck; ELoop; ESockError; ELoop].
Definition hist_disconnect_on_reconnect : list event :=
  [EConnectReq; EDispConnected; EStreamError KAck; ELoop; EDisconnectReq; ELoop].
Definition cfg_fixed_r : cfg := mkCfg true false true true true false.

Example reconnect_once_after_failed_attempt :
  exists s tr, exec cfg_fixed_r (init cfg_fixed_r) hist_sock_error_on_reconnect = Some (s, tr) /\
    auto_creates cfg_fixed_r (init cfg_fixed_r) hist_sock_error_on_reconnect = 1%nat /\
    countb is_create tr = 2%nat /\ ns s = NsDisconnected /\ recon s = false.
Proof. eexists. eexists. vm_compute. repeat split; reflexivity. Qed.

Example disconnect_request_wins_over_reconnect :
  exists s tr, exec cfg_fixed_r (init cfg_fixed_r) hist_disconnect_on_reconnect = Some (s, tr) /\
    auto_creates cfg_fixed_r (init cfg_fixed_r) hist_disconnect_on_reconnect = 1%nat /\
    ns s = NsDisconnected /\ recon s = false.
Proof. eexists. eexists. vm_compute. repeat split; reflexivity. Qed.

Ltac solve_in_r := solve_in.

(* ---------- the control layer's reboot: pending until the loop delivers the DISCONNECTED, then one
   connection, passive off, nothing left to upload ---------- *)
Lemma reboot_facts c s e : inv s -> (enabled c s e && rb s) = true ->
  ns s = NsDisconnected /\ enabled c s ELoop = true /\ um s = false /\ ud s = false /\ recon s = false /\
  (e = ELoop ->
     countb is_create (snd (step c s e)) = 1%nat /\ rb (fst (step c s e)) = false /\
     psv (fst (step c s e)) = false /\ um (fst (step c s e)) = false /\ ud (fst (step c s e)) = false /\
     ns (fst (step c s e)) = NsConnecting /\
     In (OProbe 2 (PDisconnected (hd RNone (dq s)))) (snd (step c s e)) /\
     In (OProbe 3 (PDisconnected (hd RNone (dq s)))) (snd (step c s e)) /\
     pth (fst (step c s e)) = false /\ pq (fst (step c s e)) = []) /\
  (e <> ELoop ->
     countb is_create (snd (step c s e)) = 0%nat /\ rb (fst (step c s e)) = true /\
     ns (fst (step c s e)) = NsDisconnected).
Proof.
  intros Hinv He.
  destruct e; enum_full c Hinv; red_in He; try discriminate He;
  destruct cfc, cfd; prune He; prune_hyp He;
  (split; [reflexivity|]); (split; [reflexivity|]); (split; [reflexivity|]); (split; [reflexivity|]);
  (split; [reflexivity|]);
  (split; intros Hq; try discriminate Hq; try (exfalso; apply Hq; reflexivity));
  compute_step; red_all; rewrite ?memN_nil, ?memN_single, ?N.eqb_refl; split_ifs; prune He;
  repeat split; kill; try solve_in_r.
Qed.

Lemma reboot_loop_enabled c s : inv s -> rb s = true -> enabled c s ELoop = true.
Proof.
  intros [Hs [Ha _]] Hr. unfold aux_ok in Ha.
  apply andb_prop in Ha. destruct Ha as [Ha _].
  apply andb_prop in Ha. destruct Ha as [_ Ha].
  rewrite Hr in Ha. cbn [negb orb] in Ha.
  apply andb_prop in Ha. destruct Ha as [Ha _].
  apply andb_prop in Ha. destruct Ha as [Ha _].
  apply andb_prop in Ha. destruct Ha as [Ha _].
  apply andb_prop in Ha. destruct Ha as [_ H2]. exact H2.
Qed.

Theorem pending_reboot_thm : forall c h s tr, exec c (init c) h = Some (s, tr) ->
  rb s = true ->
  ns s = NsDisconnected /\ enabled c s ELoop = true /\ um s = false /\ ud s = false /\ recon s = false /\
  (let s1 := fst (step c s ELoop) in
   countb is_create (snd (step c s ELoop)) = 1%nat /\ rb s1 = false /\ psv s1 = false /\ um s1 = false /\
   ud s1 = false /\ ns s1 = NsConnecting /\
   In (OProbe 2 (PDisconnected (hd RNone (dq s)))) (snd (step c s ELoop)) /\
   In (OProbe 3 (PDisconnected (hd RNone (dq s)))) (snd (step c s ELoop)) /\
   pth s1 = false /\ pq s1 = []) /\
  (forall e, enabled c s e = true -> e <> ELoop ->
     countb is_create (snd (step c s e)) = 0%nat /\ rb (fst (step c s e)) = true /\
     ns (fst (step c s e)) = NsDisconnected).
Proof.
  intros c h s tr Hx Hr. pose proof (reach_inv c h s tr Hx) as Hinv.
  pose proof (reboot_loop_enabled c s Hinv Hr) as Hl.
  assert (HL : (enabled c s ELoop && rb s) = true) by (rewrite Hl, Hr; reflexivity).
  destruct (reboot_facts c s ELoop Hinv HL) as [F1 [F2 [F3 [F4 [F5 [P _]]]]]].
  split; [exact F1|]. split; [exact F2|]. split; [exact F3|]. split; [exact F4|]. split; [exact F5|].
  split; [exact (P eq_refl)|].
  intros e He Hne.
  assert (HE : (enabled c s e && rb s) = true) by (rewrite He, Hr; reflexivity).
  destruct (reboot_facts c s e Hinv HE) as [_ [_ [_ [_ [_ [_ Q]]]]]]. exact (Q Hne).
Qed.

