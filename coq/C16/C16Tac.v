(* C16 — tactics shared by the theorem files (on top of C16Proofs). *)
From YV Require Import Common.Tac C16.C16Model C16.C16Proofs.

(* a hypothesis that is false whatever its remaining conditions evaluate to *)
Ltac prune_hyp Ha :=
  try solve [exfalso;
             repeat match type of Ha with
                    | context [if ?b then _ else _] =>
                      match b with
                      | context [if _ then _ else _] => fail 1
                      | _ => destruct b
                      end
                    end; discriminate Ha].

(* every finite part of a reachable state enumerated, the control layer's booleans included *)
Ltac enum_full c Hinv :=
  let Hs := fresh "Hs" in let Ha := fresh "Ha" in let Ho := fresh "Ho" in
  destruct Hinv as [Hs [Ha Ho]];
  destruct c as [crec cpas cpng cfc cfd cuns];
  enum_state_full Hs Ha; cbn in Ho; subst; prune_hyp Ha.


(* ---------- enumeration for a fixed event ---------- *)
Ltac enum_state_only c Hinv :=
  let Hs := fresh "Hs" in let Ha := fresh "Ha" in let Ho := fresh "Ho" in
  destruct Hinv as [Hs [Ha Ho]];
  destruct c as [crec cpas cpng cfc cfd cuns];
  enum_state Hs Ha; cbn in Ho; subst.

Ltac split_ifs_light :=
  repeat match goal with
         | |- context [if ?b then _ else _] =>
           match b with
           | context [if _ then _ else _] => fail 1
           | _ => destruct b eqn:?
           end; cbn [fst snd]
         end.


Ltac solve_in := cbn [In]; repeat first [left; reflexivity | right]; fail.
