(* C16 — keep-alive theorems, the refuted witnesses of the network-layer findings, non-vacuity. *)
From YV Require Import Common.Tac C16.C16Model C16.C16Proofs C16.C16Tac.

(* ---------- C16_keepalive ---------- *)
Lemma tick_facts c s : inv s -> enabled c s ETick = true ->
  existsb is_ping_timeout (snd (step c s ETick)) = (pth s && nonempty (pq s)) /\
  (pq (fst (step c s ETick)) = [] \/ pq (fst (step c s ETick)) = [nping s]).
Proof.
  intros Hinv He. enum_state_only c Hinv; red_in He; try discriminate He;
  destruct cfd; red_in He; try discriminate He; compute_step; split; auto.
Qed.

Lemma nontick_pq c s e : inv s -> enabled c s e = true -> ev_tick e = false ->
  pq (fst (step c s e)) = pq s \/ pq (fst (step c s e)) = [].
Proof.
  intros Hinv He Ht. enum_step c s e Hinv He; try discriminate Ht;
  compute_step; red_all; rewrite ?memN_nil, ?memN_single; split_ifs; auto.
Qed.

Lemma pong_clears c s i : inv s -> enabled c s (EPong i) = true -> pq s = [i] ->
  pq (fst (step c s (EPong i))) = [].
Proof.
  intros [_ [Ha _]] _ Hq. unfold aux_ok in Ha. rewrite Hq in Ha.
  apply andb_prop in Ha. destruct Ha as [Ha _].
  apply andb_prop in Ha. destruct Ha as [Ha _].
  apply andb_prop in Ha. destruct Ha as [_ Ha].
  apply andb_prop in Ha. destruct Ha as [_ Hm].
  unfold step; cbn [step_gen]. unfold on_pong. cbn [set_nz reg pq pth nping]. rewrite Hm.
  cbn [fst set_ping pq]. rewrite Hq, memN_single, N.eqb_refl. reflexivity.
Qed.

Theorem keepalive_thm : forall c h s tr, exec c (init c) h = Some (s, tr) ->
  (* at most one ping is outstanding, it is the last one issued, the thread is alive and the
     ping is registered for its pong *)
  (pq s = [] \/ exists x, pq s = [x] /\ (x + 1)%N = nping s /\ pth s = true /\ memN x (reg s) = true) /\
  (* at a tick the layer asks for a disconnect iff a ping is outstanding *)
  (enabled c s ETick = true ->
     existsb is_ping_timeout (snd (step c s ETick)) = (pth s && nonempty (pq s))) /\
  (* the pong of the outstanding ping clears it; no other event makes a ping outstanding *)
  (forall i, enabled c s (EPong i) = true -> pq s = [i] -> pq (fst (step c s (EPong i))) = []) /\
  (forall e, enabled c s e = true -> ev_tick e = false ->
     pq (fst (step c s e)) = pq s \/ pq (fst (step c s e)) = []).
Proof.
  intros c h s tr Hx. pose proof (reach_inv c h s tr Hx) as Hinv.
  split; [|split; [|split]].
  - destruct Hinv as [_ [Ha _]]. unfold aux_ok in Ha.
    destruct (pq s) as [|x [|y q]]; [left; reflexivity| |].
    + right. exists x. use_bools. repeat split; auto.
    + use_bools. discriminate.
  - intros He. apply (tick_facts c s Hinv He).
  - intros i He Hq. apply (pong_clears c s i Hinv He Hq).
  - intros e He Ht. apply (nontick_pq c s e Hinv He Ht).
Qed.

(* no tick in mid: an empty queue stays empty; [n] stays [n] or is cleared, and survives only if
   its pong was not in mid *)
Lemma mid_pq c : forall mid s s1 tr, inv s -> exec c s mid = Some (s1, tr) ->
  count_ev ev_tick mid = 0%nat ->
  (pq s = [] -> pq s1 = []) /\
  (forall n, pq s = [n] -> pq s1 = [] \/ (pq s1 = [n] /\ ~ In (EPong n) mid)).
Proof.
  induction mid as [|e mid IH]; intros s s1 tr Hi Hx Hc.
  - cbn in Hx. apply Some_inj in Hx. apply pair_inj in Hx. destruct Hx; subst.
    split; [auto|]. intros n Hn. right. split; [exact Hn|intros []].
  - apply exec_cons in Hx. destruct Hx as [He [o2 [Hx _]]].
    rewrite count_ev_cons in Hc.
    assert (Ht : ev_tick e = false) by (destruct (ev_tick e); [discriminate Hc|reflexivity]).
    rewrite Ht in Hc. cbn [b2n plus] in Hc.
    pose proof (step_inv c s e Hi He) as Hi1.
    destruct (IH _ _ _ Hi1 Hx Hc) as [IH0 IH1].
    pose proof (nontick_pq c s e Hi He Ht) as Hq.
    split.
    + intros H0. apply IH0. destruct Hq as [Hq|Hq]; congruence.
    + intros n Hn. destruct Hq as [Hq|Hq]; [|left; apply IH0, Hq].
      assert (D : e = EPong n \/ e <> EPong n).
      { destruct e; try (right; discriminate). destruct (N.eq_dec i n); [left; congruence|right; congruence]. }
      destruct D as [D|D].
      * subst e. left. apply IH0. apply (pong_clears c s n Hi He Hn).
      * rewrite Hn in Hq. destruct (IH1 n Hq) as [H1|[H1 H2]]; [left; exact H1|].
        right. split; [exact H1|]. intros [Hin|Hin]; [congruence|auto].
Qed.

Theorem keepalive_answered_never_thm : forall c h s tr mid s1 tr1,
  exec c (init c) h = Some (s, tr) ->
  exec c s (ETick :: mid) = Some (s1, tr1) ->
  count_ev ev_tick mid = 0%nat ->
  In (EPong (nping s)) mid ->
  enabled c s1 ETick = true ->
  existsb is_ping_timeout (snd (step c s1 ETick)) = false.
Proof.
  intros c h s tr mid s1 tr1 Hx Hm Hc Hin He1.
  pose proof (reach_inv c h s tr Hx) as Hi.
  apply exec_cons in Hm. destruct Hm as [He [o2 [Hm _]]].
  pose proof (step_inv c s ETick Hi He) as Hi'.
  destruct (tick_facts c s Hi He) as [_ Hq].
  destruct (mid_pq c mid _ _ _ Hi' Hm Hc) as [M0 M1].
  assert (Hq1 : pq s1 = []).
  { destruct Hq as [Hq|Hq]; [apply M0, Hq|].
    destruct (M1 _ Hq) as [H1|[_ H2]]; [exact H1|contradiction]. }
  pose proof (exec_inv c mid _ _ _ Hi' Hm) as Hi1.
  destruct (tick_facts c s1 Hi1 He1) as [K _]. rewrite K, Hq1. cbn. apply andb_false_r.
Qed.

(* ---------- refuted: the unguarded code, and the early connect ---------- *)
Definition cfg_asis : cfg := mkCfg true false true false false false.
Definition cfg_fixed : cfg := mkCfg true false true true true false.

Theorem double_connect_refuted :
  let '(s, tr) := exec_any cfg_asis (init cfg_asis) [EConnectReq; EConnectReq] in
  orphans s = 1%N /\ mon_run MIdle tr = None.
Proof. vm_compute. split; reflexivity. Qed.

Theorem down_disconnect_refuted :
  let '(s, tr) := exec_any cfg_asis (init cfg_asis)
                    [EConnectReq; EDispConnected; ESuccess; ETick; EPeerClose; ETick] in
  mon_run MIdle tr = None /\ proj 0 tr = [AUp; ADown RNone; ADown RPing].
Proof. vm_compute. split; reflexivity. Qed.

Theorem early_connect_refuted :
  let '(s, tr) := exec_any cfg_fixed (init cfg_fixed)
                    [EConnectReq; EDispConnected; EPeerClose; EConnectReq; EDispConnected; ELoop] in
  ns s = NsConnected /\ nz s = NzInit /\ proj 3 tr = [AUp; AUp; ADown RNone] /\
  exec cfg_fixed (init cfg_fixed) [EConnectReq; EDispConnected; EPeerClose; EConnectReq] = None.
Proof. vm_compute. repeat split; reflexivity. Qed.

(* ---------- non-vacuity: a long history inside the domain ---------- *)
Example nonvacuous :
  exists s tr, exec cfg_fixed (init cfg_fixed)
    [EConnectReq; EDispConnected; ESuccess; ETick; EPong 0; ETick; EStreamError KAck; ELoop;
     EDispConnected; ESuccess; ETick; ETick; ELoop; EConnectCall; EDispConnected; EFailure; ELoop]
    = Some (s, tr) /\ countb (is_up_at 3) tr = 3%nat /\ ns s = NsDisconnected /\
    countb is_ping_timeout tr = 4%nat.
Proof. eexists. eexists. vm_compute. repeat split; reflexivity. Qed.
