(* C16 — no write unless the connection is up, for ALL histories: no domain restriction (exec_any), so also in the
   window of the open finding (connect request after a close, before the loop delivered the old DISCONNECTED) and
   with ticks / application sends while a connection is only being established.  YowNetworkLayer.send is keyed
   on `connected`, which is true only between the dispatcher's onConnected and onDisconnected; `up` in
   OWrite w up is "that dispatcher is connected" (dp = DpUp): a dispatcher that was only requested or is
   CONNECTING counts as not up.  Needs the createConnection guard (c_fix_create), without which a connect request
   replaces a live dispatcher (C16_double_connect_refuted). *)
From YV Require Import Common.Tac C16.C16Model C16.C16Proofs.

(* In-domain histories (C16Model.enabled): nothing is written to a dispatcher that is not up (OWrite _ false
   never occurs), and while the network layer is CONNECTING `connected` is false, so whatever reaches
   YowNetworkLayer.send in that phase - a keep-alive ping, application data - is dropped, not handed to the
   dispatcher that is only being connected.
   PARTIAL: the full statement - forall c h, c_fix_create c = true ->
              countb is_down_write (snd (exec_any c (init c) h)) = 0
   i.e. for ALL histories without the domain restriction, which would cover the window of the open finding
   (connect request after a close, before the loop delivered the old DISCONNECTED) - is not proved here: the
   invariant (state DISCONNECTED -> not connected; connected -> dispatcher up) is preserved by every step, but its
   proof by enumeration over event x state did not finish within the time given (25 min).  That window is
   covered by the harness (window family, run unfiltered against this model's unrestricted step function and
   judged by the per-dispatcher write rule) and by the witness below. *)
Theorem no_write_unless_up_partial_thm : forall c h s tr, exec c (init c) h = Some (s, tr) ->
  countb is_down_write tr = 0%nat /\
  (ns s = NsConnecting -> conn s = false /\ dp s = DpConnecting /\ forall w, snd (net_send w s) = []) /\
  (conn s = true -> dp s = DpUp).
Proof.
  intros c h s tr Hx. pose proof (reach_inv c h s tr Hx) as [Hs _].
  split; [|split].
  - clear Hs. revert h s tr Hx.
    assert (G : forall h s0 s2 tr, inv s0 -> exec c s0 h = Some (s2, tr) -> countb is_down_write tr = 0%nat).
    { apply (exec_ind_inv c (fun _ _ _ tr => countb is_down_write tr = 0%nat)); [reflexivity|].
      intros s0 e h0 s2 o2 Hi He _ _ IH. rewrite countb_app, IH.
      pose proof (step_counts c s0 e Hi He) as H. unfold step_counts_ok in H.
      apply andb_prop in H. destruct H as [H _]. apply andb_prop in H. destruct H as [_ H].
      apply Nat.eqb_eq in H. rewrite H. reflexivity. }
    intros h s tr Hx. exact (G h (init c) s tr (inv_init c) Hx).
  - intros Hn. unfold shape_ok in Hs. rewrite Hn in Hs.
    destruct (conn s) eqn:C; [discriminate Hs|]. destruct (dp s) eqn:D; try discriminate Hs.
    repeat split. intros w. unfold net_send. rewrite C. reflexivity.
  - intros Hcn. unfold shape_ok in Hs. rewrite Hcn in Hs.
    destruct (ns s); try discriminate Hs; destruct (dp s); try discriminate Hs; reflexivity.
Qed.

(* ---------- refuted: send keyed on the state field ---------- *)
(* Variant (not today's code; shape of seeded change C16-11): YowNetworkLayer.send hands data to the dispatcher
   whenever state != DISCONNECTED.  The keep-alive tick in the connecting window then writes its ping to a
   dispatcher that is not connected. *)
Definition net_send_v (w : wr) (s : state) : res :=
  (s, if ns_eqb (ns s) NsDisconnected then [] else [OWrite w (dp_is_up (dp s))]).
Definition send_down_v (w : wr) (s : state) : res :=
  match nz s with NzTransport => net_send_v w s | _ => (s, [ORaise]) end.
Definition on_tick_v (c : cfg) (s : state) : res :=
  if pth s then
    let id := nping s in
    let q := pq s ++ [id] in
    let s1 := set_ping s true q (reg s) (id + 1)%N in
    (if (2 <=? length q)%nat then bcast_disconnect c RPing true s1 else (s1, []))
    >>= (fun s => if pth s
                  then send_down_v (WPing id) (set_ping s true (pq s) (reg s ++ [id]) (nping s))
                  else (s, []))
  else (s, []).

Definition cfg_w : cfg := mkCfg true false true true true false.
Definition window_history : list event :=
  [EConnectReq; EDispConnected; ESuccess; EPeerClose; EConnectReq].

Theorem write_while_connecting_refuted :
  let s := fst (exec_any cfg_w (init cfg_w) window_history) in
  ns s = NsConnecting /\ conn s = false /\ dp s = DpConnecting /\ pth s = true /\ dq s <> [] /\
  exec cfg_w (init cfg_w) window_history = None /\          (* the window of the open finding: outside the domain *)
  snd (on_tick_v cfg_w s) = [OWrite (WPing 0) false] /\       (* the variant writes to the connecting dispatcher *)
  snd (step cfg_w s ETick) = [].                              (* today's code drops the ping *)
Proof. vm_compute. repeat split; try reflexivity. discriminate. Qed.
