(* C10 — message payloads: attribute objects <-> protobuf.  Statements only; proofs are in
   C10/C10Proofs.v (generic over converter tables) and C10/C10Inst.v (generated table). *)
From YV Require Import Common.Tac C10.C10Model C10.C10Proofs Gen.C10Table Gen.C10Probes C10.C10Inst.

(* Every attribute object in the COMPUTED domain serialises without raising, parses back without
   raising, and every field the sender set comes back with the same value (an unset field comes
   back None, [] or a proto default).  For every converter table T (in particular the generated
   one), every converter of it, every nesting depth n (quoted messages / context info). *)
Theorem C10_set_fields_preserved : forall T n cn a,
  in_domain_f n T cn a = true ->
  exists p a', to_proto_f n T cn a = Ok p /\ from_proto_f n T cn p = Ok a' /\ covers a a'.
Proof. exact set_fields_preserved_thm. Qed.
Print Assumptions C10_set_fields_preserved.

(* FULL statement intended (not proved):
     forall p, wf_payload schema mt p ->
       exists a p', from_proto p = Ok a /\ to_proto a = Ok p' /\
                    forall modelled field path phi, pread p' phi = pread p phi.
   PROVED (partial): for every received payload whose parsed object lies in the computed domain,
   re-serialising does not raise and the re-serialised payload parses to an object in which every
   field of the library's model has the same value.  Missing: (1) that every well-formed payload
   parses into the computed domain (checked per generated payload by the harness with the extracted
   in_domain, and for the pinned payloads by C10_payload_probes below), (2) equality stated on
   proto fields instead of through the library's own view (checked on the implementation by the
   harness oracle `reserialise_value_preserving`). *)
Theorem C10_reserialise_value_preserving_partial : forall T n cn p a,
  from_proto_f n T cn p = Ok a -> in_domain_f n T cn a = true ->
  exists p' a', to_proto_f n T cn a = Ok p' /\ from_proto_f n T cn p' = Ok a' /\ covers a a'.
Proof. exact reserialise_thm. Qed.
Print Assumptions C10_reserialise_value_preserving_partial.

(* Non-vacuity and regression guard, for the table generated from the CURRENT source: the pinned
   reviewed objects (Gen/C10Probes.v: every type minimal and full, conversation = "", location with
   a sender-key distribution message, audio with streaming sidecar, quoted messages three deep) are
   inside the computed domain. *)
Theorem C10_domain_probes : forallb probe_ok probes = true.
Proof. exact probes_in_domain_thm. Qed.
Print Assumptions C10_domain_probes.

Theorem C10_payload_probes : forallb payload_ok payloads = true.
Proof. exact payloads_in_domain_thm. Qed.
Print Assumptions C10_payload_probes.
