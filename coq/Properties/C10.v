(* C10 — message payloads: attribute objects <-> protobuf.  Statements only; proofs are in
   C10/C10Proofs.v (generic over converter tables) and C10/C10Inst.v (generated table). *)
From YV Require Import Common.Tac C10.C10Model C10.C10Proofs C10.C10Payload C10.C10PayloadProofs C10.C10Edit C10.C10EditProofs Gen.C10Table Gen.C10Probes C10.C10Inst.

(* Every attribute object in the COMPUTED domain serialises without raising, parses back without
   raising, and every field the sender set comes back with the same value (an unset field comes
   back None, [] or a proto default).  For every converter table T (in particular the generated
   one), every converter of it, every nesting depth n (quoted messages / context info). *)
Theorem C10_set_fields_preserved : forall T n cn a,
  in_domain_f n T cn a = true ->
  exists p a', to_proto_f n T cn a = Ok p /\ from_proto_f n T cn p = Ok a' /\ covers a a'.
Proof. exact set_fields_preserved_thm. Qed.
Print Assumptions C10_set_fields_preserved.

(* The earlier, partial form of the re-serialisation statement (kept; the full statement is
   C10_reserialise_value_preserving below): for every received payload whose parsed object lies in
   the computed domain, re-serialising does not raise and the re-serialised payload parses to an
   object in which every field of the library's model has the same value.  It states equality
   through the library's own view ([covers]) and assumes the parsed object is in the domain; both
   gaps are closed by C10_wf_payload_in_domain and C10_reserialise_value_preserving. *)
Theorem C10_reserialise_value_preserving_partial : forall T n cn p a,
  from_proto_f n T cn p = Ok a -> in_domain_f n T cn a = true ->
  exists p' a', to_proto_f n T cn a = Ok p' /\ from_proto_f n T cn p' = Ok a' /\ covers a a'.
Proof. exact reserialise_thm. Qed.
Print Assumptions C10_reserialise_value_preserving_partial.

(* Non-vacuity and regression guard, for the table generated from the CURRENT source: the pinned
   reviewed objects (Gen/C10Probes.v: every type minimal and full, conversation = "", location with
   a sender-key distribution message, audio with streaming sidecar, quoted messages three deep) are
   inside the computed domain. *)
Theorem C10_domain_probes : forallb probe_ok probes = true.
Proof. exact probes_in_domain_thm. Qed.
Print Assumptions C10_domain_probes.

Theorem C10_payload_probes : forallb payload_ok payloads = true.
Proof. exact payloads_in_domain_thm. Qed.
Print Assumptions C10_payload_probes.

(* ====================== received payloads: the full statements ====================== *)
(* [wf_payload n T cn p]: p is a payload a peer can legitimately send for converter cn's message
   type (declared fields, typed scalar values, non-empty repeated fields, nested sub-messages of
   the declared type, nesting depth within the fuel n).  [pread_at p phi]: presence-aware reader
   (absent reads None, not the default).  [modelled_path T cn phi]: the paths the table reads or
   writes, recursively.  [table_ok T]: computed shape check on the table.
   [gap_payload] / [lossy_payload]: computed per payload (coq/C10/C10Payload.v).              *)

(* the table generated from the CURRENT source passes the check *)
Theorem C10_payload_table_ok : table_ok table = true.
Proof. exact table_ok_thm. Qed.
Print Assumptions C10_payload_table_ok.

(* (1) every well-formed received payload parses into the computed domain — except the gap class
   (an absent scalar that one attribute reads with HasField and another without: only
   DocumentMessage.file_length in the current source), which C10_payload_domain_gap_refuted shows
   is really outside. *)
Theorem C10_wf_payload_in_domain : forall T, table_ok T = true -> forall n cn p,
  wf_payload n T cn p = true -> gap_payload n T cn p = false ->
  exists a, from_proto_f n T cn p = Ok a /\ in_domain_f n T cn a = true.
Proof. exact wf_payload_in_domain_thm. Qed.
Print Assumptions C10_wf_payload_in_domain.

(* (2) FULL statement.  For every converter table passing the check, every converter, every depth:
   a well-formed received payload outside the lossy class parses, the parsed object re-serialises,
   and EVERY modelled field path reads the same in the re-serialised payload as in the received
   one, presence included.  The lossy class (an absent field that the from-side reads without a
   presence test is written back present with its default) is exact (C10_lossy_exact) and is
   inhabited for the current source (the two _refuted witnesses below, replayed on the
   implementation by the harness). *)
Theorem C10_reserialise_value_preserving : forall T, table_ok T = true -> forall n cn p,
  wf_payload n T cn p = true -> lossy_payload n T cn p = false ->
  exists a p', from_proto_f n T cn p = Ok a /\ to_proto_f n T cn a = Ok p' /\
    forall phi, modelled_path T cn phi = true -> pread_at p' phi = pread_at p phi.
Proof. exact reserialise_full_thm. Qed.
Print Assumptions C10_reserialise_value_preserving.

(* ... instantiated for the table generated from the current source *)
Theorem C10_reserialise_value_preserving_generated : forall n cn p,
  wf_payload n table cn p = true -> lossy_payload n table cn p = false ->
  exists a p', from_proto_f n table cn p = Ok a /\ to_proto_f n table cn a = Ok p' /\
    forall phi, modelled_path table cn phi = true -> pread_at p' phi = pread_at p phi.
Proof. exact reserialise_full_table_thm. Qed.
Print Assumptions C10_reserialise_value_preserving_generated.

(* (3) without any hypothesis on presence (only outside the gap class): re-serialisation never
   drops or alters a modelled field; a path either reads the same or was absent and now reads its
   proto default (sub-message: present). *)
Theorem C10_reserialise_materialises_only : forall T, table_ok T = true -> forall n cn p,
  wf_payload n T cn p = true -> gap_payload n T cn p = false ->
  exists a p', from_proto_f n T cn p = Ok a /\ to_proto_f n T cn a = Ok p' /\
    forall phi, modelled_path T cn phi = true ->
      pread_at p' phi = pread_at p phi
      \/ (pread_at p phi = None /\ pread_at p' phi = path_default T (msg_of T cn) phi
          /\ path_default T (msg_of T cn) phi <> None).
Proof. exact reserialise_materialises_only_thm. Qed.
Print Assumptions C10_reserialise_materialises_only.

(* (4) the lossy class is exact: such a payload does come back with an absent modelled path present *)
Theorem C10_lossy_exact : forall T, table_ok T = true -> forall n cn p,
  wf_payload n T cn p = true -> gap_payload n T cn p = false -> lossy_payload n T cn p = true ->
  exists a p' phi, from_proto_f n T cn p = Ok a /\ to_proto_f n T cn a = Ok p' /\
    modelled_path T cn phi = true /\ pread_at p phi = None /\ pread_at p' phi <> None.
Proof. exact lossy_exact_thm. Qed.
Print Assumptions C10_lossy_exact.

(* ---------- the lossy classes of the CURRENT source, concrete witnesses ---------- *)
Theorem C10_reserialise_absent_scalar_refuted :
  exists p p', wf_payload 8 table "message"%name p = true
    /\ lossy_payload 8 table "message"%name p = true
    /\ reserialise_f 8 table "message"%name p = Ok p'
    /\ modelled_path table "message"%name ["video_message"%name; "caption"%name] = true
    /\ pread_at p ["video_message"%name; "caption"%name] = None
    /\ pread_at p' ["video_message"%name; "caption"%name] = Some (VStr []).
Proof. exact reserialise_absent_scalar_refuted. Qed.
Print Assumptions C10_reserialise_absent_scalar_refuted.

Theorem C10_reserialise_absent_submessage_refuted :
  exists p p', wf_payload 8 table "message"%name p = true
    /\ lossy_payload 8 table "message"%name p = true
    /\ reserialise_f 8 table "message"%name p = Ok p'
    /\ modelled_path table "message"%name ["protocol_message"%name; "key"%name] = true
    /\ pread_at p ["protocol_message"%name; "key"%name] = None
    /\ pread_at p' ["protocol_message"%name; "key"%name] = Some (VRec "MessageKey"%name [])
    /\ pread_at p' ["protocol_message"%name; "key"%name; "id"%name] = Some (VStr []).
Proof. exact reserialise_absent_submessage_refuted. Qed.
Print Assumptions C10_reserialise_absent_submessage_refuted.

Theorem C10_payload_domain_gap_refuted :
  exists p a p', wf_payload 8 table "message"%name p = true
    /\ gap_payload 8 table "message"%name p = true
    /\ from_proto_f 8 table "message"%name p = Ok a
    /\ in_domain_f 8 table "message"%name a = false
    /\ to_proto_f 8 table "message"%name a = Ok p'
    /\ pread_at p ["document_message"%name; "file_length"%name] = None
    /\ pread_at p' ["document_message"%name; "file_length"%name] = Some (VInt 0).
Proof. exact payload_domain_gap_refuted. Qed.
Print Assumptions C10_payload_domain_gap_refuted.

(* ---------- non-vacuity ---------- *)
(* a concrete received payload with quoted messages nested two deep, mentions, a present empty
   string and a present 0.0 meets the hypotheses of the full statement *)
Theorem C10_nested_payload_meets_hypotheses :
  wf_payload 8 table "message"%name ex_nested = true
  /\ lossy_payload 8 table "message"%name ex_nested = false
  /\ modelled_path table "message"%name deep_path = true
  /\ pread_at ex_nested deep_path = Some (VStr [100%N; 101%N; 101%N; 112%N])
  /\ modelled_path table "message"%name ["location_message"%name; "name"%name] = true
  /\ pread_at ex_nested ["location_message"%name; "name"%name] = Some (VStr [])
  /\ pread_at ex_nested ["location_message"%name; "address"%name] = None.
Proof. exact nested_payload_meets_hypotheses. Qed.
Print Assumptions C10_nested_payload_meets_hypotheses.

(* no depth bound: quote chains of EVERY depth d meet the hypotheses, hence re-serialise with every
   modelled path unchanged *)
Theorem C10_quote_chain_reserialises : forall d,
  exists a p', from_proto_f (fuel3 d) table "message"%name (quote_chain d) = Ok a
    /\ to_proto_f (fuel3 d) table "message"%name a = Ok p'
    /\ forall phi, modelled_path table "message"%name phi = true ->
         pread_at p' phi = pread_at (quote_chain d) phi.
Proof. exact quote_chain_reserialises_thm. Qed.
Print Assumptions C10_quote_chain_reserialises.

(* the same three classes on a PINNED excerpt of the converter as it is today (C10Inst.v:
   unrepaired_payload_table, inside table_ok): stays valid when the source is repaired, so the
   regression is recognised if it returns *)
Theorem C10_unrepaired_payload_classes :
  table_ok unrepaired_payload_table = true
  /\ (exists p', wf_payload 8 unrepaired_payload_table "message"%name wit_absent_scalar = true
        /\ lossy_payload 8 unrepaired_payload_table "message"%name wit_absent_scalar = true
        /\ reserialise_f 8 unrepaired_payload_table "message"%name wit_absent_scalar = Ok p'
        /\ pread_at wit_absent_scalar ["video_message"%name; "caption"%name] = None
        /\ pread_at p' ["video_message"%name; "caption"%name] = Some (VStr []))
  /\ (exists p', wf_payload 8 unrepaired_payload_table "message"%name wit_absent_submessage = true
        /\ lossy_payload 8 unrepaired_payload_table "message"%name wit_absent_submessage = true
        /\ reserialise_f 8 unrepaired_payload_table "message"%name wit_absent_submessage = Ok p'
        /\ pread_at wit_absent_submessage ["protocol_message"%name; "key"%name] = None
        /\ pread_at p' ["protocol_message"%name; "key"%name; "id"%name] = Some (VStr []))
  /\ (exists a, wf_payload 8 unrepaired_payload_table "message"%name wit_gap = true
        /\ gap_payload 8 unrepaired_payload_table "message"%name wit_gap = true
        /\ from_proto_f 8 unrepaired_payload_table "message"%name wit_gap = Ok a
        /\ in_domain_f 8 unrepaired_payload_table "message"%name a = false).
Proof. exact unrepaired_payload_classes. Qed.
Print Assumptions C10_unrepaired_payload_classes.

(* ====================== edit after parse ====================== *)
(* In the model an attribute object IS its value (class name + fields): there is no place for state
   outside the modelled fields, so the statement below is true by construction; what it adds is that
   only the values the fields READ matter (first-match lookup), not the representation.  Its role is
   to be the statement the harness exercises on the implementation with objects OBTAINED BY PARSING
   (protobytes_to_message / fromProtocolTreeNode) and then edited through the real setters. *)
Theorem C10_serialise_depends_on_value_only : forall T n cn a b,
  (forall f, vget a f = vget b f) -> to_proto_f n T cn a = to_proto_f n T cn b.
Proof. exact serialise_depends_on_value_only_thm. Qed.
Print Assumptions C10_serialise_depends_on_value_only.

(* a' = the object after the assignment a.phi = v (set_path; nothing else changes).  If a' is in the
   computed domain it serialises, parses back, the result covers a'; the edited path of a' reads the
   new value and every path that parts ways with phi reads what it read in a.  (However a was obtained.) *)
Theorem C10_edit_then_roundtrip : forall T n cn a phi v,
  in_domain_f n T cn (set_path phi v a) = true ->
  exists p b, to_proto_f n T cn (set_path phi v a) = Ok p /\ from_proto_f n T cn p = Ok b
    /\ covers (set_path phi v a) b
    /\ (get_path phi a <> None -> get_path phi (set_path phi v a) = Some v)
    /\ (forall psi, diverges phi psi = true -> get_path psi (set_path phi v a) = get_path psi a).
Proof. exact edit_then_roundtrip_thm. Qed.
Print Assumptions C10_edit_then_roundtrip.

(* any number of assignments between two serialisations *)
Theorem C10_edits_then_roundtrip : forall T n cn a edits,
  in_domain_f n T cn (set_paths edits a) = true ->
  exists p b, to_proto_f n T cn (set_paths edits a) = Ok p /\ from_proto_f n T cn p = Ok b
    /\ covers (set_paths edits a) b.
Proof. exact edits_then_roundtrip_thm. Qed.
Print Assumptions C10_edits_then_roundtrip.

(* "stays in the domain": in_domain is a whole-object condition (aliased attributes equal, required
   fields set), so not every assignment keeps it; but it is compositional.  For a IN the domain and an
   assignment a.pre.g = v at any depth: if the object holding g stays in every sub-domain it was in
   (dom_le, one level; computable by dom_le_b), the edited whole object stays in the domain, hence
   serialises, parses back and is covered. *)
Theorem C10_edit_in_domain_roundtrip : forall T n cn a pre g v c0 fx,
  in_domain_f (length pre + n) T cn a = true ->
  get_path pre a = Some (VRec c0 fx) ->
  dom_le n T (VRec c0 fx) (set_path [g] v (VRec c0 fx)) ->
  exists p b, to_proto_f (length pre + n) T cn (set_path (pre ++ [g]) v a) = Ok p
    /\ from_proto_f (length pre + n) T cn p = Ok b
    /\ covers (set_path (pre ++ [g]) v a) b.
Proof. exact edit_in_domain_roundtrip_thm. Qed.
Print Assumptions C10_edit_in_domain_roundtrip.

(* non-vacuity: the object parsed from a payload (extended text quoting a conversation, mentions, a
   location with a present empty name), edited at depth 4, on a list and by un-setting a field, is
   in the domain *)
Theorem C10_edit_after_parse_meets_hypotheses :
  (get_path quoted_conv_path parsed_edit,
   in_domain_f 8 table "message"%name
     (set_paths [(quoted_conv_path, new_text);
                 (["extended_text"%name; "context_info"%name; "mentioned_jid"%name], VList [VStr [99%N]]);
                 (["location"%name; "name"%name], VNone)] parsed_edit))
  = (Some (VStr [100%N; 101%N; 101%N; 112%N]), true).
Proof. exact edit_after_parse_meets_hypotheses. Qed.
Print Assumptions C10_edit_after_parse_meets_hypotheses.
