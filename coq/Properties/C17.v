(* C17 - Contact identity keys are pinned.  Statements only; proofs are in C17/C17Proofs.v.
   The model (C17/C17Model.v) is ONE account as an input-enabled machine: `run a ins` feeds it any list of
   inputs (application sends, key-directory answers, message stanzas, receipts, restarts) carrying arbitrary
   values, so each theorem covers every history of (contact publishes keys, contact reinstalls with a new
   identity, message in either direction, restart), any number of contacts/accounts, any server schedule.
   `no_wipe` only excludes that the observed account itself reinstalls (then its own table is gone by design). *)
From YV Require Import Common.Tac C17.C17Model C17.C17Proofs.
Local Open Scope N_scope.

(* auto-trust off: once a key is remembered for c, it is the remembered key after any further history *)
Theorem C17_pin_immutable : forall a ins c k,
  a_auto a = false -> no_wipe ins ->
  lookup c (a_ids a) = Some k -> lookup c (a_ids (fst (run a ins))) = Some k.
Proof. exact pin_immutable_thm. Qed.
Print Assumptions C17_pin_immutable.

(* auto-trust off: whatever happened before (pre), every enc stanza a step emits for c was produced by a
   session state built for the identity that is the remembered key of c *)
Theorem C17_no_encrypt_to_stranger : forall auto pre i c m k sid n ident,
  auto = false -> no_wipe pre ->
  let a1 := fst (run (init auto) pre) in
  In (OMsg c m k sid n ident) (snd (step a1 i)) ->
  lookup c (a_ids (fst (step a1 i))) = Some ident.
Proof. exact no_encrypt_to_stranger_thm. Qed.
Print Assumptions C17_no_encrypt_to_stranger.

(* a key bundle presenting a different identity: exactly the per-jid error, no stanza sent, the message is not
   queued as sent, both tables untouched (in ANY state of the account, hence also after restarts) *)
Theorem C17_refused_bundle : forall a iq res c m k k' sid,
  a_auto a = false -> lookup iq (a_iqs a) = Some (KSend c m) ->
  lookup c (a_ids a) = Some k -> lookup c res = Some (k', sid) -> k' <> k ->
  snd (step a (IKeys iq res)) = [OErr c] /\
  a_ids (fst (step a (IKeys iq res))) = a_ids a /\
  a_sess (fst (step a (IKeys iq res))) = a_sess a /\
  a_sentq (fst (step a (IKeys iq res))) = a_sentq a.
Proof. exact refused_bundle_thm. Qed.
Print Assumptions C17_refused_bundle.

(* the same when the bundle was fetched to serve a retry receipt *)
Theorem C17_refused_retry_bundle : forall a iq res c m t k k' sid,
  a_auto a = false -> lookup iq (a_iqs a) = Some (KRetry c m t) ->
  lookup c (a_ids a) = Some k -> lookup c res = Some (k', sid) -> k' <> k ->
  snd (step a (IKeys iq res)) = [OErr c] /\
  a_ids (fst (step a (IKeys iq res))) = a_ids a /\
  a_sess (fst (step a (IKeys iq res))) = a_sess a.
Proof. exact refused_retry_bundle_thm. Qed.
Print Assumptions C17_refused_retry_bundle.

(* a first message (prekey message) presenting a different identity is ignored: no entity, no receipt, no
   retry, state unchanged *)
Theorem C17_refused_first_message : forall a c m e k,
  a_auto a = false -> lookup c (a_ids a) = Some k -> e_kind e = EPk -> e_ident e <> k ->
  step a (IMsg c m e) = (a, []).
Proof. exact refused_first_message_thm. Qed.
Print Assumptions C17_refused_first_message.

(* auto-trust on: the new key replaces the old one (bundle / first message); for a bundle the session is built
   for the new identity at once and the message goes out under it (repaired create_session,
   fixes/C17-autotrust-rebuild-session.patch; create_session_unrepaired_refuted keeps the witness for the code
   before the fix: "success" without any session, sendToContact then raises); the first message is delivered;
   once the new key is the remembered one a queued message is re-sent under a session built for it *)
Theorem C17_autotrust_bundle_replaces : forall a iq res c m k' sid,
  a_auto a = true -> lookup iq (a_iqs a) = Some (KSend c m) -> lookup c res = Some (k', sid) ->
  lookup c (a_ids (fst (step a (IKeys iq res)))) = Some k' /\
  snd (step a (IKeys iq res)) = [OMsg c m EPk sid 0 k'].
Proof. exact autotrust_bundle_replaces_thm. Qed.
Print Assumptions C17_autotrust_bundle_replaces.

Theorem C17_autotrust_first_message : forall a c m e,
  a_auto a = true -> e_kind e = EPk -> e_pkok e = true -> e_corrupt e = false ->
  find_state (e_sid e) (record_of a c) = None ->
  snd (step a (IMsg c m e)) = [ODeliver c m (e_payload e); OReceipt c m] /\
  lookup c (a_ids (fst (step a (IMsg c m e)))) = Some (e_ident e).
Proof. exact autotrust_first_message_thm. Qed.
Print Assumptions C17_autotrust_first_message.

Theorem C17_autotrust_resumes : forall a iq res c m k' sid,
  lookup iq (a_iqs a) = Some (KRetry c m c) -> lookup c res = Some (k', sid) ->
  lookup c (a_ids a) = Some k' ->
  snd (step a (IKeys iq res)) = [OMsg c m EPk sid 0 k'].
Proof. exact autotrust_resumes_thm. Qed.
Print Assumptions C17_autotrust_resumes.

(* the whole replace-and-resume history as observed on the (repaired) real code: contact 7 reinstalls (key 1 -> 2),
   our message 3 goes out under the old session, 7 answers with a retry receipt, the key fetch replaces the key,
   builds the session and re-sends message 3 as a prekey message under it *)
Theorem C17_autotrust_replaces_and_resumes_history :
  snd (run (init true) history_autotrust) =
  [ [OGetKeys 0 7]; [OMsg 7 1 EPk 50 0 1]; [ODeliver 7 2 2; OReceipt 7 2];
    [OMsg 7 3 EMsg 50 1 1]; [OGetKeys 1 7]; [OMsg 7 3 EPk 51 0 2] ]
  /\ lookup 7 (a_ids (fst (run (init true) history_autotrust))) = Some 2.
Proof. exact resume_history_autotrust. Qed.
Print Assumptions C17_autotrust_replaces_and_resumes_history.

(* the pin lives in the durable store: restart changes neither table nor the flag, and after
   any history containing a restart the pin is still there and still enforced *)
Theorem C17_survives_restart : forall a,
  a_ids (fst (step a IRestart)) = a_ids a /\ a_sess (fst (step a IRestart)) = a_sess a /\
  a_auto (fst (step a IRestart)) = a_auto a.
Proof. exact survives_restart_thm. Qed.
Print Assumptions C17_survives_restart.

Theorem C17_pin_enforced_after_restart : forall a ins1 ins2 c k,
  a_auto a = false -> no_wipe ins1 -> no_wipe ins2 ->
  lookup c (a_ids (fst (run a ins1))) = Some k ->
  let a' := fst (run a (ins1 ++ IRestart :: ins2)) in
  lookup c (a_ids a') = Some k /\ a_auto a' = false /\
  (forall m e, e_kind e = EPk -> e_ident e <> k -> step a' (IMsg c m e) = (a', [])).
Proof. exact pin_enforced_after_restart_thm. Qed.
Print Assumptions C17_pin_enforced_after_restart.
