(* C17 - Contact identity keys are pinned.  Statements only; proofs are in C17/C17Proofs.v.
   The model (C17/C17Model.v) is ONE account as an input-enabled machine: `run a ins` feeds it any list of
   inputs (application sends, key-directory answers, message stanzas, receipts, identity-change notifications,
   restarts) carrying arbitrary values, so each theorem covers every history of (contact publishes keys, contact
   reinstalls with a new identity, message in either direction, server announces an identity change, restart), any
   number of contacts/accounts, any server schedule.
   `no_wipe` only excludes that the observed account itself reinstalls (then its own table is gone by design).
   Durability is explicit: a_ids/a_sess are the tables as the process's sqlite connection sees them, a_dids/a_dsess
   the COMMITTED tables; IRestart = the process ends (open transaction rolled back) and a new one reads the committed
   tables.  `durable a` (committed = working) holds in every reachable state (C17_reachable_durable) and is the
   hypothesis of the theorems stated for an arbitrary state a. *)
From YV Require Import Common.Tac C17.C17Model C17.C17Proofs.
Local Open Scope N_scope.

(* auto-trust off: once a key is remembered for c, it is the remembered key after any further history *)
Theorem C17_pin_immutable : forall a ins c k,
  a_auto a = false -> durable a -> no_wipe ins ->
  lookup c (a_ids a) = Some k -> lookup c (a_ids (fst (run a ins))) = Some k.
Proof. exact pin_immutable_thm. Qed.
Print Assumptions C17_pin_immutable.

(* auto-trust off: whatever happened before (pre: any inputs incl. restarts, but no kill - see the note on kills
   below and C17_no_encrypt_to_stranger_with_kill_refuted), every enc stanza a step emits for c was produced by a
   session state built for the identity that is the remembered key of c *)
Theorem C17_no_encrypt_to_stranger : forall auto pre i c m k sid n ident,
  auto = false -> no_wipe pre -> no_kill pre ->
  let a1 := fst (run (init auto) pre) in
  In (OMsg c m k sid n ident) (snd (step a1 i)) ->
  lookup c (a_ids (fst (step a1 i))) = Some ident.
Proof. exact no_encrypt_to_stranger_thm. Qed.
Print Assumptions C17_no_encrypt_to_stranger.

(* a key bundle presenting a different identity: exactly the per-jid error, no stanza sent, the message is not
   queued as sent, both tables untouched (in ANY state of the account, hence also after restarts) *)
Theorem C17_refused_bundle : forall a iq res c m k k' sid,
  a_auto a = false -> lookup iq (a_iqs a) = Some (KSend c m) ->
  lookup c (a_ids a) = Some k -> lookup c res = Some (k', sid) -> k' <> k ->
  snd (step a (IKeys iq res)) = [OErr c] /\
  a_ids (fst (step a (IKeys iq res))) = a_ids a /\
  a_sess (fst (step a (IKeys iq res))) = a_sess a /\
  a_sentq (fst (step a (IKeys iq res))) = a_sentq a.
Proof. exact refused_bundle_thm. Qed.
Print Assumptions C17_refused_bundle.

(* the same when the bundle was fetched to serve a retry receipt *)
Theorem C17_refused_retry_bundle : forall a iq res c m t k k' sid,
  a_auto a = false -> lookup iq (a_iqs a) = Some (KRetry c m t) ->
  lookup c (a_ids a) = Some k -> lookup c res = Some (k', sid) -> k' <> k ->
  snd (step a (IKeys iq res)) = [OErr c] /\
  a_ids (fst (step a (IKeys iq res))) = a_ids a /\
  a_sess (fst (step a (IKeys iq res))) = a_sess a.
Proof. exact refused_retry_bundle_thm. Qed.
Print Assumptions C17_refused_retry_bundle.

(* a first message (prekey message) presenting a different identity is ignored: no entity, no receipt, no
   retry, state unchanged *)
Theorem C17_refused_first_message : forall a c m e k,
  a_auto a = false -> lookup c (a_ids a) = Some k -> e_kind e = EPk -> e_ident e <> k ->
  step a (IMsg c m e) = (a, []).
Proof. exact refused_first_message_thm. Qed.
Print Assumptions C17_refused_first_message.

(* auto-trust on: the new key replaces the old one (bundle / first message); for a bundle the session is built
   for the new identity at once and the message goes out under it (repaired create_session,
   fixes/C17-autotrust-rebuild-session.patch; create_session_unrepaired_refuted keeps the witness for the code
   before the fix: "success" without any session, sendToContact then raises); the first message is delivered;
   once the new key is the remembered one a queued message is re-sent under a session built for it *)
Theorem C17_autotrust_bundle_replaces : forall a iq res c m k' sid,
  a_auto a = true -> lookup iq (a_iqs a) = Some (KSend c m) -> lookup c res = Some (k', sid) ->
  lookup c (a_ids (fst (step a (IKeys iq res)))) = Some k' /\
  snd (step a (IKeys iq res)) = [OMsg c m EPk sid 0 k'].
Proof. exact autotrust_bundle_replaces_thm. Qed.
Print Assumptions C17_autotrust_bundle_replaces.

Theorem C17_autotrust_first_message : forall a c m e,
  a_auto a = true -> e_kind e = EPk -> e_pkok e = true -> e_corrupt e = false ->
  find_state (e_sid e) (record_of a c) = None ->
  snd (step a (IMsg c m e)) = [ODeliver c m (e_payload e); OReceipt c m] /\
  lookup c (a_ids (fst (step a (IMsg c m e)))) = Some (e_ident e).
Proof. exact autotrust_first_message_thm. Qed.
Print Assumptions C17_autotrust_first_message.

Theorem C17_autotrust_resumes : forall a iq res c m k' sid,
  lookup iq (a_iqs a) = Some (KRetry c m c) -> lookup c res = Some (k', sid) ->
  lookup c (a_ids a) = Some k' ->
  snd (step a (IKeys iq res)) = [OMsg c m EPk sid 0 k'].
Proof. exact autotrust_resumes_thm. Qed.
Print Assumptions C17_autotrust_resumes.

(* the whole replace-and-resume history as observed on the (repaired) real code: contact 7 reinstalls (key 1 -> 2),
   our message 3 goes out under the old session, 7 answers with a retry receipt, the key fetch replaces the key,
   builds the session and re-sends message 3 as a prekey message under it *)
Theorem C17_autotrust_replaces_and_resumes_history :
  snd (run (init true) history_autotrust) =
  [ [OGetKeys 0 7]; [OMsg 7 1 EPk 50 0 1]; [ODeliver 7 2 2; OReceipt 7 2];
    [OMsg 7 3 EMsg 50 1 1]; [OGetKeys 1 7]; [OMsg 7 3 EPk 51 0 2] ]
  /\ lookup 7 (a_ids (fst (run (init true) history_autotrust))) = Some 2.
Proof. exact resume_history_autotrust. Qed.
Print Assumptions C17_autotrust_replaces_and_resumes_history.

(* the identity-change `encrypt` notification about contact c: acked, c's keys requested, no table touched *)
Theorem C17_notify_fetches_keys : forall a c m,
  snd (step a (INotify c m)) = [ONotifAck c m; OGetKeys (a_iqctr a) c] /\
  lookup (a_iqctr a) (a_iqs (fst (step a (INotify c m)))) = Some (KNotify c) /\
  a_ids (fst (step a (INotify c m))) = a_ids a /\ a_sess (fst (step a (INotify c m))) = a_sess a.
Proof. exact notify_fetches_keys_thm. Qed.
Print Assumptions C17_notify_fetches_keys.

(* ... on the key answer the bundle is processed and nothing is sent: a trusted (unknown or equal) identity is
   remembered - also in the COMMITTED table -, the session is built on top of the old record *)
Theorem C17_notify_bundle_pins : forall a iq res c k sid,
  lookup iq (a_iqs a) = Some (KNotify c) -> lookup c res = Some (k, sid) -> trusted (a_ids a) c k = true ->
  let a' := fst (step a (IKeys iq res)) in
  snd (step a (IKeys iq res)) = [] /\
  lookup c (a_ids a') = Some k /\ lookup c (a_dids a') = Some k /\
  record_of a' c = new_state sid k true :: record_of a c /\ durable a'.
Proof. exact notify_bundle_pins_thm. Qed.
Print Assumptions C17_notify_bundle_pins.

(* ... and a different identity (auto-trust off) changes nothing at all: no output, every table as before, only
   the answered request is forgotten *)
Theorem C17_refused_notify_bundle : forall a iq res c k k' sid,
  a_auto a = false -> lookup iq (a_iqs a) = Some (KNotify c) ->
  lookup c (a_ids a) = Some k -> lookup c res = Some (k', sid) -> k' <> k ->
  step a (IKeys iq res) = (set_iqs a (remove_key iq (a_iqs a)) (a_iqctr a), []).
Proof. exact refused_notify_bundle_thm. Qed.
Print Assumptions C17_refused_notify_bundle.

(* the pin lives in the durable store.  Every state reachable by ANY history (any inputs in any order, own reinstalls
   included; whichever path saved an identity: bundle fetched for a send, for a retry, after an identity-change
   notification, for a parked message of the no-session receive path whose decryption then fails, first message
   that then fails to verify, auto-trust) has everything it works with committed ... *)
Theorem C17_reachable_durable : forall auto ins, durable (fst (run (init auto) ins)).
Proof. exact reachable_durable_thm. Qed.
Print Assumptions C17_reachable_durable.

(* ... so after any history a restart changes neither table nor the flag: every identity the account has
   remembered is still remembered after the restart *)
Theorem C17_survives_restart : forall auto ins,
  let a := fst (run (init auto) ins) in
  a_ids (fst (step a IRestart)) = a_ids a /\ a_sess (fst (step a IRestart)) = a_sess a /\
  a_auto (fst (step a IRestart)) = a_auto a.
Proof. exact survives_restart_thm. Qed.
Print Assumptions C17_survives_restart.

Theorem C17_remembered_survives_restart : forall auto ins c k,
  let a := fst (run (init auto) ins) in
  lookup c (a_ids a) = Some k -> lookup c (a_ids (fst (run (init auto) (ins ++ [IRestart])))) = Some k.
Proof. exact remembered_survives_restart_thm. Qed.
Print Assumptions C17_remembered_survives_restart.

(* the same on one state (the statement this file had before durability was made explicit, now with its hypothesis) *)
Theorem C17_restart_of_durable : forall a, durable a ->
  a_ids (fst (step a IRestart)) = a_ids a /\ a_sess (fst (step a IRestart)) = a_sess a /\
  a_auto (fst (step a IRestart)) = a_auto a /\ durable (fst (step a IRestart)).
Proof. exact restart_of_durable_thm. Qed.
Print Assumptions C17_restart_of_durable.

(* a key remembered after ins1 (by whichever input of ins1) is, after a restart and any further history ins2, still
   the remembered key, and still enforced: a first message, a bundle fetched for a send and a bundle fetched after
   a notification that present another identity are refused *)
Theorem C17_pin_enforced_after_restart : forall a ins1 ins2 c k,
  a_auto a = false -> durable a -> no_wipe ins1 -> no_wipe ins2 ->
  lookup c (a_ids (fst (run a ins1))) = Some k ->
  let a' := fst (run a (ins1 ++ IRestart :: ins2)) in
  lookup c (a_ids a') = Some k /\ a_auto a' = false /\
  (forall m e, e_kind e = EPk -> e_ident e <> k -> step a' (IMsg c m e) = (a', [])) /\
  (forall iq res m k' sid, lookup iq (a_iqs a') = Some (KSend c m) -> lookup c res = Some (k', sid) -> k' <> k ->
     snd (step a' (IKeys iq res)) = [OErr c]) /\
  (forall iq res k' sid, lookup iq (a_iqs a') = Some (KNotify c) -> lookup c res = Some (k', sid) -> k' <> k ->
     step a' (IKeys iq res) = (set_iqs a' (remove_key iq (a_iqs a')) (a_iqctr a'), [])).
Proof. exact pin_enforced_after_restart_thm. Qed.
Print Assumptions C17_pin_enforced_after_restart.

(* non-vacuity, computed: notification -> bundle (key 1) -> restart -> reinstall of the contact (key 2): retry bundle
   refused with the per-jid error, first message ignored, second notification's bundle changes nothing; key 1 stays
   and the only session state is the one built for key 1 *)
Theorem C17_notify_restart_history :
  snd (run (init false) history_notify) =
  [ [ONotifAck 7 1; OGetKeys 0 7]; []; [];
    [OMsg 7 2 EPk 50 0 1]; [OGetKeys 1 7]; [OErr 7];
    [];
    [ONotifAck 7 4; OGetKeys 2 7]; [] ]
  /\ lookup 7 (a_ids (fst (run (init false) history_notify))) = Some 1
  /\ map s_ident (record_of (fst (run (init false) history_notify)) 7) = [1].
Proof. exact notify_history_no_autotrust. Qed.
Print Assumptions C17_notify_restart_history.

(* the no-session receive path: parked message, bundle (key 1), the parked message fails to decrypt (retry), restart,
   first message presenting key 2 ignored *)
Theorem C17_nosession_restart_history :
  snd (run (init false) history_nosession) = [ [OGetKeys 0 7]; [ORetry 7 1 1]; []; [] ]
  /\ lookup 7 (a_ids (fst (run (init false) history_nosession))) = Some 1.
Proof. exact nosession_history_no_autotrust. Qed.
Print Assumptions C17_nosession_restart_history.

(* REFUTED for the variant in which saveIdentity does not commit (seeded defect C17-2; processPreKeyBundle stores
   the session first and saves the identity last): the pin is there inside the process, is lost by a restart while
   the session survives, and another identity is then taken from a bundle with auto-trust off *)
Theorem C17_saveIdentity_without_commit_refuted :
  exists a c k sid,
    a_auto a = false /\ durable a /\ trusted (a_ids a) c k = true /\
    let a1 := build_session_nocommit a c k sid in
    lookup c (a_ids a1) = Some k /\ ~ durable a1 /\
    lookup c (a_ids (restart a1)) = None /\ session_exists (restart a1) c = true /\
    exists k' sid', k' <> k /\
      let a2 := fst (step (restart a1) (INotify c 9)) in
      lookup c (a_ids (fst (step a2 (IKeys (a_iqctr (restart a1)) [(c, (k', sid'))])))) = Some k' /\
      let b1 := restart (build_session a c k sid) in
      let b2 := fst (step b1 (INotify c 9)) in
      lookup c (a_ids (fst (step b2 (IKeys (a_iqctr b1) [(c, (k', sid'))])))) = Some k.
Proof. exact saveIdentity_without_commit_refuted. Qed.
Print Assumptions C17_saveIdentity_without_commit_refuted.

(* two contacts may hold the SAME identity key (the table is a map contact -> key; all theorems above quantify over
   all key values, equal ones included).  Made explicit: no single input - a bundle or first message of another
   contact presenting the very key remembered for c included - changes the remembered key of c *)
Theorem C17_shared_key_pin_kept : forall a i c k,
  a_auto a = false -> durable a -> i <> IWipe ->
  lookup c (a_ids a) = Some k -> lookup c (a_ids (fst (step a i))) = Some k.
Proof. exact shared_key_pin_kept_thm. Qed.
Print Assumptions C17_shared_key_pin_kept.

(* non-vacuity, computed: contacts 7 and 8 both remembered with key 1 (bundle / first message), restart, 7 changes to
   key 2 (retry bundle refused, first message ignored), 8 still talks to us, then 8 changes to key 3 (first message
   ignored): both pins stay at key 1 *)
Theorem C17_shared_key_history :
  snd (run (init false) history_shared_key) =
  [ [OGetKeys 0 7]; [OMsg 7 1 EPk 50 0 1];
    [ODeliver 8 2 2; OReceipt 8 2];
    [];
    [OMsg 7 3 EPk 50 1 1]; [OGetKeys 1 7]; [OErr 7];
    [];
    [ODeliver 8 5 5; OReceipt 8 5];
    [] ]
  /\ lookup 7 (a_ids (fst (run (init false) history_shared_key))) = Some 1
  /\ lookup 8 (a_ids (fst (run (init false) history_shared_key))) = Some 1.
Proof. exact shared_key_history_no_autotrust. Qed.
Print Assumptions C17_shared_key_history.

(* REFUTED for the variant whose save also deletes the rows of other contacts with the same key (seeded defect
   C17-4): the other contact becomes unknown and any identity is trusted for it *)
Theorem C17_save_identity_exclusive_refuted :
  exists ids c c0 k k',
    c <> c0 /\ k' <> k /\ lookup c0 ids = Some k /\ trusted ids c0 k' = false /\
    lookup c0 (save_identity_exclusive ids c k) = None /\ trusted (save_identity_exclusive ids c k) c0 k' = true /\
    lookup c0 (save_identity ids c k) = Some k /\ trusted (save_identity ids c k) c0 k' = false.
Proof. exact save_identity_exclusive_refuted. Qed.
Print Assumptions C17_save_identity_exclusive_refuted.

(* ---- kills at a write boundary.  IKill k n = the process is killed while it handles the store-writing input k
   (application send, key answer, message), after the n-th commit of that handling, and a new process starts over
   the durable state the file had at that moment (C17Model.durable_states: the state before the input, then one per
   commit - a transaction not committed is rolled back when the database is opened again, so these are ALL the
   states a kill at a statement or commit boundary can leave behind).  `run`, hence C17_pin_immutable,
   C17_pin_enforced_after_restart, C17_reachable_durable, C17_survives_restart above, quantify over histories that
   contain such kills in any number, at any input and any boundary.
   NOT claimed with kills: C17_no_encrypt_to_stranger (hypothesis no_kill) - python-axolotl stores the session first
   and saves the identity last, in two transactions; a kill between them at FIRST contact leaves a session whose
   identity is not remembered (witness: C17Proofs.no_encrypt_to_stranger_with_kill_refuted).  The harness kills only
   inside inputs about contacts that are already pinned. ---- *)

(* saveIdentity takes the store through exactly one new durable state, the one holding the new row: its DELETE and
   INSERT share a transaction, the contact is never without a row; other contacts' rows are untouched *)
Theorem C17_store_identity_two_states : forall a c k,
  a_log (store_identity a c k) = (save_identity (a_ids a) c k, a_sess a) :: a_log a /\
  lookup c (save_identity (a_ids a) c k) = Some k /\
  (forall c0, c <> c0 -> lookup c0 (save_identity (a_ids a) c k) = lookup c0 (a_ids a)).
Proof. exact store_identity_two_states_thm. Qed.
Print Assumptions C17_store_identity_two_states.

(* every durable state the store passes through while any store-writing input is handled still holds every
   remembered key (auto-trust off) *)
Theorem C17_kill_states_keep_pins : forall a k c key d,
  a_auto a = false -> durable a -> lookup c (a_ids a) = Some key ->
  In d (durable_states a k) -> lookup c (fst d) = Some key.
Proof. exact kill_states_keep_pins_thm. Qed.
Print Assumptions C17_kill_states_keep_pins.

(* for every history with restarts and kills at any write boundary the pin theorems still hold: the remembered key
   stays, the flag stays, the state is durable, and another identity is refused (first message / bundle for a send /
   bundle after a notification) *)
Theorem C17_pin_survives_kill : forall a ins c key,
  a_auto a = false -> durable a -> no_wipe ins ->
  lookup c (a_ids a) = Some key ->
  let a' := fst (run a ins) in
  lookup c (a_ids a') = Some key /\ a_auto a' = false /\ durable a' /\
  (forall m e, e_kind e = EPk -> e_ident e <> key -> step a' (IMsg c m e) = (a', [])) /\
  (forall iq res m k' sid, lookup iq (a_iqs a') = Some (KSend c m) -> lookup c res = Some (k', sid) -> k' <> key ->
     snd (step a' (IKeys iq res)) = [OErr c]) /\
  (forall iq res k' sid, lookup iq (a_iqs a') = Some (KNotify c) -> lookup c res = Some (k', sid) -> k' <> key ->
     step a' (IKeys iq res) = (set_iqs a' (remove_key iq (a_iqs a')) (a_iqctr a'), [])).
Proof. exact pin_survives_kill_thm. Qed.
Print Assumptions C17_pin_survives_kill.

Theorem C17_kill_keeps_pin : forall a k n c key,
  a_auto a = false -> durable a -> lookup c (a_ids a) = Some key ->
  lookup c (a_ids (fst (step a (IKill k n)))) = Some key /\ durable (fst (step a (IKill k n))) /\
  a_auto (fst (step a (IKill k n))) = false.
Proof. exact kill_keeps_pin_thm. Qed.
Print Assumptions C17_kill_keeps_pin.

(* non-vacuity, computed: pinned contact 7, bundle fetched again after a notification, process killed after the session
   store's commit and before saveIdentity's; all three durable states of that input hold key 1; afterwards the retry
   bundle with key 2 is refused and the first message with key 2 ignored *)
Theorem C17_kill_history :
  snd (run (init false) history_kill) =
  [ [OGetKeys 0 7]; [OMsg 7 1 EPk 50 0 1]; [ODeliver 7 2 2; OReceipt 7 2];
    [ONotifAck 7 3; OGetKeys 1 7]; [];
    [OMsg 7 4 EPk 51 0 1]; [OGetKeys 2 7]; [OErr 7];
    [] ]
  /\ lookup 7 (a_ids (fst (run (init false) history_kill))) = Some 1
  /\ map (fun d => lookup 7 (fst d))
         (durable_states (fst (run (init false) (firstn 4 history_kill))) (KiKeys 1 [(7, (1, 51))]))
     = [Some 1; Some 1; Some 1].
Proof. exact kill_history_no_autotrust. Qed.
Print Assumptions C17_kill_history.

(* REFUTED for the variant whose saveIdentity is not atomic (DELETE and INSERT durable separately, seeded defect
   C17-6): the store passes through a state without a row for the contact, and a process reborn from it takes
   another identity from a bundle with auto-trust off; all three durable states of the code as it is hold the key *)
Theorem C17_save_identity_nonatomic_refuted :
  exists a c k k' sid,
    a_auto a = false /\ durable a /\ lookup c (a_ids a) = Some k /\ k' <> k /\
    let d := nth 1 (save_identity_nonatomic_states a c k) (a_dids a, a_dsess a) in
    lookup c (fst d) = None /\
    let b := reborn a d in
    let b1 := fst (step b (INotify c 9)) in
    lookup c (a_ids (fst (step b1 (IKeys (a_iqctr b) [(c, (k', sid))])))) = Some k' /\
    Forall (fun d => lookup c (fst d) = Some k) (durable_states a (KiKeys 1 [(c, (k, sid))])) /\
    length (durable_states a (KiKeys 1 [(c, (k, sid))])) = 3%nat.
Proof. exact save_identity_nonatomic_refuted. Qed.
Print Assumptions C17_save_identity_nonatomic_refuted.

(* REFUTED: C17_no_encrypt_to_stranger without its no_kill hypothesis (kill between storeSession and saveIdentity at
   first contact) *)
Theorem C17_no_encrypt_to_stranger_with_kill_refuted :
  exists pre i c m k sid n ident,
    no_wipe pre /\ In (OMsg c m k sid n ident) (snd (step (fst (run (init false) pre)) i)) /\
    lookup c (a_ids (fst (step (fst (run (init false) pre)) i))) = None.
Proof. exact no_encrypt_to_stranger_with_kill_refuted. Qed.
Print Assumptions C17_no_encrypt_to_stranger_with_kill_refuted.

(* ---- read fault during the trust decision.  IReadFault k = input k (key answer, message) arrives while the
   identities table cannot be read (database locked past the busy timeout).  Every lookup of that table precedes every
   store write of the handling and the code lets the OperationalError leave the stack: the handling aborts. ---- *)

(* fails closed: no output; both tables, as the process sees them and as committed, the flag, the sent queue, the parked
   messages and the retry counters are what they were; no key request appears (the answered one is forgotten) *)
Theorem C17_read_fault_fails_closed : forall a k,
  let a' := fst (step a (IReadFault k)) in
  snd (step a (IReadFault k)) = [] /\
  a_ids a' = a_ids a /\ a_sess a' = a_sess a /\ a_dids a' = a_dids a /\ a_dsess a' = a_dsess a /\
  a_auto a' = a_auto a /\ a_sentq a' = a_sentq a /\ a_pend a' = a_pend a /\ a_retries a' = a_retries a /\
  (forall iq x, lookup iq (a_iqs a') = Some x -> lookup iq (a_iqs a) = Some x).
Proof. exact read_fault_fails_closed_thm. Qed.
Print Assumptions C17_read_fault_fails_closed.

(* histories with read faults (run ranges over all inputs: also restarts and kills): the remembered key stays;
   C17_pin_survives_kill above gives the refusals in the final state *)
Theorem C17_read_fault_keeps_pin : forall a ins c key,
  a_auto a = false -> durable a -> no_wipe ins -> lookup c (a_ids a) = Some key ->
  lookup c (a_ids (fst (run a ins))) = Some key.
Proof. exact read_fault_keeps_pin_thm. Qed.
Print Assumptions C17_read_fault_keeps_pin.

(* non-vacuity, computed: pinned contact reinstalls; its bundle arrives under a read fault (nothing happens), then
   readable (per-jid error); its first message arrives under a read fault and then readable (ignored both times) *)
Theorem C17_read_fault_history :
  snd (run (init false) history_read_fault) =
  [ [OGetKeys 0 7]; [OMsg 7 1 EPk 50 0 1]; [ODeliver 7 2 2; OReceipt 7 2];
    [OMsg 7 3 EMsg 50 1 1]; [OGetKeys 1 7]; [];
    [OMsg 7 4 EMsg 50 2 1]; [OGetKeys 2 7]; [OErr 7];
    []; []; [] ]
  /\ lookup 7 (a_ids (fst (run (init false) history_read_fault))) = Some 1
  /\ map s_ident (record_of (fst (run (init false) history_read_fault)) 7) = [1].
Proof. exact read_fault_history_no_autotrust. Qed.
Print Assumptions C17_read_fault_history.

(* REFUTED for the variant that reads a failed lookup as "contact never seen" = trusted (seeded defect C17-11): the
   bundle of a pinned contact with another identity is processed like a first contact's, auto-trust off *)
Theorem C17_read_fault_trusted_refuted :
  exists a c k k' sid iq,
    a_auto a = false /\ durable a /\ lookup c (a_ids a) = Some k /\ k' <> k /\ lookup iq (a_iqs a) = Some (KNotify c) /\
    trusted (a_ids a) c k' = false /\ trusted_when_unreadable (a_ids a) c k' = true /\
    lookup c (a_dids (build_session a c k' sid)) = Some k' /\
    map s_ident (record_of (build_session a c k' sid) c) = [k'; k] /\
    lookup c (a_ids (fst (step a (IReadFault (KiKeys iq [(c, (k', sid))]))))) = Some k /\
    lookup c (a_ids (fst (step a (IKeys iq [(c, (k', sid))])))) = Some k.
Proof. exact read_fault_trusted_refuted. Qed.
Print Assumptions C17_read_fault_trusted_refuted.
