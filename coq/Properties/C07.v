(* C07 — mandatory acknowledgements are sent exactly once and match the stanza.  Statements
   only; proofs in C07/C07Proofs.v over the dispatch model of C06 (C06/C06Dispatch.v).  Every
   theorem holds for all feature vectors with the given tag (all type strings, children, ids,
   JIDs, participants), all 16 module selections, with and without the encryption layers, and
   every iq registry.  acks / receipts / answers project what reaches the bottom of the stack. *)
From YV Require Import C06.C06Base C06.C06Dispatch C06.C06Kinds Gen.C06Layers Gen.C06HandleMaps
                       C07.C07Proofs.

Theorem C07_notification_ack : forall c ax st n,
  f_tag n = "notification" -> picture_rejected n = false ->
  let a := stack_recv repaired c ax st n in
  acks a = [SAck (f_id n) "notification" (nz (f_type n)) (f_from n) (nz (f_participant n))] /\
  answers a = [SAck (f_id n) "notification" (nz (f_type n)) (f_from n) (nz (f_participant n))] /\
  raises a = 0.
Proof. exact notification_ack_thm. Qed.
Print Assumptions C07_notification_ack.

(* the code before fixes/C07-encrypt-ack-participant.patch: the participant is lost *)
Theorem C07_notification_ack_unrepaired_refuted : exists c st n,
  f_tag n = "notification" /\ picture_rejected n = false /\
  acks (stack_recv unrepaired c true st n) <> [notification_ack n].
Proof. exact notification_ack_unrepaired_refuted. Qed.
Print Assumptions C07_notification_ack_unrepaired_refuted.

Theorem C07_call : forall c ax st n, f_tag n = "call" ->
  let a := stack_recv repaired c ax st n in
  ups a = ["CallProtocolEntity"] /\ raises a = 0 /\
  answers a = (if has_child n "offer"
               then [SReceipt (f_id n) (f_from n) None None (nz (child_callid n "offer"))]
               else [SAck (f_id n) "call" None (f_from n) None]).
Proof. exact call_thm. Qed.
Print Assumptions C07_call.

Theorem C07_ping : forall c ax st n, f_tag n = "iq" -> oeq (f_xmlns n) "urn:xmpp:ping" = true ->
  unregistered st n -> (oeq (f_type n) "result" && has_child n "sync") = false ->
  let a := stack_recv repaired c ax st n in
  answers a = [SPong (f_id n) "s.whatsapp.net" "w:p"] /\ ups a = [] /\ raises a = 0.
Proof. exact ping_thm. Qed.
Print Assumptions C07_ping.

(* ... and without any hypothesis on the registry when the ping is what the server sends, a request (type get / set):
   a request pending under the very id the ping carries has no say -- exactly one pong with that id *)
Theorem C07_server_ping_whatever_is_pending : forall c ax st n, f_tag n = "iq" ->
  oeq (f_xmlns n) "urn:xmpp:ping" = true -> oeq (f_type n) "result" = false -> oeq (f_type n) "error" = false ->
  let a := stack_recv repaired c ax st n in
  answers a = [SPong (f_id n) "s.whatsapp.net" "w:p"] /\ ups a = [] /\ raises a = 0.
Proof. exact ping_whatever_is_pending_thm. Qed.
Print Assumptions C07_server_ping_whatever_is_pending.

(* the property for messages at full strength: every well-formed message that is not presentable and is not a
   pure key distribution (the pkmsg part of a group message, skdm_only) gets exactly one receipt, nothing reaches
   the application, nothing raises.  (Until the fix recorded in known_findings/C07.json the theorem needed
   f_skdm = false; the witness of the unrepaired code is kept below.) *)
Theorem C07_unsupported_message : forall c ax st n,
  f_tag n = "message" -> wf_message n = true -> presentable n = false -> skdm_only n = false ->
  (match f_mediatype n with Some _ => fl_media c | None => true end) = true ->
  let a := stack_recv repaired c ax st n in
  receipts a = [SReceipt (f_id n) (f_from n) (nz (f_participant n))
                         (match f_mediatype n with Some _ => Some "read" | None => None end) None] /\
  answers a = receipts a /\ ups a = [] /\ raises a = 0.
Proof. exact unsupported_message_thm. Qed.
Print Assumptions C07_unsupported_message.

(* ... and the pure key distribution itself gets nothing at all, text and media alike *)
Theorem C07_key_distribution_only_silent : forall c ax st n,
  f_tag n = "message" -> wf_message n = true -> skdm_only n = true ->
  f_conv n = false -> f_ext n = false ->
  stack_recv repaired c ax st n = [].
Proof. exact skdm_only_silent_thm. Qed.
Print Assumptions C07_key_distribution_only_silent.

Theorem C07_media_off_silent : forall c ax st n,
  f_tag n = "message" -> wf_message n = true -> fl_media c = false ->
  (match f_mediatype n with Some _ => true | None => false end) = true ->
  stack_recv repaired c ax st n = [].
Proof. exact media_off_silent_thm. Qed.
Print Assumptions C07_media_off_silent.

(* repaired finding, witness of the unrepaired messages layer: key distribution + unpresentable content -> no receipt *)
Theorem C07_unsupported_with_skdm_refuted : exists c n,
  f_tag n = "message" /\ wf_message n = true /\ presentable n = false /\ skdm_only n = false /\
  answers (stack_recv unrepaired_text c false [] n) = [].
Proof. exact unsupported_with_skdm_refuted. Qed.
Print Assumptions C07_unsupported_with_skdm_refuted.

(* ---- histories: the duty is per stanza, whatever was received before (same id again, same stanza again, another
   sender with the same id): position k of ANY stanza sequence, any starting registry *)
Theorem C07_notification_ack_history : forall ns c ax st k n,
  nth_error ns k = Some n -> f_tag n = "notification" -> picture_rejected n = false ->
  exists a, nth_error (run_recvs repaired c ax st ns) k = Some a /\
            acks a = [notification_ack n] /\ answers a = [notification_ack n] /\ raises a = 0.
Proof. exact notification_ack_history_thm. Qed.
Print Assumptions C07_notification_ack_history.

Theorem C07_call_history : forall ns c ax st k n,
  nth_error ns k = Some n -> f_tag n = "call" ->
  exists a, nth_error (run_recvs repaired c ax st ns) k = Some a /\
    ups a = ["CallProtocolEntity"] /\ raises a = 0 /\
    answers a = (if has_child n "offer"
                 then [SReceipt (f_id n) (f_from n) None None (nz (child_callid n "offer"))]
                 else [SAck (f_id n) "call" None (f_from n) None]).
Proof. exact call_history_thm. Qed.
Print Assumptions C07_call_history.

Theorem C07_unsupported_message_history : forall ns c ax st k n,
  nth_error ns k = Some n ->
  f_tag n = "message" -> wf_message n = true -> presentable n = false -> skdm_only n = false ->
  (match f_mediatype n with Some _ => fl_media c | None => true end) = true ->
  exists a, nth_error (run_recvs repaired c ax st ns) k = Some a /\
    receipts a = [SReceipt (f_id n) (f_from n) (nz (f_participant n))
                           (match f_mediatype n with Some _ => Some "read" | None => None end) None] /\
    answers a = receipts a /\ ups a = [] /\ raises a = 0.
Proof. exact unsupported_message_history_thm. Qed.
Print Assumptions C07_unsupported_message_history.
