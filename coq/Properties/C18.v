(* C18 — Stack assembly and event propagation.  Statements only; proofs are in coq/C18/.
   Layers are tags (`lid`); what a layer does with an event (`cs`, its consumers) or a datum
   (`h`, an arbitrary handler) is universally quantified.  No bound on depth or width.       *)
From YV Require Import Common.Tac C18.C18Model C18.C18ProofsWiring C18.C18ProofsEvents
  C18.C18ProofsData Gen.C18Layers C18.C18Defaults C18.C18ProofsDefaults.

Local Open Scope nat_scope.

(* ---- assembly: YowStack(spec, reversed) for every spec ---- *)

(* A spec with a non-layer is refused (ValueError); every other spec — classes, instances,
   tuples (implicit groups), explicit YowParallelLayer, either order convention — gives the
   instances of `layout` (given order, or reversed; group members always in tuple order), each
   wired to exactly its neighbours, each with the stack set. *)
Theorem C18_wiring : forall reversed spec,
  (In Bad spec -> construct reversed spec = None) /\
  (~ In Bad spec -> exists ws,
      construct reversed spec = Some ws /\
      slots ws = layout reversed spec /\
      flat (slots ws) = flat_map item_members (if reversed then rev spec else spec) /\
      well_wired ws /\
      Forall (fun w => w_stack w = true) ws).
Proof. exact wiring_thm. Qed.
Print Assumptions C18_wiring.

(* Following the stored upper (lower) references from instance i visits exactly the instances
   above (below) it, nearest first. *)
Theorem C18_chains : forall ws i, well_wired ws -> i < length ws ->
  above ws i = skipn (S i) (slots ws) /\ below ws i = rev (firstn i (slots ws)).
Proof. exact chains_thm. Qed.
Print Assumptions C18_chains.

(* addPostConstructLayer: IndexError below two instances, otherwise a new top, wiring intact *)
Theorem C18_add_post : forall ws l,
  well_wired ws ->
  (length ws < 2 -> add_post ws l = None) /\
  (2 <= length ws -> exists ws',
      add_post ws l = Some ws' /\ slots ws' = slots ws ++ [Plain l] /\ well_wired ws').
Proof. exact add_post_thm. Qed.
Print Assumptions C18_add_post.

(* builder: pushes in order, push+pop cancels, pushDefaultLayers appends the defaults,
   build = YowStack(layers, reversed = False), pop on an empty builder is harmless *)
Theorem C18_builder : forall defaults,
  (forall its, builder_layers defaults (map BPush its) = its) /\
  (forall ops it, builder_layers defaults (ops ++ [BPush it; BPop]) = builder_layers defaults ops) /\
  (forall ops, builder_layers defaults (ops ++ [BPushDefaults]) =
               builder_layers defaults ops ++ defaults) /\
  (forall ops it, builder_layers defaults (ops ++ [BPush it]) =
                  builder_layers defaults ops ++ [it]) /\
  (forall ops, builder_build defaults ops = construct false (builder_layers defaults ops)) /\
  builder_layers defaults [BPop] = [].
Proof. exact builder_thm. Qed.
Print Assumptions C18_builder.

(* ---- default helpers, against the function bodies regenerated from the source ---- *)

Theorem C18_default_layers : forall g m p pr,
  call f_getDefaultLayers [] (flag_kw g m p pr) = Some (RVal (VTuple (expected_layers g m p pr))) /\
  call f_getDefaultLayers [VBool g; VBool m; VBool p; VBool pr] [] =
    Some (RVal (VTuple (expected_layers g m p pr))).
Proof. exact default_layers_thm. Qed.
Print Assumptions C18_default_layers.

Theorem C18_push_default_layers :
  default_layers_opt = Some (expected_layers true true true true).
Proof. exact push_default_layers_thm. Qed.
Print Assumptions C18_push_default_layers.

Theorem C18_protocol_layers : forall g m p pr,
  call f_getProtocolLayers [] (flag_kw g m p pr) =
  Some (RVal (VTuple (map Cls (basic ++ selected g m p pr)))).
Proof. exact protocol_layers_thm. Qed.
Print Assumptions C18_protocol_layers.

(* getDefaultStack, all 32 flag combinations x any optional top layer x both call styles:
   transport, encryption, basic ++ exactly the selected modules, then the top layer *)
Theorem C18_default_stack : forall (layer : option item) ax g m p pr,
  call f_getDefaultStack [] ((v_layer, VLayer layer) :: (v_axolotl, VBool ax) :: flag_kw g m p pr) =
    Some (RStack (expected_layers g m p pr ++ opt_item layer) false) /\
  call f_getDefaultStack [VLayer layer; VBool ax; VBool g; VBool m; VBool p; VBool pr] [] =
    Some (RStack (expected_layers g m p pr ++ opt_item layer) false).
Proof. exact default_stack_thm. Qed.
Print Assumptions C18_default_stack.

Theorem C18_default_stack_noargs :
  call f_getDefaultStack [] [] = Some (RStack (expected_layers true true true true) false).
Proof. exact default_stack_noargs_thm. Qed.
Print Assumptions C18_default_stack_noargs.

Theorem C18_default_distinct :
  NoDup (flat_map item_members (expected_layers true true true true)).
Proof. exact default_distinct_thm. Qed.
Print Assumptions C18_default_distinct.

Theorem C18_default_stack_wired : forall (layer : option item) g m p pr,
  layer <> Some Bad ->
  exists ws, construct false (expected_layers g m p pr ++ opt_item layer) = Some ws /\
             slots ws = map to_slot (expected_layers g m p pr ++ opt_item layer) /\
             well_wired ws.
Proof. exact default_stack_wired_thm. Qed.
Print Assumptions C18_default_stack_wired.

Theorem C18_full_stack :
  exists ws, construct stack_reversed_default full_stack_spec = Some ws /\
    slots ws = [Plain c_YowNetworkLayer; Plain c_YowNoiseSegmentsLayer; Plain c_YowNoiseLayer;
                Plain c_YowCoderLayer; Plain c_YowLoggerLayer; Group init_full] /\
    NoDup (flat (slots ws)) /\ well_wired ws.
Proof. exact full_stack_thm. Qed.
Print Assumptions C18_full_stack.

(* ---- events ---- *)

(* An event emitted (broadcast) by instance i of any constructed stack is seen by the layers
   above (below) it in stack order, each once, up to and including the first consumer. *)
Theorem C18_event_once : forall reversed spec ws cs up i,
  construct reversed spec = Some ws -> i < length ws ->
  let st := layout reversed spec in
  let beyond := flat (dir_path up i st) in
  exists seen,
    event_at ws cs false up (PSlot i) = Some (seen, []) /\
    seen = upto_first (mem cs) beyond /\
    (exists rest, beyond = seen ++ rest) /\
    (NoDup beyond -> NoDup seen) /\
    (forall pre x post, beyond = pre ++ x :: post ->
        existsb (mem cs) pre = false -> In x seen) /\
    (forall pre x post, seen = pre ++ x :: post -> post <> [] -> mem cs x = false).
Proof. exact event_once_thm. Qed.
Print Assumptions C18_event_once.

Theorem C18_event_slot : forall ws cs up i,
  well_wired ws -> i < length ws ->
  event_at ws cs false up (PSlot i) =
  Some (upto_first (mem cs) (flat (dir_path up i (slots ws))), []).
Proof. exact event_slot_thm. Qed.
Print Assumptions C18_event_slot.

(* emitted by a sublayer: its whole group is offered the event first (up to the group's first
   consumer; the result does not stop the event), then it continues from the group *)
Theorem C18_event_member : forall ws cs up i k ms,
  well_wired ws -> nth_error (slots ws) i = Some (Group ms) -> k < length ms ->
  event_at ws cs false up (PMember i k) =
  Some (upto_first (mem cs) ms ++ upto_first (mem cs) (flat (dir_path up i (slots ws))), []).
Proof. exact event_member_thm. Qed.
Print Assumptions C18_event_member.

(* detached: the nearest instance sees it at once; the rest of the same sequence is one entry
   on the stack's queue *)
Theorem C18_event_detached : forall ws cs up i,
  well_wired ws -> all_stacked ws -> i < length ws ->
  exists t q,
    event_at ws cs true up (PSlot i) = Some (t, q) /\
    t = upto_first (mem cs) (flat (firstn 1 (dir_path up i (slots ws)))) /\
    length q <= 1 /\
    t ++ flat_map run_entry q = upto_first (mem cs) (flat (dir_path up i (slots ws))).
Proof. exact event_detached_thm. Qed.
Print Assumptions C18_event_detached.

Theorem C18_event_member_detached : forall ws cs up i k ms,
  well_wired ws -> all_stacked ws -> nth_error (slots ws) i = Some (Group ms) -> k < length ms ->
  exists t q,
    event_at ws cs true up (PMember i k) = Some (upto_first (mem cs) ms ++ t, q) /\
    event_at ws cs true up (PSlot i) = Some (t, q).
Proof. exact event_member_detached_thm. Qed.
Print Assumptions C18_event_member_detached.

Theorem C18_event_stack : forall ws cs up,
  well_wired ws -> 0 < length ws ->
  stack_event ws cs false up =
  Some (upto_first (mem cs) (flat (if up then slots ws else rev (slots ws))), []).
Proof. exact event_stack_thm. Qed.
Print Assumptions C18_event_stack.

(* the loop delivers every queued continuation, first in first out, one per iteration *)
Theorem C18_loop_drains : forall q, loop_steps (length q) q = (map run_entry q, []).
Proof. exact loop_drains. Qed.
Print Assumptions C18_loop_drains.

(* ---- data ---- *)

Theorem C18_data_stack : forall data (h : lid -> data -> list data) ws d,
  well_wired ws -> 0 < length ws ->
  stack_send h ws d = Some (flow h (rev (slots ws)) d) /\
  stack_receive h ws d = Some (flow h (slots ws) d).
Proof. exact stack_data_thm. Qed.
Print Assumptions C18_data_stack.

(* every member of the k-th instance on the way is entered with exactly the level-k inputs *)
Theorem C18_data_level : forall data (h : lid -> data -> list data) path k s m d,
  NoDup (flat path) -> nth_error path k = Some s -> In m (members s) ->
  proj m (flow h path d) = inputs_at h path k d.
Proof. exact flow_level_thm. Qed.
Print Assumptions C18_data_level.

(* the level-(k+1) inputs are the outputs of the members of instance k, in emission order *)
Theorem C18_data_step : forall data (h : lid -> data -> list data) path k s d,
  nth_error path k = Some s ->
  inputs_at h path (S k) d = flat_map (outs h s) (inputs_at h path k d).
Proof. exact inputs_step_thm. Qed.
Print Assumptions C18_data_step.

Theorem C18_data_single_forwarder : forall data (h : lid -> data -> list data) path k d,
  k <= length path ->
  Forall (fun s => forall x, outs h s x = [x]) (firstn k path) ->
  inputs_at h path k d = [d].
Proof. exact single_forwarder_thm. Qed.
Print Assumptions C18_data_single_forwarder.

Theorem C18_data_passthrough : forall data (h : lid -> data -> list data) path d,
  (forall m x, In m (flat path) -> h m x = [x]) ->
  Forall (fun s => length (members s) = 1) path ->
  flow h path d = map (fun m => (m, d)) (flat path).
Proof. exact passthrough_thm. Qed.
Print Assumptions C18_data_passthrough.

(* ---- getLayerInterface ---- *)

Theorem C18_interface_lookup : forall (cls : lid -> N) (iface : lid -> option N) st c,
  ((forall x, In x (flat st) -> cls x <> c) -> lookup cls iface st c = None) /\
  (forall pre l post i, flat st = pre ++ l :: post -> (forall x, In x pre -> cls x <> c) ->
     cls l = c -> iface l = Some i -> lookup cls iface st c = Some i) /\
  (forall pre l post, flat st = pre ++ l :: post ->
     (forall x, In x (pre ++ post) -> cls x <> c) -> cls l = c ->
     lookup cls iface st c = iface l).
Proof. exact lookup_thm. Qed.
Print Assumptions C18_interface_lookup.
