(* C16 — Connection lifecycle.  Statements only; proofs are in C16/C16Proofs.v, C16/C16Thms.v, C16/C16Keep.v,
   C16/C16Reconnect.v, C16/C16Passive.v.
   `exec c (init c) h = Some (s, tr)`: the history h lies in the property's alphabet (C16Model.enabled),
   s is the state it leads to and tr everything the probes P0..P3, the dispatcher, the noise
   handshake and the application observed.  No bound on the length of h.  c ranges over all options
   (reconnect, passive, ping, prekeys never uploaded yes/no) and over the code with / without the two
   network-layer guards.  Stack: network | P0 | segments | noise | coder | P1 | axolotl control |
   (auth, iq, P2) | interface | P3 - P2 and P3 are above the control layer.  The alphabet includes the
   answers to the control layer's set-keys upload (EKeysResult, EKeysError), so every theorem below is
   about histories through the passive login and the reboot of the connection as well.                *)
From YV Require Import Common.Tac C16.C16Model C16.C16Proofs C16.C16Thms C16.C16Keep C16.C16Reconnect C16.C16Passive C16.C16Writes.

(* one CONNECTED at every position, one auth event and one handshake per dispatcher-connected;
   no dispatcher is ever replaced while live *)
Theorem C16_connect_once : forall c h s tr, exec c (init c) h = Some (s, tr) ->
  orphans s = 0%N /\
  (forall p, In p [0; 1; 2; 3]%N -> countb (is_up_at p) tr = count_ev ev_disp_connected h) /\
  (forall p, In p [0; 1; 2]%N -> countb (is_auth_at p) tr = count_ev ev_disp_connected h) /\
  countb is_handshake tr = count_ev ev_disp_connected h.
Proof. exact connect_once_thm. Qed.
Print Assumptions C16_connect_once.

Theorem C16_authed_once : forall c h s tr, exec c (init c) h = Some (s, tr) ->
  (forall p, In p [0; 1; 2]%N -> countb (is_authed_at p) tr = count_ev ev_success h) /\
  countb is_app_success tr = count_ev ev_success h.
Proof. exact authed_once_thm. Qed.
Print Assumptions C16_authed_once.

Theorem C16_failure_closes : forall c h s tr, exec c (init c) h = Some (s, tr) ->
  enabled c s EFailure = true ->
  In (OApp AFailure) (snd (step c s EFailure)) /\
  In ODispDisconnect (snd (step c s EFailure)) /\
  In (OProbe 0 (PDisconnected RAuthFail)) (snd (step c s EFailure)) /\
  ns (fst (step c s EFailure)) = NsDisconnected /\ conn (fst (step c s EFailure)) = false /\
  dp (fst (step c s EFailure)) = DpClosed.
Proof. exact failure_closes_thm. Qed.
Print Assumptions C16_failure_closes.

Theorem C16_stream_error_delivered_and_closes : forall c h s tr k, exec c (init c) h = Some (s, tr) ->
  enabled c s (EStreamError k) = true ->
  In (OApp (AStreamError k)) (snd (step c s (EStreamError k))) /\
  In ODispDisconnect (snd (step c s (EStreamError k))) /\
  In (OProbe 0 (PDisconnected RNone)) (snd (step c s (EStreamError k))) /\
  ns (fst (step c s (EStreamError k))) = NsDisconnected /\
  conn (fst (step c s (EStreamError k))) = false /\
  dp (fst (step c s (EStreamError k))) = DpClosed /\
  recon (fst (step c s (EStreamError k))) = (c_reconnect c && negb (is_conflict k)).
Proof. exact stream_error_closes_thm. Qed.
Print Assumptions C16_stream_error_delivered_and_closes.

(* directly above the network layer: a dispatcher is created only when idle, announced up at most
   once, and whatever was attempted or up is announced down exactly once (mon_run); every other
   position - below the control layer (P1), above it (P2) and the application (P3) - sees the same
   announcements in the same order, the missing ones being exactly the queued ones.  In particular the
   DISCONNECTED of the connection the control layer reboots reaches P2 and P3, before the CONNECTED of
   the next one. *)
Theorem C16_down_once : forall c h s tr, exec c (init c) h = Some (s, tr) ->
  mon_run MIdle tr = Some (mon_of (ns s)) /\
  (forall p, In p [1; 2; 3]%N -> proj 0 tr = proj p tr ++ map ADown (dq s)).
Proof. exact down_once_thm. Qed.
Print Assumptions C16_down_once.

(* nothing is written to a connection that is down; the only exception that escapes an entry point is the
   one AxolotlControlLayer.onSentKeysError raises for an error reply to the set-keys upload *)
Theorem C16_no_write_when_down : forall c h s tr, exec c (init c) h = Some (s, tr) ->
  countb is_down_write tr = 0%nat /\ countb is_raise tr = count_ev ev_keys_error h.
Proof. exact no_write_when_down_thm. Qed.
Print Assumptions C16_no_write_when_down.

(* a later connect starts fresh: while connecting, and whenever down with the queue drained, the noise
   state is init and the keep-alive state is empty (no thread, no ping outstanding); every
   dispatcher-connected writes the header on an up connection and starts one handshake whose passive
   flag is the stack property as the control layer has just set it (passive iff it was already, or
   prekeys are waiting) *)
Theorem C16_fresh_login : forall c h s tr, exec c (init c) h = Some (s, tr) ->
  (ns s = NsConnecting -> nz s = NzInit /\ pth s = false /\ pq s = []) /\
  (ns s = NsDisconnected -> dq s = [] -> nz s = NzInit /\ pth s = false /\ pq s = []) /\
  (enabled c s EDispConnected = true ->
     let s1 := fst (step c s EDispConnected) in
     psv s1 = (psv s || (um s || ud s)) /\
     In (OHandshake (psv s1)) (snd (step c s EDispConnected)) /\
     In (OProbe 2 (PAuth (psv s1))) (snd (step c s EDispConnected)) /\
     In (OWrite WHeader true) (snd (step c s EDispConnected)) /\
     nz s1 = NzHandshake).
Proof. exact fresh_login_thm. Qed.
Print Assumptions C16_fresh_login.

Theorem C16_auto_reconnect : forall c h s tr k, exec c (init c) h = Some (s, tr) ->
  stanza_ok s = true ->
  exists s2 tr2, exec c s [EStreamError k; ELoop] = Some (s2, tr2) /\
    existsb is_create tr2 = (c_reconnect c && negb (is_conflict k)) /\
    ns s2 = (if c_reconnect c && negb (is_conflict k) then NsConnecting else NsDisconnected).
Proof. exact auto_reconnect_thm. Qed.
Print Assumptions C16_auto_reconnect.

(* a connection is opened only on request or by the loop delivering DISCONNECTED with the interface
   layer's reconnect flag or the control layer's reboot flag set; the former is set only by a
   non-conflict stream error with the option on, the latter only by the result of the set-keys upload *)
Theorem C16_auto_reconnect_only : forall c h s tr e, exec c (init c) h = Some (s, tr) ->
  enabled c s e = true ->
  (existsb is_create (snd (step c s e)) = true ->
     e = EConnectReq \/ e = EConnectCall \/ (e = ELoop /\ (recon s = true \/ rb s = true))) /\
  (recon (fst (step c s e)) = true ->
     recon s = true \/ (c_reconnect c = true /\ exists k, e = EStreamError k /\ k <> KConflict)) /\
  (rb (fst (step c s e)) = true -> rb s = true \/ e = EKeysResult).
Proof. exact auto_reconnect_only_thm. Qed.
Print Assumptions C16_auto_reconnect_only.

(* the bookkeeping of automatic connects, for whole histories.  auto_creates = dispatchers created in
   reaction to events other than the application's connect request / call; b2n (recon s) = 1 while the
   interface layer's reconnect is pending, b2n (rb s) = 1 while the control layer's reboot is.  From any
   reachable state s and any continuation h2: the connections opened by the stack on its own plus the
   pending ones = those pending at s plus one per non-conflict stream error in h2 (none when the option is
   off) plus one per confirmed set-keys upload; every created dispatcher is either such an automatic one
   or answers a connect request. *)
Theorem C16_auto_reconnect_exactly_once : forall c h s tr h2 s2 tr2,
  exec c (init c) h = Some (s, tr) -> exec c s h2 = Some (s2, tr2) ->
  (auto_creates c s h2 + b2n (recon s2) + b2n (rb s2) =
   b2n (recon s) + b2n (rb s) + (if c_reconnect c then count_ev ev_reconnecting_error h2 else 0)
   + count_ev ev_keys_result h2)%nat /\
  countb is_create tr2 = (auto_creates c s h2 + req_creates c s h2)%nat.
Proof. exact auto_reconnect_count_thm. Qed.
Print Assumptions C16_auto_reconnect_exactly_once.

(* from the start (nothing pending): no automatic connect without a preceding stream error or confirmed
   upload; holds for every prefix of every history since every prefix is a history *)
Theorem C16_no_auto_connect_without_stream_error : forall c h s tr, exec c (init c) h = Some (s, tr) ->
  (auto_creates c (init c) h + b2n (recon s) + b2n (rb s) =
   (if c_reconnect c then count_ev ev_reconnecting_error h else 0) + count_ev ev_keys_result h)%nat /\
  countb is_create tr = (auto_creates c (init c) h + req_creates c (init c) h)%nat.
Proof. exact auto_reconnect_count_init_thm. Qed.
Print Assumptions C16_no_auto_connect_without_stream_error.

(* a pending reconnect: the network is down, the DISCONNECTED of the stream error is still queued, the
   loop run that delivers it opens exactly one connection and clears the flag; no other event opens a
   connection or clears the flag meanwhile *)
Theorem C16_pending_reconnect_runs_once : forall c h s tr, exec c (init c) h = Some (s, tr) ->
  recon s = true ->
  ns s = NsDisconnected /\ enabled c s ELoop = true /\
  countb is_create (snd (step c s ELoop)) = 1%nat /\
  recon (fst (step c s ELoop)) = false /\ ns (fst (step c s ELoop)) = NsConnecting /\
  (forall e, enabled c s e = true -> e <> ELoop ->
     countb is_create (snd (step c s e)) = 0%nat /\ recon (fst (step c s e)) = true /\
     ns (fst (step c s e)) = NsDisconnected).
Proof. exact pending_reconnect_thm. Qed.
Print Assumptions C16_pending_reconnect_runs_once.

(* the control layer's reboot, pending (_reboot_connection set): the network is down, nothing is left to
   upload, no reconnect of the interface layer is pending, the DISCONNECTED of the passive connection is
   still queued; the loop run that delivers it opens exactly one connection, clears the flag, switches
   passive off, delivers the DISCONNECTED to the protocol layers (P2) and the application (P3) and leaves
   the keep-alive state empty; no other event opens a connection or clears the flag meanwhile *)
Theorem C16_pending_reboot_runs_once : forall c h s tr, exec c (init c) h = Some (s, tr) ->
  rb s = true ->
  ns s = NsDisconnected /\ enabled c s ELoop = true /\ um s = false /\ ud s = false /\ recon s = false /\
  (let s1 := fst (step c s ELoop) in
   countb is_create (snd (step c s ELoop)) = 1%nat /\ rb s1 = false /\ psv s1 = false /\ um s1 = false /\
   ud s1 = false /\ ns s1 = NsConnecting /\
   In (OProbe 2 (PDisconnected (hd RNone (dq s)))) (snd (step c s ELoop)) /\
   In (OProbe 3 (PDisconnected (hd RNone (dq s)))) (snd (step c s ELoop)) /\
   pth s1 = false /\ pq s1 = []) /\
  (forall e, enabled c s e = true -> e <> ELoop ->
     countb is_create (snd (step c s e)) = 0%nat /\ rb (fst (step c s e)) = true /\
     ns (fst (step c s e)) = NsDisconnected).
Proof. exact pending_reboot_thm. Qed.
Print Assumptions C16_pending_reboot_runs_once.

(* the reboot end to end: the set-keys result, the loop run, the next connection coming up.  Every
   position sees DISCONNECTED for the passive connection and then CONNECTED for the next one, exactly one
   connection is opened (by the stack itself), its login is active, and the keep-alive state of the
   passive connection (thread, outstanding ping) is gone *)
Theorem C16_reboot : forall c h s tr, exec c (init c) h = Some (s, tr) ->
  enabled c s EKeysResult = true ->
  exists s2 tr2, exec c s [EKeysResult; ELoop; EDispConnected] = Some (s2, tr2) /\
    (forall p, In p [0; 1; 2; 3]%N -> proj p tr2 = [ADown RNone; AUp]) /\
    countb is_create tr2 = 1%nat /\ auto_creates c s [EKeysResult; ELoop; EDispConnected] = 1%nat /\
    In (OHandshake false) tr2 /\ countb is_passive_login tr2 = 0%nat /\
    ns s2 = NsConnected /\ psv s2 = false /\ um s2 = false /\ ud s2 = false /\ rb s2 = false /\
    pth s2 = false /\ pq s2 = [].
Proof. exact reboot_thm. Qed.
Print Assumptions C16_reboot.

(* the prekeys are uploaded exactly at the success of a passive login that has keys waiting, on an up
   connection *)
Theorem C16_upload_on_passive_success : forall c h s tr, exec c (init c) h = Some (s, tr) ->
  enabled c s ESuccess = true ->
  countb (fun o => match o with OWrite WKeys _ => true | _ => false end) (snd (step c s ESuccess)) =
    (if psv s && um s then 1%nat else 0%nat) /\
  (psv s && um s = true -> In (OWrite WKeys true) (snd (step c s ESuccess)) /\
                           kp (fst (step c s ESuccess)) = true /\ um (fst (step c s ESuccess)) = false).
Proof. exact upload_on_passive_success_thm. Qed.
Print Assumptions C16_upload_on_passive_success.

(* once passive is off and nothing is left to upload (the state after a reboot) it stays so: every later
   login of the history is active *)
Theorem C16_active_stays_active : forall c h s tr h2 s2 tr2,
  exec c (init c) h = Some (s, tr) -> is_active s = true -> exec c s h2 = Some (s2, tr2) ->
  is_active s2 = true /\ countb is_passive_login tr2 = 0%nat.
Proof. exact active_stays_active_thm. Qed.
Print Assumptions C16_active_stays_active.

(* a disconnect request of the application, a login failure, a stream error without reconnect (conflict
   or option off) and a socket error / peer close of a connection that is up or being established -
   also when that connection is the automatic reconnect attempt or the reboot's - end in DISCONNECTED with
   nothing pending, and the stack stays down and opens no connection until the application asks for one *)
Theorem C16_session_end_stays_down : forall c h s tr e mid s1 tr1,
  exec c (init c) h = Some (s, tr) ->
  ends_session c s e = true ->
  exec c s (e :: mid) = Some (s1, tr1) ->
  count_ev ev_connect mid = 0%nat ->
  ns s1 = NsDisconnected /\ conn s1 = false /\ recon s1 = false /\ rb s1 = false /\
  countb is_create tr1 = 0%nat.
Proof. exact session_end_stays_down_thm. Qed.
Print Assumptions C16_session_end_stays_down.

Theorem C16_keepalive : forall c h s tr, exec c (init c) h = Some (s, tr) ->
  (pq s = [] \/ exists x, pq s = [x] /\ (x + 1)%N = nping s /\ pth s = true /\ memN x (reg s) = true) /\
  (enabled c s ETick = true ->
     existsb is_ping_timeout (snd (step c s ETick)) = (pth s && nonempty (pq s))) /\
  (forall i, enabled c s (EPong i) = true -> pq s = [i] -> pq (fst (step c s (EPong i))) = []) /\
  (forall e, enabled c s e = true -> ev_tick e = false ->
     pq (fst (step c s e)) = pq s \/ pq (fst (step c s e)) = []).
Proof. exact keepalive_thm. Qed.
Print Assumptions C16_keepalive.

(* never while every ping is answered in time: if the pong of the ping issued at a tick is delivered
   before the next tick, that next tick does not ask for a disconnect *)
Theorem C16_keepalive_answered_never : forall c h s tr mid s1 tr1,
  exec c (init c) h = Some (s, tr) ->
  exec c s (ETick :: mid) = Some (s1, tr1) ->
  count_ev ev_tick mid = 0%nat ->
  In (EPong (nping s)) mid ->
  enabled c s1 ETick = true ->
  existsb is_ping_timeout (snd (step c s1 ETick)) = false.
Proof. exact keepalive_answered_never_thm. Qed.
Print Assumptions C16_keepalive_answered_never.

(* witnesses against the unguarded code and against connecting before the deferred DISCONNECTED ran *)
Theorem C16_double_connect_refuted :
  let '(s, tr) := exec_any cfg_asis (init cfg_asis) [EConnectReq; EConnectReq] in
  orphans s = 1%N /\ mon_run MIdle tr = None.
Proof. exact double_connect_refuted. Qed.
Print Assumptions C16_double_connect_refuted.

Theorem C16_down_disconnect_refuted :
  let '(s, tr) := exec_any cfg_asis (init cfg_asis)
                    [EConnectReq; EDispConnected; ESuccess; ETick; EPeerClose; ETick] in
  mon_run MIdle tr = None /\ proj 0 tr = [AUp; ADown RNone; ADown RPing].
Proof. exact down_disconnect_refuted. Qed.
Print Assumptions C16_down_disconnect_refuted.

Theorem C16_early_connect_refuted :
  let '(s, tr) := exec_any cfg_fixed (init cfg_fixed)
                    [EConnectReq; EDispConnected; EPeerClose; EConnectReq; EDispConnected; ELoop] in
  ns s = NsConnected /\ nz s = NzInit /\ proj 3 tr = [AUp; AUp; ADown RNone] /\
  exec cfg_fixed (init cfg_fixed) [EConnectReq; EDispConnected; EPeerClose; EConnectReq] = None.
Proof. exact early_connect_refuted. Qed.
Print Assumptions C16_early_connect_refuted.

(* witness against the variant in which the control layer consumes the DISCONNECTED of its own reboot
   (on_disconnected returning True; exec_any_gen true): on the passive -> reboot history the application
   sees CONNECTED twice in a row while P1, below the control layer, saw the DISCONNECTED, and the ping of
   the passive connection that was in flight at the reboot makes the first tick of the next connection ask
   for a disconnect although no ping was written on it.  Today's code (exec_any_gen false) does neither. *)
Theorem C16_reboot_consumed_refuted :
  let '(s, tr) := exec_any_gen true cfg_passive (init cfg_passive)
                    [EConnectReq; EDispConnected; ESuccess; ETick; EKeysResult; ELoop;
                     EDispConnected; ESuccess; ETick] in
  proj 3 tr = [AUp; AUp] /\ proj 2 tr = [AUp; AUp] /\ proj 1 tr = [AUp; ADown RNone; AUp] /\
  countb is_ping_timeout tr = 4%nat /\
  ~ In (OWrite (WPing 1) true) tr /\
  (let '(s', tr') := exec_any_gen false cfg_passive (init cfg_passive)
                       [EConnectReq; EDispConnected; ESuccess; ETick; EKeysResult; ELoop;
                        EDispConnected; ESuccess; ETick] in
   proj 3 tr' = [AUp; ADown RNone; AUp] /\ countb is_ping_timeout tr' = 0%nat /\
   In (OWrite (WPing 1) true) tr').
Proof. exact reboot_consumed_refuted. Qed.
Print Assumptions C16_reboot_consumed_refuted.

(* No write unless the connection is up.  OWrite w up: `up` says that the dispatcher written to is connected
   (dp = DpUp) - a dispatcher that was only requested or is CONNECTING counts as NOT up, exactly like a closed one.
   For every in-domain history no write goes to a dispatcher that is not up, and while the network layer is
   CONNECTING `connected` is false, so data reaching YowNetworkLayer.send in that phase (keep-alive ping,
   application data) is dropped.  _partial: the statement for ALL histories without the domain restriction
   (exec_any; it would cover ticks / sends in the window of the open finding, after a close and a connect request
   before the loop ran) is kept in C16/C16Writes.v as a comment and is not proved; that window is checked on the
   implementation by the harness's window family and per-dispatcher write rule. *)
Theorem C16_no_write_unless_up_partial : forall c h s tr, exec c (init c) h = Some (s, tr) ->
  countb is_down_write tr = 0%nat /\
  (ns s = NsConnecting -> conn s = false /\ dp s = DpConnecting /\ forall w, snd (net_send w s) = []) /\
  (conn s = true -> dp s = DpUp).
Proof. exact no_write_unless_up_partial_thm. Qed.
Print Assumptions C16_no_write_unless_up_partial.

(* witness for the variant in which send is keyed on the state field (state != DISCONNECTED; not today's code):
   connection up and logged in, peer close, connect request before the loop ran - CONNECTING, fresh dispatcher,
   keep-alive thread still alive, outside the domain (open finding) - and the next ping tick writes its ping to
   the dispatcher that is not connected; today's code drops it *)
Theorem C16_write_while_connecting_refuted :
  let s := fst (exec_any cfg_w (init cfg_w) window_history) in
  ns s = NsConnecting /\ conn s = false /\ dp s = DpConnecting /\ pth s = true /\ dq s <> [] /\
  exec cfg_w (init cfg_w) window_history = None /\
  snd (on_tick_v cfg_w s) = [OWrite (WPing 0) false] /\
  snd (step cfg_w s ETick) = [].
Proof. exact write_while_connecting_refuted. Qed.
Print Assumptions C16_write_while_connecting_refuted.
