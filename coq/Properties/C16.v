From YV Require Import Common.Tac C16.C16Model C16.C16Proofs.
Theorem C16_placeholder : exec (mkCfg true false true false false) init [] = Some (init, []).
Proof. exact placeholder_thm. Qed.
Print Assumptions C16_placeholder.
