(* C09 — protocol entities and stanzas convert into each other without loss.  The per-class
   theorems cover the classes in C09Schemas.registry: every reachable entity class except the
   two legacy ones that cannot build/serialise an entity under the pinned interpreter (the
   harness recomputes the list on every run); message payloads are handled by a payload lens
   parameter whose losslessness is C10's subject.  Statements only; proofs in coq/C09. *)
From YV Require Import Common.Tac C09.C09Model C09.C09Proofs C09.C09Schemas C09.C09Registry
     C09.C09Compose.
From YV Require C10.C10Model.

(* Generic, for every schema and every payload lens PL (parse+convert / convert+serialise of
   the <proto> data) that is lossless on its payload domain: on a stanza of the documented
   shape, entity construction and re-serialisation succeed and reproduce the stanza: same tag,
   same attribute map up to "numbers compared by value", same data (on a <proto> node: an
   equivalent payload), children pairwise equivalent in order.  The schema language includes
   the cross-field rule "same as attribute k of the parent" (retry/@id = receipt/@id). *)
Theorem C09_lens_get_put : forall PL, pl_lossless PL -> forall sc n,
  lossless sc = true -> matches PL sc [] n = true ->
  exists v n', get PL sc n = Some v /\ put PL sc [] v = Some n' /\ neqv PL n' n.
Proof. exact lens_get_put_thm. Qed.
Print Assumptions C09_lens_get_put.

(* The instance with the ideal payload lens (payload bytes reproduced exactly): no hypothesis
   left, data equal byte for byte everywhere.  This is the model instance the harness runs. *)
Theorem C09_lens_get_put_strict : forall sc n,
  lossless sc = true -> matches pl_id sc [] n = true ->
  exists v n', get pl_id sc n = Some v /\ put pl_id sc [] v = Some n' /\ neqv pl_id n' n.
Proof. exact lens_get_put_strict_thm. Qed.
Print Assumptions C09_lens_get_put_strict.

Theorem C09_registry_lossless : Forall (fun e => lossless (e_schema e) = true) registry.
Proof. exact registry_lossless_thm. Qed.
Print Assumptions C09_registry_lossless.

(* _partial: FULL statement = the same over every reachable entity class and every stanza of
   its documented shape; proved for the registry (all reachable classes but ChallengeProtocolEntity
   and CryptoIqProtocolEntity, which raise on every input under Python 3) on the documented
   domain minus the two open findings (error backoff="0"; group-removal mode), and for the
   payload under the hypothesis pl_lossless PL. *)
Theorem C09_all_classes_partial : forall PL, pl_lossless PL ->
  forall e n, In e registry -> matches PL (e_schema e) [] n = true ->
  exists v n', get PL (e_schema e) n = Some v /\ put PL (e_schema e) [] v = Some n' /\ neqv PL n' n.
Proof. exact all_classes_thm. Qed.
Print Assumptions C09_all_classes_partial.

(* Composition with C10: the hypothesis on the payload is discharged by C10's round-trip
   theorem for C10's model of the converter (any table T, any depth), given only that
   protobuf's wire parser inverts its serialiser.  Payload equivalence here is C10's: the
   library's view of the re-serialised payload covers the library's view of the received one. *)
Theorem C09_all_classes_with_C10 :
  forall (wire_parse : list N -> option C10Model.pmsg) (wire_ser : C10Model.pmsg -> list N),
  (forall p, wire_parse (wire_ser p) = Some p) ->
  forall T fuel cn e n, In e registry ->
  matches (pl_c10 wire_parse wire_ser T fuel cn) (e_schema e) [] n = true ->
  exists v n', get (pl_c10 wire_parse wire_ser T fuel cn) (e_schema e) n = Some v /\
               put (pl_c10 wire_parse wire_ser T fuel cn) (e_schema e) [] v = Some n' /\
               neqv (pl_c10 wire_parse wire_ser T fuel cn) n' n.
Proof. exact all_classes_with_C10_thm. Qed.
Print Assumptions C09_all_classes_with_C10.

(* "survives the codec", model side: whatever toProtocolTreeNode (put) produces from an
   entity whose emitted strings are codec-safe is a tree the binary codec can carry
   (codec_wf = C01's domain).  That such trees survive encode/decode is C01's theorem; the
   C09 harness additionally pushes every real output through the real encoder+decoder. *)
Theorem C09_put_wf : forall PL sc v n,
  codec_safe sc = true -> val_wf PL sc v = true -> put PL sc [] v = Some n -> codec_wf n = true.
Proof. exact put_wf_thm. Qed.
Print Assumptions C09_put_wf.

Theorem C09_registry_codec_safe : Forall (fun e => codec_safe (e_schema e) = true) registry.
Proof. exact registry_codec_safe_thm. Qed.
Print Assumptions C09_registry_codec_safe.

Theorem C09_all_classes_put_wf_partial : forall PL e v n, In e registry ->
  val_wf PL (e_schema e) v = true -> put PL (e_schema e) [] v = Some n -> codec_wf n = true.
Proof. exact all_classes_put_wf_thm. Qed.
Print Assumptions C09_all_classes_put_wf_partial.

(* Open findings: the faithful schema of the class is NOT lossless on its documented shape
   (stated with the ideal payload lens: not even a perfect payload converter helps). *)
Theorem C09_ErrorIq_backoff0_refuted : refutes schema_ErrorIq_wide wit_ErrorIq.
Proof. exact ErrorIq_backoff0_refuted. Qed.
Print Assumptions C09_ErrorIq_backoff0_refuted.

(* repaired (fixes/C09-remove-groups-mode.patch), witness against the pre-fix class kept *)
Theorem C09_RemoveGroupsNotification_mode_refuted :
  refutes schema_RemoveGroupsNotification_mode wit_RemoveGroups.
Proof. exact RemoveGroupsNotification_mode_refuted. Qed.
Print Assumptions C09_RemoveGroupsNotification_mode_refuted.

(* Repaired defects (fixes/C09-*.patch): witnesses against the pre-fix behaviour. *)
Theorem C09_prefix_variants_refuted :
  refutes schema_Notification_prefix wit_Notification /\
  refutes schema_AccountIb_prefix wit_AccountIb /\
  refutes schema_InfoGroupsResultIq_prefix wit_InfoGroupsResult /\
  refutes schema_CreateGroupsNotification_prefix wit_CreateGroups /\
  refutes (schema_GetSyncIq last_prefix) wit_GetSync /\
  refutes (schema_ResultSyncIq last_prefix) wit_ResultSync.
Proof. exact prefix_variants_refuted_thm. Qed.
Print Assumptions C09_prefix_variants_refuted.

(* fixes/C09-message-offline-optional / -retry-zero / -timestamp-zero: the pre-fix message header
   materialised offline="0", dropped retry="0" and replaced t="0" by the clock (witness with the
   clock reading 1700000000). *)
Theorem C09_message_prefix_variants_refuted :
  refutes (msg_in_prefix_offline ty_any KNil) wit_Message_offline /\
  refutes (msg_in_prefix_retry ty_any KNil) wit_Message_retry0 /\
  refutes (msg_in_prefix_t 1700000000 ty_any KNil) wit_Message_t0.
Proof. exact message_prefix_variants_refuted_thm. Qed.
Print Assumptions C09_message_prefix_variants_refuted.
