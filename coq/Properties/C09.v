(* C09 — protocol entities and stanzas convert into each other without loss (PARTIAL: the
   per-class theorems cover the classes in C09Schemas.registry; the harness reports the
   reachable classes that have no schema yet).  Statements only; proofs in coq/C09. *)
From YV Require Import Common.Tac C09.C09Model C09.C09Proofs C09.C09Schemas C09.C09Registry.

(* Generic, for every schema: on a stanza of the documented shape, entity construction and
   re-serialisation succeed and reproduce the stanza: same tag, same data, same attribute map
   up to "numbers compared by value", children pairwise equivalent in order. *)
Theorem C09_lens_get_put : forall sc n,
  lossless sc = true -> matches sc n = true ->
  exists v n', get sc n = Some v /\ put sc v = Some n' /\ neqv n' n.
Proof. exact lens_get_put_thm. Qed.
Print Assumptions C09_lens_get_put.

Theorem C09_registry_lossless : Forall (fun e => lossless (e_schema e) = true) registry.
Proof. exact registry_lossless_thm. Qed.
Print Assumptions C09_registry_lossless.

Theorem C09_all_classes_partial : forall e n, In e registry -> matches (e_schema e) n = true ->
  exists v n', get (e_schema e) n = Some v /\ put (e_schema e) v = Some n' /\ neqv n' n.
Proof. exact all_classes_thm. Qed.
Print Assumptions C09_all_classes_partial.

(* "survives the codec", model side: whatever toProtocolTreeNode (put) produces from an
   entity whose emitted strings are codec-safe is a tree the binary codec can carry
   (codec_wf = C01's domain).  That such trees survive encode/decode is C01's theorem; the
   C09 harness additionally pushes every real output through the real encoder+decoder. *)
Theorem C09_put_wf : forall sc v n,
  codec_safe sc = true -> val_wf sc v = true -> put sc v = Some n -> codec_wf n = true.
Proof. exact put_wf_thm. Qed.
Print Assumptions C09_put_wf.

Theorem C09_registry_codec_safe : Forall (fun e => codec_safe (e_schema e) = true) registry.
Proof. exact registry_codec_safe_thm. Qed.
Print Assumptions C09_registry_codec_safe.

Theorem C09_all_classes_put_wf_partial : forall e v n, In e registry ->
  val_wf (e_schema e) v = true -> put (e_schema e) v = Some n -> codec_wf n = true.
Proof. exact all_classes_put_wf_thm. Qed.
Print Assumptions C09_all_classes_put_wf_partial.

(* Open findings: the faithful schema of the class is NOT lossless on its documented shape. *)
Theorem C09_ErrorIq_backoff0_refuted : refutes schema_ErrorIq_wide wit_ErrorIq.
Proof. exact ErrorIq_backoff0_refuted. Qed.
Print Assumptions C09_ErrorIq_backoff0_refuted.

Theorem C09_RemoveGroupsNotification_mode_refuted :
  refutes schema_RemoveGroupsNotification_mode wit_RemoveGroups.
Proof. exact RemoveGroupsNotification_mode_refuted. Qed.
Print Assumptions C09_RemoveGroupsNotification_mode_refuted.

(* Repaired defects (fixes/C09-*.patch): witnesses against the pre-fix behaviour. *)
Theorem C09_prefix_variants_refuted :
  refutes schema_Notification_prefix wit_Notification /\
  refutes schema_AccountIb_prefix wit_AccountIb /\
  refutes schema_InfoGroupsResultIq_prefix wit_InfoGroupsResult /\
  refutes schema_CreateGroupsNotification_prefix wit_CreateGroups /\
  refutes (schema_GetSyncIq last_prefix) wit_GetSync /\
  refutes (schema_ResultSyncIq last_prefix) wit_ResultSync.
Proof. exact prefix_variants_refuted_thm. Qed.
Print Assumptions C09_prefix_variants_refuted.
