(* C13 — Key store durability and crash atomicity.  Statements only; proofs in coq/C13.
   gen_store is regenerated from yowsup/axolotl/store/sqlite/*.py on every run
   (coq/Gen/C13Programs.v); the theorems are generic in it (C13Proofs) and rest on the
   computed side condition C13_programs_ok. *)
From YV Require Import Common.Tac C13.C13Model C13.C13Proofs C13.C13Inst Gen.C13Programs.

(* Every method body extracted from the Python source (a) never writes one table both before
   and after one of its commits and (b) ends committed, a statement that can raise being
   preceded in its transaction only by DELETEs of the row it inserts. *)
Theorem C13_programs_ok : store_ok gen_store = true.
Proof. exact gen_ok_thm. Qed.
Print Assumptions C13_programs_ok.

(* Durability, for all sequences of store calls and restarts: nothing is left pending at a
   call boundary (working = durable database), and what a reopened store reads for any table
   and key is exactly the abstract finite map of the specification (store / replace / delete
   / flag update per record, no transactions, a raising call changes nothing). *)
Theorem C13_durable : forall ops t k,
  cur (run_ops gen_store ops) t = dur (run_ops gen_store ops) t /\
  view (cur (reopen (run_ops gen_store ops))) t k = spec_run gen_store ops t k.
Proof. exact gen_durable_thm. Qed.
Print Assumptions C13_durable.

(* Atomicity, for all histories ops, every next call o (any method, any arguments, or a
   restart), every instant c' the process can die in during o (before it, after each
   statement, before/after each commit), every table t and key k: the reopened store holds
   the record's value from before o or its value from after o. *)
Theorem C13_atomic : forall ops o c',
  In c' (states (body gen_store (run_ops gen_store ops) o) (start (run_ops gen_store ops) o)) ->
  forall t k,
    view (dur (reopen c')) t k = view (dur (run_ops gen_store ops)) t k \/
    view (dur (reopen c')) t k = view (dur (run_ops gen_store (ops ++ [o]))) t k.
Proof. exact gen_atomic_thm. Qed.
Print Assumptions C13_atomic.

(* ... in particular an existing record that is being replaced is never missing. *)
Theorem C13_never_missing : forall ops o c',
  In c' (states (body gen_store (run_ops gen_store ops) o) (start (run_ops gen_store ops) o)) ->
  forall t k,
    view (dur (run_ops gen_store ops)) t k <> None ->
    view (dur (run_ops gen_store (ops ++ [o]))) t k <> None ->
    view (dur (reopen c')) t k <> None.
Proof. exact gen_never_missing_thm. Qed.
Print Assumptions C13_never_missing.

(* The same two results for ANY store definition passing the computed check (this is what is
   re-instantiated when the Python source changes). *)
Theorem C13_atomic_generic : forall S, store_ok S = true -> forall ops o c',
  In c' (states (body S (run_ops S ops) o) (start (run_ops S ops) o)) ->
  forall t k,
    view (dur (reopen c')) t k = view (dur (run_ops S ops)) t k \/
    view (dur (reopen c')) t k = view (dur (run_ops S (ops ++ [o]))) t k.
Proof. exact atomic_thm. Qed.
Print Assumptions C13_atomic_generic.

(* The unrepaired shape (replace = DELETE; COMMIT; INSERT; COMMIT, as storeSession and
   saveIdentity were written) fails the check and really loses the record: witness. *)
Theorem C13_atomic_refuted :
  store_ok bad_store = false /\
  exists ops o c' t k,
    In c' (states (body bad_store (run_ops bad_store ops) o) (start (run_ops bad_store ops) o)) /\
    view (dur (run_ops bad_store ops)) t k <> None /\
    view (dur (run_ops bad_store (ops ++ [o]))) t k <> None /\
    view (dur (reopen c')) t k = None.
Proof. exact refuted_thm. Qed.
Print Assumptions C13_atomic_refuted.
