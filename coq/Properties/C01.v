(* C01 — Stanza codec round-trip.  Statements only; proofs in coq/C01/.
   D is the dictionary regenerated from tokendictionary.py on every run (Gen/C01Dict.v);
   encode/decode are the models of encoder.py / decoder.py (C01/C01Model.v), tied to the
   code by the correspondence run of ./check C01.                                        *)
From YV Require Import Common.Tac C01.C01Model C02.C02Spec C01.C01Encode C01.C01Proofs
     C01.C01Inst Gen.C01Dict.
Local Open Scope N_scope.

(* For every well-formed tree (non-empty byte-range strings not ending in '@', tag not a
   reserved stream word, distinct attribute keys, data or children or neither, lengths
   below 2^31; no bound on size, depth, attribute or child count): if the encoder emits bytes
   at all, the decoder returns exactly the same tree — tag, attributes in order, content,
   children, recursively.  `inflate` (zlib) is arbitrary: it is never consulted.          *)
Theorem C01_roundtrip : forall inflate t b,
  wf_node D t -> encode D t = Some b -> decode D inflate b = Ok (Some t).
Proof. exact (fun inflate => roundtrip_thm D inflate D_ok). Qed.
Print Assumptions C01_roundtrip.

(* The same for any dictionary that passes the computed check dict_okb. *)
Theorem C01_roundtrip_any_dictionary : forall D' inflate t b, dict_okb D' = true ->
  wf_node D' t -> encode D' t = Some b -> decode D' inflate b = Ok (Some t).
Proof. exact (fun D' inflate t b H => roundtrip_thm D' inflate H t b). Qed.
Print Assumptions C01_roundtrip_any_dictionary.

(* The encoder refuses (ValueError) exactly the trees with a list size that does not fit the
   format's 16-bit list header; everything else is written, nothing is truncated.        *)
Theorem C01_refuses_never_truncates : forall t,
  (exists b, encode D t = Some b) <-> fitsb t = true.
Proof. exact (refuses_thm D). Qed.
Print Assumptions C01_refuses_never_truncates.

(* Decoding a node consumes exactly its own bytes: siblings / trailing bytes are untouched
   (this is the statement the unrepaired readInt31 violated for payloads >= 1 MiB).       *)
Theorem C01_trailing_untouched : forall t b rest,
  wf_node D t -> write_node D t = Some b ->
  next_tree D (S (length (b ++ rest))) (b ++ rest) = Ok (Some t, rest).
Proof. exact (trailing_thm D (fun _ => None) D_ok). Qed.
Print Assumptions C01_trailing_untouched.

(* Non-vacuity: a concrete tree with a JID, packed values, a secondary token, a 20-bit
   payload and > 255 children is well-formed and round-trips.                            *)
Theorem C01_nonvacuous : wf_node D ex_tree /\
  exists b, encode D ex_tree = Some b /\ 1000 < lenN b /\
            decode D (fun _ => None) b = Ok (Some ex_tree).
Proof. exact (conj ex_tree_wf ex_tree_roundtrips). Qed.
Print Assumptions C01_nonvacuous.
