(* C05 — Frame segmentation.  Statements only; proofs are in C05/C05Proofs.v. *)
From YV Require Import Common.Tac C05.C05Model C05.C05Proofs C05.C05Any.

(* Whatever the chunking, if the bytes received so far are the wire images of frames fs
   followed by a strict prefix of one more frame, exactly fs was handed upward, in order,
   and the buffer holds exactly the unfinished part ("and nothing else"). *)
Theorem C05_prefix : forall chunks fs partial,
  Forall valid_frame fs -> incomplete partial ->
  concat chunks = concat (map wire fs) ++ partial ->
  run_recv true [] chunks = (fs, partial).
Proof. exact prefix_thm. Qed.
Print Assumptions C05_prefix.

Theorem C05_reassembly : forall chunks fs,
  Forall valid_frame fs -> concat chunks = concat (map wire fs) ->
  run_recv true [] chunks = (fs, []).
Proof. exact reassembly_thm. Qed.
Print Assumptions C05_reassembly.

Theorem C05_send_format : forall d, (lenN d < 16777216)%N ->
  send true d = Some [be24_bytes (lenN d); d] /\
  concat [be24_bytes (lenN d); d] = wire d /\
  (match be24_bytes (lenN d) with [a; b; c] => be24 a b c = lenN d | _ => False end).
Proof. exact send_format_thm. Qed.
Print Assumptions C05_send_format.

Theorem C05_send_refuses : forall en d, (16777216 <= lenN d)%N -> send en d = None.
Proof. exact send_refuses_thm. Qed.
Print Assumptions C05_send_refuses.

Theorem C05_passthrough : forall chunks buf, run_recv false buf chunks = (chunks, buf).
Proof. exact passthrough_thm. Qed.
Print Assumptions C05_passthrough.

(* ---- arbitrary byte streams: no assumption that the peer framed anything correctly ---- *)

(* what is handed upward and what stays buffered depend only on the bytes received so far, not on how the
   network split or coalesced them *)
Theorem C05_chunking_irrelevant : forall c1 c2, concat c1 = concat c2 ->
  run_recv true [] c1 = run_recv true [] c2.
Proof. exact chunking_irrelevant_thm. Qed.
Print Assumptions C05_chunking_irrelevant.

(* "and nothing else", for every stream of bytes: the stream received is exactly the delivered frames, each behind
   the 3-byte big-endian image of its own length, followed by the buffer; nothing is invented, dropped, reordered or
   delivered twice; every delivered frame fits 24 bits; the buffer never holds a complete frame *)
Theorem C05_every_byte_accounted : forall chunks fs r, bytes (concat chunks) ->
  run_recv true [] chunks = (fs, r) ->
  concat (map wire fs) ++ r = concat chunks /\ Forall (fun f => (lenN f < 16777216)%N) fs /\
  run_recv true [] [r] = ([], r).
Proof. exact conservation_thm. Qed.
Print Assumptions C05_every_byte_accounted.
