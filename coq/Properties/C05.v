(* C05 — Frame segmentation.  Statements only; proofs are in C05/C05Proofs.v. *)
From YV Require Import Common.Tac C05.C05Model C05.C05Proofs.

(* Whatever the chunking, if the bytes received so far are the wire images of frames fs
   followed by a strict prefix of one more frame, exactly fs was handed upward, in order,
   and the buffer holds exactly the unfinished part ("and nothing else"). *)
Theorem C05_prefix : forall chunks fs partial,
  Forall valid_frame fs -> incomplete partial ->
  concat chunks = concat (map wire fs) ++ partial ->
  run_recv true [] chunks = (fs, partial).
Proof. exact prefix_thm. Qed.
Print Assumptions C05_prefix.

Theorem C05_reassembly : forall chunks fs,
  Forall valid_frame fs -> concat chunks = concat (map wire fs) ->
  run_recv true [] chunks = (fs, []).
Proof. exact reassembly_thm. Qed.
Print Assumptions C05_reassembly.

Theorem C05_send_format : forall d, (lenN d < 16777216)%N ->
  send true d = Some [be24_bytes (lenN d); d] /\
  concat [be24_bytes (lenN d); d] = wire d /\
  (match be24_bytes (lenN d) with [a; b; c] => be24 a b c = lenN d | _ => False end).
Proof. exact send_format_thm. Qed.
Print Assumptions C05_send_format.

Theorem C05_send_refuses : forall en d, (16777216 <= lenN d)%N -> send en d = None.
Proof. exact send_refuses_thm. Qed.
Print Assumptions C05_send_refuses.

Theorem C05_passthrough : forall chunks buf, run_recv false buf chunks = (chunks, buf).
Proof. exact passthrough_thm. Qed.
Print Assumptions C05_passthrough.
