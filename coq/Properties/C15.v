(* C15 -- Media encryption: lossless round trip, tamper detection, WhatsApp layout.
   Statements only; proofs are in C15/C15Proofs.v.  Every theorem is universally quantified
   over the four primitives (HKDF, AES-CBC encrypt/decrypt, HMAC-SHA256) subject to prims_ok.
   `encrypt` is MediaCipher.encrypt with fixes/C15-always-pad.patch applied;
   `encrypt_unaligned_only` is the code as shipped (refuted below).                       *)
From YV Require Import Common.Tac C15.C15Model C15.C15Proofs C15.C15Nonvac C15.C15HistModel C15.C15HistProofs.

Local Open Scope nat_scope.

(* decrypt (encrypt p) = p for EVERY plaintext: any length, incl. 0 and multiples of 16 *)
Theorem C15_roundtrip : forall hkdf cbc_enc cbc_dec hmac,
  prims_ok hkdf cbc_enc cbc_dec hmac ->
  forall p k info, decrypt hkdf cbc_dec hmac (encrypt hkdf cbc_enc hmac p k info) k info = Ok p.
Proof. exact roundtrip_thm. Qed.
Print Assumptions C15_roundtrip.

(* the shipped policy (pad only when len % 16 <> 0) violates the property: empty content is
   an error, and 15 zero bytes followed by 0x01 silently come back as 15 zero bytes *)
Theorem C15_unaligned_only_refuted : forall hkdf cbc_enc cbc_dec hmac,
  prims_ok hkdf cbc_enc cbc_dec hmac ->
  forall k info,
    decrypt hkdf cbc_dec hmac (encrypt_unaligned_only hkdf cbc_enc hmac [] k info) k info = ErrPad /\
    (let p := repeat 0%N 15 ++ [1%N] in
     decrypt hkdf cbc_dec hmac (encrypt_unaligned_only hkdf cbc_enc hmac p k info) k info
       = Ok (repeat 0%N 15) /\ repeat 0%N 15 <> p) /\
    (forall p, length p mod 16 <> 0 ->
       encrypt_unaligned_only hkdf cbc_enc hmac p k info = encrypt hkdf cbc_enc hmac p k info).
Proof. exact unaligned_only_refuted_thm. Qed.
Print Assumptions C15_unaligned_only_refuted.

(* the output has the WhatsApp layout (independent relational statement in C15Model.wa_layout:
   HKDF-112 = iv|cipherKey|macKey|refKey, always-padded AES-CBC, first 10 bytes of
   HMAC(macKey, iv||enc) appended) ... *)
Theorem C15_layout : forall hkdf cbc_enc cbc_dec hmac,
  prims_ok hkdf cbc_enc cbc_dec hmac ->
  forall p k info, wa_layout hkdf cbc_enc hmac p k info (encrypt hkdf cbc_enc hmac p k info).
Proof. exact layout_thm. Qed.
Print Assumptions C15_layout.

(* ... and the layout determines the bytes: any file laid out that way IS the library's output *)
Theorem C15_layout_unique : forall hkdf cbc_enc cbc_dec hmac,
  prims_ok hkdf cbc_enc cbc_dec hmac ->
  forall p k info c, wa_layout hkdf cbc_enc hmac p k info c -> c = encrypt hkdf cbc_enc hmac p k info.
Proof. exact layout_unique_thm. Qed.
Print Assumptions C15_layout_unique.

Theorem C15_length : forall hkdf cbc_enc cbc_dec hmac,
  prims_ok hkdf cbc_enc cbc_dec hmac ->
  forall p k info, length (encrypt hkdf cbc_enc hmac p k info) = (length p / 16 + 1) * 16 + 10.
Proof. exact length_thm. Qed.
Print Assumptions C15_length.

(* (holds for arbitrary primitives, no hypothesis at all)
   the MAC gate accepts exactly the inputs whose last 10 bytes are the truncated MAC of
   iv || (everything before them) *)
Theorem C15_accept_iff_tag : forall hkdf cbc_dec hmac c k info,
    decrypt hkdf cbc_dec hmac c k info <> ErrMac <->
    tag_of c = tmac hmac (mk_of (derive hkdf k info)) (iv_of (derive hkdf k info) ++ body_of c).
Proof. exact accept_iff_tag_thm. Qed.
Print Assumptions C15_accept_iff_tag.

(* anything returned as plaintext passed the tag check first, was a whole number of blocks and
   validly padded *)
Theorem C15_tamper : forall hkdf cbc_dec hmac c k info p',
    decrypt hkdf cbc_dec hmac c k info = Ok p' ->
    let d := derive hkdf k info in
    tag_of c = tmac hmac (mk_of d) (iv_of d ++ body_of c) /\
    length (body_of c) mod 16 = 0 /\
    pkcs7_unpad (cbc_dec (key_of d) (iv_of d) (body_of c)) = Some p'.
Proof. exact accepted_thm. Qed.
Print Assumptions C15_tamper.

(* plaintext only ever comes out of 10 bytes + whole blocks: a truncation or extension to any
   other length is rejected whatever its bytes (no cryptographic assumption) *)
Theorem C15_accepted_length : forall hkdf cbc_enc cbc_dec hmac,
  prims_ok hkdf cbc_enc cbc_dec hmac ->
  forall c k info p', decrypt hkdf cbc_dec hmac c k info = Ok p' -> 10 <= length c /\ length c mod 16 = 10.
Proof. exact accepted_length_thm. Qed.
Print Assumptions C15_accepted_length.

(* fewer than 10 bytes: always rejected *)
Theorem C15_short_rejected : forall hkdf cbc_enc cbc_dec hmac,
  prims_ok hkdf cbc_enc cbc_dec hmac ->
  forall c k info, length c < 10 -> decrypt hkdf cbc_dec hmac c k info = ErrMac.
Proof. exact short_rejected_thm. Qed.
Print Assumptions C15_short_rejected.

(* a modified tag on an intact body is rejected (no cryptographic assumption) *)
Theorem C15_tamper_tag : forall hkdf cbc_enc cbc_dec hmac,
  prims_ok hkdf cbc_enc cbc_dec hmac ->
  forall p k info c',
    let c := encrypt hkdf cbc_enc hmac p k info in
    c' <> c -> body_of c' = body_of c -> decrypt hkdf cbc_dec hmac c' k info = ErrMac.
Proof. exact tamper_tag_thm. Qed.
Print Assumptions C15_tamper_tag.

(* Under the idealisation "the truncated MAC has no collision among the queried
   (key, message) pairs Q": a ciphertext that differs from the genuine one in its body only or
   in its tag only -- in particular every single-byte corruption -- is rejected. *)
Theorem C15_tamper_rejected : forall hkdf cbc_enc cbc_dec hmac,
  prims_ok hkdf cbc_enc cbc_dec hmac ->
  forall Q : list N -> list N -> Prop,
  (forall k1 m1 k2 m2, Q k1 m1 -> Q k2 m2 -> tmac hmac k1 m1 = tmac hmac k2 m2 -> k1 = k2 /\ m1 = m2) ->
  forall p k info c',
    let c := encrypt hkdf cbc_enc hmac p k info in
    let d := derive hkdf k info in
    Q (mk_of d) (iv_of d ++ body_of c) -> Q (mk_of d) (iv_of d ++ body_of c') ->
    c' <> c -> (body_of c' = body_of c \/ tag_of c' = tag_of c) ->
    decrypt hkdf cbc_dec hmac c' k info = ErrMac.
Proof. exact tamper_one_side_thm. Qed.
Print Assumptions C15_tamper_rejected.

(* The general case.  The full-strength wish "forall c' <> c, decrypt c' = Err" is FALSE for
   any deterministic MAC (take c' = body' ++ tmac mk (iv ++ body')), so what is proved is the
   reduction: an accepted c' <> c carries a valid truncated MAC on a body that was never
   authenticated, i.e. an existential forgery of HMAC-SHA256 truncated to 80 bits. *)
Theorem C15_tamper_forgery_reduction : forall hkdf cbc_enc cbc_dec hmac,
  prims_ok hkdf cbc_enc cbc_dec hmac ->
  forall p k info c',
    let c := encrypt hkdf cbc_enc hmac p k info in
    let d := derive hkdf k info in
    c' <> c -> decrypt hkdf cbc_dec hmac c' k info <> ErrMac ->
    body_of c' <> body_of c /\ tag_of c' = tmac hmac (mk_of d) (iv_of d ++ body_of c').
Proof. exact forgery_reduction_thm. Qed.
Print Assumptions C15_tamper_forgery_reduction.

(* wrong media key or wrong media kind reduce to a different derived MAC key *)
Theorem C15_wrong_key : forall hkdf cbc_enc cbc_dec hmac,
  prims_ok hkdf cbc_enc cbc_dec hmac ->
  forall Q : list N -> list N -> Prop,
  (forall k1 m1 k2 m2, Q k1 m1 -> Q k2 m2 -> tmac hmac k1 m1 = tmac hmac k2 m2 -> k1 = k2 /\ m1 = m2) ->
  forall p k info k' info',
    let c := encrypt hkdf cbc_enc hmac p k info in
    let d := derive hkdf k info in
    let d' := derive hkdf k' info' in
    mk_of d' <> mk_of d ->
    Q (mk_of d) (iv_of d ++ body_of c) -> Q (mk_of d') (iv_of d' ++ body_of c) ->
    decrypt hkdf cbc_dec hmac c k' info' = ErrMac.
Proof. exact wrong_key_thm. Qed.
Print Assumptions C15_wrong_key.

(* A MediaCipher OBJECT driven through any history of calls (C15HistModel: `run mode st calls`):
   without a memo (the shipped class) or with a memo of the last HKDF expansion keyed on
   (media key, kind), every call of every history returns what the pure function gives for that
   call's arguments alone -- for arbitrary primitives, no hypothesis. *)
Theorem C15_history_independent : forall hkdf cbc_enc cbc_dec hmac mode, mode <> MemoKeyOnly ->
  forall calls st, memo_inv hkdf st ->
    run hkdf cbc_enc cbc_dec hmac mode st calls = map (pure_call hkdf cbc_enc cbc_dec hmac) calls.
Proof. exact history_independent_thm. Qed.
Print Assumptions C15_history_independent.

(* a memo keyed on the media key only is NOT history independent: after encrypting under kind i1,
   decrypting that file under any other kind i2 returns the plaintext instead of rejecting, and
   encrypting under i2 returns kind i1's file (witness of the seeded regression C15-1) *)
Theorem C15_memo_by_key_refuted : forall hkdf cbc_enc cbc_dec hmac,
  prims_ok hkdf cbc_enc cbc_dec hmac ->
  forall p k i1 i2,
    run hkdf cbc_enc cbc_dec hmac MemoKeyOnly None
        [CEnc p k i1; CDec (encrypt hkdf cbc_enc hmac p k i1) k i2] =
      [OBytes (encrypt hkdf cbc_enc hmac p k i1); ORes (Ok p)] /\
    run hkdf cbc_enc cbc_dec hmac MemoKeyOnly None [CEnc p k i1; CEnc p k i2] =
      [OBytes (encrypt hkdf cbc_enc hmac p k i1); OBytes (encrypt hkdf cbc_enc hmac p k i1)].
Proof. exact memo_by_key_refuted_thm. Qed.
Print Assumptions C15_memo_by_key_refuted.

(* the hypotheses are satisfiable and the theorems yield concrete conclusions (toy instance) *)
Theorem C15_nonvacuous :
  prims_ok toy_hkdf toy_cbc toy_cbc toy_hmac /\
  decrypt toy_hkdf toy_cbc toy_hmac tc' tk tinfo = ErrMac.
Proof. exact (conj toy_prims_ok toy_tamper_rejected). Qed.
Print Assumptions C15_nonvacuous.
