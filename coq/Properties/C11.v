(* C11 -- concurrent senders never corrupt the encrypted stream.
   Statements only; proofs are in C11/C11Proofs.v and C11/C11Inst.v.

   Model: C12/C12Chain.v (lock chain, any number of threads, each with any list of sends, any
   schedule) instantiated by C11/C11Model.v with the send path
     layers >= 5 (arbitrary `upper`) -> coder 4 -> noise.send 3 (nonce += 1, encrypt, enqueue)
     -> noise write 2 (dequeue, under noise.lock) -> segments 1 (header, payload) -> network 0,
   for arbitrary encode / enc / hdr / upper functions.  `reach_nf` = reachable without failures
   (failures are C12).  `entry_ok'`: every send enters at the coder or above.
   below th = the thread's innermost frame is noise.send or lower.
   frames n ps = hdr(enc n p0) enc n p0  hdr(enc (n+1) p1) enc (n+1) p1 ...
   futs c = the writes still pending in call stacks below the coder (in order).            *)
From YV Require Import Common.Tac C12.C12Chain C11.C11Model C11.C11Proofs C11.C11Inst.
From Coq Require Import Permutation.

Section C11.
Variable data : Type.
Variable encode : data -> data.
Variable enc : nat -> data -> data.
Variable hdr : data -> data.
Variable upper : nat -> data -> list data.
Notation body := (body11 data encode enc hdr upper).
Notation reach_nf := (reach_nf data (@wstate data) has_lock11 ror11 body (s0 data)).
Notation exec := (exec data (@wstate data) has_lock11 ror11 body).

(* Hand-over-hand: a thread below the coder holds the coder's lock; so at most one thread is
   ever strictly below the coder layer's lock. *)
Theorem C11_serialised : forall opss c t1 t2 th1 th2,
  entry_ok' data opss -> reach_nf opss c ->
  nth_error (thr c) t1 = Some th1 -> nth_error (thr c) t2 = Some th2 ->
  below data th1 -> below data th2 -> t1 = t2.
Proof. exact (serialised_thm data encode enc hdr upper). Qed.

Theorem C11_below_holds_coder_lock : forall opss c t th,
  entry_ok' data opss -> reach_nf opss c -> nth_error (thr c) t = Some th -> below data th ->
  holds th 4 /\ locks c 4 = Some t.
Proof. exact (below_holds_coder_thm data encode enc hdr upper). Qed.

(* In every reachable state the bytes on the socket are a prefix of the canonical stream of
   whole frames header.payload with nonces 0,1,2,... in order; the missing suffix is exactly
   the pending writes of the one thread below the coder (a dangling header's payload is that
   thread's very next write); nobody else has anything pending below the coder; the nonce
   counter equals the number of frames started. *)
Theorem C11_frames_whole : forall opss c,
  entry_ok' data opss -> reach_nf opss c ->
  wire (sh c) ++ futs data hdr c = frames data enc hdr 0 (sent (sh c)) /\
  ctr (sh c) = length (sent (sh c)) /\
  (forall t th, nth_error (thr c) t = Some th -> ~ below data th ->
                agg data (wexpand data hdr) (stack th) = []) /\
  (forall t th, nth_error (thr c) t = Some th -> below data th ->
                futs data hdr c = agg data (wexpand data hdr) (stack th)).
Proof. exact (frames_whole_thm data encode enc hdr upper). Qed.

(* Explicitly: the wire is whole header.payload frames with nonces 0..j-1, plus possibly ONE header
   whose payload is the very next pending write below the coder (by C11_frames_whole that is the
   next write of the unique thread below the coder, which holds the coder's and the noise lock). *)
Theorem C11_dangling_header : forall opss c,
  entry_ok' data opss -> reach_nf opss c ->
  exists j,
    (wire (sh c) = frames data enc hdr 0 (firstn j (sent (sh c))) /\
     futs data hdr c = frames data enc hdr j (skipn j (sent (sh c)))) \/
    (exists p r, skipn j (sent (sh c)) = p :: r /\
                 wire (sh c) = frames data enc hdr 0 (firstn j (sent (sh c))) ++ [hdr (enc j p)] /\
                 futs data hdr c = enc j p :: frames data enc hdr (S j) r).
Proof. exact (dangling_header_thm data encode enc hdr upper). Qed.

(* Whenever no thread is below the coder the wire is exactly whole frames, the j-th frame
   encrypted with nonce j: the peer can decrypt every one of them in order. *)
Theorem C11_counter_order : forall opss c,
  entry_ok' data opss -> reach_nf opss c ->
  (forall t th, nth_error (thr c) t = Some th -> ~ below data th) ->
  wire (sh c) = frames data enc hdr 0 (sent (sh c)).
Proof. exact (counter_order_thm data encode enc hdr upper). Qed.

(* At termination the plaintexts encrypted are, as a multiset, exactly what the sends hand to
   the noise layer (total = every send flattened through the layers above), and the wire is the
   whole frames of them: each stanza is transmitted exactly once. *)
Theorem C11_exactly_once : forall opss c,
  entry_ok' data opss -> reach_nf opss c ->
  (forall t th, nth_error (thr c) t = Some th -> finished th) ->
  Permutation (sent (sh c)) (total data encode upper opss) /\
  wire (sh c) = frames data enc hdr 0 (sent (sh c)).
Proof. exact (exactly_once_thm data encode enc hdr upper). Qed.

(* Locks are taken in one global order: while a thread is unfinished some thread can step. *)
Theorem C11_no_deadlock : forall opss c t th,
  reach_nf opss c -> nth_error (thr c) t = Some th -> (stack th <> [] \/ ops th <> []) ->
  exists t', exec c (t', false) <> None.
Proof. exact (no_deadlock11_thm data encode enc hdr upper). Qed.

End C11.
Print Assumptions C11_serialised.
Print Assumptions C11_below_holds_coder_lock.
Print Assumptions C11_frames_whole.
Print Assumptions C11_dangling_header.
Print Assumptions C11_counter_order.
Print Assumptions C11_exactly_once.
Print Assumptions C11_no_deadlock.

(* Positive control / why the entry hypothesis is needed: two threads entering directly at the
   segments layer (not through the coder's lock) can put two headers next to each other. *)
Theorem C11_unprotected_refuted :
  reach_nf nat (@wstate nat) has_lock11 ror11 body_n (s0 nat) bad_ops bad_cfg /\
  wire (sh bad_cfg) = [hdr_n 7; hdr_n 8] /\ ~ entry_ok' nat bad_ops.
Proof. exact unprotected_refuted_thm. Qed.
Print Assumptions C11_unprotected_refuted.
