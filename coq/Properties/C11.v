(* C11 -- concurrent senders never corrupt the encrypted stream.
   Statements only; proofs are in C11/C11Proofs.v and C11/C11Inst.v.

   Model: C12/C12Chain.v (lock chain, any number of threads, each with any list of sends, any
   schedule) instantiated by C11/C11Model.v with the send path
     layers >= 5 (arbitrary `upper`) -> coder 4 -> noise.send 3 (nonce += 1, encrypt, enqueue)
     -> noise write 2 (dequeue, under noise.lock) -> segments 1 (header, payload) -> network 0,
   for arbitrary encode / enc / hdr / upper functions.  `reach_nf` = reachable without failures
   (failures are C12).  `entry_ok'`: every send enters at the coder or above.
   below th = the thread's innermost frame is noise.send or lower.
   frames n ps = hdr(enc n p0) enc n p0  hdr(enc (n+1) p1) enc (n+1) p1 ...
   futs c = the writes still pending in call stacks below the coder (in order).            *)
From YV Require Import Common.Tac C12.C12Chain C11.C11Model C11.C11Proofs C11.C11Inst.
From YV Require Import C11.C11HsModel C11.C11HsProofs C11.C11HsInst.
From Coq Require Import Permutation.

Section C11.
Variable data : Type.
Variable encode : data -> data.
Variable enc : nat -> data -> data.
Variable hdr : data -> data.
Variable upper : nat -> data -> list data.
Notation body := (body11 data encode enc hdr upper).
Notation reach_nf := (reach_nf data (@wstate data) has_lock11 ror11 body (s0 data)).
Notation exec := (exec data (@wstate data) has_lock11 ror11 body).

(* Hand-over-hand: a thread below the coder holds the coder's lock; so at most one thread is
   ever strictly below the coder layer's lock. *)
Theorem C11_serialised : forall opss c t1 t2 th1 th2,
  entry_ok' data opss -> reach_nf opss c ->
  nth_error (thr c) t1 = Some th1 -> nth_error (thr c) t2 = Some th2 ->
  below data th1 -> below data th2 -> t1 = t2.
Proof. exact (serialised_thm data encode enc hdr upper). Qed.

Theorem C11_below_holds_coder_lock : forall opss c t th,
  entry_ok' data opss -> reach_nf opss c -> nth_error (thr c) t = Some th -> below data th ->
  holds th 4 /\ locks c 4 = Some t.
Proof. exact (below_holds_coder_thm data encode enc hdr upper). Qed.

(* In every reachable state the bytes on the socket are a prefix of the canonical stream of
   whole frames header.payload with nonces 0,1,2,... in order; the missing suffix is exactly
   the pending writes of the one thread below the coder (a dangling header's payload is that
   thread's very next write); nobody else has anything pending below the coder; the nonce
   counter equals the number of frames started. *)
Theorem C11_frames_whole : forall opss c,
  entry_ok' data opss -> reach_nf opss c ->
  wire (sh c) ++ futs data hdr c = frames data enc hdr 0 (sent (sh c)) /\
  ctr (sh c) = length (sent (sh c)) /\
  (forall t th, nth_error (thr c) t = Some th -> ~ below data th ->
                agg data (wexpand data hdr) (stack th) = []) /\
  (forall t th, nth_error (thr c) t = Some th -> below data th ->
                futs data hdr c = agg data (wexpand data hdr) (stack th)).
Proof. exact (frames_whole_thm data encode enc hdr upper). Qed.

(* Explicitly: the wire is whole header.payload frames with nonces 0..j-1, plus possibly ONE header
   whose payload is the very next pending write below the coder (by C11_frames_whole that is the
   next write of the unique thread below the coder, which holds the coder's and the noise lock). *)
Theorem C11_dangling_header : forall opss c,
  entry_ok' data opss -> reach_nf opss c ->
  exists j,
    (wire (sh c) = frames data enc hdr 0 (firstn j (sent (sh c))) /\
     futs data hdr c = frames data enc hdr j (skipn j (sent (sh c)))) \/
    (exists p r, skipn j (sent (sh c)) = p :: r /\
                 wire (sh c) = frames data enc hdr 0 (firstn j (sent (sh c))) ++ [hdr (enc j p)] /\
                 futs data hdr c = enc j p :: frames data enc hdr (S j) r).
Proof. exact (dangling_header_thm data encode enc hdr upper). Qed.

(* Whenever no thread is below the coder the wire is exactly whole frames, the j-th frame
   encrypted with nonce j: the peer can decrypt every one of them in order. *)
Theorem C11_counter_order : forall opss c,
  entry_ok' data opss -> reach_nf opss c ->
  (forall t th, nth_error (thr c) t = Some th -> ~ below data th) ->
  wire (sh c) = frames data enc hdr 0 (sent (sh c)).
Proof. exact (counter_order_thm data encode enc hdr upper). Qed.

(* At termination the plaintexts encrypted are, as a multiset, exactly what the sends hand to
   the noise layer (total = every send flattened through the layers above), and the wire is the
   whole frames of them: each stanza is transmitted exactly once. *)
Theorem C11_exactly_once : forall opss c,
  entry_ok' data opss -> reach_nf opss c ->
  (forall t th, nth_error (thr c) t = Some th -> finished th) ->
  Permutation (sent (sh c)) (total data encode upper opss) /\
  wire (sh c) = frames data enc hdr 0 (sent (sh c)).
Proof. exact (exactly_once_thm data encode enc hdr upper). Qed.

(* Locks are taken in one global order: while a thread is unfinished some thread can step. *)
Theorem C11_no_deadlock : forall opss c t th,
  reach_nf opss c -> nth_error (thr c) t = Some th -> (stack th <> [] \/ ops th <> []) ->
  exists t', exec c (t', false) <> None.
Proof. exact (no_deadlock11_thm data encode enc hdr upper). Qed.

(* ------------------------------------------------------------------------------------------------
   Handshake side (C11/C11HsModel.v): senders racing the Noise handshake worker.

   Chain: layers >= 6 -> coder 5 -> WANoiseProtocol.send 4 (raises unless the state is transport; else
   nonce += 1, encrypt) -> stream.write_segment 3 (enqueue) -> noise write 2 (dequeue, under noise.lock)
   -> segments 1 -> network 0.  Shared protocol state hst (false = handshake, true = transport).
   reach_h: any schedule; the step of thread t raises iff it is a call of node 4 while hst = false (hfail) --
   the raising thread unwinds, every toLower releases its lock, the operation's result is false.
   entry_h h: thread h is the handshake worker -- any number of write_segment operations entering at node 3
   (NOT through the coder's lock), then optionally `finish` = (4, Flip) which sets hst := true, then any
   sends entering at a layer >= coder (replies produced while it flushes the incoming buffer); every other
   thread is a sender with any list of sends entering at a layer >= coder.  Operations may START in either
   state and be in progress when the state flips.
   belowh th = innermost frame is WANoiseProtocol.send or lower (the lone `finish` frame excepted).
   hsw = the handshake segments in the order they were handed to the stream (ghost).
   pendh wexpandh th = the socket writes still pending in th's call stack ([] for a raising thread).
   okp o rs = the plaintexts of those operations of o whose result in rs is true, flattened through the
   layers above the noise layer.                                                                    *)
Notation bodyh := (bodyh data encode enc hdr upper).
Notation reach_h := (reach_h data encode enc hdr upper).
Notation hexec := (hexec data encode enc hdr upper).

(* Whoever is below the coder holds the coder's lock (transport state) or is the handshake worker
   (handshake state); hence at most one thread is ever below the coder -- also across the flip. *)
Theorem C11_hs_below_owner : forall h opss c t th,
  entry_h data h opss -> reach_h opss c -> nth_error (thr c) t = Some th -> belowh data th ->
  (hst (sh c) = true /\ holds th 5 /\ locks c 5 = Some t) \/ (hst (sh c) = false /\ t = h).
Proof. exact (hs_below_owner_thm data encode enc hdr upper). Qed.

Theorem C11_hs_serialised : forall h opss c t1 t2 th1 th2,
  entry_h data h opss -> reach_h opss c ->
  nth_error (thr c) t1 = Some th1 -> nth_error (thr c) t2 = Some th2 ->
  belowh data th1 -> belowh data th2 -> t1 = t2.
Proof. exact (hs_serialised_thm data encode enc hdr upper). Qed.

(* In every reachable state the socket has received a prefix of
   [handshake segments, framed] ++ [transport frames with nonces 0,1,2,... in encryption order];
   the missing suffix is exactly the pending writes of the one thread below the coder. *)
Theorem C11_hs_frames_whole : forall h opss c,
  entry_h data h opss -> reach_h opss c ->
  hwire (sh c) ++ futsh data hdr c = hsframes data hdr (hsw (sh c)) ++ hframes data enc hdr 0 (hsent (sh c)) /\
  hctr (sh c) = length (hsent (sh c)) /\
  (forall t th, nth_error (thr c) t = Some th -> ~ belowh data th ->
                pendh data data (wexpandh data hdr) th = []) /\
  (forall t th, nth_error (thr c) t = Some th -> belowh data th ->
                futsh data hdr c = pendh data data (wexpandh data hdr) th).
Proof. exact (hs_frames_whole_thm data encode enc hdr upper). Qed.

(* Whenever nobody is below the coder: handshake segments first, then whole frames, the j-th encrypted with
   nonce j -- the strict in-order peer decrypts every one of them. *)
Theorem C11_hs_counter_order : forall h opss c,
  entry_h data h opss -> reach_h opss c ->
  (forall t th, nth_error (thr c) t = Some th -> ~ belowh data th) ->
  hwire (sh c) = hsframes data hdr (hsw (sh c)) ++ hframes data enc hdr 0 (hsent (sh c)).
Proof. exact (hs_counter_order_thm data encode enc hdr upper). Qed.

(* Before the flip nothing has been encrypted and the wire holds handshake segments only. *)
Theorem C11_hs_handshake_first : forall h opss c,
  entry_h data h opss -> reach_h opss c -> hst (sh c) = false ->
  hsent (sh c) = [] /\ hctr (sh c) = 0 /\ hwire (sh c) ++ futsh data hdr c = hsframes data hdr (hsw (sh c)).
Proof. exact (hs_handshake_first_thm data encode enc hdr upper). Qed.

(* A send raises exactly at WANoiseProtocol.send outside the transport state; the raising step changes neither
   the shared state (nonce, queue, wire) nor the lock table; in transport state nothing raises. *)
Theorem C11_hs_raise : forall c t c',
  hexec c t = Some c' ->
  (hfail c t = true -> hst (sh c) = false /\ sh c' = sh c /\ locks c' = locks c /\
                       exists th, nth_error (thr c) t = Some th /\ next_call th = Some 4) /\
  (hst (sh c) = true -> hfail c t = false).
Proof. exact (hs_raise_thm data encode enc hdr upper). Qed.

(* At termination: the plaintexts encrypted are, as a multiset, exactly those of the sends that RETURNED
   normally (each flattened through the layers above; exactly one per send when every layer forwards one
   stanza), a send that raised transmitted nothing, nothing is lost or duplicated, every operation has a
   result, and the wire is the handshake segments followed by the whole frames of `sent` in nonce order. *)
Theorem C11_hs_exactly_once : forall h opss c,
  entry_h data h opss -> reach_h opss c ->
  (forall t th, nth_error (thr c) t = Some th -> finished th) ->
  Permutation (hsent (sh c))
              (concat (map (fun p => okp data encode upper (fst p) (results (snd p))) (combine opss (thr c)))) /\
  hwire (sh c) = hsframes data hdr (hsw (sh c)) ++ hframes data enc hdr 0 (hsent (sh c)) /\
  length (thr c) = length opss /\
  (forall t o th, nth_error opss t = Some o -> nth_error (thr c) t = Some th ->
                  length (results th) = length o).
Proof. exact (hs_exactly_once_thm data encode enc hdr upper). Qed.

(* Raising sends release their locks, locks are taken in one global order: no deadlock. *)
Theorem C11_hs_no_deadlock : forall opss c t th,
  reach_h opss c -> nth_error (thr c) t = Some th -> (stack th <> [] \/ ops th <> []) ->
  exists t', hexec c t' <> None.
Proof. exact (hs_no_deadlock_thm data encode enc hdr upper). Qed.

End C11.
Print Assumptions C11_serialised.
Print Assumptions C11_below_holds_coder_lock.
Print Assumptions C11_frames_whole.
Print Assumptions C11_dangling_header.
Print Assumptions C11_counter_order.
Print Assumptions C11_exactly_once.
Print Assumptions C11_no_deadlock.
Print Assumptions C11_hs_below_owner.
Print Assumptions C11_hs_serialised.
Print Assumptions C11_hs_frames_whole.
Print Assumptions C11_hs_counter_order.
Print Assumptions C11_hs_handshake_first.
Print Assumptions C11_hs_raise.
Print Assumptions C11_hs_exactly_once.
Print Assumptions C11_hs_no_deadlock.

(* Positive control / why the entry hypothesis is needed: two threads entering directly at the
   segments layer (not through the coder's lock) can put two headers next to each other. *)
Theorem C11_unprotected_refuted :
  reach_nf nat (@wstate nat) has_lock11 ror11 body_n (s0 nat) bad_ops bad_cfg /\
  wire (sh bad_cfg) = [hdr_n 7; hdr_n 8] /\ ~ entry_ok' nat bad_ops.
Proof. exact unprotected_refuted_thm. Qed.
Print Assumptions C11_unprotected_refuted.

(* Why the handshake worker must not become a transport sender outside the coder's lock (the shape of a
   "deferred send" queue flushed from the protocol-state callback): model variant body_d (C11HsInst.v) where
   send() in handshake state parks the plaintext instead of raising and `finish` flushes the parked plaintexts
   with WANoiseProtocol.send on the worker.  (a) every send returned normally, yet the wire carries nonce 1
   before nonce 0; (b) a send returned normally, nothing was ever transmitted for it. *)
Theorem C11_deferred_flush_refuted :
  (reach_nf (msg nat) dstate has_lockh rorh body_d d0 ooo_ops ooo_cfg /\
   (forall t th, nth_error (thr ooo_cfg) t = Some th -> finished th /\ Forall (fun r => r = true) (results th)) /\
   dsent (sh ooo_cfg) = [7; 8] /\
   dwire (sh ooo_cfg) = [hdr_h (enc_h 1 8); enc_h 1 8; hdr_h (enc_h 0 7); enc_h 0 7]) /\
  (reach_nf (msg nat) dstate has_lockh rorh body_d d0 lost_ops lost_cfg /\
   (forall t th, nth_error (thr lost_cfg) t = Some th -> finished th /\ Forall (fun r => r = true) (results th)) /\
   dsent (sh lost_cfg) = [] /\ dwire (sh lost_cfg) = [] /\ dpark (sh lost_cfg) = [7]).
Proof. exact deferred_flush_refuted_thm. Qed.
Print Assumptions C11_deferred_flush_refuted.
