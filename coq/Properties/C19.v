(* C19 - Account configuration survives serialisation and is saved atomically.
   Statements only; proofs are in C19/C19Proofs*.v.
   base64 is MODELLED (C19/C19B64.v: b64_encode = base64.b64encode(..).decode(), b64_decode =
   base64.b64decode on a str, i.e. the lenient binascii.a2b_base64 state machine) and the facts the
   file formats need from it are theorems below - for byte strings of every length.  json.dumps /
   json.loads stay universally quantified functions constrained by three named hypotheses; the
   harness runs the extracted model with the real json behind them and re-checks the hypotheses
   on every oracle call, and compares b64_encode / b64_decode and every field encoder of
   ConfigSerialize with the interpreter on every run (lengths 0..200, 1000, ...). *)
From YV Require Import Common.Tac C19.C19Str C19.C19StrCheck C19.C19B64 C19.C19Model C19.C19ProofsKV
                       C19.C19ProofsPipe C19.C19ProofsSave C19.C19ProofsLoad C19.C19ProofsB64
                       C19.C19NonVacuity.
Local Open Scope N_scope.

(* key=value: reverse (transform d) = d with every value as text, keys in sorted order, for every
   dictionary with distinct keys in [a-z_]+ and values free of '#' ';' newline and outer blanks
   (values may contain '='; ints are printed in decimal). *)
Theorem C19_keyval_rt : forall d : list (str * jval),
  NoDup (keys d) -> Forall entry_ok d ->
  kv_parse (kv_print d) = Some (map as_text (sort_keys d)).
Proof. exact keyval_rt_thm. Qed.
Print Assumptions C19_keyval_rt.

(* ---- base64, as the field encoders use it ---- *)

(* every character of base64.b64encode's output is one of the 65 characters A-Z a-z 0-9 + / = ,
   for every input of every length *)
Theorem C19_b64_alphabet : forall b : list N, forallb b64_char (b64_encode b) = true.
Proof. exact b64_encode_alphabet_thm. Qed.
Print Assumptions C19_b64_alphabet.

(* hence the encoded text is a legal key=value value (no '#', ';', newline, carriage return, no
   outer blank) and occupies ONE line, whatever the length of the data; its length is
   4 * ceil(len/3) *)
Theorem C19_b64_keyval_safe : forall b : list N,
  value_ok (b64_encode b) = true /\
  forallb (fun c => negb ((c =? 10) || (c =? 13))) (b64_encode b) = true /\
  N.of_nat (length (b64_encode b)) = 4 * ((N.of_nat (length b) + 2) / 3).
Proof. exact b64_encode_keyval_safe_thm. Qed.
Print Assumptions C19_b64_keyval_safe.

(* base64.b64decode(base64.b64encode(b).decode()) == b for every byte string b *)
Theorem C19_b64_roundtrip : forall b : list N, bytes_ok b = true -> b64_decode (b64_encode b) = Some b.
Proof. exact b64_rt_thm. Qed.
Print Assumptions C19_b64_roundtrip.

(* one line of the key=value file: "key=<base64 of b>" is read back as exactly (key, that text):
   the parser splits at the FIRST '=', so the pad characters stay in the value *)
Theorem C19_b64_line_rt : forall (k : str) (b : list N), key_ok k = true ->
  kv_parse_line (k ++ 61 :: b64_encode b) = Some (Some (k, JStr (b64_encode b))).
Proof. exact b64_line_rt_thm. Qed.
Print Assumptions C19_b64_line_rt.

(* ---- configurations ---- *)

(* the transform pipeline: for every well-typed configuration (any subset of the 16 optional
   attributes, any values, binary attributes = byte strings of ANY length, key pair halves of 32
   bytes) deserialize (serialize c) = c exactly. *)
Theorem C19_pipeline_rt : forall c, wf_config c = true ->
  exists d, serialize b64_encode c = Some d /\ deserialize b64_decode d = Some c.
Proof. exact pipeline_rt_b64_thm. Qed.
Print Assumptions C19_pipeline_rt.

(* the key=value file format, closed (nothing assumed): for every well-typed configuration whose
   textual values are in the key=value domain, for every length of id / expid /
   edge_routing_info / server_static_public: the printed file parses to a non-empty dict and
   deserialising it gives the configuration back (int-valued attributes as decimal text). *)
Theorem C19_keyval_config_rt : forall c, wf_config c = true -> kv_config_ok c = true ->
  exists d p, serialize b64_encode c = Some d /\ kv_parse (kv_print d) = Some p /\ p <> [] /\
              deserialize b64_decode p = Some (textual_config c).
Proof. exact keyval_config_rt_thm. Qed.
Print Assumptions C19_keyval_config_rt.

(* both file formats, text level: config_to_str succeeds, the format's own parser reads the text
   back to a non-empty dict, and deserialize gives the saved configuration (key=value: int-valued
   attributes as their decimal text, fmt_view).  JSON: under json_rt. *)
Theorem C19_format_rt : forall (jdumps : list (str * jval) -> str) (jloads : str -> option (list (str * jval))),
  (forall d, NoDup (keys d) -> jloads (jdumps d) = Some (sort_keys d)) ->
  forall (f : fmt) (c : config), wf_config c = true -> (f = KeyVal -> kv_config_ok c = true) ->
  exists t d, config_to_str b64_encode jdumps f c = Some t /\ parse_as jloads f t = Some d /\ d <> [] /\
              deserialize b64_decode d = Some (fmt_view f c).
Proof. exact format_rt_b64_thm. Qed.
Print Assumptions C19_format_rt.

(* load paths: a file holding what save wrote in format f loads as the saved configuration
   (a) by path when its extension maps to f or is not in MAP_EXT (incl. no extension: trial
   parsing picks the right parser), (b) by profile name from <profile>/config.json whatever f
   (incl. right after the first save of a never-used profile). *)
Theorem C19_load_paths : forall (jdumps : list (str * jval) -> str) (jloads : str -> option (list (str * jval))),
  (forall d, NoDup (keys d) -> jloads (jdumps d) = Some (sort_keys d)) ->
  (forall d, d <> [] -> exists rest, jdumps d = 123 :: 10 :: rest) ->
  (forall d, forallb (fun c => negb (c =? 13)) (jdumps d) = true) ->
  forall (f : fmt) (c : config) (s : fsys) (root name t : str),
  wf_config c = true -> (f = KeyVal -> kv_config_ok c = true) ->
  config_to_str b64_encode jdumps f c = Some t ->
  (fs_read s name = Some t -> ext_type name = None \/ ext_type name = Some f ->
     load b64_decode jloads s root name false = LOk (fmt_view f c)) /\
  (fs_read s name = None -> fs_read s (pjoin (profile_dir root name) s_config_yo) = None ->
   fs_read s (pjoin (profile_dir root name) s_config_json) = Some t ->
     load b64_decode jloads s root name false = LOk (fmt_view f c)).
Proof. exact load_paths_b64_thm. Qed.
Print Assumptions C19_load_paths.

(* the repaired save runs to completion from ANY file-system state - also when the profile
   directory does not exist yet - and leaves exactly the new text at <profile>/config.json. *)
Theorem C19_save_completes : forall (root name : str) (s : fsys) (text : str),
  exists s', run (save_prog s root name text) s = Some s' /\
             fs_read s' (pjoin (profile_dir root name) s_config_json) = Some text /\
             fs_read s' name = fs_read s name /\
             fs_read s' (pjoin (profile_dir root name) s_config_yo) =
             fs_read s (pjoin (profile_dir root name) s_config_yo).
Proof. exact save_prog_completes. Qed.
Print Assumptions C19_save_completes.

(* generic over save programs: if nothing but a final rename (from a name the loader does not
   read) touches a path the loader reads, then whenever the process dies - between any two
   operations or after any prefix of the data of a write - every such path shows its old
   contents, or the program had completed. *)
Theorem C19_atomic_generic : forall watched p s s',
  fresh_then_rename watched p = true -> crash s p s' ->
  same_on watched s s' \/ run p s = Some s'.
Proof. exact atomic_generic_thm. Qed.
Print Assumptions C19_atomic_generic.

(* end to end: whenever the process dies during the save of configuration c, load(profile)
   returns exactly what it returned before the save, or the new configuration. *)
Theorem C19_atomic_save : forall (jdumps : list (str * jval) -> str) (jloads : str -> option (list (str * jval))),
  (forall d, NoDup (keys d) -> jloads (jdumps d) = Some (sort_keys d)) ->
  (forall d, d <> [] -> exists rest, jdumps d = 123 :: 10 :: rest) ->
  (forall d, forallb (fun c => negb (c =? 13)) (jdumps d) = true) ->
  forall (f : fmt) (c : config) (s s' : fsys) (root name t : str),
  wf_config c = true -> (f = KeyVal -> kv_config_ok c = true) ->
  config_to_str b64_encode jdumps f c = Some t ->
  fs_read s name = None -> fs_read s (pjoin (profile_dir root name) s_config_yo) = None ->
  crash s (save_prog s root name t) s' ->
  load b64_decode jloads s' root name false = load b64_decode jloads s root name false \/
  load b64_decode jloads s' root name false = LOk (fmt_view f c).
Proof. exact atomic_save_b64_thm. Qed.
Print Assumptions C19_atomic_save.

(* ---- the unrepaired variants (regression witnesses) ---- *)

(* in-place truncating write: a crash right after the open leaves neither the old nor the new
   text, and the program does not have the fresh-then-rename shape *)
Theorem C19_truncating_refuted : exists root name old new s s',
  fs_read s (pjoin (profile_dir root name) s_config_json) = Some old /\
  crash s (save_prog_unfixed root name new) s' /\
  fs_read s' (pjoin (profile_dir root name) s_config_json) <> Some old /\
  fs_read s' (pjoin (profile_dir root name) s_config_json) <> Some new /\
  fresh_then_rename (watched_paths root name) (save_prog_unfixed root name new) = false.
Proof. exact truncating_refuted_thm. Qed.
Print Assumptions C19_truncating_refuted.

(* never-used profile: the unrepaired save fails at the open, the repaired one completes *)
Theorem C19_new_profile_unfixed_refuted : exists root name new s,
  run (save_prog_unfixed root name new) s = None /\
  exists s', run (save_prog s root name new) s = Some s' /\
             fs_read s' (pjoin (profile_dir root name) s_config_json) = Some new.
Proof. exact unfixed_new_profile_refuted_thm. Qed.
Print Assumptions C19_new_profile_unfixed_refuted.

(* key=value text in <profile>/config.json: the loader that trusts the extension raises whenever
   the text is not JSON *)
Theorem C19_keyval_profile_unfixed_refuted : forall (b64dec : str -> option (list N))
    (jloads : str -> option (list (str * jval))) (s : fsys) (root name t : str),
  fs_read s name = None -> fs_read s (pjoin (profile_dir root name) s_config_yo) = None ->
  fs_read s (pjoin (profile_dir root name) s_config_json) = Some t ->
  ext_type (pjoin (profile_dir root name) s_config_json) = Some Json ->
  jloads (unl t) = None -> load_unfixed b64dec jloads s root name = LErr.
Proof. exact load_unfixed_keyval_shape. Qed.
Print Assumptions C19_keyval_profile_unfixed_refuted.

(* a line-breaking base64 flavour (base64.encodebytes: newline after every 76 characters) in a
   field encoder: identical text up to 57 bytes; at 58 bytes the value contains a newline, the
   decoder still returns the bytes (so JSON is unaffected), but the key=value entry is split and
   the file no longer loads - while with the encoder the code uses the same entry loads. *)
Theorem C19_mime_b64_refuted :
  wf_config long_cfg = true /\ kv_config_ok long_cfg = true /\
  b64_mime (repeat 255 57) = b64_encode (repeat 255 57) /\
  In 10 (b64_mime (repeat 255 58)) /\
  b64_decode (b64_mime (repeat 255 58)) = Some (repeat 255 58) /\
  obind (kv_parse (k_edge_routing_info ++ 61 :: b64_mime (repeat 255 58)))
        (deserialize b64_decode) = None /\
  obind (kv_parse (k_edge_routing_info ++ 61 :: b64_encode (repeat 255 58)))
        (deserialize b64_decode) =
  Some (mkConfig None None None None None None None None None None None None None None
                 (Some (CBytes (repeat 255 58))) None).
Proof. exact mime_b64_refuted_thm. Qed.
Print Assumptions C19_mime_b64_refuted.
