(* C04 — Encrypted transport: handshake, then frames intact and in order (partial: the Noise
   cryptography is one oracle bit).  Statements only; proofs are in C04/C04Proofs.v.

   Model (C04/C04Model.v): small-step interleaving semantics of yowsup/layers/noise/layer.py +
   workers/handshake.py over consonance's protocol state machine.  [reach S s] = s is reachable from S
   under SOME schedule of the network thread (tid 0) and the handshake workers, one shared-state
   operation per step; the theorems hold for EVERY reachable s, i.e. for every interleaving.

   Scenario [S0 p0 c0 stored0 lrs0 g0 ws0 e cn0 b0 pc0 pres0 cfg hsid ok static dsids]: a layer in any
   quiescent condition — protocol state p0 <> handshake, any receive counter c0, stored server key
   stored0 (0 = none), layer._rs lrs0, g0 earlier attempts whose workers ws0 have all terminated
   (each holding whatever ClientConfig it was given), edge routing on/off e, cn0 earlier connections,
   pc0 = the ClientConfig an earlier on_auth built, pres0 = the payloads presented on earlier
   connections — receives an auth event carrying the configuration cfg in force at that moment
   (account, passive flag, client attributes: [ccfg]), then the server hello of the new
   connection (oracle bit ok; static <> 0 iff it carries a server key: XX / IK / IK->XXfallback are
   the three combinations of stored0 and static), then transport segments dsids (any number).
   auth_ok = the hello authenticates and fits the pattern; a server that failed authentication sends
   no frames (hypothesis Hfail below). *)
From YV Require Import Common.Tac C04.C04Model C04.C04Proofs C04.C04ProofsHist C04.C04ProofsEmbed.

(* Frames delivered upward are, at every moment and under every interleaving, a prefix of the
   transport segments in order, the i-th decrypted with counter i, none twice; when every thread has
   finished, all of them have been delivered (including those that arrived while the handshake was
   still completing). *)
Theorem C04_in_order_once :
  forall p0 c0 stored0 lrs0 g0 ws0 e cn0 b0 pc0 pres0 cfg hsid ok static dsids,
    p0 <> PHs -> Forall (old_ok g0) ws0 -> lookup (cn0 + 1) b0 = None ->
    (auth_ok stored0 ok static = false -> dsids = []) ->
    forall s, reach (S0 p0 c0 stored0 lrs0 g0 ws0 e cn0 b0 pc0 pres0 cfg hsid ok static dsids) s ->
      (exists tl, data dsids = delivered s ++ tl) /\
      ups (log s) = number 0 (delivered s) /\
      (all_done s = true -> ups (log s) = number 0 (data dsids)).
Proof. exact in_order_once_thm. Qed.
Print Assumptions C04_in_order_once.

(* In every reachable state either every thread has finished or some thread can take a step:
   no interleaving leaves a thread waiting on the queue or the flush lock forever. *)
Theorem C04_no_deadlock :
  forall p0 c0 stored0 lrs0 g0 ws0 e cn0 b0 pc0 pres0 cfg hsid ok static dsids,
    p0 <> PHs -> Forall (old_ok g0) ws0 -> lookup (cn0 + 1) b0 = None ->
    (auth_ok stored0 ok static = false -> dsids = []) ->
    forall s, reach (S0 p0 c0 stored0 lrs0 g0 ws0 e cn0 b0 pc0 pres0 cfg hsid ok static dsids) s -> stuck s = false.
Proof. exact no_deadlock_thm. Qed.
Print Assumptions C04_no_deadlock.

(* If the server reply fails authentication, then once the threads have finished (which by
   C04_no_deadlock they can always do) exactly the handshake-failed event followed by the <failure>
   stanza went upward, no frame, no profile write; if it authenticates, no failure is ever reported. *)
Theorem C04_failure_reported :
  forall p0 c0 stored0 lrs0 g0 ws0 e cn0 b0 pc0 pres0 cfg hsid ok static dsids,
    p0 <> PHs -> Forall (old_ok g0) ws0 -> lookup (cn0 + 1) b0 = None ->
    (auth_ok stored0 ok static = false -> dsids = []) ->
    forall s, reach (S0 p0 c0 stored0 lrs0 g0 ws0 e cn0 b0 pc0 pres0 cfg hsid ok static dsids) s ->
      (auth_ok stored0 ok static = false -> all_done s = true ->
         failures (log s) = [EEvent; EFailure] /\ ups (log s) = [] /\ persists (log s) = []) /\
      (auth_ok stored0 ok static = true -> failures (log s) = []).
Proof. exact failure_reported_thm. Qed.
Print Assumptions C04_failure_reported.

(* The profile is written at most once, only with the negotiated key and only if it differs from
   the stored one; after a successful login it has been written iff the key differs, and the
   profile's key is the negotiated one.
   (The design's stronger "before ANY frame is delivered" is false of the code, see
   C04_persist_before_frames_refuted; the property text does not ask for it.) *)
Theorem C04_rs_persisted :
  forall p0 c0 stored0 lrs0 g0 ws0 e cn0 b0 pc0 pres0 cfg hsid ok static dsids,
    p0 <> PHs -> Forall (old_ok g0) ws0 -> lookup (cn0 + 1) b0 = None ->
    (auth_ok stored0 ok static = false -> dsids = []) ->
    forall s, reach (S0 p0 c0 stored0 lrs0 g0 ws0 e cn0 b0 pc0 pres0 cfg hsid ok static dsids) s ->
      (persists (log s) = [] \/
       (persists (log s) = [nrs stored0 static] /\ stored0 <> nrs stored0 static /\
        stored s = nrs stored0 static)) /\
      (all_done s = true -> auth_ok stored0 ok static = true ->
         persists (log s) = (if (stored0 =? nrs stored0 static)%N then [] else [nrs stored0 static]) /\
         stored s = nrs stored0 static).
Proof. exact rs_persisted_thm. Qed.
Print Assumptions C04_rs_persisted.

Theorem C04_persist_before_frames_refuted :
  exists s, run pb_S0 pb_sched = Some s /\ log s = [EUp 0 (SData 1); EPersist 7].
Proof. exact persist_before_frames_refuted. Qed.
Print Assumptions C04_persist_before_frames_refuted.

(* Full statement wanted (C04_reconnect_fresh): for EVERY connect/disconnect history before the
   attempt — in particular an earlier attempt cut off before the server answered — the new attempt
   logs in, delivers every frame in order and leaves no thread waiting.
   Proved part: all histories after which the earlier workers have terminated (any protocol state,
   counter, stored key, number of earlier attempts/connections).  The remaining histories are exactly
   the open known finding; its witnesses are the two _refuted theorems below. *)
Theorem C04_reconnect_fresh_partial :
  forall p0 c0 stored0 lrs0 g0 ws0 e cn0 b0 pc0 pres0 cfg hsid ok static dsids,
    p0 <> PHs -> Forall (old_ok g0) ws0 -> lookup (cn0 + 1) b0 = None ->
    auth_ok stored0 ok static = true ->
    forall s, reach (S0 p0 c0 stored0 lrs0 g0 ws0 e cn0 b0 pc0 pres0 cfg hsid ok static dsids) s ->
      stuck s = false /\ failures (log s) = [] /\
      (all_done s = true -> ups (log s) = number 0 (data dsids) /\ stored s = nrs stored0 static).
Proof. exact reconnect_fresh_partial_thm. Qed.
Print Assumptions C04_reconnect_fresh_partial.

(* auth; disconnect before the server hello; auth; server hello (authentic, for the new connection):
   the stale worker takes it -> login failure reported, the new worker waits forever. *)
Theorem C04_reconnect_fresh_refuted :
  exists s, run rc_S0 rc_sched = Some s /\
            failures (log s) = [EEvent; EFailure] /\ stuck s = true /\
            find_w 1 (workers s) = Some (mkW 1 0 cfgB HGet) /\ ps s = PErr.
Proof. exact reconnect_fresh_refuted. Qed.
Print Assumptions C04_reconnect_fresh_refuted.

Theorem C04_reconnect_stale_waiter_refuted :
  exists s, run rc_S0 rc_sched2 = Some s /\ ps s = PTr /\ stuck s = true /\
            find_w 0 (workers s) = Some (mkW 0 0 cfgA HGet).
Proof. exact reconnect_stale_waiter_refuted. Qed.
Print Assumptions C04_reconnect_stale_waiter_refuted.

(* Non-vacuity: a concrete reconnect scenario (layer left in transport state by a terminated earlier
   attempt, XXfallback, edge routing, three frames) satisfies every hypothesis and has a complete run. *)
Theorem C04_nonvacuous :
  (PTr <> PHs /\ Forall (old_ok 1) ex_ws /\ lookup (1 + 1) [(1, 0)]%N = None /\
   (auth_ok 5 true 7 = false -> [1; 2; 3]%N = [])) /\
  exists s, reach ex_S0 s /\ all_done s = true /\ ups (log s) = number 0 (map SData [1; 2; 3]%N).
Proof. split; [exact nonvacuous_hyps | exact nonvacuous_reach]. Qed.
Print Assumptions C04_nonvacuous.

(* ---------------------------------------------------------------------------------------------------
   "... presents the configured account, passive flag and client attributes", over
   connect/disconnect/reconnect histories x configurations.

   [pres s] = the payload-bearing handshake messages written towards the server so far:
   (connection, 1 = client hello | 2 = client finish, payload).  The server decrypts the payload of
   the client hello when it accepts the stored key (IK) and the payload of the client finish
   otherwise (XX, XXfallback); both carry the same ClientConfig of the worker. *)

(* One login on a layer in ANY quiescent condition, every interleaving: everything written during
   this attempt goes out on this attempt's connection and carries exactly the configuration cfg of
   THIS auth event — whatever earlier attempts were given or presented (ws0, pc0, pres0 are
   arbitrary) —; after a successful login it has been presented (non-empty: hello entry iff a key was
   stored, finish entry iff the server hello carried a key or none was stored); after a failed one
   only the IK hello (if any) went out. *)
Theorem C04_presents_configured :
  forall p0 c0 stored0 lrs0 g0 ws0 e cn0 b0 pc0 pres0 cfg hsid ok static dsids,
    p0 <> PHs -> Forall (old_ok g0) ws0 -> lookup (cn0 + 1) b0 = None ->
    (auth_ok stored0 ok static = false -> dsids = []) ->
    forall s, reach (S0 p0 c0 stored0 lrs0 g0 ws0 e cn0 b0 pc0 pres0 cfg hsid ok static dsids) s ->
      (exists tl, pres s = pres0 ++ tl /\
                  forall x, In x tl -> x = (cn cn0, 1%N, cfg) \/ x = (cn cn0, 2%N, cfg)) /\
      (all_done s = true -> auth_ok stored0 ok static = true ->
         pres s = pres0 ++ presented_ok stored0 cn0 cfg static /\ presented_ok stored0 cn0 cfg static <> []) /\
      (all_done s = true -> auth_ok stored0 ok static = false -> pres s = pres0 ++ hello_entry stored0 cn0 cfg).
Proof. exact presented_thm. Qed.
Print Assumptions C04_presents_configured.

(* Histories of ANY number of logins on one layer instance ([hrun q xs s']: login after login, each
   from the state the previous one left when its threads had finished — the domain of
   C04_reconnect_fresh_partial —, each under every interleaving, with or without a disconnect event
   in between, every login with its own configuration / server answer / frames): the payloads
   presented during the history are exactly [added]; on the connection of login i only the
   configuration of auth event i is ever presented, never an earlier login's; and when login i
   succeeds it has been presented.
   Full statement wanted: for EVERY connect/disconnect/reconnect history.  Missing part: histories in
   which a disconnect cuts off a live handshake worker — the open reconnect finding (there the stale
   worker may complete the NEXT connection's handshake with the configuration it captured). *)
Theorem C04_presents_configured_history_partial :
  forall xs q s',
    quiescent q -> sessions_ok (stored q) xs -> hrun q xs s' ->
    exists added, pres s' = pres q ++ added /\
      (forall c k p, In (c, k, p) added ->
         exists i x, nth_error xs i = Some x /\ c = (conn q + 1 + N.of_nat i)%N /\ p = s_cfg x) /\
      (forall i x, nth_error xs i = Some x ->
         auth_ok (stored_before (stored q) xs i) (s_ok x) (s_static x) = true ->
         exists k, In ((conn q + 1 + N.of_nat i)%N, k, s_cfg x) added).
Proof. exact presents_configured_history_thm. Qed.
Print Assumptions C04_presents_configured_history_partial.

(* ... the exact list, and the same at every moment DURING the next login. *)
Theorem C04_presented_history_exact :
  forall xs q s',
    quiescent q -> sessions_ok (stored q) xs -> hrun q xs s' ->
    pres s' = pres q ++ expect_pres (conn q) (stored q) xs /\ quiescent s'.
Proof. exact presented_history_thm. Qed.
Print Assumptions C04_presented_history_exact.

Theorem C04_presented_history_during :
  forall xs q s1 x t,
    quiescent q -> sessions_ok (stored q) xs -> hrun q xs s1 ->
    (auth_ok (stored s1) (s_ok x) (s_static x) = false -> s_dsids x = []) ->
    reach (sess_start s1 x) t ->
    exists tl, pres t = pres q ++ expect_pres (conn q) (stored q) xs ++ tl /\
               forall e, In e tl -> e = (conn s1 + 1, 1, s_cfg x)%N \/ e = (conn s1 + 1, 2, s_cfg x)%N.
Proof. exact presented_history_during_thm. Qed.
Print Assumptions C04_presented_history_during.

(* The chained histories are runs of the ONE-script model (all logins' events, disconnects included,
   in one script — the model real traces are replayed through): those schedules in which the network
   thread handles the next disconnect/auth event after the running login's threads have finished. *)
Theorem C04_history_embeds :
  forall xs q s' L0,
    idle q -> sessions_ok (stored q) xs -> hrun q xs s' ->
    exists L, reach (set_log L0 (set_script (hist_script (conn q) xs) q)) (set_log L s').
Proof. exact hrun_embeds. Qed.
Print Assumptions C04_history_embeds.

(* A variant of on_auth that keeps the ClientConfig per username (seeded defect C04-2) violates the
   clause — passive login, disconnect, non-passive login: the second login presents the first login's
   passive flag and attributes; the faithful model, same script and schedule, presents what the
   history theorem says. *)
Theorem C04_cached_config_refuted :
  (exists s, run h_S (auto_sched 400 h_S) = Some s /\ all_done s = true /\
             pres s = expect_pres 0 0 [h_A; h_B]) /\
  (exists s, run (cached_variant h_S) (auto_sched 400 (cached_variant h_S)) = Some s /\ all_done s = true /\
             pres s = [(1, 2, cfgA); (2, 1, cfgA)]%N /\ pres s <> expect_pres 0 0 [h_A; h_B]).
Proof. exact cached_config_refuted. Qed.
Print Assumptions C04_cached_config_refuted.

(* Non-vacuity of the history theorems: two logins on a fresh layer that differ in the passive flag
   (passive XX login, disconnect, non-passive IK login); hypotheses hold, the chained run exists, and
   the second connection carries the second configuration. *)
Theorem C04_history_nonvacuous :
  quiescent h_fresh /\ sessions_ok (stored h_fresh) [h_A; h_B] /\
  c_passive (s_cfg h_A) <> c_passive (s_cfg h_B) /\
  exists s', hrun h_fresh [h_A; h_B] s' /\
             pres s' = [(1, 2, cfgA); (2, 1, cfgB)]%N /\ pres s' = expect_pres 0 0 [h_A; h_B].
Proof. exact history_nonvacuous. Qed.
Print Assumptions C04_history_nonvacuous.

(* ---- the three lower layers composed (C04/C04Pipeline.v): coder (C01 model) -> Noise transport (any
   cipher with: opening a sealed frame under the same counter returns the plaintext; sealing adds the
   16-byte tag) -> segments (C05 model) ~ ANY cutting of the byte stream into network reads ~ segments
   -> transport -> coder.  "Every stanza sent ... arrives at the other side intact and in sending
   order": for every list of well-formed stanzas the sending side accepted and every chunking, the
   receiving side hands up exactly those stanzas, in order, each once, and buffers nothing. *)
From YV Require Import C01.C01Model C01.C01DecodeNode C02.C02Spec C01.C01Encode C01.C01Inst Gen.C01Dict C05.C05Model C05.C05Proofs C04.C04Pipeline.

Theorem C04_pipeline_intact : forall seal open_,
  (forall n p, open_ n (seal n p) = Some p) ->
  (forall n p, length (seal n p) = length p + 16) ->
  forall inflate ts writes chunks,
  Forall (C01Encode.wf_node D) ts -> send_all seal 0 ts = Some writes ->
  concat chunks = concat writes ->
  recv_all open_ inflate chunks = Some (map (fun t => Ok (Some t)) ts, []).
Proof. exact pipeline_intact_thm. Qed.
Print Assumptions C04_pipeline_intact.

(* ... and while the stream is still arriving: after the images of the first k sealed stanzas and a strict
   prefix of the next frame, exactly the first k stanzas were handed up; the unfinished frame waits. *)
Theorem C04_pipeline_prefix : forall seal open_,
  (forall n p, open_ n (seal n p) = Some p) ->
  (forall n p, length (seal n p) = length p + 16) ->
  forall inflate ts writes chunks k partial,
  Forall (C01Encode.wf_node D) ts -> send_all seal 0 ts = Some writes ->
  (exists bs, enc_all ts = Some bs /\
     concat chunks = concat (map C05Model.wire (firstn k (seal_all seal 0 bs))) ++ partial) ->
  incomplete partial ->
  recv_all open_ inflate chunks = Some (map (fun t => Ok (Some t)) (firstn k ts), partial).
Proof. exact pipeline_prefix_thm. Qed.
Print Assumptions C04_pipeline_prefix.

(* the other direction, with the freedom the PEER has: every valid frame of a tree in the sense of C02's format
   relation (any permitted header width, literal instead of token, packed or raw digits, deflated frame), sealed
   under the running counter, cut by the network in any way, reaches the layer above the coder as that tree, in
   sending order, each exactly once *)
Theorem C04_pipeline_incoming : forall seal open_,
  (forall n p, open_ n (seal n p) = Some p) ->
  (forall n p, length (seal n p) = length p + 16) ->
  forall inflate ts bs chunks,
  Forall2 (fun t b => attrs_ok t /\ Frame D inflate t b) ts bs ->
  Forall (fun b => (C05Model.lenN b + 16 < 16777216)%N) bs ->
  concat chunks = concat (map C05Model.wire (seal_all seal 0 bs)) ->
  recv_all open_ inflate chunks = Some (map (fun t => Ok (Some t)) ts, []).
Proof. exact pipeline_incoming_thm. Qed.
Print Assumptions C04_pipeline_incoming.

(* non-vacuity: the cipher hypotheses are satisfiable and a concrete run exists *)
Theorem C04_pipeline_nonvacuous :
  (forall n p, toy_open n (toy_seal n p) = Some p) /\
  (forall n p, length (toy_seal n p) = length p + 16) /\
  match send_all toy_seal 0 ex_pair with
  | Some writes =>
      recv_all toy_open (fun _ => None) (chop 5 (length (concat writes)) (concat writes))
      = Some ([Ok (Some ex_tree); Ok (Some ex_tree)], [])
  | None => False
  end.
Proof. split; [exact toy_open_seal | split; [exact toy_seal_len | exact pipeline_example]]. Qed.
Print Assumptions C04_pipeline_nonvacuous.
