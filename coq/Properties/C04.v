(* C04 — Encrypted transport: handshake, then frames intact and in order (partial: the Noise
   cryptography is one oracle bit).  Statements only; proofs are in C04/C04Proofs.v.

   Model (C04/C04Model.v): small-step interleaving semantics of yowsup/layers/noise/layer.py +
   workers/handshake.py over consonance's protocol state machine.  [reach S s] = s is reachable from S
   under SOME schedule of the network thread (tid 0) and the handshake workers, one shared-state
   operation per step; the theorems hold for EVERY reachable s, i.e. for every interleaving.

   Scenario [S0 p0 c0 stored0 lrs0 g0 ws0 e cn0 b0 hsid ok static dsids]: a layer in any quiescent
   condition — protocol state p0 <> handshake, any receive counter c0, stored server key stored0
   (0 = none), layer._rs lrs0, g0 earlier attempts whose workers ws0 have all terminated, edge routing
   on/off e, cn0 earlier connections — receives an auth event, then the server hello of the new
   connection (oracle bit ok; static <> 0 iff it carries a server key: XX / IK / IK->XXfallback are
   the three combinations of stored0 and static), then transport segments dsids (any number).
   auth_ok = the hello authenticates and fits the pattern; a server that failed authentication sends
   no frames (hypothesis Hfail below). *)
From YV Require Import Common.Tac C04.C04Model C04.C04Proofs.

(* Frames delivered upward are, at every moment and under every interleaving, a prefix of the
   transport segments in order, the i-th decrypted with counter i, none twice; when every thread has
   finished, all of them have been delivered (including those that arrived while the handshake was
   still completing). *)
Theorem C04_in_order_once :
  forall p0 c0 stored0 lrs0 g0 ws0 e cn0 b0 hsid ok static dsids,
    p0 <> PHs -> Forall (old_ok g0) ws0 -> lookup (cn0 + 1) b0 = None ->
    (auth_ok stored0 ok static = false -> dsids = []) ->
    forall s, reach (S0 p0 c0 stored0 lrs0 g0 ws0 e cn0 b0 hsid ok static dsids) s ->
      (exists tl, data dsids = delivered s ++ tl) /\
      ups (log s) = number 0 (delivered s) /\
      (all_done s = true -> ups (log s) = number 0 (data dsids)).
Proof. exact in_order_once_thm. Qed.
Print Assumptions C04_in_order_once.

(* In every reachable state either every thread has finished or some thread can take a step:
   no interleaving leaves a thread waiting on the queue or the flush lock forever. *)
Theorem C04_no_deadlock :
  forall p0 c0 stored0 lrs0 g0 ws0 e cn0 b0 hsid ok static dsids,
    p0 <> PHs -> Forall (old_ok g0) ws0 -> lookup (cn0 + 1) b0 = None ->
    (auth_ok stored0 ok static = false -> dsids = []) ->
    forall s, reach (S0 p0 c0 stored0 lrs0 g0 ws0 e cn0 b0 hsid ok static dsids) s -> stuck s = false.
Proof. exact no_deadlock_thm. Qed.
Print Assumptions C04_no_deadlock.

(* If the server reply fails authentication, then once the threads have finished (which by
   C04_no_deadlock they can always do) exactly the handshake-failed event followed by the <failure>
   stanza went upward, no frame, no profile write; if it authenticates, no failure is ever reported. *)
Theorem C04_failure_reported :
  forall p0 c0 stored0 lrs0 g0 ws0 e cn0 b0 hsid ok static dsids,
    p0 <> PHs -> Forall (old_ok g0) ws0 -> lookup (cn0 + 1) b0 = None ->
    (auth_ok stored0 ok static = false -> dsids = []) ->
    forall s, reach (S0 p0 c0 stored0 lrs0 g0 ws0 e cn0 b0 hsid ok static dsids) s ->
      (auth_ok stored0 ok static = false -> all_done s = true ->
         failures (log s) = [EEvent; EFailure] /\ ups (log s) = [] /\ persists (log s) = []) /\
      (auth_ok stored0 ok static = true -> failures (log s) = []).
Proof. exact failure_reported_thm. Qed.
Print Assumptions C04_failure_reported.

(* The profile is written at most once, only with the negotiated key and only if it differs from
   the stored one; after a successful login it has been written iff the key differs, and the
   profile's key is the negotiated one.
   (The design's stronger "before ANY frame is delivered" is false of the code, see
   C04_persist_before_frames_refuted; the property text does not ask for it.) *)
Theorem C04_rs_persisted :
  forall p0 c0 stored0 lrs0 g0 ws0 e cn0 b0 hsid ok static dsids,
    p0 <> PHs -> Forall (old_ok g0) ws0 -> lookup (cn0 + 1) b0 = None ->
    (auth_ok stored0 ok static = false -> dsids = []) ->
    forall s, reach (S0 p0 c0 stored0 lrs0 g0 ws0 e cn0 b0 hsid ok static dsids) s ->
      (persists (log s) = [] \/
       (persists (log s) = [nrs stored0 static] /\ stored0 <> nrs stored0 static /\
        stored s = nrs stored0 static)) /\
      (all_done s = true -> auth_ok stored0 ok static = true ->
         persists (log s) = (if (stored0 =? nrs stored0 static)%N then [] else [nrs stored0 static]) /\
         stored s = nrs stored0 static).
Proof. exact rs_persisted_thm. Qed.
Print Assumptions C04_rs_persisted.

Theorem C04_persist_before_frames_refuted :
  exists s, run pb_S0 pb_sched = Some s /\ log s = [EUp 0 (SData 1); EPersist 7].
Proof. exact persist_before_frames_refuted. Qed.
Print Assumptions C04_persist_before_frames_refuted.

(* Full statement wanted (C04_reconnect_fresh): for EVERY connect/disconnect history before the
   attempt — in particular an earlier attempt cut off before the server answered — the new attempt
   logs in, delivers every frame in order and leaves no thread waiting.
   Proved part: all histories after which the earlier workers have terminated (any protocol state,
   counter, stored key, number of earlier attempts/connections).  The remaining histories are exactly
   the open known finding; its witnesses are the two _refuted theorems below. *)
Theorem C04_reconnect_fresh_partial :
  forall p0 c0 stored0 lrs0 g0 ws0 e cn0 b0 hsid ok static dsids,
    p0 <> PHs -> Forall (old_ok g0) ws0 -> lookup (cn0 + 1) b0 = None ->
    auth_ok stored0 ok static = true ->
    forall s, reach (S0 p0 c0 stored0 lrs0 g0 ws0 e cn0 b0 hsid ok static dsids) s ->
      stuck s = false /\ failures (log s) = [] /\
      (all_done s = true -> ups (log s) = number 0 (data dsids) /\ stored s = nrs stored0 static).
Proof. exact reconnect_fresh_partial_thm. Qed.
Print Assumptions C04_reconnect_fresh_partial.

(* auth; disconnect before the server hello; auth; server hello (authentic, for the new connection):
   the stale worker takes it -> login failure reported, the new worker waits forever. *)
Theorem C04_reconnect_fresh_refuted :
  exists s, run rc_S0 rc_sched = Some s /\
            failures (log s) = [EEvent; EFailure] /\ stuck s = true /\
            find_w 1 (workers s) = Some (mkW 1 0 HGet) /\ ps s = PErr.
Proof. exact reconnect_fresh_refuted. Qed.
Print Assumptions C04_reconnect_fresh_refuted.

Theorem C04_reconnect_stale_waiter_refuted :
  exists s, run rc_S0 rc_sched2 = Some s /\ ps s = PTr /\ stuck s = true /\
            find_w 0 (workers s) = Some (mkW 0 0 HGet).
Proof. exact reconnect_stale_waiter_refuted. Qed.
Print Assumptions C04_reconnect_stale_waiter_refuted.

(* Non-vacuity: a concrete reconnect scenario (layer left in transport state by a terminated earlier
   attempt, XXfallback, edge routing, three frames) satisfies every hypothesis and has a complete run. *)
Theorem C04_nonvacuous :
  (PTr <> PHs /\ Forall (old_ok 1) ex_ws /\ lookup (1 + 1) [(1, 0)]%N = None /\
   (auth_ok 5 true 7 = false -> [1; 2; 3]%N = [])) /\
  exists s, reach ex_S0 s /\ all_done s = true /\ ups (log s) = number 0 (map SData [1; 2; 3]%N).
Proof. split; [exact nonvacuous_hyps | exact nonvacuous_reach]. Qed.
Print Assumptions C04_nonvacuous.
