(* C02 — Wire-format conformance.  Statements only.
   Frame / EncNode / EncStr (C02/C02Spec.v) is the independent description of the WhatsApp
   binary-XML format with every choice a peer may make; RefD is the pinned reference
   dictionary; D the dictionary regenerated from the source on every run.               *)
From YV Require Import Common.Tac C01.C01Model C02.C02Spec C01.C01DecodeNode C01.C01Encode
     C01.C01Proofs C01.C01Inst Gen.C01Dict C02.C02RefDict C02.C02Inst C02.C02RefEnc.
Local Open Scope N_scope.

(* what the library emits for a well-formed tree is a valid frame denoting that tree *)
Theorem C02_emits_valid : forall inflate t b,
  wf_node D t -> encode D t = Some b -> Frame D inflate t b.
Proof. exact (fun inflate => encode_frame_thm D inflate D_ok). Qed.
Print Assumptions C02_emits_valid.

(* every valid frame of a tree — 8/16-bit list headers, 8/20/31-bit lengths, literal instead
   of token, packed or raw, JID with or without user part, string-valued content, deflated —
   is decoded by the library to exactly that tree (attribute keys distinct: a dict)      *)
Theorem C02_accepts_all : forall inflate t b,
  attrs_ok t -> Frame D inflate t b -> decode D inflate b = Ok (Some t).
Proof. exact (fun inflate => accepts_all_thm D inflate). Qed.
Print Assumptions C02_accepts_all.

(* hence the format is unambiguous *)
Theorem C02_unambiguous : forall inflate t t' b,
  Frame D inflate t b -> Frame D inflate t' b -> attrs_ok t -> attrs_ok t' -> t = t'.
Proof. exact (fun inflate => frame_unambiguous D inflate). Qed.
Print Assumptions C02_unambiguous.

(* the dictionary in the source equals the reference copy entry by entry: 236 + 4x256, no
   word twice *)
Theorem C02_dictionary :
  primary D = ref_primary /\ secondary D = ref_secondary /\
  lenN (primary D) = 236 /\ lenN (secondary D) = 1024 /\
  NoDup (primary D ++ secondary D).
Proof. exact dictionary_thm. Qed.
Print Assumptions C02_dictionary.

(* the reference encoder used by the check to play the peer: for EVERY choice vector its
   output is a valid frame of the tree (so feeding it to the real decoder exercises
   C02_accepts_all on the implementation), and by C02_accepts_all the model decodes it *)
Theorem C02_reference_encoder_sound : forall inflate cs t,
  ref_ok D t -> Frame D inflate t (ref_encode D cs t).
Proof. exact (fun inflate cs t => ref_encode_sound D inflate cs t). Qed.
Print Assumptions C02_reference_encoder_sound.

Theorem C02_all_choices_decode : forall inflate cs t,
  ref_ok D t -> attrs_ok t -> decode D inflate (ref_encode D cs t) = Ok (Some t).
Proof.
  exact (fun inflate cs t H O => accepts_all_thm D inflate t _ O (ref_encode_sound D inflate cs t H)).
Qed.
Print Assumptions C02_all_choices_decode.
