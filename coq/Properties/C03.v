(* C03 - End-to-end messaging: exactly-once authentic delivery, only ciphertext on the wire.   PARTIAL.
   Statements only; proofs are in C03/C03Proofs.v.

   The model (C03/C03Model.v) is ONE account as an input-enabled machine: `step a i` / `run a ins` accept any input
   (application send of any kind to a contact or group, key-directory answer, group-info answer, message stanza with
   any ciphertext terms, receipt, restart) with arbitrary values.  A theorem over all states / all input lists
   therefore holds for every account in every world: any number of accounts, any script, any order in which the
   server delivers, any placement of duplicated or corrupted ciphertexts - and also for a hostile server.

   FULL STATEMENT (the property), of which the theorems below are the part that is proved:
     for every world run (accounts + honest server with schedule and <= 1 fault per message), for every send step
     creating id m for recipient set Rs: every r in Rs is shown exactly one entity with id m, with the content,
     sender and group of that send step; nobody outside Rs is shown m; the sender's application gets each r's
     delivery receipt; no stanza leaving a client contains the payload outside a ciphertext.
   PROVED AT WORLD LEVEL (C03/C03WorldModel.v: any number of accounts + honest server with one queue from which the
   schedule picks any element, duplicate / corrupt faults anywhere, restarts anywhere): C03_authentic_no_stray,
   C03_only_ciphertext_world.
   NOT PROVED (simulator-checked on every run, see harness/props/C03.py, and labelled partial in the manifest):
     * completeness / receipts at quiescence (C03_complete_partial is only one computed fault-free world run);
     * the per-(recipient, id) form of at-most-once: it needs a world-level invariant relating server queues and
       both ratchets.  What is proved is its per-stanza / per-ciphertext form for each account.  The simulator found
       two genuine violations of the full statement (known_findings/C03.json: a duplicated undecryptable
       sender-key stanza is shown twice; reordered first group messages are silently lost).
   CHAIN POSITION (C03/C03ChainModel.v, C03/C03Chain.v; the C03_chain_* / C03_late_key_* theorems at the end): a
   sender-key distribution message carries the chain position AT ITS CREATION, so a member that gets the key late
   (through the answer to its retry receipt) is never shown a stanza encrypted before that answer again - the part
   of per-(recipient, id) at-most-once that concerns a late duplicate of the original group stanza. *)
From YV Require Import Common.Tac C03.C03Model C03.C03Proofs C03.C03WorldModel C03.C03WorldProofs C03.C03WorldCipher
                       C03.C03ChainModel C03.C03Chain C03.C03Redist.
Local Open Scope N_scope.

(* ---- only ciphertext ---- *)
(* any state, any input: unless the destination was put into skipEncJids, no stanza goes down with its plaintext.
   (By construction of the output alphabet an OMsg stanza carries payloads only inside ciphertext terms.) *)
Theorem C03_only_ciphertext_step : forall a i,
  a_skip a = [] -> forall o, In o (snd (step a i)) -> is_plain o = false.
Proof. exact step_only_ciphertext_thm. Qed.
Print Assumptions C03_only_ciphertext_step.

(* every run in which the key directory answers for each jid it is asked about (the honest server) *)
Theorem C03_only_ciphertext : forall ins a,
  a_skip a = [] -> honest_run a ins -> forall o, In o (trace a ins) -> is_plain o = false.
Proof. exact only_ciphertext_thm. Qed.
Print Assumptions C03_only_ciphertext.

(* WORLD level: with the honest server (which answers for every jid) the hypothesis above is discharged: for any group
   table, any accounts, ANY action list (sends of anything to anyone, any delivery order, duplicates, corruptions,
   restarts), nothing any account emits is a plaintext stanza *)
Theorem C03_only_ciphertext_world : forall groups jids acts x o,
  In x (snd (wrun groups (winit jids) acts)) -> In o (snd x) -> is_plain o = false.
Proof. exact world_only_ciphertext_thm. Qed.
Print Assumptions C03_only_ciphertext_world.

(* ---- at most once (partial: per stanza and per ciphertext, not per message id) ---- *)
(* handling one well-formed stanza (a pairwise part next to a sender-key part carries the key distribution only)
   hands the application at most one entity - with the repaired media layer *)
Theorem C03_at_most_once_partial_stanza : forall a im,
  a_guard a = true -> wf_stanza im -> (count is_deliver (snd (handle_enc a im)) <= 1)%nat.
Proof. exact one_entity_per_stanza_thm. Qed.
Print Assumptions C03_at_most_once_partial_stanza.

(* a stanza whose pairwise ciphertext was decrypted once is, after ANY further history with fresh base keys
   (traffic, restarts), answered with exactly a delivery receipt: shown once, re-acknowledged *)
Theorem C03_at_most_once_partial_replay_pairwise : forall a im e a1 p ins,
  i_pw im = Some e -> decrypt_pw a (sender_of im) e = (a1, DOk p) ->
  fresh_run (fst (handle_enc a im)) ins ->
  snd (handle_enc (fst (run (fst (handle_enc a im)) ins)) im) = [OReceipt (i_from im) (i_part im) (i_id im)].
Proof. exact duplicate_not_shown_pairwise_thm. Qed.
Print Assumptions C03_at_most_once_partial_replay_pairwise.

(* the same for a sender-key (group) ciphertext, after any further history whatsoever *)
Theorem C03_at_most_once_partial_replay_senderkey : forall a im e a1 p ins,
  i_pw im = None -> i_sk im = Some e -> se_corrupt e = false ->
  decrypt_sk a (i_from im) (sender_of im) e = (a1, DOk p) ->
  snd (handle_enc (fst (run (fst (handle_enc a im)) ins)) im) = [OReceipt (i_from im) (i_part im) (i_id im)].
Proof. exact duplicate_not_shown_senderkey_thm. Qed.
Print Assumptions C03_at_most_once_partial_replay_senderkey.

(* ---- authentic (partial: w.r.t. the stanza, not the send step) ---- *)
(* an entity handed up while stanza im is handled has im's sender, group, id, type and media type and carries the
   payload of one of im's ciphertexts, which was not corrupted *)
Theorem C03_authentic_partial : forall a im, Forall (authentic_for im) (snd (handle_enc a im)).
Proof. exact authentic_thm. Qed.
Print Assumptions C03_authentic_partial.

(* ---- no stray (partial) ---- *)
(* an account shows an entity only while handling a message stanza delivered to it (directly, or a parked one when
   its key answer arrives): never on application sends, group-info answers, receipts or restarts *)
Theorem C03_no_stray_partial : forall a i,
  match i with IMsg _ | IKeys _ _ => True | _ => count is_deliver (snd (step a i)) = 0%nat end.
Proof. exact no_deliver_outside. Qed.
Print Assumptions C03_no_stray_partial.

(* ---- retries ---- *)
Theorem C03_retry_bounded_at_most_one : forall a im, (count is_retry (snd (handle_enc a im)) <= 1)%nat.
Proof. exact retry_at_most_one_thm. Qed.
Print Assumptions C03_retry_bounded_at_most_one.

(* a corrupted ciphertext we could otherwise read: exactly one retry receipt with count 1, nothing shown *)
Theorem C03_retry_bounded_corrupt_pairwise : forall a im e s,
  i_pw im = Some e -> pe_corrupt e = true ->
  find_state (pe_sid e) (record_of a (sender_of im)) = Some s -> memN (pe_n e) (s_seen s) = false ->
  lookup (i_id im) (a_retries a) = None ->
  snd (handle_enc a im) = [ORetry (i_from im) (i_part im) (i_id im) 1].
Proof. exact corrupt_pairwise_retry_thm. Qed.
Print Assumptions C03_retry_bounded_corrupt_pairwise.

Theorem C03_retry_bounded_corrupt_senderkey : forall a im e k older,
  i_pw im = None -> i_sk im = Some e -> se_corrupt e = true ->
  lookup (pairkey (i_from im) (sender_of im)) (a_skpeer a) = Some (k :: older) ->
  lookup (i_id im) (a_retries a) = None ->
  snd (handle_enc a im) = [ORetry (i_from im) (i_part im) (i_id im) 1].
Proof. exact corrupt_skmsg_retry_thm. Qed.
Print Assumptions C03_retry_bounded_corrupt_senderkey.

(* the sender: a retry receipt causes one key request and no stanza; the answer causes at most one stanza *)
Theorem C03_retry_bounded_served_once : forall a frm part m cnt,
  (count is_msg (snd (on_receipt a frm part m (Some cnt))) = 0)%nat /\
  (length (snd (on_receipt a frm part m (Some cnt))) <= 1)%nat.
Proof. exact retry_served_once_thm. Qed.
Print Assumptions C03_retry_bounded_served_once.

Theorem C03_retry_bounded_one_resend : forall a c nd cnt js res,
  (count is_msg (snd (keys_result a (KRetry c nd cnt) js res)) <= 1)%nat.
Proof. exact retry_answer_one_stanza_thm. Qed.
Print Assumptions C03_retry_bounded_one_resend.

(* sentQueue: never more than 100 stanzas, oldest evicted first *)
Theorem C03_sentq_bounded : forall a nd es p,
  sentq_ok a -> sentq_ok (fst (send_enc_entities a nd es p)) /\
  (length (a_sentq a) = 100%nat -> p = None ->
   a_sentq (fst (send_enc_entities a nd es p)) = tl (a_sentq a) ++ [nd]).
Proof. exact sentq_bounded_thm. Qed.
Print Assumptions C03_sentq_bounded.

(* ---- authentic + no stray, WORLD level ---- *)
(* `orig` is the script: message id -> (sender, stanza its application hands down); `script_ok` only says that every
   application send in the action list is the one the script lists for that id.  For EVERY action list (sends,
   deliveries of any queued stanza in any order, duplicates, corruptions, restarts at any time), any group table and
   any set of accounts: whenever an account r is shown an entity with id m, then m is a message of the script, sent
   by s as stanza nd, and
     - r is its addressee: nd was sent to r itself, or to a group of which r is a member        (no stray)
     - the entity names s as sender and nd's group as group, and has nd's type                   (authentic)
     - its content, if any, is nd's content                                                      (authentic)  *)
Theorem C03_authentic_no_stray : forall groups orig jids acts,
  script_ok orig acts ->
  Forall (fun x => Forall (deliver_ok groups orig (fst x)) (snd x)) (snd (wrun groups (winit jids) acts)).
Proof. exact world_authentic_no_stray_thm. Qed.
Print Assumptions C03_authentic_no_stray.

(* ---- completeness: PARTIAL, one computed fault-free FIFO world run (3 accounts, group image + 1:1 reply): every
   addressee is shown each message once, the senders get every delivery receipt, the queue drains ---- *)
Theorem C03_complete_partial :
  app_events (snd (wrun ex_groups (winit [0; 1; 2]) ex_acts)) =
  [ (1, [ODeliver 1000 (Some 0) 1 1 1 (Some 1)]);
    (2, [ODeliver 1000 (Some 0) 1 1 1 (Some 1)]);
    (0, [OTopReceipt 1000 (Some 1) 1 false]);
    (0, [OTopReceipt 1000 (Some 2) 1 false]);
    (0, [ODeliver 1 None 2 0 0 (Some 2)]);
    (1, [OTopReceipt 0 None 2 false]) ] /\
  w_queue (fst (wrun ex_groups (winit [0; 1; 2]) ex_acts)) = [] /\
  script_ok [(1, (0, ex_nd1)); (2, (1, ex_nd2))] ex_acts.
Proof. exact world_complete_example. Qed.
Print Assumptions C03_complete_partial.

(* ---- the chain position a sender-key distribution message carries ----
   own_iter a g     = next iteration of a's own sender key for g (C03Model: a_skown)
   chain_start b g s = where b's chain in use for (group g, sender s) starts
   chain_rel a a' os (C03Chain.v) =  (forall g, own_iter a' g = own_iter a g + number of stanzas to g in os that carry a
                                      sender-key ciphertext)
                                  /\ every stanza OMsg to .. encs in os: each distribution message inside a pairwise
                                      ciphertext of encs is (to, own_iter a to), a sender-key ciphertext in encs has
                                      iteration own_iter a to                                                        *)

(* ANY state, ANY input: what a step emits names the sender's position at that moment, and the position advances by
   exactly the number of group messages encrypted *)
Theorem C03_chain_position_step : forall a i, chain_rel a (fst (step a i)) (snd (step a i)).
Proof. exact chain_step_thm. Qed.
Print Assumptions C03_chain_position_step.

(* a distribution message created after k group messages starts the recipient's chain at iteration k: the position
   is the number of sender-key stanzas emitted so far (any start state, any input sequence) ... *)
Theorem C03_chain_position_counts : forall ins a g,
  own_iter (fst (run a ins)) g = own_iter a g + N.of_nat (count (is_sk_to g) (trace a ins)).
Proof. exact chain_counts_thm. Qed.
Print Assumptions C03_chain_position_counts.

(* ... every sender-key ciphertext emitted during a run lies strictly below the position reached at its end ... *)
Theorem C03_chain_emitted_below_position : forall ins a g m ty part encs it c mt,
  In (OMsg g m ty part encs) (trace a ins) -> In (OES it c mt) encs ->
  own_iter a g <= it /\ it < own_iter (fst (run a ins)) g.
Proof. exact emitted_below_position_thm. Qed.
Print Assumptions C03_chain_emitted_below_position.

(* ... and a recipient without a chain that reads the distribution message (g, it) starts its chain at it *)
Theorem C03_chain_late_key_start : forall b im e b1 p g s it,
  chain_start b g s = None ->
  i_from im = g -> sender_of im = s -> i_pw im = Some e ->
  decrypt_pw b s e = (b1, DOk p) -> p_skdm p = Some (g, it) ->
  chain_start (fst (handle_enc b im)) g s = Some it.
Proof. exact late_key_chain_start_thm. Qed.
Print Assumptions C03_chain_late_key_start.

(* a stanza encrypted at an iteration below a recipient's chain start is never delivered to that recipient's
   application, after ANY further history; intact, it is re-acknowledged and nothing else *)
Theorem C03_chain_below_start_never_shown : forall b im e k older ins,
  i_pw im = None -> i_sk im = Some e ->
  lookup (pairkey (i_from im) (sender_of im)) (a_skpeer b) = Some (k :: older) -> se_iter e < k_start k ->
  count is_deliver (snd (handle_enc (fst (run b ins)) im)) = 0%nat /\
  (se_corrupt e = false ->
   snd (handle_enc (fst (run b ins)) im) = [OReceipt (i_from im) (i_part im) (i_id im)]).
Proof. exact below_chain_start_never_shown_thm. Qed.
Print Assumptions C03_chain_below_start_never_shown.

(* TOGETHER - the late key.  Sender: any state a0, any history ins_s, then it answers c's retry receipt for nd with
   the directed re-encryption (OMsg .. encs, pairwise ciphertext payload pay).  Old stanza: any sender-key ciphertext
   (iteration it0) of any stanza to that group emitted during ins_s.  Receiver: any state b without a chain for
   (group, s) that reads the re-encryption (stanza im); then any further history ins_r.  A stanza carrying the old
   ciphertext is never shown; an intact one (the server's duplicate of the original) gets exactly a delivery receipt *)
Theorem C03_late_key_no_redelivery :
  forall a0 ins_s nd c cnt to m ty part encs f pk j sid n pay mt,
    In (OMsg to m ty part encs) (snd (send_to_group_with_sessions (fst (run a0 ins_s)) nd [c] cnt)) ->
    In (OEP f pk j sid n pay mt) encs ->
  forall m' ty' part' encs' it0 c0 mt0,
    In (OMsg (n_to nd) m' ty' part' encs') (trace a0 ins_s) -> In (OES it0 c0 mt0) encs' ->
  forall b s im e b1 p,
    chain_start b (n_to nd) s = None ->
    i_from im = n_to nd -> sender_of im = s -> i_pw im = Some e -> pe_pay e = pay ->
    decrypt_pw b s e = (b1, DOk p) ->
  forall ins_r im_old eo,
    i_from im_old = n_to nd -> sender_of im_old = s -> i_pw im_old = None -> i_sk im_old = Some eo ->
    se_iter eo = it0 ->
    count is_deliver (snd (handle_enc (fst (run (fst (handle_enc b im)) ins_r)) im_old)) = 0%nat /\
    (se_corrupt eo = false ->
     snd (handle_enc (fst (run (fst (handle_enc b im)) ins_r)) im_old) =
     [OReceipt (i_from im_old) (i_part im_old) (i_id im_old)]).
Proof. exact late_key_no_redelivery_thm. Qed.
Print Assumptions C03_late_key_no_redelivery.

(* the send path with the position as a parameter (C03ChainModel.step_v / wrun_v), at pos_fresh = own_iter, IS the
   model: the refutation below is about the same machine with one line changed *)
Theorem C03_chain_variant_is_model : forall groups acts w, wrun_v pos_fresh groups w acts = wrun groups w acts.
Proof. exact wrun_v_fresh_thm. Qed.
Print Assumptions C03_chain_variant_is_model.

(* non-vacuity, computed world runs (3 accounts; 0 and 1 talked 1:1, 0's first group message, the server duplicates
   1's sender-key-only stanza and delivers the copy AFTER 1 was served through its retry receipt - right away, and
   after a further group message): 1 is shown message 3 once, the late copy gets exactly a delivery receipt *)
Theorem C03_late_key_history_example :
  shown_to 1 (snd (wrun lk_groups (winit [0; 1; 2]) lk_acts)) = [d1; d3] /\
  nth_error (snd (wrun lk_groups (winit [0; 1; 2]) lk_acts)) 15 = Some (1, [r3]) /\
  w_queue (fst (wrun lk_groups (winit [0; 1; 2]) lk_acts)) = [] /\
  shown_to 1 (snd (wrun lk_groups (winit [0; 1; 2]) lk_acts_traffic)) = [d1; d3; d4] /\
  nth_error (snd (wrun lk_groups (winit [0; 1; 2]) lk_acts_traffic)) 23 = Some (1, [r3]) /\
  w_queue (fst (wrun lk_groups (winit [0; 1; 2]) lk_acts_traffic)) = [].
Proof. exact late_key_history_example. Qed.
Print Assumptions C03_late_key_history_example.

(* REFUTED for the memoised distribution message (pos_cached: chain start 0 whatever has been sent): on the same
   histories the late copy of the original stanza is shown to account 1's application a second time *)
Theorem C03_chain_cached_position_refuted :
  shown_to 1 (snd (wrun_v pos_cached lk_groups (winit [0; 1; 2]) lk_acts)) = [d1; d3; d3] /\
  nth_error (snd (wrun_v pos_cached lk_groups (winit [0; 1; 2]) lk_acts)) 15 = Some (1, [d3; r3]) /\
  shown_to 1 (snd (wrun_v pos_cached lk_groups (winit [0; 1; 2]) lk_acts_traffic)) = [d1; d3; d4; d3] /\
  nth_error (snd (wrun_v pos_cached lk_groups (winit [0; 1; 2]) lk_acts_traffic)) 23 = Some (1, [d3; r3]).
Proof. exact cached_position_refuted. Qed.
Print Assumptions C03_chain_cached_position_refuted.

(* ... and its position can lie below a sender-key ciphertext already emitted (C03_chain_emitted_below_position fails
   for it) *)
Theorem C03_chain_cached_below_emitted_refuted :
  exists a0 ins g m ty part encs it c mt,
    In (OMsg g m ty part encs) (trace a0 ins) /\ In (OES it c mt) encs /\
    ~ (it < pos_cached (fst (run a0 ins)) g).
Proof. exact cached_position_below_emitted_refuted. Qed.
Print Assumptions C03_chain_cached_below_emitted_refuted.

(* ---- a RE-distribution leaves the recipient's chain position alone (C03/C03Redist.v) ----
   the converse of the chain-position theorems: the sender re-sends its key, at its CURRENT position, with every group
   retry answer; python-axolotl appends the new state and keeps using the first one (C03Model.process_skdm /
   decrypt_sk), so for a recipient that holds a chain this is a no-op as far as decryption goes *)

(* B holds the chain (k :: older) for (g, s) and reads a stanza whose pairwise ciphertext carries (g, it'), any it':
   the state in use and its position are unchanged, the new state is stored behind *)
Theorem C03_redistribution_keeps_chain : forall b im e b1 p g s it' k older,
  lookup (pairkey g s) (a_skpeer b) = Some (k :: older) ->
  i_from im = g -> sender_of im = s -> i_pw im = Some e -> i_sk im = None ->
  decrypt_pw b s e = (b1, DOk p) -> p_skdm p = Some (g, it') ->
  lookup (pairkey g s) (a_skpeer (fst (handle_enc b im))) = Some (k :: older ++ [mkK it' []]).
Proof. exact redistribution_keeps_chain_thm. Qed.
Print Assumptions C03_redistribution_keeps_chain.

(* ... and every intact, typed sender-key-only stanza of s in g at or above the chain's start that was not decrypted
   yet - in particular everything between B's position and it' - is still shown: exactly one entity and the delivery
   receipt (a second copy of it is then only re-acknowledged: C03_at_most_once_partial_replay_senderkey) *)
Theorem C03_redistribution_keeps_position : forall b im e b1 p g s it' k older im2 e2,
  lookup (pairkey g s) (a_skpeer b) = Some (k :: older) ->
  i_from im = g -> sender_of im = s -> i_pw im = Some e -> i_sk im = None ->
  decrypt_pw b s e = (b1, DOk p) -> p_skdm p = Some (g, it') ->
  i_from im2 = g -> sender_of im2 = s -> i_pw im2 = None -> i_sk im2 = Some e2 -> typed im2 ->
  se_corrupt e2 = false -> k_start k <= se_iter e2 -> memN (se_iter e2) (k_seen k) = false ->
  snd (handle_enc (fst (handle_enc b im)) im2) =
  [ODeliver (i_from im2) (i_part im2) (i_id im2) (i_ty im2) (i_mt im2) (Some (se_content e2));
   OReceipt (i_from im2) (i_part im2) (i_id im2)].
Proof. exact redistribution_keeps_position_thm. Qed.
Print Assumptions C03_redistribution_keeps_position.

(* REFUTED for the variant that restarts the chain at it' ("keep the most recent state only"): whatever chain B held,
   every intact stanza below it' is acknowledged to the sender and never shown *)
Theorem C03_redistribution_restart_refuted : forall b s g it' im2 e2,
  i_from im2 = g -> sender_of im2 = s -> i_pw im2 = None -> i_sk im2 = Some e2 ->
  se_corrupt e2 = false -> se_iter e2 < it' ->
  snd (handle_enc (process_skdm_restart b s (g, it')) im2) = [OReceipt (i_from im2) (i_part im2) (i_id im2)].
Proof. exact restart_loses_position_refuted. Qed.
Print Assumptions C03_redistribution_restart_refuted.

(* non-vacuity + the witness on the history of the directed case redist-2-text-first: B holds A's chain (start 0,
   iteration 0 read); the answer to B's retry receipt for message 2 carries (1000, 3); the held stanza of message 3
   (iteration 2) is then shown by the model as it is, and only acknowledged by the restarting variant *)
Theorem C03_redistribution_history_example :
  snd (handle_enc rd_b rd_answer) = [ODeliver 1000 (Some 0) 2 0 0 (Some 2); OReceipt 1000 (Some 0) 2] /\
  snd (handle_enc (fst (handle_enc rd_b rd_answer)) rd_g3) =
    [ODeliver 1000 (Some 0) 3 0 0 (Some 3); OReceipt 1000 (Some 0) 3] /\
  snd (handle_enc (process_skdm_restart (fst (handle_enc rd_b rd_answer)) 0 (1000, 3)) rd_g3) =
    [OReceipt 1000 (Some 0) 3].
Proof. exact redistribution_history_example. Qed.
Print Assumptions C03_redistribution_history_example.
