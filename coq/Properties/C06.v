(* C06 — exactly-once routing through the assembled stack.  Statements only; proofs are in
   C06/C06Proofs.v, C06/C06Generic.v, C06/C06Reply.v.  `kinds` / `requests` (C06/C06Kinds.v) are
   the library's stanza / entity kinds (checked against the real classes on every run); `fields`
   are all values no guard fixes, universally quantified.  protocol_layers / handle_map /
   default_upper are regenerated from the Python source on every run (coq/Gen/).            *)
From YV Require Import C06.C06Base C06.C06Dispatch C06.C06Kinds Gen.C06Layers Gen.C06HandleMaps
                       C06.C06Proofs C06.C06Generic C06.C06Reply.

(* the default stack puts control layer, send||receive pair, protocol group in this order *)
Theorem C06_stack_shape : default_upper = [SOne LAxControl; SPar [LAxSend; LAxRecv]; SProtocolGroup].
Proof. exact stack_shape_thm. Qed.
Print Assumptions C06_stack_shape.

(* every module selection, every outgoing kind it supports, all field values: exactly one stanza,
   the entity's serialisation, leaves the protocol group; nothing goes up, nothing raises, at most
   one reply callback is registered *)
Theorem C06_send_once : forall c k d, In k kinds -> k_send k = true -> supported c k = true ->
  let a := par_send repaired c (feat_of k d) in
  downs a = [SEntity (feat_of k d)] /\ ups a = [] /\ raises a = 0 /\ Nat.leb (length (registers a)) 1 = true.
Proof. exact send_once_thm. Qed.
Print Assumptions C06_send_once.

(* ... and below the group a non-message stanza passes the encryption layers exactly once *)
Theorem C06_lower_send_once : forall s, String.eqb (stanza_tag s) "message" = false ->
  lower_send s = [Down s].
Proof. exact lower_send_once_thm. Qed.
Print Assumptions C06_lower_send_once.

(* every module selection, with and without encryption layers, every incoming kind it supports:
   exactly the expected entity class reaches the application, once; no error; and exactly the
   mandatory answer goes down *)
Theorem C06_recv_once : forall c ax k d, In k kinds -> k_send k = false -> supported c k = true ->
  let a := stack_recv repaired c ax [] (feat_of k d) in
  ups a = expected_up k /\ raises a = 0 /\ answers a = expected_answer k d.
Proof. exact recv_once_thm. Qed.
Print Assumptions C06_recv_once.

(* kinds of a module that was left out: nothing leaves / nothing arrives, no error
   (a notification is still acknowledged, see C07) *)
Theorem C06_off_is_silent_send : forall c k d, In k kinds -> k_send k = true -> supported c k = false ->
  par_send repaired c (feat_of k d) = [].
Proof. exact send_off_silent_thm. Qed.
Print Assumptions C06_off_is_silent_send.

Theorem C06_off_is_silent_recv : forall c ax k d, In k kinds -> k_send k = false -> supported c k = false ->
  let a := stack_recv repaired c ax [] (feat_of k d) in
  ups a = [] /\ raises a = 0 /\
  answers a = match k_answer k with ANotifAck => expected_answer k d | _ => [] end.
Proof. exact recv_off_silent_thm. Qed.
Print Assumptions C06_off_is_silent_recv.

(* send || receive pair: every non-message stanza (all feature vectors) is handed upward exactly
   once — receipts by the send layer, the rest by the receive layer — unless the pair consumes it by
   design (reply to its own key request, retry receipt for a message it still holds) *)
Theorem C06_axolotl_split : forall st f,
  String.eqb (f_tag f) "message" = false -> pair_consumes st f = false ->
  pair_recv st f = [Forward] /\
  (if String.eqb (f_tag f) "receipt"
   then axsend_recv st f = [Forward] /\ axrecv_recv st f = []
   else axsend_recv st f = [] /\ axrecv_recv st f = [Forward]).
Proof. exact axolotl_split_thm. Qed.
Print Assumptions C06_axolotl_split.

Theorem C06_axolotl_plain_message : forall st f,
  String.eqb (f_tag f) "message" = true -> has_child f "enc" = false -> pair_recv st f = [Forward].
Proof. exact axolotl_plain_message_thm. Qed.
Print Assumptions C06_axolotl_plain_message.

(* so the protocol group sees such a stanza exactly once when the encryption layers are present *)
Theorem C06_stack_transparent : forall v c st f,
  String.eqb (f_tag f) "message" = false ->
  registry_recv st LAxControl f = None -> pair_consumes st f = false ->
  (String.eqb (f_tag f) "notification" && oeq (f_type f) "encrypt"
     && (has_child f "count" || has_child f "identity")) = false ->
  stack_recv v c true st f = through_lower true (par_recv v c st f).
Proof. exact stack_transparent_thm. Qed.
Print Assumptions C06_stack_transparent.

(* a tag no layer claims: nothing, in either direction, for every feature vector *)
Theorem C06_unknown_tag_silent : forall v c st f, mem (f_tag f) known_tags = false ->
  par_recv v c st f = [] /\ par_send v c f = [].
Proof. exact unknown_tag_silent_thm. Qed.
Print Assumptions C06_unknown_tag_silent.

(* base-class iq with ANY xmlns / type string, any module selection: never duplicated; sent
   exactly once for the namespaces of the always-present layers *)
Theorem C06_generic_iq_at_most_once : forall c x t i to,
  length (downs (par_send repaired c (generic_iq x t i to))) <= 1.
Proof. exact generic_iq_at_most_once_thm. Qed.
Print Assumptions C06_generic_iq_at_most_once.

Theorem C06_generic_iq_core_once : forall c x t i to, mem x iq_layer_xmlns = true ->
  downs (par_send repaired c (generic_iq (Some x) t i to)) = [SEntity (generic_iq (Some x) t i to)].
Proof. exact generic_iq_core_once_thm. Qed.
Print Assumptions C06_generic_iq_core_once.

(* request that registers a callback, then the reply for its id: exactly one entity of the
   callback's class (result), the error class or nothing when no error callback exists (error);
   no other layer reacts *)
Theorem C06_reply_once : forall n ok err, In (n, ok, err) requests ->
  exists k, find_kind n = Some k /\ forall c, supported c k = true ->
    forall d i x fr to p ch, fd_id d = Some i -> plain_reply (request_layer k) x ch ->
    let st := apply_registers [] (par_send repaired c (feat_of k d)) in
    (let a := par_recv repaired c st (reply_feat x (Some "result") i fr to p ch) in
     (ups a, downs a, raises a) = ([ok], [], 0)) /\
    (let a := par_recv repaired c st (reply_feat x (Some "error") i fr to p ch) in
     (ups a, downs a, raises a) = (match err with Some e => [e] | None => [] end, [], 0)).
Proof. exact reply_once_thm. Qed.
Print Assumptions C06_reply_once.

(* ... and the pending request survives whatever else arrives before its reply: any list of received
   stanzas none of which is a result / error iq with the request's id -- a server ping (type get) that
   happens to carry that id, replies for other ids, messages, receipts -- leaves the entry alone, so the
   reply still produces exactly the one entity *)
Theorem C06_reply_once_after_traffic : forall n ok err, In (n, ok, err) requests ->
  exists k, find_kind n = Some k /\ forall c, supported c k = true ->
    forall ax d i x fr to p ch fs, fd_id d = Some i -> plain_reply (request_layer k) x ch ->
    forallb (fun f => negb (is_reply_for i f)) fs = true ->
    let st := fold_left (st_after_recv c ax) fs (apply_registers [] (par_send repaired c (feat_of k d))) in
    (let a := par_recv repaired c st (reply_feat x (Some "result") i fr to p ch) in
     (ups a, downs a, raises a) = ([ok], [], 0)) /\
    (let a := par_recv repaired c st (reply_feat x (Some "error") i fr to p ch) in
     (ups a, downs a, raises a) = (match err with Some e => [e] | None => [] end, [], 0)).
Proof. exact reply_once_after_traffic_thm. Qed.
Print Assumptions C06_reply_once_after_traffic.

(* a registry that forgets the entry on ANY iq with the id (pop first, test the type afterwards) is refuted *)
Theorem C06_popfirst_refuted : exists ls l i ok err f, is_reply_for i f = false /\
  consume_popfirst [(l, i, ok, err)] ls f = [] /\ consume [(l, i, ok, err)] ls f = [(l, i, ok, err)].
Proof. exact popfirst_refuted. Qed.
Print Assumptions C06_popfirst_refuted.

(* routing never depends on what travelled before, in either direction: a stanza that is not a reply (anything but
   an iq of type result / error) is treated the same on a stack with ANY set of pending requests as on a fresh one;
   sending never consults the registry at all (stack_send has no registry argument) *)
Theorem C06_routing_history_independent : forall v c ax st f, is_reply f = false ->
  stack_recv v c ax st f = stack_recv v c ax [] f.
Proof. exact recv_history_independent_thm. Qed.
Print Assumptions C06_routing_history_independent.

(* re-entrancy: the pending request is forgotten BEFORE its callback runs, so a request the application sends again
   (same entity, same id) from inside its handler for the answer is registered, and its own answer is delivered:
   exactly the callback's entity for a result, exactly the error callback's for an error *)
Theorem C06_retry_in_handler_registered : forall st l i ok err x fr to p ch,
  let st' := process_then_callback st l i (resend l i ok err) in
  reg_find st' l (Some i) = Some (l, i, ok, err) /\
  registry_recv st' l (reply_feat x (Some "result") i fr to p ch) =
    Some (match ok with Some c => [Up c] | None => [] end) /\
  registry_recv st' l (reply_feat x (Some "error") i fr to p ch) =
    Some (match err with Some c => [Up c] | None => [] end).
Proof. exact retry_in_handler_registered_thm. Qed.
Print Assumptions C06_retry_in_handler_registered.

(* the other order (callback first, forget the id afterwards) loses the retried request: no answer to it, of any
   type, is recognised as a reply *)
Theorem C06_callback_then_remove_refuted : forall st l i ok err x t fr to p ch,
  registry_recv (callback_then_remove st l i (resend l i ok err)) l (reply_feat x t i fr to p ch) = None.
Proof. exact callback_then_remove_refuted_thm. Qed.
Print Assumptions C06_callback_then_remove_refuted.
