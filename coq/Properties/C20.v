(* C20 -- Registration requests: token, parameter encoding, encryption.
   Statements only; proofs are in C20/C20ProofsUrl.v, C20ProofsTok.v, C20EnvInst.v.
   Model: C20/C20Model.v (urlencode/urlencodeParams/encryptParams of warequest.py, getToken of
   env_android.py).  Bytes are N < 256 (`byte`), a str is its list of code points
   (`codepoint` = below 0x110000), ints are Z.  SHA-1, X25519 and AES-GCM are universally
   quantified; base64, hex, UTF-8 and decimal text are concrete.                           *)
From YV Require Import Common.Tac C20.C20Model C20.C20ProofsUrl C20.C20ProofsTok C20.C20EnvInst C20.C20Nonvac.
From YV Require C20.C20Ref Gen.C20Env.

Local Open Scope N_scope.

(* (i) the code's per-character quoting + lower-casing + three replaces IS RFC 3986
   percent-encoding (alphanumerics and '.' literal, everything else %xx lower case) of the
   value's bytes: bytes as they are, text as UTF-8, integers as decimal text *)
Theorem C20_urlencode_spec : forall v, value_ok v -> urlencode v = pct_encode (value_bytes v).
Proof. exact urlencode_spec_thm. Qed.
Print Assumptions C20_urlencode_spec.

(* standard decoding (urllib.parse.unquote_to_bytes) returns the original value, for every byte
   string, every str over the whole code-point range and every integer *)
Theorem C20_urlencode_rt : forall v, value_ok v -> percent_decode (urlencode v) = value_bytes v.
Proof. exact urlencode_rt_thm. Qed.
Print Assumptions C20_urlencode_rt.

Theorem C20_urlencode_bytes_rt : forall bs, Forall byte bs -> percent_decode (urlencode_bytes bs) = bs.
Proof. exact (fun bs H => urlencode_rt_thm (VBytes bs) H). Qed.
Print Assumptions C20_urlencode_bytes_rt.

(* text: percent-decoding then reading the UTF-8 returns the original string, character by
   character, over the whole code-point range *)
Theorem C20_urlencode_text_rt : forall s, Forall codepoint s ->
  utf8_decode (percent_decode (urlencode (VStr s))) = Some s.
Proof. exact urlencode_text_rt_thm. Qed.
Print Assumptions C20_urlencode_text_rt.

(* integers: the decimal text reads back to the same integer *)
Theorem C20_int_decimal_rt : forall z,
  percent_decode (urlencode (VInt z)) = decimal z /\ parse_decimal (decimal z) = Some z.
Proof. exact (fun z => conj (urlencode_rt_thm (VInt z) I) (decimal_rt_thm z)). Qed.
Print Assumptions C20_int_decimal_rt.

(* output alphabet: [A-Za-z0-9.] and escapes '%' + two LOWER-case hex digits, nothing else *)
Theorem C20_urlencode_alphabet : forall v, value_ok v -> wf_enc (urlencode v) = true.
Proof. exact urlencode_alphabet_thm. Qed.
Print Assumptions C20_urlencode_alphabet.

(* the parameter string parses back (split on '&', then on the first '=', then standard
   decoding) to exactly the original parameters in the original order *)
Theorem C20_params_order : forall ps, Forall param_ok ps ->
  parse_params (urlencode_params ps) = Some (map meaning ps).
Proof. exact params_thm. Qed.
Print Assumptions C20_params_order.

(* (ii) whenever getToken returns, the token is base64 of RFC 2104 HMAC (written independently
   in C20Model.hmac_rfc2104) with hash sha1, block size 64, keyed with the first 64 bytes of the
   decoded key, over signature || class digest || UTF-8(phone) -- for every hash function *)
Theorem C20_token_is_keyed_sha1 : forall sha1 kb sb cb phone tok,
  get_token sha1 kb sb cb phone = Some tok ->
  exists key sig cls,
    b64decode kb = Some key /\ b64decode sb = Some sig /\ b64decode cb = Some cls /\
    (64 <= length key)%nat /\
    tok = b64encode (hmac_rfc2104 sha1 64 (firstn 64 key) (sig ++ cls ++ utf8 phone)).
Proof. exact token_thm. Qed.
Print Assumptions C20_token_is_keyed_sha1.

(* the constants of the current source (regenerated on every run) are the reference ones *)
Theorem C20_constants :
  C20Env.key_b64 = C20Ref.key_b64 /\ C20Env.sig_b64 = C20Ref.sig_b64 /\ C20Env.cls_b64 = C20Ref.cls_b64.
Proof. exact constants_thm. Qed.
Print Assumptions C20_constants.

(* for every phone number: getToken over the current source's constants succeeds and equals the
   reference construction *)
Theorem C20_token_env : forall sha1 phone,
  get_token sha1 C20Env.key_b64 C20Env.sig_b64 C20Env.cls_b64 phone =
  Some (b64encode (hmac_rfc2104 sha1 64 (firstn 64 ref_key) (ref_sig ++ ref_cls ++ utf8 phone))).
Proof. exact env_token_thm. Qed.
Print Assumptions C20_token_env.

(* base64 as modelled is invertible (used for the token text and the blob) *)
Theorem C20_base64_rt : forall l, Forall byte l -> b64decode (b64encode l) = Some l.
Proof. exact b64_rt_thm. Qed.
Print Assumptions C20_base64_rt.

(* (iii) the blob is base64(ephemeral public key (32 bytes) || AEAD ciphertext) ... *)
Theorem C20_blob_layout : forall gen_keypair dh aead_enc aead_dec,
  enc_prims_ok gen_keypair dh aead_enc aead_dec ->
  forall server_pub ps draw, Forall param_ok ps ->
    b64decode (encrypt_params gen_keypair dh aead_enc server_pub ps draw) =
    Some (pub_of gen_keypair draw ++
          aead_enc (dh server_pub (priv_of gen_keypair draw)) enc_nonce (urlencode_params ps) []) /\
    length (pub_of gen_keypair draw) = 32%nat.
Proof. exact blob_layout_thm. Qed.
Print Assumptions C20_blob_layout.

(* ... and decrypts, under the private key matching the server key used, to exactly the encoded
   parameter string (which by C20_params_order carries the parameters in the original order) *)
Theorem C20_blob_decrypts : forall gen_keypair dh aead_enc aead_dec,
  enc_prims_ok gen_keypair dh aead_enc aead_dec ->
  forall s ps draw, Forall param_ok ps ->
    decrypt_blob dh aead_dec (priv_of gen_keypair s)
      (encrypt_params gen_keypair dh aead_enc (pub_of gen_keypair s) ps draw)
    = Some (urlencode_params ps).
Proof. exact blob_decrypts_thm. Qed.
Print Assumptions C20_blob_decrypts.

(* each call of a run takes its key pair from its own position of the random stream; nothing
   else is carried from call to call (encrypt_calls threads only the position).  That the
   real stream (os.urandom) yields fresh values is statistical and only tested. *)
Theorem C20_ephemeral_per_call : forall gen_keypair dh aead_enc,
  forall server_pub rng reqs pos j ps,
    nth_error reqs j = Some ps ->
    nth_error (encrypt_calls gen_keypair dh aead_enc server_pub rng pos reqs) j =
    Some (encrypt_params gen_keypair dh aead_enc server_pub ps (rng (pos + j)%nat)).
Proof. exact ephemeral_per_call_thm. Qed.
Print Assumptions C20_ephemeral_per_call.

Theorem C20_distinct_ephemeral_distinct_blob : forall gen_keypair dh aead_enc aead_dec,
  enc_prims_ok gen_keypair dh aead_enc aead_dec ->
  forall server_pub ps1 ps2 d1 d2, Forall param_ok ps1 -> Forall param_ok ps2 ->
    pub_of gen_keypair d1 <> pub_of gen_keypair d2 ->
    encrypt_params gen_keypair dh aead_enc server_pub ps1 d1 <>
    encrypt_params gen_keypair dh aead_enc server_pub ps2 d2.
Proof. exact distinct_draws_thm. Qed.
Print Assumptions C20_distinct_ephemeral_distinct_blob.

(* the hypotheses on the primitives are satisfiable (toy instance) and the theorem computes *)
Theorem C20_nonvacuous :
  enc_prims_ok toy_keypair toy_dh toy_aead_enc toy_aead_dec /\
  decrypt_blob toy_dh toy_aead_dec (priv_of toy_keypair 5)
    (encrypt_params toy_keypair toy_dh toy_aead_enc (pub_of toy_keypair 5) toy_ps 9)
  = Some [99; 99; 61; 52; 57; 38; 105; 110; 61; 49; 37; 50; 100; 50].
Proof. exact (conj toy_enc_prims_ok toy_blob_decrypts). Qed.
Print Assumptions C20_nonvacuous.
