(* C12 -- a failure while sending or receiving does not wedge the stack.
   Statements only; proofs are in C12/C12Proofs.v and C12/C12Inst.v.

   Model (C12/C12Chain.v): any call graph whose callees have smaller numbers than their caller
   (the layer chain, the upward receive chain, handlers that answer downward), every call made
   by a node that has a lock is wrapped in acquire/release of that lock; any number of threads,
   each with any list of operations entering at any node; a failure oracle that can make any
   step raise.  `ror x` = the lock site of node x releases when a callee raises (try/finally).
   The theorems quantify over data, shared state, graph, threads, operation lists, schedules and
   failure placement.                                                                        *)
From YV Require Import Common.Tac C12.C12Chain C12.C12Proofs C12.C12Model C12.C12Inst.

Section C12.
Variable data shared : Type.
Variable has_lock ror : nat -> bool.
Variable body : nat -> data -> shared -> shared * list (nat * data).
Hypothesis body_lower : forall x d s y d', In (y, d') (snd (body x d s)) -> y < x.
Hypothesis ror_all : forall x, ror x = true.
Notation reach := (reach data shared has_lock ror body).
Notation exec := (exec data shared has_lock ror body).

(* After each operation has returned or raised (the thread's call stack is empty) the calling
   thread owns no lock -- in every reachable state, i.e. after any history of operations and
   failures of all threads. *)
Theorem C12_locks_free_after : forall s0 opss c t th l,
  reach s0 opss c -> nth_error (thr c) t = Some th -> stack th = [] -> locks c l <> Some t.
Proof. exact (locks_free_after_thm data shared has_lock ror body body_lower ror_all). Qed.

(* A taken lock always belongs to an operation that is still in progress (never to a finished
   one) ... *)
Theorem C12_holder_active : forall s0 opss c l t,
  reach s0 opss c -> locks c l = Some t ->
  exists th, nth_error (thr c) t = Some th /\ stack th <> [] /\ holds th l.
Proof. exact (holder_active_thm data shared has_lock ror body body_lower ror_all). Qed.

(* ... so a follow-up operation of ANY thread is never blocked by finished operations: if all
   other threads are between operations, thread t can step, whatever failed before ... *)
Theorem C12_progress : forall s0 opss c t th,
  reach s0 opss c -> nth_error (thr c) t = Some th -> (stack th <> [] \/ ops th <> []) ->
  (forall t' th', t' <> t -> nth_error (thr c) t' = Some th' -> stack th' = []) ->
  exec c (t, false) <> None.
Proof. exact (progress_thm data shared has_lock ror body body_lower ror_all). Qed.

(* ... and with concurrent operations in flight nothing blocks forever on locks: while any
   thread is unfinished some thread can step (locks are taken in one global order). *)
Theorem C12_no_deadlock : forall s0 opss c t th,
  reach s0 opss c -> nth_error (thr c) t = Some th -> (stack th <> [] \/ ops th <> []) ->
  exists t', exec c (t', false) <> None.
Proof. exact (no_deadlock_thm data shared has_lock ror body body_lower ror_all). Qed.

End C12.
Print Assumptions C12_locks_free_after.
Print Assumptions C12_holder_active.
Print Assumptions C12_progress.
Print Assumptions C12_no_deadlock.

(* A raise is reported to the caller and nothing is swallowed: (1) the step that raises leaves
   the thread unwinding (or, for a raise at operation entry, already reported); (2) an unwinding
   thread touches neither the shared state nor takes a lock, its stack shrinks with every step
   and when it is empty the operation is recorded as raised; (3) `returned` is only ever
   recorded by a thread that is not unwinding.  Holds for every graph and every ror. *)
Theorem C12_error_reported : forall (data shared : Type) has_lock ror body c t fail c' th th',
  exec data shared has_lock ror body c (t, fail) = Some c' ->
  nth_error (thr c) t = Some th -> nth_error (thr c') t = Some th' ->
  (fail = true -> (raising th' = true /\ stack th' <> [] /\ results th' = results th /\ sh c' = sh c)
                  \/ (stack th' = [] /\ results th' = results th ++ [false] /\ sh c' = sh c)) /\
  (raising th = true ->
     sh c' = sh c /\ (forall l, locks c' l = locks c l \/ locks c' l = None) /\
     ((raising th' = true /\ results th' = results th /\ length (stack th') < length (stack th)) \/
      (stack th' = [] /\ raising th' = false /\ results th' = results th ++ [false]))) /\
  (raising th = false -> fail = false ->
     results th' = results th \/ (results th' = results th ++ [true] /\ stack th' = [])).
Proof. exact error_reported_thm. Qed.
Print Assumptions C12_error_reported.

(* The unrepaired pattern (acquire / lower.send / release without try/finally, as in
   YowLayer.toLower and YowNoiseLayer._flush_incoming_buffer before fixes/C12-*.patch):
   two layers, two threads, one send each; the lower layer raises once.  Thread 0's send is over
   and was reported as an error, it still owns layer 1's lock, thread 1 can never acquire it. *)
Theorem C12_leaky_refuted :
  exists c th0 th1, t_reach (chain 2 false) [[(1, 0)]; [(1, 0)]] c /\
    nth_error (thr c) 0 = Some th0 /\ nth_error (thr c) 1 = Some th1 /\
    finished th0 /\ results th0 = [false] /\ locks c 1 = Some 0 /\ ~ finished th1 /\
    forall t, t_exec (chain 2 false) c (t, false) = None.
Proof. exact leaky_refuted_thm. Qed.
Print Assumptions C12_leaky_refuted.

(* Every well-formed table (what the harness builds from the real stack) satisfies the
   hypotheses of the theorems above; `fixed_run` in C12Inst.v replays the witness history on the
   repaired pattern (locks free, thread 1 completes) -- non-vacuity. *)
Theorem C12_table_instance : forall T, table_wf T = true -> table_ror_all T = true ->
  (forall x d s y d', In (y, d') (snd (t_body T x d s)) -> y < x) /\ (forall x, t_ror T x = true).
Proof. intros T W R. split; [exact (table_body_lower T W)|exact (table_ror T R)]. Qed.
Print Assumptions C12_table_instance.

(* ---- incoming frames after an upward failure (C12/C12Segments.v) ----
   "later incoming frames are processed normally": YowNoiseSegmentsLayer.receive cuts a frame off
   its read buffer before handing it upward; when that delivery raises (undecodable frame, a handler
   rejecting the stanza, an application callback raising) the frames that arrived in the same network
   read must not be lost, duplicated or reordered.  `bad f` = "the layers above raise on frame f";
   the statement is for every such predicate, every frame list the peer sent, every chunking of the
   byte stream and every prefix of it:
     - the frames handed upward so far, followed by the complete frames still in the read buffer,
       are exactly the frames sent, in order, and the unfinished tail is untouched;
     - after a read that returned normally nothing complete is left waiting: all frames sent so far
       were handed upward. *)
From YV Require Import C05.C05Model C05.C05Proofs C12.C12Segments.

Theorem C12_incoming_survives_failure : forall bad chunks fs partial calls b,
  Forall valid_frame fs -> incomplete partial ->
  concat chunks = concat (map wire fs) ++ partial ->
  run_exc bad [] chunks = (calls, b) ->
  attempted calls ++ fst (P b) = fs /\ snd (P b) = partial /\
  (forall calls' att, calls = calls' ++ [(att, false)] -> attempted calls = fs /\ b = partial).
Proof. exact incoming_survives_failure. Qed.
Print Assumptions C12_incoming_survives_failure.

(* per read: a read that raised handed upward some accepted frames and then the failing one, last;
   a read that returned handed upward accepted frames only (a failing frame is never passed over and
   is not handed upward a second time, by the conservation statement above). *)
Theorem C12_failing_frame_ends_the_read : forall bad chunks calls b,
  run_exc bad [] chunks = (calls, b) ->
  Forall (fun c => snd c = true ->
            exists pre f, fst c = pre ++ [f] /\ bad f = true /\ all_good bad pre = true) calls /\
  Forall (fun c => snd c = false -> all_good bad (fst c) = true) calls.
Proof. exact failing_frame_not_redelivered. Qed.
Print Assumptions C12_failing_frame_ends_the_read.
