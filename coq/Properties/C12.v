(* C12 -- a failure while sending or receiving does not wedge the stack.
   Statements only; proofs are in C12/C12Proofs.v and C12/C12Inst.v.

   Model (C12/C12Chain.v): any call graph whose callees have smaller numbers than their caller
   (the layer chain, the upward receive chain, handlers that answer downward), every call made
   by a node that has a lock is wrapped in acquire/release of that lock; any number of threads,
   each with any list of operations entering at any node; a failure oracle that can make any
   step raise.  `ror x` = the lock site of node x releases when a callee raises (try/finally).
   The theorems quantify over data, shared state, graph, threads, operation lists, schedules and
   failure placement.                                                                        *)
From YV Require Import Common.Tac C12.C12Chain C12.C12Proofs C12.C12Model C12.C12Inst.

Section C12.
Variable data shared : Type.
Variable has_lock ror : nat -> bool.
Variable body : nat -> data -> shared -> shared * list (nat * data).
Hypothesis body_lower : forall x d s y d', In (y, d') (snd (body x d s)) -> y < x.
Hypothesis ror_all : forall x, ror x = true.
Notation reach := (reach data shared has_lock ror body).
Notation exec := (exec data shared has_lock ror body).

(* After each operation has returned or raised (the thread's call stack is empty) the calling
   thread owns no lock -- in every reachable state, i.e. after any history of operations and
   failures of all threads. *)
Theorem C12_locks_free_after : forall s0 opss c t th l,
  reach s0 opss c -> nth_error (thr c) t = Some th -> stack th = [] -> locks c l <> Some t.
Proof. exact (locks_free_after_thm data shared has_lock ror body body_lower ror_all). Qed.

(* A taken lock always belongs to an operation that is still in progress (never to a finished
   one) ... *)
Theorem C12_holder_active : forall s0 opss c l t,
  reach s0 opss c -> locks c l = Some t ->
  exists th, nth_error (thr c) t = Some th /\ stack th <> [] /\ holds th l.
Proof. exact (holder_active_thm data shared has_lock ror body body_lower ror_all). Qed.

(* ... so a follow-up operation of ANY thread is never blocked by finished operations: if all
   other threads are between operations, thread t can step, whatever failed before ... *)
Theorem C12_progress : forall s0 opss c t th,
  reach s0 opss c -> nth_error (thr c) t = Some th -> (stack th <> [] \/ ops th <> []) ->
  (forall t' th', t' <> t -> nth_error (thr c) t' = Some th' -> stack th' = []) ->
  exec c (t, false) <> None.
Proof. exact (progress_thm data shared has_lock ror body body_lower ror_all). Qed.

(* ... and with concurrent operations in flight nothing blocks forever on locks: while any
   thread is unfinished some thread can step (locks are taken in one global order). *)
Theorem C12_no_deadlock : forall s0 opss c t th,
  reach s0 opss c -> nth_error (thr c) t = Some th -> (stack th <> [] \/ ops th <> []) ->
  exists t', exec c (t', false) <> None.
Proof. exact (no_deadlock_thm data shared has_lock ror body body_lower ror_all). Qed.

End C12.
Print Assumptions C12_locks_free_after.
Print Assumptions C12_holder_active.
Print Assumptions C12_progress.
Print Assumptions C12_no_deadlock.

(* A raise is reported to the caller and nothing is swallowed: (1) the step that raises leaves
   the thread unwinding (or, for a raise at operation entry, already reported); (2) an unwinding
   thread touches neither the shared state nor takes a lock, its stack shrinks with every step
   and when it is empty the operation is recorded as raised; (3) `returned` is only ever
   recorded by a thread that is not unwinding.  Holds for every graph and every ror. *)
Theorem C12_error_reported : forall (data shared : Type) has_lock ror body c t fail c' th th',
  exec data shared has_lock ror body c (t, fail) = Some c' ->
  nth_error (thr c) t = Some th -> nth_error (thr c') t = Some th' ->
  (fail = true -> (raising th' = true /\ stack th' <> [] /\ results th' = results th /\ sh c' = sh c)
                  \/ (stack th' = [] /\ results th' = results th ++ [false] /\ sh c' = sh c)) /\
  (raising th = true ->
     sh c' = sh c /\ (forall l, locks c' l = locks c l \/ locks c' l = None) /\
     ((raising th' = true /\ results th' = results th /\ length (stack th') < length (stack th)) \/
      (stack th' = [] /\ raising th' = false /\ results th' = results th ++ [false]))) /\
  (raising th = false -> fail = false ->
     results th' = results th \/ (results th' = results th ++ [true] /\ stack th' = [])).
Proof. exact error_reported_thm. Qed.
Print Assumptions C12_error_reported.

(* The unrepaired pattern (acquire / lower.send / release without try/finally, as in
   YowLayer.toLower and YowNoiseLayer._flush_incoming_buffer before fixes/C12-*.patch):
   two layers, two threads, one send each; the lower layer raises once.  Thread 0's send is over
   and was reported as an error, it still owns layer 1's lock, thread 1 can never acquire it. *)
Theorem C12_leaky_refuted :
  exists c th0 th1, t_reach (chain 2 false) [[(1, 0)]; [(1, 0)]] c /\
    nth_error (thr c) 0 = Some th0 /\ nth_error (thr c) 1 = Some th1 /\
    finished th0 /\ results th0 = [false] /\ locks c 1 = Some 0 /\ ~ finished th1 /\
    forall t, t_exec (chain 2 false) c (t, false) = None.
Proof. exact leaky_refuted_thm. Qed.
Print Assumptions C12_leaky_refuted.

(* Every well-formed table (what the harness builds from the real stack) satisfies the
   hypotheses of the theorems above; `fixed_run` in C12Inst.v replays the witness history on the
   repaired pattern (locks free, thread 1 completes) -- non-vacuity. *)
Theorem C12_table_instance : forall T, table_wf T = true -> table_ror_all T = true ->
  (forall x d s y d', In (y, d') (snd (t_body T x d s)) -> y < x) /\ (forall x, t_ror T x = true).
Proof. intros T W R. split; [exact (table_body_lower T W)|exact (table_ror T R)]. Qed.
Print Assumptions C12_table_instance.

(* ---- incoming frames after an upward failure (C12/C12Segments.v) ----
   "later incoming frames are processed normally": YowNoiseSegmentsLayer.receive cuts a frame off
   its read buffer before handing it upward; when that delivery raises (undecodable frame, a handler
   rejecting the stanza, an application callback raising) the frames that arrived in the same network
   read must not be lost, duplicated or reordered.  `bad f` = "the layers above raise on frame f";
   the statement is for every such predicate, every frame list the peer sent, every chunking of the
   byte stream and every prefix of it:
     - the frames handed upward so far, followed by the complete frames still in the read buffer,
       are exactly the frames sent, in order, and the unfinished tail is untouched;
     - after a read that returned normally nothing complete is left waiting: all frames sent so far
       were handed upward. *)
From YV Require Import C05.C05Model C05.C05Proofs C12.C12Segments.

Theorem C12_incoming_survives_failure : forall bad chunks fs partial calls b,
  Forall valid_frame fs -> incomplete partial ->
  concat chunks = concat (map wire fs) ++ partial ->
  run_exc bad [] chunks = (calls, b) ->
  attempted calls ++ fst (P b) = fs /\ snd (P b) = partial /\
  (forall calls' att, calls = calls' ++ [(att, false)] -> attempted calls = fs /\ b = partial).
Proof. exact incoming_survives_failure. Qed.
Print Assumptions C12_incoming_survives_failure.

(* per read: a read that raised handed upward some accepted frames and then the failing one, last;
   a read that returned handed upward accepted frames only (a failing frame is never passed over and
   is not handed upward a second time, by the conservation statement above). *)
Theorem C12_failing_frame_ends_the_read : forall bad chunks calls b,
  run_exc bad [] chunks = (calls, b) ->
  Forall (fun c => snd c = true ->
            exists pre f, fst c = pre ++ [f] /\ bad f = true /\ all_good bad pre = true) calls /\
  Forall (fun c => snd c = false -> all_good bad (fst c) = true) calls.
Proof. exact failing_frame_not_redelivered. Qed.
Print Assumptions C12_failing_frame_ends_the_read.

(* ---- an INNER lock site and failures a layer handles itself (C12/C12Inner.v) ----
   A layer may take a lock of its own inside its body, around work that calls into no other layer (a key
   manager's cipher lock around one encrypt / decrypt), and may HANDLE a failure of that work itself: the axolotl
   receive layer turns a message it cannot decrypt into a retry receipt and the caller of the read sees nothing.
   C12Inner.v extends the lock-chain semantics by exactly that: a frame may carry a handler (when a callee of the
   frame raised and unwinding reaches it, the frame's lock released iff `ror`, the thread stops raising and goes on
   with the handler's calls) and a lock may be re-entrant (owner + number of additional acquisitions).  The inner
   site is an ordinary pair of nodes of such a graph (lock node calling a leaf work node) entered from the layer's
   node in both directions; the theorems below are for EVERY ranked graph with any handlers and any re-entrant
   locks, so for every table that contains such a site -- and, by C12_inner_absent_is_identity, for the tables
   without one they are the theorems above.                                                                  *)
From YV Require Import C12.C12Inner C12.C12InnerProofs C12.C12InnerInst.

Section C12Inner.
Variable data shared : Type.
Variable has_lock ror reent : nat -> bool.
Variable body : nat -> data -> shared -> shared * list (nat * data).
Variable handler : nat -> data -> option (list (nat * data)).
Hypothesis body_lower : forall x d s y d', In (y, d') (snd (body x d s)) -> y < x.
Hypothesis handler_lower : forall x d h y d', handler x d = Some h -> In (y, d') h -> y < x.
Hypothesis ror_all : forall x, ror x = true.
Notation ireach := (ireach data shared has_lock ror reent body handler).
Notation iexec := (iexec data shared has_lock ror reent body handler).

(* after each operation returned, raised, or had its failure handled inside a layer (call stack empty) the
   thread owns no lock, re-entrant or not *)
Theorem C12_inner_locks_free_after : forall s0 opss c t th l,
  ireach s0 opss c -> nth_error (ithr c) t = Some th -> istack th = [] -> owner_of c l <> Some t.
Proof. exact (inner_locks_free_after_thm data shared has_lock ror reent body handler body_lower handler_lower ror_all). Qed.

(* a taken lock belongs to a frame of an operation still in progress, and is taken exactly once *)
Theorem C12_inner_holder_active : forall s0 opss c l t k,
  ireach s0 opss c -> ilocks c l = Some (t, k) ->
  k = 0 /\ exists th, nth_error (ithr c) t = Some th /\ istack th <> [] /\ iholds th l.
Proof. exact (inner_holder_active_thm data shared has_lock ror reent body handler body_lower handler_lower ror_all). Qed.

(* a follow-up operation of ANY thread is never blocked by operations that are over, whatever failed or was
   handled in them *)
Theorem C12_inner_progress : forall s0 opss c t th,
  ireach s0 opss c -> nth_error (ithr c) t = Some th -> (istack th <> [] \/ iops th <> []) ->
  (forall t' th', t' <> t -> nth_error (ithr c) t' = Some th' -> istack th' = []) ->
  iexec c (t, false) <> None.
Proof. exact (inner_progress_thm data shared has_lock ror reent body handler body_lower handler_lower ror_all). Qed.

(* with operations in flight (one thread inside the inner site, another one on its way to it with layer locks in
   its hands) some thread can always step *)
Theorem C12_inner_no_deadlock : forall s0 opss c t th,
  ireach s0 opss c -> nth_error (ithr c) t = Some th -> (istack th <> [] \/ iops th <> []) ->
  exists t', iexec c (t', false) <> None.
Proof. exact (inner_no_deadlock_thm data shared has_lock ror reent body handler body_lower handler_lower ror_all). Qed.

End C12Inner.
Print Assumptions C12_inner_locks_free_after.
Print Assumptions C12_inner_holder_active.
Print Assumptions C12_inner_progress.
Print Assumptions C12_inner_no_deadlock.

(* The leaky inner site (acquire; work; release WITHOUT try/finally -- e.g. a generator-based context manager that
   yields between acquire and release -- on a re-entrant lock), the failure handled by the layer.  Stack: 0 cipher
   work, 1 the inner lock site, 2..3 the layer below and the axolotl layer's toLower site, 4 the axolotl layer's send
   (1 then 3), 5..6 the application layer's toLower site and send, 7 the axolotl layer's receive (1, handler for
   kind 1: retry receipt down through 3).  Thread 0 reads an undecryptable message, then a good one; thread 1 sends.
   Both operations of thread 0 RETURNED NORMALLY (nobody was told about a failure; its second message took the
   re-entrant lock again), yet it owns the inner lock; thread 1 is stuck at the inner site with the application
   layer's lock in its hands, and nothing can ever move again. *)
Theorem C12_inner_leaky_refuted :
  exists c th0 th1, it_reach (inner_table false true) inner_ops c /\
    nth_error (ithr c) 0 = Some th0 /\ nth_error (ithr c) 1 = Some th1 /\
    ifinished th0 /\ iresults th0 = [true; true] /\ ilocks c 1 = Some (0, 0) /\
    ~ ifinished th1 /\ ilocks c 5 = Some (1, 0) /\
    forall t, it_exec (inner_table false true) c (t, false) = None.
Proof. exact inner_leaky_refuted_thm. Qed.
Print Assumptions C12_inner_leaky_refuted.

(* the same leak on a lock that is not re-entrant: the thread that handled the failure blocks ITSELF on its next
   message *)
Theorem C12_inner_leaky_plain_lock_refuted :
  exists c th0, it_reach (inner_table false false) inner_ops c /\
    nth_error (ithr c) 0 = Some th0 /\ iresults th0 = [true] /\ ~ ifinished th0 /\
    ilocks c 1 = Some (0, 0) /\ it_exec (inner_table false false) c (0, false) = None.
Proof. exact inner_leaky_plain_lock_thm. Qed.
Print Assumptions C12_inner_leaky_plain_lock_refuted.

(* every well-formed table with handlers and re-entrant locks (what the harness builds when the tree under test has
   an inner site) satisfies the hypotheses of the C12_inner_ theorems; `inner_fixed_run` (C12InnerInst.v) replays
   the witness history with release-on-raise at the inner site: all locks free, both threads complete. *)
Theorem C12_inner_table_instance : forall T, itable_wf T = true -> table_ror_all (it_rows T) = true ->
  (forall x d s y d', In (y, d') (snd (t_body (it_rows T) x d s)) -> y < x) /\
  (forall x d h y d', it_handler T x d = Some h -> In (y, d') h -> y < x) /\
  (forall x, t_ror (it_rows T) x = true).
Proof.
  intros T W R. split; [exact (itable_body_lower T W)|]. split; [exact (itable_handler_lower T W)|].
  exact (table_ror (it_rows T) R).
Qed.
Print Assumptions C12_inner_table_instance.

(* A failure is reported to the caller or handled by a layer that has a handler -- nothing else: (1) the step that
   raises leaves the thread raising (or, at operation entry, the operation over with an error); (2) a raising thread
   touches no shared state and takes no lock (a lock entry stays, is freed, or loses one acquisition); it keeps
   unwinding with a shrinking stack, or its operation ends with an error, or -- only when a CALLEE of the top frame
   raised and that frame has a handler -- the frame takes over at the same stack height, not held, its handler spent,
   the thread no longer raising and nothing recorded; (3) `returned` is only recorded by a thread that is not
   raising.  Every graph, every ror, every handler / re-entrancy assignment. *)
Theorem C12_inner_handled_or_reported :
  forall (data shared : Type) has_lock ror reent body handler c t fail c' th th',
  iexec data shared has_lock ror reent body handler c (t, fail) = Some c' ->
  nth_error (ithr c) t = Some th -> nth_error (ithr c') t = Some th' ->
  (fail = true -> (imode th' <> RNo /\ istack th' <> [] /\ iresults th' = iresults th /\ ish c' = ish c)
                  \/ (istack th' = [] /\ iresults th' = iresults th ++ [false] /\ ish c' = ish c)) /\
  (imode th <> RNo ->
     ish c' = ish c /\
     (forall l, ilocks c' l = ilocks c l \/ ilocks c' l = None \/
                exists o k, ilocks c l = Some (o, S k) /\ ilocks c' l = Some (o, k)) /\
     ((imode th' <> RNo /\ iresults th' = iresults th /\ length (istack th') < length (istack th)) \/
      (istack th' = [] /\ imode th' = RNo /\ iresults th' = iresults th ++ [false]) \/
      (imode th = RCallee /\ imode th' = RNo /\ iresults th' = iresults th /\
       exists f fs h, istack th = f :: fs /\ icatch f = Some h /\
                      istack th' = IFrame (inode f) false h None :: fs))) /\
  (imode th = RNo -> fail = false ->
     iresults th' = iresults th \/ (iresults th' = iresults th ++ [true] /\ istack th' = [])).
Proof. exact inner_error_reported_thm. Qed.
Print Assumptions C12_inner_handled_or_reported.

(* The inner site is optional and its absence is the identity: with no handler anywhere and no re-entrant lock the
   extended semantics is C12Chain.v's, step by step.  `sim c0 c`: same owners (every lock taken exactly once), same
   shared state, the threads of c0 are the projections of the threads of c (ROwn / RCallee both read as `raising`),
   no frame carries a handler.  The initial configurations are related; every step of the extended semantics is a
   step of C12Chain's `exec` with the same action leading to related configurations; an action that cannot step in the
   extended semantics (blocked on a lock, nothing to do) cannot step in C12Chain's either; hence every reachable
   configuration of the one is related to a reachable configuration of the other. *)
Theorem C12_inner_absent_is_identity :
  forall (data shared : Type) (has_lock ror : nat -> bool)
         (body : nat -> data -> shared -> shared * list (nat * data)),
  let noh := fun (_ : nat) (_ : data) => @None (list (nat * data)) in
  let nore := fun _ : nat => false in
  (forall s0 opss, sim data shared (init data shared s0 opss) (iinit data shared s0 opss)) /\
  (forall c0 c a c', sim data shared c0 c -> iexec data shared has_lock ror nore body noh c a = Some c' ->
      exists c0', exec data shared has_lock ror body c0 a = Some c0' /\ sim data shared c0' c') /\
  (forall c0 c a, sim data shared c0 c -> iexec data shared has_lock ror nore body noh c a = None ->
      exec data shared has_lock ror body c0 a = None) /\
  (forall s0 opss c, ireach data shared has_lock ror nore body noh s0 opss c ->
      exists c0, reach data shared has_lock ror body s0 opss c0 /\ sim data shared c0 c).
Proof.
  intros data shared has_lock ror body noh nore. split; [|split; [|split]].
  - exact (inner_conservative_init data shared).
  - exact (inner_conservative_sim data shared has_lock ror body).
  - exact (inner_conservative_enabled data shared has_lock ror body).
  - exact (inner_conservative_reach data shared has_lock ror body).
Qed.
Print Assumptions C12_inner_absent_is_identity.
