(* C08 -- Request/response correlation.  Statements only; proofs are in C08/C08Proofs.v
   (for an arbitrary routing table) and C08/C08Inst.v (for the table regenerated from the
   layers' source, Gen/C08Table.v). *)
From YV Require Import Common.Tac C08.C08Model C08.C08Proofs C08.C08Ping C08.C08Sync C08.C08Inst Gen.C08Table.

(* Application level, every request kind of the property's domain, the routing of the CURRENT
   source: in ANY history, the application callbacks invoked for the id a request got are
   exactly [success, original request] if the first result/error reply to that id after the
   request is a result, [error, original request] if it is an error, [] if there is none
   (and [] if the application passed no such callback) -- never twice, whatever is delivered
   before, in between or after (other requests of any kind, replies to other ids, duplicates,
   replies that arrive before the request, get/set stanzas carrying the same id). *)
Theorem C08_app_exactly_once : forall pre k hs he post,
  in_domain k = true ->
  let i := next (final gen_cfg init pre) in
  shaped i (shape_of k) post ->
  app_cbs i (events gen_cfg init (pre ++ AppRequest k hs he no_retry :: post)) =
  expected hs he (first_reply i post) (mkreq i (OApp k)).
Proof. exact gen_app_exactly_once_thm. Qed.
Print Assumptions C08_app_exactly_once.

(* The same WITH re-entrancy: the request's callbacks may re-issue the same request entity (same
   id) from inside the callback -- the "retry" pattern -- up to [budget rt] times, on success
   if [rs rt], on error if [re rt].  Every issue and every re-issue of the id gets exactly the
   callback of the first result/error reply after THAT issue ([expected_seq]), with the
   original request attached; nothing more, in any history.  (C08_app_exactly_once is the
   instance rt = no_retry.) *)
Theorem C08_app_exactly_once_retry : forall pre k hs he rt post,
  in_domain k = true ->
  let i := next (final gen_cfg init pre) in
  shaped i (shape_of k) post ->
  app_cbs i (events gen_cfg init (pre ++ AppRequest k hs he rt :: post)) =
  expected_seq i hs he (mkreq i (OApp k)) (Some rt) post.
Proof. exact gen_app_exactly_once_retry_thm. Qed.
Print Assumptions C08_app_exactly_once_retry.

(* The same for ANY routing table that transports the kind faithfully and removes registry
   entries before dispatching (not only today's). *)
Theorem C08_app_exactly_once_any_table : forall c k,
  strict_reply c = true -> late_delete c = false -> late_delete_iface c = false ->
  kind_ok c k = true ->
  forall pre hs he rt post,
  let i := next (final c init pre) in
  shaped i (shape_of k) post ->
  app_cbs i (events c init (pre ++ AppRequest k hs he rt :: post)) =
  expected_seq i hs he (mkreq i (OApp k)) (Some rt) post.
Proof. exact app_exactly_once_retry_kind_thm. Qed.
Print Assumptions C08_app_exactly_once_any_table.

(* Library level (key fetch from each axolotl layer, key upload, group info): the closure
   callbacks invoked for the request's id are exactly the one matching the first reply, with
   the original request -- if the issuing layer registered one (s / e from the source). *)
Theorem C08_lib_exactly_once : forall pre lk post, lk <> LKPing ->
  let i := next (final gen_cfg init pre) in
  let s := fst (snd (lib_route gen_cfg lk)) in
  let e := snd (snd (lib_route gen_cfg lk)) in
  lib_cbs i (events gen_cfg init (pre ++ LibRequest lk :: post)) =
  expected s e (first_reply i post) (mkreq i (OLib lk)).
Proof. exact gen_lib_exactly_once_thm. Qed.
Print Assumptions C08_lib_exactly_once.

(* The keep-alive ping (its callbacks forward the reply upward instead of being closures): after
   the request, the reply is handed to the interface layer exactly once -- the first result /
   first error, if the iq layer registered the corresponding callback. *)
Theorem C08_libping_forwarded_once : forall pre post,
  let st := final gen_cfg init pre in
  let i := next st in
  let s := fst (snd (lib_route gen_cfg LKPing)) in
  let e := snd (snd (lib_route gen_cfg LKPing)) in
  shaped i ShPlain post ->
  iface_evs i (events gen_cfg (fst (step gen_cfg st (LibRequest LKPing))) post) =
  expected_iface s e (first_reply i post).
Proof. exact gen_libping_forwarded_once_thm. Qed.
Print Assumptions C08_libping_forwarded_once.

(* Unknown ids and replays: an iq whose id is in no registry (never issued, or already
   answered) changes nothing and is handled by the ordinary receive handlers only. *)
Theorem C08_unknown_id_ordinary : forall c st i t sh,
  unregistered st i -> deliver c st i t sh = (st, ordinary i t sh).
Proof. exact unknown_id_ordinary_thm. Qed.
Print Assumptions C08_unknown_id_ordinary.

(* Ids outside the issued range never get a callback at either level, in any history. *)
Theorem C08_never_issued_no_callback : forall c h j,
  (j = 0 \/ next (final c init h) <= j)%N ->
  app_cbs j (events c init h) = [] /\ lib_cbs j (events c init h) = [].
Proof. exact never_issued_thm. Qed.
Print Assumptions C08_never_issued_no_callback.

(* Non-reply iq stanzas (get/set) never touch a registry, whatever id they carry. *)
Theorem C08_nonreply_ordinary : forall st i t sh,
  is_reply t = false -> deliver gen_cfg st i t sh = (st, ordinary i t sh).
Proof. exact gen_nonreply_ordinary_thm. Qed.
Print Assumptions C08_nonreply_ordinary.

(* The id counter never repeats (single-threaded histories). *)
Theorem C08_ids_unique : forall c h,
  NoDup (issued_ids (events c init h)) /\
  forall x, In x (issued_ids (events c init h)) -> (1 <= x < next (final c init h))%N.
Proof. exact ids_unique_thm. Qed.
Print Assumptions C08_ids_unique.

(* The tree as pinned before the C08 fixes violates the property: witnesses. *)
Theorem C08_unrepaired_refuted :
  refutes cfg_unrepaired KPing [Deliver 1 TError ShPlain] /\
  refutes cfg_unrepaired KGList [Deliver 1 TError ShPlain] /\
  refutes cfg_unrepaired KGParts [Deliver 1 TError ShPlain] /\
  refutes cfg_unrepaired KSync [Deliver 1 TError ShSync] /\
  refutes cfg_unrepaired KSync [Deliver 1 TError ShSync; Deliver 1 TResult ShSync] /\
  refutes cfg_unrepaired KLastSeen [Deliver 1 TGet ShSPing; Deliver 1 TResult ShPlain].
Proof. exact unrepaired_refuted_thm. Qed.
Print Assumptions C08_unrepaired_refuted.

(* Removing the entry AFTER the callback dispatch (either registry) violates the property as
   soon as a callback retries: the retry's reply reaches no callback and the request hangs. *)
Theorem C08_delete_after_dispatch_refuted :
  refutes_retry cfg_late_proto KLastSeen (mkretry false true 1)
                [Deliver 1 TError ShPlain; Deliver 1 TResult ShPlain] /\
  refutes_retry cfg_late_proto KGList (mkretry true false 1)
                [Deliver 1 TResult ShPlain; Deliver 1 TResult ShPlain] /\
  refutes_retry cfg_late_iface KLastSeen (mkretry false true 1)
                [Deliver 1 TError ShPlain; Deliver 1 TResult ShPlain] /\
  lookup 1 (app (final cfg_late_proto init
                   [AppRequest KLastSeen true true (mkretry false true 1);
                    Deliver 1 TError ShPlain; Deliver 1 TResult ShPlain])) <> None.
Proof. exact delete_after_dispatch_refuted. Qed.
Print Assumptions C08_delete_after_dispatch_refuted.

(* ====================================================================================
   Deliveries from INSIDE a send (added after seeded regression C08-5).

   A request is outstanding as soon as its stanza has reached the bottom of the stack -- while
   the sender is still inside toLower() of its own _sendIq.  A reader thread (or a transport
   that answers synchronously) can deliver at exactly that moment.  Histories [list sop] carry,
   on every request, the list [sync] of stanzas the bottom hands upward before its send()
   returns (replies to this very request, replays of them, non-reply iqs with its id, stanzas
   for any other id).  [flatten] is the sequential reading: the request, then [sync].
   The theorems above are the instances "every sync = []" (C08_plain_histories_embed).
   ==================================================================================== *)

(* Application level, the routing and the registration order of the CURRENT source, every
   in-domain kind, retries from inside callbacks included, ALL histories with nested deliveries
   (in the request itself and in every request before and after it): the callbacks invoked for
   the request's id are exactly those of the sequential reading -- the reply that arrives while
   the request is still being handed down fires the request's callback exactly once, with the
   original request; replays of it (nested or later), get/set iqs with its id and anything else
   fire nothing. *)
Theorem C08_sync_app_exactly_once : forall pre k hs he rt sync post,
  in_domain k = true ->
  let i := next (sfinal gen_cfg init pre) in
  shaped i (shape_of k) (map dl sync ++ flatten post) ->
  app_cbs i (sevents gen_cfg init (pre ++ SApp k hs he rt sync :: post)) =
  expected_seq i hs he (mkreq i (OApp k)) (Some rt) (map dl sync ++ flatten post).
Proof. exact gen_sync_app_exactly_once_thm. Qed.
Print Assumptions C08_sync_app_exactly_once.

(* The same for ANY table that transports the kind faithfully, removes entries before the
   dispatch and REGISTERS BEFORE THE HAND-DOWN at both levels. *)
Theorem C08_sync_app_exactly_once_any_table : forall c k,
  strict_reply c = true -> late_delete c = false -> late_delete_iface c = false ->
  reg_first c = true -> reg_first_iface c = true -> all_routed c = true ->
  kind_ok c k = true ->
  forall pre hs he rt sync post,
  let i := next (sfinal c init pre) in
  shaped i (shape_of k) (map dl sync ++ flatten post) ->
  app_cbs i (sevents c init (pre ++ SApp k hs he rt sync :: post)) =
  expected_seq i hs he (mkreq i (OApp k)) (Some rt) (map dl sync ++ flatten post).
Proof. exact sync_app_exactly_once_retry_kind_thm. Qed.
Print Assumptions C08_sync_app_exactly_once_any_table.

(* Entries are removed, nothing is left behind: after any history with nested deliveries the
   request's id is registered (application registry and its transporting layer) iff an issue
   of it is still unanswered ([armed_after] of the sequential reading), and is in NO registry
   once answered -- in particular when the outer send returns after a nested reply, nothing is
   registered for the id. *)
Theorem C08_sync_app_registered_iff_outstanding : forall pre k hs he rt sync post,
  in_domain k = true ->
  let i := next (sfinal gen_cfg init pre) in
  shaped i (shape_of k) (map dl sync ++ flatten post) ->
  registered_iff_outstanding i
    (armed_after i hs he (Some rt) (map dl sync ++ flatten post))
    (sfinal gen_cfg init (pre ++ SApp k hs he rt sync :: post)).
Proof. exact gen_sync_app_registered_iff_outstanding_thm. Qed.
Print Assumptions C08_sync_app_registered_iff_outstanding.

(* Library level (key fetch x3, key upload, group info) with nested deliveries. *)
Theorem C08_sync_lib_exactly_once : forall pre lk sync post, lk <> LKPing ->
  let i := next (sfinal gen_cfg init pre) in
  let s := fst (snd (lib_route gen_cfg lk)) in
  let e := snd (snd (lib_route gen_cfg lk)) in
  lib_cbs i (sevents gen_cfg init (pre ++ SLib lk sync :: post)) =
  expected s e (first_reply i (map dl sync ++ flatten post)) (mkreq i (OLib lk)).
Proof. exact gen_sync_lib_exactly_once_thm. Qed.
Print Assumptions C08_sync_lib_exactly_once.

(* All six library requests (keep-alive ping included): registered in the issuing layer until
   the first reply -- nested or later --, in no registry afterwards. *)
Theorem C08_sync_lib_registered_iff_outstanding : forall pre lk sync post,
  let i := next (sfinal gen_cfg init pre) in
  (lk = LKPing -> shaped i ShPlain (map dl sync ++ flatten post)) ->
  lib_registered_iff_outstanding i (fst (lib_route gen_cfg lk))
    (first_reply i (map dl sync ++ flatten post))
    (sfinal gen_cfg init (pre ++ SLib lk sync :: post)).
Proof. exact gen_sync_lib_registered_iff_outstanding_thm. Qed.
Print Assumptions C08_sync_lib_registered_iff_outstanding.

(* The keep-alive ping answered from inside its own send (the pong read by the reader thread
   while the ping thread is still sending): forwarded to the interface layer exactly once. *)
Theorem C08_sync_libping_forwarded_once : forall pre sync post,
  let st := sfinal gen_cfg init pre in
  let i := next st in
  let s := fst (snd (lib_route gen_cfg LKPing)) in
  let e := snd (snd (lib_route gen_cfg LKPing)) in
  shaped i ShPlain (map dl sync ++ flatten post) ->
  iface_evs i (sevents gen_cfg st (SLib LKPing sync :: post)) =
  expected_iface s e (first_reply i (map dl sync ++ flatten post)).
Proof. exact gen_sync_libping_forwarded_once_thm. Qed.
Print Assumptions C08_sync_libping_forwarded_once.

(* The bridge, for any table whose two _sendIq functions register first: a history with nested
   deliveries has the events and the final state of its sequential reading. *)
Theorem C08_sync_is_sequential : forall c,
  reg_first c = true -> reg_first_iface c = true -> all_routed c = true ->
  forall h st,
  sevents c st h = events c st (flatten h) /\ sfinal c st h = final c st (flatten h).
Proof. exact sflat_thm. Qed.
Print Assumptions C08_sync_is_sequential.

(* Histories without nested deliveries are the special case (whatever the table). *)
Theorem C08_plain_histories_embed : forall c h st,
  srun c st (map lift h) = run c st h /\ flatten (map lift h) = h.
Proof. intros c h st. split; [apply lift_run|apply flatten_lift]. Qed.
Print Assumptions C08_plain_histories_embed.

(* Registering AFTER the hand-down (seeded C08-5; protocol layers, interface layer or both)
   violates the property: the reply that arrives during the hand-down reaches no callback, the
   entry is inserted afterwards and stays, and a replayed reply then DOES invoke the callback;
   same for a library key fetch and for the keep-alive ping's pong. *)
Theorem C08_register_after_send_refuted :
  let r := mkreq 1 (OApp KLastSeen) in
  let nested := SApp KLastSeen true true no_retry [nd 1 TResult ShPlain] in
  refutes_sync cfg_regafter_both KLastSeen [nd 1 TResult ShPlain] [] /\
  refutes_sync cfg_regafter_proto KLastSeen [nd 1 TError ShPlain] [] /\
  refutes_sync cfg_regafter_iface KGList [nd 1 TResult ShPlain] [] /\
  app_cbs 1 (sevents cfg_regafter_both init [nested]) = [] /\
  In (EvTop 1) (sevents cfg_regafter_iface init [nested]) /\
  lookup 1 (app (sfinal cfg_regafter_both init [nested])) <> None /\
  lookup 1 (regs (sfinal cfg_regafter_both init [nested]) LPresence) <> None /\
  lookup 1 (app (sfinal cfg_regafter_iface init [nested])) <> None /\
  app_cbs 1 (snd (sstep cfg_regafter_both (sfinal cfg_regafter_both init [nested])
                        (SDeliver 1 TResult ShPlain no_content))) = [(Success, r)] /\
  app_cbs 1 (snd (sstep cfg_regafter_proto (sfinal cfg_regafter_proto init [nested])
                        (SDeliver 1 TError ShPlain no_content))) = [(Error, r)] /\
  lib_cbs 1 (sevents cfg_regafter_proto init [SLib LKFetchCtl [nd 1 TError ShPlain]]) = [] /\
  lookup 1 (regs (sfinal cfg_regafter_proto init [SLib LKFetchCtl [nd 1 TError ShPlain]]) LCtl)
    <> None /\
  lib_cbs 1 (sevents cfg_regafter_proto init [SLib LKFetchCtl [nd 1 TError ShPlain];
                                              SDeliver 1 TError ShPlain no_content])
    = [(Error, mkreq 1 (OLib LKFetchCtl))] /\
  iface_evs 1 (sevents cfg_regafter_proto init [SLib LKPing [nd 1 TResult ShPlain]]) = [] /\
  app_cbs 1 (sevents cfg_repaired init [nested; SDeliver 1 TResult ShPlain no_content]) = [(Success, r)] /\
  app_cbs 1 (snd (sstep cfg_repaired (sfinal cfg_repaired init [nested])
                        (SDeliver 1 TResult ShPlain no_content))) = [] /\
  lookup 1 (app (sfinal cfg_repaired init [nested])) = None.
Proof. exact register_after_send_refuted. Qed.
Print Assumptions C08_register_after_send_refuted.

(* Why no sequential register-then-deliver history exposes that defect: on histories WITHOUT
   nested deliveries two tables that differ only in the registration order are indistinguishable. *)
Theorem C08_register_order_unobservable_sequentially : forall c1 c2,
  app_route c1 = app_route c2 -> lib_route c1 = lib_route c2 ->
  strict_reply c1 = strict_reply c2 -> strict_iface c1 = strict_iface c2 ->
  late_delete c1 = late_delete c2 -> late_delete_iface c1 = late_delete_iface c2 ->
  forall h st, run c1 st h = run c2 st h.
Proof. exact register_order_unobservable_sequentially. Qed.
Print Assumptions C08_register_order_unobservable_sequentially.

(* The CONTENT of a delivered stanza is irrelevant: the registries and callbacks depend on tag,
   id and type of an incoming iq (the receive handlers additionally on [shape]) and on nothing
   else -- not on an <error> child or its code / text / backoff attributes, further children,
   further attributes.  Histories that agree up to content have the same per-op events and the
   same final state, for any table.  Hence all theorems above quantify over every such content:
   after the first result/error iq for its id -- whatever it carries -- a request is answered,
   later stanzas for the id fire nothing and no registry holds an entry for it.  (Seeded C08-8
   kept the entry for errors with a positive backoff.) *)
Theorem C08_reply_content_irrelevant :
  (forall c st i t sh ct1 ct2,
     sstep c st (SDeliver i t sh ct1) = sstep c st (SDeliver i t sh ct2)) /\
  (forall c h st, srun c st (map erase h) = srun c st h) /\
  (forall c h1 h2 st, map erase h1 = map erase h2 -> srun c st h1 = srun c st h2).
Proof.
  split; [reflexivity|]. split; [exact reply_content_irrelevant_thm|exact same_up_to_content_thm].
Qed.
Print Assumptions C08_reply_content_irrelevant.
