(* C08 -- Request/response correlation.  Statements only; proofs are in C08/C08Proofs.v
   (for an arbitrary routing table) and C08/C08Inst.v (for the table regenerated from the
   layers' source, Gen/C08Table.v). *)
From YV Require Import Common.Tac C08.C08Model C08.C08Proofs C08.C08Ping C08.C08Inst Gen.C08Table.

(* Application level, every request kind of the property's domain, the routing of the CURRENT
   source: in ANY history, the application callbacks invoked for the id a request got are
   exactly [success, original request] if the first result/error reply to that id after the
   request is a result, [error, original request] if it is an error, [] if there is none
   (and [] if the application passed no such callback) -- never twice, whatever is delivered
   before, in between or after (other requests of any kind, replies to other ids, duplicates,
   replies that arrive before the request, get/set stanzas carrying the same id). *)
Theorem C08_app_exactly_once : forall pre k hs he post,
  in_domain k = true ->
  let i := next (final gen_cfg init pre) in
  shaped i (shape_of k) post ->
  app_cbs i (events gen_cfg init (pre ++ AppRequest k hs he no_retry :: post)) =
  expected hs he (first_reply i post) (mkreq i (OApp k)).
Proof. exact gen_app_exactly_once_thm. Qed.
Print Assumptions C08_app_exactly_once.

(* The same WITH re-entrancy: the request's callbacks may re-issue the same request entity (same
   id) from inside the callback -- the "retry" pattern -- up to [budget rt] times, on success
   if [rs rt], on error if [re rt].  Every issue and every re-issue of the id gets exactly the
   callback of the first result/error reply after THAT issue ([expected_seq]), with the
   original request attached; nothing more, in any history.  (C08_app_exactly_once is the
   instance rt = no_retry.) *)
Theorem C08_app_exactly_once_retry : forall pre k hs he rt post,
  in_domain k = true ->
  let i := next (final gen_cfg init pre) in
  shaped i (shape_of k) post ->
  app_cbs i (events gen_cfg init (pre ++ AppRequest k hs he rt :: post)) =
  expected_seq i hs he (mkreq i (OApp k)) (Some rt) post.
Proof. exact gen_app_exactly_once_retry_thm. Qed.
Print Assumptions C08_app_exactly_once_retry.

(* The same for ANY routing table that transports the kind faithfully and removes registry
   entries before dispatching (not only today's). *)
Theorem C08_app_exactly_once_any_table : forall c k,
  strict_reply c = true -> late_delete c = false -> late_delete_iface c = false ->
  kind_ok c k = true ->
  forall pre hs he rt post,
  let i := next (final c init pre) in
  shaped i (shape_of k) post ->
  app_cbs i (events c init (pre ++ AppRequest k hs he rt :: post)) =
  expected_seq i hs he (mkreq i (OApp k)) (Some rt) post.
Proof. exact app_exactly_once_retry_kind_thm. Qed.
Print Assumptions C08_app_exactly_once_any_table.

(* Library level (key fetch from each axolotl layer, key upload, group info): the closure
   callbacks invoked for the request's id are exactly the one matching the first reply, with
   the original request -- if the issuing layer registered one (s / e from the source). *)
Theorem C08_lib_exactly_once : forall pre lk post, lk <> LKPing ->
  let i := next (final gen_cfg init pre) in
  let s := fst (snd (lib_route gen_cfg lk)) in
  let e := snd (snd (lib_route gen_cfg lk)) in
  lib_cbs i (events gen_cfg init (pre ++ LibRequest lk :: post)) =
  expected s e (first_reply i post) (mkreq i (OLib lk)).
Proof. exact gen_lib_exactly_once_thm. Qed.
Print Assumptions C08_lib_exactly_once.

(* The keep-alive ping (its callbacks forward the reply upward instead of being closures): after
   the request, the reply is handed to the interface layer exactly once -- the first result /
   first error, if the iq layer registered the corresponding callback. *)
Theorem C08_libping_forwarded_once : forall pre post,
  let st := final gen_cfg init pre in
  let i := next st in
  let s := fst (snd (lib_route gen_cfg LKPing)) in
  let e := snd (snd (lib_route gen_cfg LKPing)) in
  shaped i ShPlain post ->
  iface_evs i (events gen_cfg (fst (step gen_cfg st (LibRequest LKPing))) post) =
  expected_iface s e (first_reply i post).
Proof. exact gen_libping_forwarded_once_thm. Qed.
Print Assumptions C08_libping_forwarded_once.

(* Unknown ids and replays: an iq whose id is in no registry (never issued, or already
   answered) changes nothing and is handled by the ordinary receive handlers only. *)
Theorem C08_unknown_id_ordinary : forall c st i t sh,
  unregistered st i -> deliver c st i t sh = (st, ordinary i t sh).
Proof. exact unknown_id_ordinary_thm. Qed.
Print Assumptions C08_unknown_id_ordinary.

(* Ids outside the issued range never get a callback at either level, in any history. *)
Theorem C08_never_issued_no_callback : forall c h j,
  (j = 0 \/ next (final c init h) <= j)%N ->
  app_cbs j (events c init h) = [] /\ lib_cbs j (events c init h) = [].
Proof. exact never_issued_thm. Qed.
Print Assumptions C08_never_issued_no_callback.

(* Non-reply iq stanzas (get/set) never touch a registry, whatever id they carry. *)
Theorem C08_nonreply_ordinary : forall st i t sh,
  is_reply t = false -> deliver gen_cfg st i t sh = (st, ordinary i t sh).
Proof. exact gen_nonreply_ordinary_thm. Qed.
Print Assumptions C08_nonreply_ordinary.

(* The id counter never repeats (single-threaded histories). *)
Theorem C08_ids_unique : forall c h,
  NoDup (issued_ids (events c init h)) /\
  forall x, In x (issued_ids (events c init h)) -> (1 <= x < next (final c init h))%N.
Proof. exact ids_unique_thm. Qed.
Print Assumptions C08_ids_unique.

(* The tree as pinned before the C08 fixes violates the property: witnesses. *)
Theorem C08_unrepaired_refuted :
  refutes cfg_unrepaired KPing [Deliver 1 TError ShPlain] /\
  refutes cfg_unrepaired KGList [Deliver 1 TError ShPlain] /\
  refutes cfg_unrepaired KGParts [Deliver 1 TError ShPlain] /\
  refutes cfg_unrepaired KSync [Deliver 1 TError ShSync] /\
  refutes cfg_unrepaired KSync [Deliver 1 TError ShSync; Deliver 1 TResult ShSync] /\
  refutes cfg_unrepaired KLastSeen [Deliver 1 TGet ShSPing; Deliver 1 TResult ShPlain].
Proof. exact unrepaired_refuted_thm. Qed.
Print Assumptions C08_unrepaired_refuted.

(* Removing the entry AFTER the callback dispatch (either registry) violates the property as
   soon as a callback retries: the retry's reply reaches no callback and the request hangs. *)
Theorem C08_delete_after_dispatch_refuted :
  refutes_retry cfg_late_proto KLastSeen (mkretry false true 1)
                [Deliver 1 TError ShPlain; Deliver 1 TResult ShPlain] /\
  refutes_retry cfg_late_proto KGList (mkretry true false 1)
                [Deliver 1 TResult ShPlain; Deliver 1 TResult ShPlain] /\
  refutes_retry cfg_late_iface KLastSeen (mkretry false true 1)
                [Deliver 1 TError ShPlain; Deliver 1 TResult ShPlain] /\
  lookup 1 (app (final cfg_late_proto init
                   [AppRequest KLastSeen true true (mkretry false true 1);
                    Deliver 1 TError ShPlain; Deliver 1 TResult ShPlain])) <> None.
Proof. exact delete_after_dispatch_refuted. Qed.
Print Assumptions C08_delete_after_dispatch_refuted.
