(* Model of yowsup/layers/noise/layer_noise_segments.py (YowNoiseSegmentsLayer).
   Definitions only; bytes are N < 256; lengths are nat.                         *)
From YV Require Import Common.Tac.

Definition be24 (b0 b1 b2 : N) : N := (b0 * 65536 + b1 * 256 + b2)%N.

(* struct.pack('>I', n)[1:] *)
Definition be24_bytes (n : N) : list N :=
  [ (n / 65536) mod 256 ; (n / 256) mod 256 ; n mod 256 ]%N.

Definition lenN {A} (l : list A) : N := N.of_nat (length l).

(* the `while len(buf) > 3` loop of receive(); fuel = an upper bound on iterations *)
Fixpoint peel (fuel : nat) (buf : list N) : list (list N) * list N :=
  match fuel with
  | O => ([], buf)
  | S fuel' =>
    match buf with
    | b0 :: b1 :: b2 :: rest =>
      if Nat.ltb 0 (length rest) then                       (* len(buf) > 3 *)
        if (be24 b0 b1 b2 <=? lenN rest)%N then              (* len(buf) >= 3 + read_size *)
          let sz := N.to_nat (be24 b0 b1 b2) in
          let '(fs, r) := peel fuel' (skipn sz rest) in
          (firstn sz rest :: fs, r)
        else ([], buf)
      else ([], buf)
    | _ => ([], buf)
    end
  end.

(* receive(data): returns the frames handed upward and the new buffer *)
Definition recv (enabled : bool) (buf chunk : list N) : list (list N) * list N :=
  if enabled then let b := buf ++ chunk in peel (length b) b
  else ([chunk], buf).

Fixpoint run_recv (enabled : bool) (buf : list N) (chunks : list (list N))
  : list (list N) * list N :=
  match chunks with
  | [] => ([], buf)
  | c :: cs =>
    let '(fs, buf') := recv enabled buf c in
    let '(fs', buf'') := run_recv enabled buf' cs in
    (fs ++ fs', buf'')
  end.

(* send(data): None = ValueError raised, Some ws = the writes passed to toLower, in order *)
Definition send (enabled : bool) (d : list N) : option (list (list N)) :=
  if (16777216 <=? lenN d)%N then None
  else Some (if enabled then [be24_bytes (lenN d); d] else [d]).

(* what the peer puts on the wire for one frame *)
Definition wire (f : list N) : list N := be24_bytes (lenN f) ++ f.

Definition valid_frame (f : list N) : Prop :=
  (1 <= length f)%nat /\ (lenN f < 16777216)%N.
