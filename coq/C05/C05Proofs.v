From YV Require Import Common.Tac C05.C05Model.

Local Open Scope nat_scope.

Definition P (b : list N) := peel (length b) b.

Lemma be24_bytes_rt n : (n < 16777216)%N ->
  be24 ((n / 65536) mod 256) ((n / 256) mod 256) (n mod 256) = n.
Proof. unfold be24. intros H. lia. Qed.

Lemma peel_fuel : forall f1 f2 b, length b <= f1 -> length b <= f2 -> peel f1 b = peel f2 b.
Proof.
  induction f1 as [|f1 IH]; intros f2 b H1 H2.
  - destruct b; [|simpl in H1; lia]. destruct f2; reflexivity.
  - destruct f2 as [|f2].
    + destruct b; [reflexivity|simpl in H2; lia].
    + cbn [peel]. destruct b as [|b0 [|b1 [|b2 rest]]]; try reflexivity.
      destruct (Nat.ltb 0 (length rest)) eqn:E0; [|reflexivity].
      destruct (be24 b0 b1 b2 <=? lenN rest)%N eqn:E1; [|reflexivity].
      rewrite (IH f2); [reflexivity| |];
        rewrite skipn_length; simpl in H1, H2; lia.
Qed.

Lemma peel_S f b0 b1 b2 rest :
  peel (S f) (b0 :: b1 :: b2 :: rest) =
  if Nat.ltb 0 (length rest) then
    if (be24 b0 b1 b2 <=? lenN rest)%N then
      let '(fs, r) := peel f (skipn (N.to_nat (be24 b0 b1 b2)) rest) in
      (firstn (N.to_nat (be24 b0 b1 b2)) rest :: fs, r)
    else ([], b0 :: b1 :: b2 :: rest)
  else ([], b0 :: b1 :: b2 :: rest).
Proof. reflexivity. Qed.

Lemma P_fuel f b : length b <= f -> peel f b = P b.
Proof. intros H. apply peel_fuel; [exact H|lia]. Qed.

Lemma P_short b : length b <= 3 -> P b = ([], b).
Proof.
  destruct b as [|b0 [|b1 [|b2 [|b3 rest]]]]; cbn; intros H; try reflexivity. lia.
Qed.

Lemma P_wait b0 b1 b2 rest : length rest < N.to_nat (be24 b0 b1 b2) ->
  P (b0 :: b1 :: b2 :: rest) = ([], b0 :: b1 :: b2 :: rest).
Proof.
  intros H. unfold P. cbn [length]. rewrite peel_S.
  destruct (Nat.ltb 0 (length rest)); [|reflexivity].
  destruct (N.leb_spec (be24 b0 b1 b2) (lenN rest)); [unfold lenN in *; lia|reflexivity].
Qed.

Lemma P_take b0 b1 b2 rest : 0 < length rest -> N.to_nat (be24 b0 b1 b2) <= length rest ->
  P (b0 :: b1 :: b2 :: rest) =
  let '(fs, r) := P (skipn (N.to_nat (be24 b0 b1 b2)) rest) in
  (firstn (N.to_nat (be24 b0 b1 b2)) rest :: fs, r).
Proof.
  intros H0 H1. unfold P at 1. cbn [length]. rewrite peel_S.
  destruct (Nat.ltb_spec 0 (length rest)); [|lia].
  destruct (N.leb_spec (be24 b0 b1 b2) (lenN rest)); [|unfold lenN in *; lia].
  rewrite P_fuel; [reflexivity|]. rewrite skipn_length. lia.
Qed.

(* the three shapes a buffer can have *)
Lemma P_cases b :
  (P b = ([], b)) \/
  (exists b0 b1 b2 rest, b = b0 :: b1 :: b2 :: rest /\ 0 < length rest /\
                         N.to_nat (be24 b0 b1 b2) <= length rest).
Proof.
  destruct b as [|b0 [|b1 [|b2 rest]]]; try (left; apply P_short; simpl; lia).
  destruct (Nat.ltb_spec 0 (length rest)) as [H0|H0].
  - destruct (Nat.leb_spec (N.to_nat (be24 b0 b1 b2)) (length rest)) as [H1|H1].
    + right. exists b0, b1, b2, rest. auto.
    + left. apply P_wait. exact H1.
  - left. apply P_short. simpl. lia.
Qed.

Lemma P_app_aux : forall n b c, length b <= n ->
  P (b ++ c) = let '(fs, r) := P b in let '(fs', r') := P (r ++ c) in (fs ++ fs', r').
Proof.
  induction n as [|n IH]; intros b c Hn.
  - destruct b; [|simpl in Hn; lia]. cbn [app]. change (P []) with (@nil (list N), @nil N).
    cbn [app]. destruct (P c). reflexivity.
  - destruct (P_cases b) as [Hs | (b0 & b1 & b2 & rest & -> & H0 & H1)].
    + rewrite Hs. destruct (P (b ++ c)). reflexivity.
    + rewrite (P_take b0 b1 b2 rest H0 H1).
      change ((b0 :: b1 :: b2 :: rest) ++ c) with (b0 :: b1 :: b2 :: (rest ++ c)).
      rewrite P_take; rewrite ?app_length; try lia.
      rewrite skipn_app, firstn_app.
      replace (N.to_nat (be24 b0 b1 b2) - length rest) with 0 by lia.
      cbn [skipn firstn]. rewrite app_nil_r.
      rewrite (IH (skipn (N.to_nat (be24 b0 b1 b2)) rest) c).
      2:{ rewrite skipn_length. simpl in Hn. lia. }
      destruct (P (skipn (N.to_nat (be24 b0 b1 b2)) rest)) as [fs1 r1].
      destruct (P (r1 ++ c)) as [fs' r']. reflexivity.
Qed.

Lemma P_app b c :
  P (b ++ c) = let '(fs, r) := P b in let '(fs', r') := P (r ++ c) in (fs ++ fs', r').
Proof. apply (P_app_aux (length b)). lia. Qed.

Lemma P_idem_aux : forall n b fs r, length b <= n -> P b = (fs, r) -> P r = ([], r).
Proof.
  induction n as [|n IH]; intros b fs r Hn HP.
  - destruct b; [|simpl in Hn; lia]. cbn in HP. inversion HP. reflexivity.
  - destruct (P_cases b) as [Hs | (b0 & b1 & b2 & rest & -> & H0 & H1)].
    + rewrite Hs in HP. inversion HP; subst. exact Hs.
    + rewrite (P_take b0 b1 b2 rest H0 H1) in HP.
      destruct (P (skipn (N.to_nat (be24 b0 b1 b2)) rest)) as [fs1 r1] eqn:E.
      inversion HP; subst. eapply IH; [|exact E]. rewrite skipn_length. simpl in Hn. lia.
Qed.

Lemma P_idem b fs r : P b = (fs, r) -> P r = ([], r).
Proof. apply (P_idem_aux (length b)). lia. Qed.

Lemma run_recv_P : forall chunks buf, P buf = ([], buf) ->
  run_recv true buf chunks = P (buf ++ concat chunks).
Proof.
  induction chunks as [|c cs IH]; intros buf Hb.
  - cbn. rewrite app_nil_r. symmetry. exact Hb.
  - cbn [run_recv recv concat]. fold (P (buf ++ c)).
    rewrite app_assoc. rewrite (P_app (buf ++ c) (concat cs)).
    destruct (P (buf ++ c)) as [fs b'] eqn:E.
    rewrite (IH b' (P_idem _ _ _ E)).
    destruct (P (b' ++ concat cs)). reflexivity.
Qed.

(* ---- the peer's side ---- *)

Definition strict_prefix (p w : list N) : Prop := exists s, s <> [] /\ w = p ++ s.
Definition incomplete (p : list N) : Prop := exists f, valid_frame f /\ strict_prefix p (wire f).

Lemma valid_to_nat f : valid_frame f ->
  N.to_nat (be24 ((lenN f / 65536) mod 256) ((lenN f / 256) mod 256) (lenN f mod 256)) = length f.
Proof.
  intros [_ H]. rewrite be24_bytes_rt by exact H. unfold lenN. lia.
Qed.

Lemma P_incomplete p : incomplete p -> P p = ([], p).
Proof.
  intros (f & Hv & s & Hs & Hw). unfold wire, be24_bytes in Hw.
  destruct p as [|p0 [|p1 [|p2 rest]]]; try (apply P_short; simpl; lia).
  cbn [app] in Hw.
  apply cons_inj in Hw. destruct Hw as [E0 Hw]. apply cons_inj in Hw. destruct Hw as [E1 Hw].
  apply cons_inj in Hw. destruct Hw as [E2 Ef]. subst p0 p1 p2.
  apply P_wait. rewrite (valid_to_nat f Hv). rewrite Ef, app_length.
  destruct s; [congruence|simpl; lia].
Qed.

Lemma P_wire f tail : valid_frame f ->
  P (wire f ++ tail) = let '(fs, r) := P tail in (f :: fs, r).
Proof.
  intros Hv. unfold wire, be24_bytes. cbn [app].
  destruct Hv as [H1 H2]. pose proof (valid_to_nat f (conj H1 H2)) as Hn.
  rewrite P_take; rewrite ?Hn, ?app_length; try lia.
  rewrite skipn_app, firstn_app, Nat.sub_diag, skipn_all, firstn_all. cbn [app skipn firstn].
  rewrite app_nil_r. reflexivity.
Qed.

Lemma P_complete : forall fs partial, Forall valid_frame fs -> incomplete partial ->
  P (concat (map wire fs) ++ partial) = (fs, partial).
Proof.
  induction fs as [|f fs IH]; intros partial Hv Hp.
  - cbn. apply P_incomplete. exact Hp.
  - cbn [map concat]. rewrite <- app_assoc. inversion Hv as [|? ? Hf Hfs]; subst.
    rewrite (P_wire f _ Hf). rewrite (IH partial Hfs Hp). reflexivity.
Qed.

Lemma nil_incomplete : incomplete [].
Proof.
  exists [0%N]. split; [split; [simpl; lia|reflexivity]|].
  exists (wire [0%N]). split; [discriminate|reflexivity].
Qed.

(* ---- statements used by Properties/C05.v ---- *)

Theorem prefix_thm : forall chunks fs partial,
  Forall valid_frame fs -> incomplete partial ->
  concat chunks = concat (map wire fs) ++ partial ->
  run_recv true [] chunks = (fs, partial).
Proof.
  intros chunks fs partial Hv Hp Hc.
  rewrite run_recv_P by reflexivity. cbn [app]. rewrite Hc. apply P_complete; assumption.
Qed.

Theorem reassembly_thm : forall chunks fs,
  Forall valid_frame fs -> concat chunks = concat (map wire fs) ->
  run_recv true [] chunks = (fs, []).
Proof.
  intros chunks fs Hv Hc. apply prefix_thm; [exact Hv|exact nil_incomplete|].
  rewrite app_nil_r. exact Hc.
Qed.

Theorem send_format_thm : forall d, (lenN d < 16777216)%N ->
  send true d = Some [be24_bytes (lenN d); d] /\
  concat [be24_bytes (lenN d); d] = wire d /\
  (match be24_bytes (lenN d) with [a; b; c] => be24 a b c = lenN d | _ => False end).
Proof.
  intros d H. unfold send. destruct (N.leb_spec 16777216 (lenN d)); [lia|].
  split; [reflexivity|]. split; [cbn; rewrite app_nil_r; reflexivity|].
  unfold be24_bytes. apply be24_bytes_rt. exact H.
Qed.

Theorem send_refuses_thm : forall en d, (16777216 <= lenN d)%N -> send en d = None.
Proof. intros en d H. unfold send. destruct (N.leb_spec 16777216 (lenN d)); [reflexivity|lia]. Qed.

Theorem passthrough_thm : forall chunks buf,
  run_recv false buf chunks = (chunks, buf).
Proof.
  induction chunks as [|c cs IH]; intros buf; [reflexivity|].
  cbn [run_recv recv]. rewrite IH. reflexivity.
Qed.

(* non-vacuity: a stream of two valid frames cut inside the header and inside a payload *)
Example prefix_nonvacuous :
  let f1 := [7; 8]%N in let f2 := [9]%N in
  Forall valid_frame [f1; f2] /\ incomplete [0; 0]%N /\
  run_recv true [] [[0]; [0; 2; 7]; [8; 0; 0; 1]; [9; 0]; [0]]%N = ([f1; f2], [0; 0]%N).
Proof.
  cbn zeta. split; [|split].
  - repeat constructor; cbn; lia.
  - exists [5%N]. split; [split; [simpl; lia|reflexivity]|].
    exists [1; 5]%N. split; [discriminate|reflexivity].
  - vm_compute. reflexivity.
Qed.
