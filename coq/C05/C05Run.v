(* Glue between the sx line format and the C05 model (unverified, trusted, tiny). *)
From YV Require Import Common.Tac Common.Sx C05.C05Model.

(* arg: (N enabled  B buf  (B chunk ...))  ->  ((B frame ...) B buf') *)
Definition run_recv_chunks (arg : sx) : sx :=
  let en := sx_get_bool (sx_nth arg 0) in
  let buf := sx_get_b (sx_nth arg 1) in
  let chunks := map sx_get_b (sx_get_l (sx_nth arg 2)) in
  let '(fs, b) := run_recv en buf chunks in
  SL [SL (map SB fs); SB b].

(* arg: (N enabled B data) -> () for refused | ((B write ...)) *)
Definition run_send (arg : sx) : sx :=
  let en := sx_get_bool (sx_nth arg 0) in
  sx_opt (fun ws => SL (map SB ws)) (send en (sx_get_b (sx_nth arg 1))).
