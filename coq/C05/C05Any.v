(* C05 for ARBITRARY byte streams (no hypothesis that the peer sent well-formed frames):
   - what is handed upward depends only on the bytes received so far, never on how the network cut them;
   - every byte received is accounted for: the stream is exactly the delivered frames, each behind the 3-byte
     big-endian image of its own length, followed by the buffer ("nothing else", nothing invented, nothing lost);
   - every delivered frame is shorter than 2^24 and the buffer never holds a complete frame. *)
From YV Require Import Common.Tac C05.C05Model C05.C05Proofs.

Local Open Scope nat_scope.

Definition bytes (l : list N) : Prop := Forall (fun b => (b < 256)%N) l.

Theorem chunking_irrelevant_thm : forall c1 c2, concat c1 = concat c2 ->
  run_recv true [] c1 = run_recv true [] c2.
Proof.
  intros c1 c2 H. rewrite !run_recv_P by reflexivity. cbn [app]. rewrite H. reflexivity.
Qed.

Theorem one_read_thm : forall chunks, run_recv true [] chunks = run_recv true [] [concat chunks].
Proof.
  intros chunks. apply chunking_irrelevant_thm. cbn [concat]. rewrite app_nil_r. reflexivity.
Qed.

Lemma be24_hdr b0 b1 b2 : (b0 < 256)%N -> (b1 < 256)%N -> (b2 < 256)%N ->
  be24_bytes (be24 b0 b1 b2) = [b0; b1; b2].
Proof. intros H0 H1 H2. unfold be24_bytes, be24. repeat f_equal; lia. Qed.

Lemma bytes_skipn n l : bytes l -> bytes (skipn n l).
Proof.
  unfold bytes. rewrite !Forall_forall. intros H x Hx. apply H.
  rewrite <- (firstn_skipn n l). apply in_or_app. right. exact Hx.
Qed.

Lemma conservation_aux : forall n s fs r, length s <= n -> bytes s -> P s = (fs, r) ->
  concat (map wire fs) ++ r = s /\ Forall (fun f => (lenN f < 16777216)%N) fs.
Proof.
  induction n as [|n IH]; intros s fs r Hn Hb HP.
  - destruct s; [|cbn in Hn; lia]. cbn in HP. inversion HP; subst. split; [reflexivity|constructor].
  - destruct (P_cases s) as [E|(b0 & b1 & b2 & rest & -> & H0 & H1)].
    + rewrite E in HP. inversion HP; subst. split; [reflexivity|constructor].
    + rewrite (P_take b0 b1 b2 rest H0 H1) in HP.
      destruct (P (skipn (N.to_nat (be24 b0 b1 b2)) rest)) as [fs' r'] eqn:E.
      inversion HP; subst fs r. clear HP.
      inversion Hb as [|? ? Hb0 Hb']; subst. inversion Hb' as [|? ? Hb1 Hb'']; subst.
      inversion Hb'' as [|? ? Hb2 Hrest]; subst.
      assert (Hlen : length (skipn (N.to_nat (be24 b0 b1 b2)) rest) <= n).
      { rewrite skipn_length. cbn [length] in Hn. lia. }
      destruct (IH _ fs' r' Hlen (bytes_skipn _ _ Hrest) E) as [Hc Hf].
      assert (Hfl : lenN (firstn (N.to_nat (be24 b0 b1 b2)) rest) = be24 b0 b1 b2).
      { unfold lenN. rewrite firstn_length_le by exact H1. lia. }
      split.
      * cbn [map concat]. unfold wire at 1. rewrite Hfl, be24_hdr by assumption.
        cbn [app]. do 3 f_equal. rewrite <- !app_assoc, Hc. apply firstn_skipn.
      * constructor; [|exact Hf]. rewrite Hfl. unfold be24. lia.
Qed.

Theorem conservation_thm : forall chunks fs r, bytes (concat chunks) ->
  run_recv true [] chunks = (fs, r) ->
  concat (map wire fs) ++ r = concat chunks /\ Forall (fun f => (lenN f < 16777216)%N) fs /\
  run_recv true [] [r] = ([], r).
Proof.
  intros chunks fs r Hb H. rewrite run_recv_P in H by reflexivity. cbn [app] in H.
  destruct (conservation_aux (length (concat chunks)) _ fs r (Nat.le_refl _) Hb H) as [Hc Hf].
  split; [exact Hc|]. split; [exact Hf|].
  rewrite run_recv_P by reflexivity. cbn [app concat]. rewrite app_nil_r. exact (P_idem _ _ _ H).
Qed.

(* non-vacuity, on a stream no well-behaved peer sends: a zero-length frame header, then a frame, then junk *)
Example any_stream_example :
  run_recv true [] [[0; 0]; [0; 0; 0; 1; 9; 200]; [200]]%N = ([[]; [9]], [200; 200])%N /\
  bytes (concat [[0; 0]; [0; 0; 0; 1; 9; 200]; [200]]%N).
Proof. split; [vm_compute; reflexivity|]. repeat constructor. Qed.
