(* C08 -- deliveries from INSIDE a send (re-entrant deliveries; added after seeded regression C08-5).

   A history with nested deliveries ([list sop]) is read sequentially by [flatten]: the request,
   then what the bottom of the stack delivered upward before its send() returned.  When both
   _sendIq functions put the request into the registry BEFORE handing it down ([reg_first],
   [reg_first_iface]; read from the source by the translator), the history and its sequential
   reading produce the same events and the same final state ([sflat_thm]) -- so every correlation
   theorem of C08Proofs.v / C08Ping.v holds for histories with nested deliveries as well, the
   nested reply being "the first reply after the request".  With the other order (register after
   the hand-down: the shape of seeded C08-5) this is false: [register_after_send_refuted].      *)
From YV Require Import Common.Tac C08.C08Model C08.C08Proofs C08.C08Ping.

(* ------------------------------------------------------------------ the sequential reading *)

Lemma deliver_all_run c ds : forall st,
  deliver_all c st ds = (final c st (map dl ds), events c st (map dl ds)).
Proof.
  induction ds as [|d ds IH]; intro st; [reflexivity|].
  cbn [deliver_all map]. unfold dl at 1 3. rewrite events_cons, final_cons. cbn [step].
  destruct (deliver c st (nid d) (ntyp d) (nshape d)) as [st1 ev1]. cbn [fst snd].
  rewrite IH. reflexivity.
Qed.

Lemma run_pair c st h : run c st h = (final c st h, snd (run c st h)).
Proof. unfold final. destruct (run c st h); reflexivity. Qed.

Lemma app_request_sync_flat c st k hs he rt sync :
  reg_first c = true -> reg_first_iface c = true -> app_route c k <> RNone ->
  app_request_sync c st k hs he rt sync =
  (final c st (AppRequest k hs he rt :: map dl sync),
   events c st (AppRequest k hs he rt :: map dl sync)).
Proof.
  intros H1 H2 HR.
  rewrite events_cons, final_cons. cbn [step].
  unfold app_request_sync, app_request, reissue. rewrite H1, H2. cbn [rorigin].
  unfold reg_app, reg_layer.
  destruct (app_route c k) as [l s e|l|]; [| |contradiction]; cbn [fst snd];
    rewrite deliver_all_run; reflexivity.
Qed.

Lemma lib_request_sync_flat c st lk sync :
  reg_first c = true ->
  lib_request_sync c st lk sync =
  (final c st (LibRequest lk :: map dl sync), events c st (LibRequest lk :: map dl sync)).
Proof.
  intros H1.
  rewrite events_cons, final_cons. cbn [step].
  unfold lib_request_sync, lib_request. rewrite H1. unfold reg_layer.
  destruct (lib_route c lk) as [l [s e]]. cbn [fst snd].
  rewrite deliver_all_run. reflexivity.
Qed.

Lemma all_routed_route c k : all_routed c = true -> app_route c k <> RNone.
Proof.
  unfold all_routed. rewrite forallb_forall. intros H E.
  specialize (H k (all_akinds_complete k)). rewrite E in H. discriminate.
Qed.

Section Flat.
  Variable c : cfg.
  Hypothesis Hreg : reg_first c = true.
  Hypothesis Hregi : reg_first_iface c = true.
  Hypothesis Hrouted : all_routed c = true.

  Lemma sstep_flat st o : sstep c st o = (final c st (flat1 o), events c st (flat1 o)).
  Proof.
    destruct o as [k hs he rt sync|lk sync|i t sh ct|i]; cbn [sstep flat1].
    - apply app_request_sync_flat; auto using all_routed_route.
    - apply lib_request_sync_flat; assumption.
    - rewrite events_cons, final_cons. cbn [step]. unfold events, final. cbn.
      rewrite app_nil_r. destruct (deliver c st i t sh); reflexivity.
    - reflexivity.
  Qed.

  Lemma sevents_cons st o h :
    sevents c st (o :: h) = snd (sstep c st o) ++ sevents c (fst (sstep c st o)) h.
  Proof.
    unfold sevents. cbn [srun]. destruct (sstep c st o) as [st1 ev]. cbn [fst snd].
    destruct (srun c st1 h) as [st2 evs]. reflexivity.
  Qed.

  Lemma sfinal_cons st o h : sfinal c st (o :: h) = sfinal c (fst (sstep c st o)) h.
  Proof.
    unfold sfinal. cbn [srun]. destruct (sstep c st o) as [st1 ev]. cbn [fst snd].
    destruct (srun c st1 h) as [st2 evs]. reflexivity.
  Qed.

  Lemma final_app h1 : forall st h2, final c st (h1 ++ h2) = final c (final c st h1) h2.
  Proof.
    induction h1 as [|o h1 IH]; intros st h2; [reflexivity|].
    rewrite <- app_comm_cons, !final_cons. apply IH.
  Qed.

  (* THE bridge: a history with deliveries from inside sends = its sequential reading *)
  Theorem sflat_thm : forall h st,
    sevents c st h = events c st (flatten h) /\ sfinal c st h = final c st (flatten h).
  Proof.
    induction h as [|o h IH]; intro st; [split; reflexivity|].
    rewrite sevents_cons, sfinal_cons, sstep_flat. cbn [fst snd].
    destruct (IH (final c st (flat1 o))) as [E1 E2]. rewrite E1, E2.
    unfold flatten. cbn [flat_map]. rewrite events_app, final_app. split; reflexivity.
  Qed.

  Lemma flatten_app a b : flatten (a ++ b) = flatten a ++ flatten b.
  Proof. unfold flatten. apply flat_map_app. Qed.
End Flat.

(* a plain history is a history without nested deliveries -- for ANY table, whatever the order *)
Lemma lift_run c h : forall st, srun c st (map lift h) = run c st h.
Proof.
  induction h as [|o h IH]; intro st; [reflexivity|].
  cbn [map srun run].
  assert (E : sstep c st (lift o) = step c st o).
  { destruct o as [k hs he rt|lk|i t sh|i]; cbn [lift sstep step]; try reflexivity.
    - unfold app_request_sync, app_request, reissue, reg_app, reg_layer. cbn [rorigin deliver_all].
      destruct (reg_first_iface c), (reg_first c), (app_route c k); reflexivity.
    - unfold lib_request_sync, lib_request, reg_layer. cbn [deliver_all].
      destruct (lib_route c lk) as [l [s e]]. destruct (reg_first c); reflexivity. }
  rewrite E. destruct (step c st o) as [st1 ev]. rewrite IH. reflexivity.
Qed.

Lemma flatten_mid pre o post : flatten (pre ++ o :: post) = flatten pre ++ flat1 o ++ flatten post.
Proof. unfold flatten. rewrite flat_map_app. reflexivity. Qed.

Lemma flatten_cons o h : flatten (o :: h) = flat1 o ++ flatten h.
Proof. reflexivity. Qed.

Lemma flatten_lift h : flatten (map lift h) = h.
Proof.
  induction h as [|o h IH]; [reflexivity|].
  cbn [map]. unfold flatten in *. cbn [flat_map]. rewrite IH. destruct o; reflexivity.
Qed.

(* ------------------------------------------------------------------ application level *)

(* THE correlation theorem for histories WITH deliveries from inside sends (in the request
   itself, and in every other request before and after it): the application callbacks for the
   request's id are exactly [expected_seq] over the sequential reading -- in particular a reply
   delivered while the request is still being handed down fires the request's callback exactly
   once, and a later replay (nested or not) fires nothing. *)
Theorem sync_app_exactly_once_retry_kind_thm : forall c k,
  strict_reply c = true -> late_delete c = false -> late_delete_iface c = false ->
  reg_first c = true -> reg_first_iface c = true -> all_routed c = true ->
  kind_ok c k = true ->
  forall pre hs he rt sync post,
  let i := next (sfinal c init pre) in
  shaped i (shape_of k) (map dl sync ++ flatten post) ->
  app_cbs i (sevents c init (pre ++ SApp k hs he rt sync :: post)) =
  expected_seq i hs he (mkreq i (OApp k)) (Some rt) (map dl sync ++ flatten post).
Proof.
  intros c k Hs Hl Hli Hr Hri Hro Hk pre hs he rt sync post i Sh.
  destruct (sflat_thm c Hr Hri Hro (pre ++ SApp k hs he rt sync :: post) init) as [E _].
  rewrite E, flatten_mid. cbn [flat1]. rewrite <- app_comm_cons.
  destruct (sflat_thm c Hr Hri Hro pre init) as [_ F]. unfold i in *. rewrite F in *.
  apply app_exactly_once_retry_kind_thm; assumption.
Qed.

Theorem sync_app_exactly_once_retry_thm : forall c, cfg_ok c = true -> all_routed c = true ->
  forall pre k hs he rt sync post,
  in_domain k = true ->
  let i := next (sfinal c init pre) in
  shaped i (shape_of k) (map dl sync ++ flatten post) ->
  app_cbs i (sevents c init (pre ++ SApp k hs he rt sync :: post)) =
  expected_seq i hs he (mkreq i (OApp k)) (Some rt) (map dl sync ++ flatten post).
Proof.
  intros c H Hro pre k hs he rt sync post D.
  destruct (cfg_ok_parts c H) as [H1 [H2 [H3 H4]]].
  destruct (cfg_ok_reg_first c H) as [H5 H6].
  apply sync_app_exactly_once_retry_kind_thm; auto.
Qed.

(* ------------------------------------------------------------------ nothing is left behind *)

Lemma dead_final c h : forall st i, dead st i -> dead (final c st h) i.
Proof.
  induction h as [|o h IH]; intros st i D; [exact D|].
  rewrite final_cons. apply IH. apply (dead_step c st o i D).
Qed.

Lemma armed_after_none i hs he h : armed_after i hs he None h = None.
Proof. induction h as [|o h IH]; [reflexivity|]. destruct o; cbn [armed_after]; exact IH. Qed.

Section PendingFinal.
  Variable c : cfg.
  Variable i : N.
  Variable k : akind.
  Variable hs he : bool.
  Variable L : layer.
  Hypothesis Hstrict : strict_reply c = true.
  Hypothesis Hlate : late_delete c = false.
  Hypothesis Hlatei : late_delete_iface c = false.
  Hypothesis HR : app_route c k = RReg L true true.
  Hypothesis HL : in_proto L = true.
  Hypothesis Hsilent :
    forallb (fun l' => layer_eqb l' L ||
                       (hsilent l' TResult (shape_of k) && hsilent l' TError (shape_of k)))
            proto_order = true.

  (* the registries follow the spec's notion of "outstanding": after any history the id is
     pending (registered in the application registry and in its transporting layer) iff an
     issue of it is still unanswered, and in NO registry otherwise *)
  Lemma pending_final h : forall rt st,
    pending i k hs he L rt st -> shaped i (shape_of k) h ->
    settled i k hs he L (armed_after i hs he (Some rt) h) (final c st h).
  Proof.
    induction h as [|o h IH]; intros rt st P Sh; [exact P|].
    rewrite final_cons.
    destruct o as [k' hs' he' rt'|lk|j t sh|j]; cbn [step armed_after].
    - apply IH; [|exact Sh].
      eapply (pending_grows c); [apply app_request_grows|exact P].
    - apply IH; [|exact Sh].
      eapply (pending_grows c); [apply lib_request_grows|exact P].
    - cbn [shaped] in Sh. destruct Sh as [Sh1 Sh2].
      destruct (N.eqb i j) eqn:Eij.
      + apply N.eqb_eq in Eij. subst j.
        destruct (is_reply t) eqn:Ht.
        * rewrite (Sh1 eq_refl eq_refl).
          destruct (deliver_pending c i k hs he L Hstrict Hlate Hlatei HR HL Hsilent st rt t P Ht)
            as [st' [E D]].
          rewrite E. cbn [fst].
          assert (Hw : exists w, which_of t = Some w)
            by (destruct t; try discriminate; eexists; reflexivity).
          destruct Hw as [w Hw]. rewrite Hw. unfold after_reply in D. rewrite Hw in D.
          destruct (next_retry hs he rt w) as [rt2|]; cbn [settled] in D.
          -- apply IH; assumption.
          -- rewrite armed_after_none. cbn [settled]. apply dead_final. exact D.
        * rewrite nonreply_ordinary_thm by assumption. cbn [fst].
          replace (which_of t) with (@None which) by (destruct t; try discriminate; reflexivity).
          apply IH; assumption.
      + assert (Hij : i <> j) by (apply N.eqb_neq; exact Eij).
        destruct (deliver_good c st j t sh) as [S F].
        replace (match which_of t with
                 | Some _ => armed_after i hs he (Some rt) h
                 | None => armed_after i hs he (Some rt) h
                 end) with (armed_after i hs he (Some rt) h) by (destruct (which_of t); reflexivity).
        apply IH; [|exact Sh2].
        destruct P as [Hlt [Ha [Hr Ho]]].
        destruct (shrinks_other _ _ _ S i Hij) as [A1 A2].
        split; [rewrite (sh_next _ _ _ S); exact Hlt|]. split; [|split].
        -- rewrite A1. exact Ha.
        -- rewrite A2. exact Hr.
        -- intros l Hl. rewrite A2. apply Ho, Hl.
    - cbn [fst]. apply IH; assumption.
  Qed.
End PendingFinal.

(* what "settled" says about the registries *)
Definition registered_iff_outstanding (i : N) (o : option retry) (st : state) : Prop :=
  match o with
  | Some _ => lookup i (app st) <> None /\ exists l, lookup i (regs st l) <> None
  | None => unregistered st i
  end.

(* Entries are removed, nothing is left behind: after ANY history with nested deliveries, the
   request's id is registered (application registry + transporting layer) iff an issue of it is
   still unanswered by the sequential reading; once answered it is in no registry -- also when
   the answer came while the request was still being handed down. *)
Theorem sync_app_registered_iff_outstanding_kind_thm : forall c k,
  strict_reply c = true -> late_delete c = false -> late_delete_iface c = false ->
  reg_first c = true -> reg_first_iface c = true -> all_routed c = true ->
  kind_ok c k = true ->
  forall pre hs he rt sync post,
  let i := next (sfinal c init pre) in
  shaped i (shape_of k) (map dl sync ++ flatten post) ->
  registered_iff_outstanding i
    (armed_after i hs he (Some rt) (map dl sync ++ flatten post))
    (sfinal c init (pre ++ SApp k hs he rt sync :: post)).
Proof.
  intros c k Hs Hl Hli Hr Hri Hro Hk pre hs he rt sync post i Sh.
  destruct (kind_ok_route c k Hk) as [L [HR [HL HS]]].
  destruct (sflat_thm c Hr Hri Hro (pre ++ SApp k hs he rt sync :: post) init) as [_ E].
  rewrite E, flatten_mid. cbn [flat1]. rewrite <- app_comm_cons.
  destruct (sflat_thm c Hr Hri Hro pre init) as [_ F]. unfold i in *. rewrite F in *.
  clear E F i.
  set (fp := flatten pre) in *. set (i := next (final c init fp)) in *.
  rewrite (final_app c fp), final_cons. cbn [step].
  pose proof (final_inv c fp init inv_init) as I. fold i in I.
  set (stp := final c init fp) in *.
  assert (U : unregistered stp i) by (apply inv_unregistered; [exact I|subst i; lia]).
  destruct U as [Ua Ur].
  assert (P : pending i k hs he L rt (fst (app_request c stp k hs he rt))).
  { unfold app_request, reissue. cbn [rorigin]. rewrite HR. cbn [fst]. fold i.
    split; [cbn [set_reg set_app next]; lia|]. split; [|split].
    - cbn [set_reg set_app app]. rewrite lookup_cons, N.eqb_refl. reflexivity.
    - rewrite regs_set_reg, layer_eqb_refl, lookup_cons, N.eqb_refl. reflexivity.
    - intros l Hl'. rewrite regs_set_reg.
      rewrite layer_eqb_neq by (intro E'; apply Hl'; symmetry; exact E').
      cbn [set_app regs]. apply Ur. }
  pose proof (pending_final c i k hs he L Hs Hl Hli HR HL HS _ rt _ P Sh) as St.
  destruct (armed_after i hs he (Some rt) (map dl sync ++ flatten post)) as [rt'|];
    cbn [settled registered_iff_outstanding] in *.
  - destruct St as [_ [Ha [Hrr _]]]. split.
    + rewrite Ha. discriminate.
    + exists L. rewrite Hrr. discriminate.
  - apply St.
Qed.

Theorem sync_app_registered_iff_outstanding_thm : forall c, cfg_ok c = true -> all_routed c = true ->
  forall pre k hs he rt sync post,
  in_domain k = true ->
  let i := next (sfinal c init pre) in
  shaped i (shape_of k) (map dl sync ++ flatten post) ->
  registered_iff_outstanding i
    (armed_after i hs he (Some rt) (map dl sync ++ flatten post))
    (sfinal c init (pre ++ SApp k hs he rt sync :: post)).
Proof.
  intros c H Hro pre k hs he rt sync post D.
  destruct (cfg_ok_parts c H) as [H1 [H2 [H3 H4]]].
  destruct (cfg_ok_reg_first c H) as [H5 H6].
  apply sync_app_registered_iff_outstanding_kind_thm; auto.
Qed.

(* ------------------------------------------------------------------ library level *)

Lemma lkind_ping_dec (lk : lkind) : {lk = LKPing} + {lk <> LKPing}.
Proof. destruct lk; (left; reflexivity) || (right; discriminate). Qed.

Theorem sync_lib_exactly_once_thm : forall c, strict_reply c = true ->
  reg_first c = true -> reg_first_iface c = true -> all_routed c = true ->
  forall pre lk sync post, lk <> LKPing ->
  let i := next (sfinal c init pre) in
  let s := fst (snd (lib_route c lk)) in
  let e := snd (snd (lib_route c lk)) in
  lib_cbs i (sevents c init (pre ++ SLib lk sync :: post)) =
  expected s e (first_reply i (map dl sync ++ flatten post)) (mkreq i (OLib lk)).
Proof.
  intros c Hs Hr Hri Hro pre lk sync post Hlk i s e.
  destruct (sflat_thm c Hr Hri Hro (pre ++ SLib lk sync :: post) init) as [E _].
  rewrite E, flatten_mid. cbn [flat1]. rewrite <- app_comm_cons.
  destruct (sflat_thm c Hr Hri Hro pre init) as [_ F]. unfold i in *. rewrite F in *.
  apply lib_exactly_once_thm; assumption.
Qed.

(* a library request (any of the six, the keep-alive ping included) that has been answered is
   in no registry any more; until then it stays registered in the issuing layer *)
Section LibFinal.
  Variable c : cfg.
  Variable i : N.
  Variable lk : lkind.
  Variable s e : bool.
  Variable L : layer.
  Variable shp : shape -> Prop.     (* the shapes of replies to i the history may contain *)
  Hypothesis Hstrict : strict_reply c = true.
  Hypothesis Hdel : forall st t sh,
    pendingL i lk s e L st -> is_reply t = true -> shp sh ->
    exists st' evs, deliver c st i t sh = (st', evs) /\ dead st' i.

  Fixpoint shaped_by (h : list op) : Prop :=
    match h with
    | [] => True
    | Deliver j t sh :: h' => (N.eqb i j = true -> is_reply t = true -> shp sh) /\ shaped_by h'
    | _ :: h' => shaped_by h'
    end.

  Lemma pendingL_final h : forall st,
    pendingL i lk s e L st -> shaped_by h ->
    match first_reply i h with
    | Some _ => dead (final c st h) i
    | None => pendingL i lk s e L (final c st h)
    end.
  Proof.
    induction h as [|o h IH]; intros st P Sh; [exact P|].
    rewrite final_cons.
    destruct o as [k' hs' he' rt'|lk'|j t sh|j]; cbn [step].
    - cbn [first_reply]. apply IH; [|exact Sh].
      eapply (pendingL_grows c); [apply app_request_grows|exact P].
    - cbn [first_reply]. apply IH; [|exact Sh].
      eapply (pendingL_grows c); [apply lib_request_grows|exact P].
    - cbn [shaped_by] in Sh. destruct Sh as [Sh1 Sh2].
      destruct (N.eqb i j) eqn:Eij.
      + apply N.eqb_eq in Eij. subst j.
        destruct (is_reply t) eqn:Ht.
        * destruct (Hdel st t sh P Ht (Sh1 eq_refl eq_refl)) as [st' [evs [E D]]].
          rewrite E. cbn [fst].
          destruct t; try discriminate; cbn [first_reply]; rewrite N.eqb_refl;
            apply dead_final; exact D.
        * rewrite nonreply_ordinary_thm by assumption. cbn [fst].
          destruct t; try discriminate; cbn [first_reply]; apply IH; assumption.
      + assert (Hij : i <> j) by (apply N.eqb_neq; exact Eij).
        destruct (deliver_good c st j t sh) as [S F].
        assert (P' : pendingL i lk s e L (fst (deliver c st j t sh))).
        { destruct P as [Hlt [Ha [Hr Ho]]].
          destruct (shrinks_other _ _ _ S i Hij) as [A1 A2].
          split; [rewrite (sh_next _ _ _ S); exact Hlt|]. split; [|split].
          - rewrite A1. exact Ha.
          - rewrite A2. exact Hr.
          - intros l Hl. rewrite A2. apply Ho, Hl. }
        destruct t; cbn [first_reply]; rewrite ?Eij; apply IH; assumption.
    - cbn [fst first_reply]. apply IH; assumption.
  Qed.
End LibFinal.

Lemma shaped_by_true i h : shaped_by i (fun _ => True) h.
Proof. induction h as [|o h IH]; [exact I|]. destruct o; cbn [shaped_by]; auto. Qed.

Lemma shaped_by_plain i h : shaped i ShPlain h -> shaped_by i (fun sh => sh = ShPlain) h.
Proof.
  induction h as [|o h IH]; [auto|]. destruct o; cbn [shaped shaped_by]; auto.
  intros [H1 H2]. split; [exact H1|apply IH, H2].
Qed.

Definition lib_registered_iff_outstanding (i : N) (l : layer) (fr : option which) (st : state) : Prop :=
  match fr with
  | Some _ => unregistered st i
  | None => lookup i (regs st l) <> None
  end.

Theorem sync_lib_registered_iff_outstanding_thm : forall c, strict_reply c = true ->
  reg_first c = true -> reg_first_iface c = true -> all_routed c = true ->
  forall pre lk sync post,
  let i := next (sfinal c init pre) in
  (lk = LKPing -> in_proto (fst (lib_route c lk)) = true /\
                  shaped i ShPlain (map dl sync ++ flatten post)) ->
  lib_registered_iff_outstanding i (fst (lib_route c lk))
    (first_reply i (map dl sync ++ flatten post))
    (sfinal c init (pre ++ SLib lk sync :: post)).
Proof.
  intros c Hs Hr Hri Hro pre lk sync post i Hping.
  destruct (sflat_thm c Hr Hri Hro (pre ++ SLib lk sync :: post) init) as [_ E].
  rewrite E, flatten_mid. cbn [flat1]. rewrite <- app_comm_cons.
  destruct (sflat_thm c Hr Hri Hro pre init) as [_ F]. unfold i in *. rewrite F in *.
  clear E F i.
  set (fp := flatten pre) in *. set (i := next (final c init fp)) in *.
  rewrite (final_app c fp), final_cons. cbn [step].
  pose proof (final_inv c fp init inv_init) as I. fold i in I.
  set (stp := final c init fp) in *.
  assert (U : unregistered stp i) by (apply inv_unregistered; [exact I|subst i; lia]).
  destruct U as [Ua Ur].
  destruct (lib_route c lk) as [L [s e]] eqn:ER. cbn [fst] in *.
  assert (P : pendingL i lk s e L (fst (lib_request c stp lk))).
  { unfold lib_request. fold i. rewrite ER. cbn [fst].
    split; [cbn [set_reg next]; lia|]. split; [|split].
    - cbn [set_reg app]. exact Ua.
    - rewrite regs_set_reg, layer_eqb_refl, lookup_cons, N.eqb_refl. reflexivity.
    - intros l Hl. rewrite regs_set_reg.
      rewrite layer_eqb_neq by (intro E'; apply Hl; symmetry; exact E').
      cbn [regs]. apply Ur. }
  set (h := map dl sync ++ flatten post) in *.
  assert (Fin : match first_reply i h with
                | Some _ => dead (final c (fst (lib_request c stp lk)) h) i
                | None => pendingL i lk s e L (final c (fst (lib_request c stp lk)) h)
                end).
  { destruct (lkind_ping_dec lk) as [Ep|Hlk].
    - subst lk. destruct (Hping eq_refl) as [HL Sh].
      apply (pendingL_final c i LKPing s e L (fun sh => sh = ShPlain) Hs); [|exact P|].
      + intros st t sh P' Ht ->.
        destruct (deliver_pendingP c i s e L Hs (in_proto_In _ HL) st t P' Ht) as [st' [E D]].
        eexists _, _. split; [exact E|exact D].
      + apply shaped_by_plain, Sh.
    - apply (pendingL_final c i lk s e L (fun _ => True) Hs); [|exact P|apply shaped_by_true].
      intros st t sh P' Ht _.
      destruct (deliver_pendingL c i lk s e L Hlk Hs st t sh P' Ht (layer_where L))
        as [st' [evs [E [D _]]]].
      eexists _, _. split; [exact E|exact D]. }
  unfold lib_registered_iff_outstanding.
  destruct (first_reply i h).
  - apply Fin.
  - destruct Fin as [_ [_ [Hrr _]]]. rewrite Hrr. discriminate.
Qed.

(* the keep-alive ping, answered from inside its own send or later: forwarded exactly once *)
Theorem sync_libping_forwarded_once_thm : forall c, strict_reply c = true ->
  reg_first c = true -> reg_first_iface c = true -> all_routed c = true ->
  in_proto (fst (lib_route c LKPing)) = true ->
  forall pre sync post,
  let st := sfinal c init pre in
  let i := next st in
  let s := fst (snd (lib_route c LKPing)) in
  let e := snd (snd (lib_route c LKPing)) in
  shaped i ShPlain (map dl sync ++ flatten post) ->
  iface_evs i (sevents c st (SLib LKPing sync :: post)) =
  expected_iface s e (first_reply i (map dl sync ++ flatten post)).
Proof.
  intros c Hs Hr Hri Hro HL pre sync post. cbv zeta.
  destruct (sflat_thm c Hr Hri Hro pre init) as [_ F]. rewrite F. intro Sh.
  destruct (sflat_thm c Hr Hri Hro (SLib LKPing sync :: post) (final c init (flatten pre))) as [E _].
  rewrite E, flatten_cons. cbn [flat1].
  rewrite <- app_comm_cons, events_cons, iface_evs_app.
  rewrite (iface_request_events _ _ (lib_request_events c (final c init (flatten pre)) LKPing)).
  rewrite app_nil_l.
  apply (libping_forwarded_once_thm c Hs HL (flatten pre)). exact Sh.
Qed.

(* ------------------------------------------------------------------ non-vacuity *)

(* a history satisfying every hypothesis, with nested deliveries of every sort: the reply to an
   application request arrives while the request is being handed down, followed -- still inside
   the send -- by a replay of it and by a get iq with the same id; a key fetch answered by an
   error from inside its send; a ping request whose send also carries the (late) reply to an
   EARLIER request; deferred replays afterwards.  Exactly one callback each, with the original
   request, and nothing is left registered. *)
Example nonvacuous_sync :
  let pre := [SApp KGList true true no_retry []] in
  let sync := [nd 2 TResult ShPlain; nd 2 TResult ShPlain; nd 2 TGet ShSPing] in
  let post := [SLib LKFetchCtl [nd 3 TError ShPlain; nd 3 TResult ShPlain];
               SApp KPing true true no_retry [nd 1 TError ShPlain; nd 4 TResult ShPlain];
               SDeliver 2 TResult ShPlain no_content; SDeliver 2 TError ShPlain no_content; SDeliver 3 TError ShPlain no_content;
               SDeliver 1 TResult ShPlain no_content] in
  let h := pre ++ SApp KLastSeen true true no_retry sync :: post in
  cfg_ok cfg_repaired = true /\ all_routed cfg_repaired = true /\
  next (sfinal cfg_repaired init pre) = 2%N /\
  shaped 2 (shape_of KLastSeen) (map dl sync ++ flatten post) /\
  app_cbs 2 (sevents cfg_repaired init h) = [(Success, mkreq 2 (OApp KLastSeen))] /\
  app_cbs 1 (sevents cfg_repaired init h) = [(Error, mkreq 1 (OApp KGList))] /\
  app_cbs 4 (sevents cfg_repaired init h) = [(Success, mkreq 4 (OApp KPing))] /\
  lib_cbs 3 (sevents cfg_repaired init h) = [(Error, mkreq 3 (OLib LKFetchCtl))] /\
  (* the callback of request 2 fired INSIDE its own send (second op), once *)
  app_cbs 2 (nth 1 (snd (srun cfg_repaired init h)) []) = [(Success, mkreq 2 (OApp KLastSeen))] /\
  unregistered (sfinal cfg_repaired init h) 1 /\ unregistered (sfinal cfg_repaired init h) 2 /\
  unregistered (sfinal cfg_repaired init h) 3 /\ unregistered (sfinal cfg_repaired init h) 4.
Proof.
  vm_compute. repeat split; intros; try reflexivity; try discriminate;
    match goal with l : layer |- _ => destruct l; reflexivity end.
Qed.

(* ... and with a retry issued by the callback that runs inside the outer send: the error that
   arrives during the hand-down fires the error callback, which re-issues the request; the
   result -- still inside the outer send -- answers the retry; the deferred replay is ordinary *)
Example nonvacuous_sync_retry :
  let rt := mkretry false true 1 in
  let r := mkreq 1 (OApp KGLeave) in
  let h := [SApp KGLeave true true rt [nd 1 TError ShPlain; nd 1 TResult ShPlain];
            SDeliver 1 TResult ShPlain no_content] in
  app_cbs 1 (sevents cfg_repaired init h) = [(Error, r); (Success, r)] /\
  app_cbs 1 (nth 0 (snd (srun cfg_repaired init h)) []) = [(Error, r); (Success, r)] /\
  armed_after 1 true true (Some rt) (flatten h) = None /\
  lookup 1 (app (sfinal cfg_repaired init h)) = None /\
  lookup 1 (regs (sfinal cfg_repaired init h) LGroups) = None.
Proof. vm_compute. repeat split. Qed.

(* ------------------------------------------------------------------ register AFTER the hand-down *)

(* the shape of seeded C08-5: toLower first, iqRegistry afterwards -- in the protocol layers, in
   the interface layer, or in both *)
Definition cfg_regafter_proto : cfg :=
  mkcfg route_repaired lib_route_repaired true true false false false true.
Definition cfg_regafter_iface : cfg :=
  mkcfg route_repaired lib_route_repaired true true false false true false.
Definition cfg_regafter_both : cfg :=
  mkcfg route_repaired lib_route_repaired true true false false false false.

(* the correlation theorem fails on a history *)
Definition refutes_sync (c : cfg) (k : akind) (sync : list ndel) (post : list sop) : Prop :=
  shaped 1 (shape_of k) (map dl sync ++ flatten post) /\
  app_cbs 1 (sevents c init ([] ++ SApp k true true no_retry sync :: post)) <>
  expected_seq 1 true true (mkreq 1 (OApp k)) (Some no_retry) (map dl sync ++ flatten post).

Lemma register_after_send_refuted :
  let r := mkreq 1 (OApp KLastSeen) in
  let nested := SApp KLastSeen true true no_retry [nd 1 TResult ShPlain] in
  (* the reply that arrives during the hand-down reaches NO callback (all three variants) *)
  refutes_sync cfg_regafter_both KLastSeen [nd 1 TResult ShPlain] [] /\
  refutes_sync cfg_regafter_proto KLastSeen [nd 1 TError ShPlain] [] /\
  refutes_sync cfg_regafter_iface KGList [nd 1 TResult ShPlain] [] /\
  app_cbs 1 (sevents cfg_regafter_both init [nested]) = [] /\
  (* in the interface-only variant it is treated as an ordinary stanza instead *)
  In (EvTop 1) (sevents cfg_regafter_iface init [nested]) /\
  (* the entry is inserted afterwards and stays: the answered request counts as outstanding *)
  lookup 1 (app (sfinal cfg_regafter_both init [nested])) <> None /\
  lookup 1 (regs (sfinal cfg_regafter_both init [nested]) LPresence) <> None /\
  lookup 1 (app (sfinal cfg_regafter_iface init [nested])) <> None /\
  (* ... and a REPLAYED reply then does invoke the callback *)
  app_cbs 1 (snd (sstep cfg_regafter_both (sfinal cfg_regafter_both init [nested])
                        (SDeliver 1 TResult ShPlain no_content))) = [(Success, r)] /\
  app_cbs 1 (snd (sstep cfg_regafter_proto (sfinal cfg_regafter_proto init [nested])
                        (SDeliver 1 TError ShPlain no_content))) = [(Error, r)] /\
  (* library level: key fetch answered during the hand-down: no closure runs, stale entry, the
     replay runs it; the keep-alive ping's pong is lost the same way *)
  lib_cbs 1 (sevents cfg_regafter_proto init [SLib LKFetchCtl [nd 1 TError ShPlain]]) = [] /\
  lookup 1 (regs (sfinal cfg_regafter_proto init [SLib LKFetchCtl [nd 1 TError ShPlain]]) LCtl)
    <> None /\
  lib_cbs 1 (sevents cfg_regafter_proto init [SLib LKFetchCtl [nd 1 TError ShPlain];
                                              SDeliver 1 TError ShPlain no_content])
    = [(Error, mkreq 1 (OLib LKFetchCtl))] /\
  iface_evs 1 (sevents cfg_regafter_proto init [SLib LKPing [nd 1 TResult ShPlain]]) = [] /\
  (* with the order of the code as it is, the same histories are fine *)
  app_cbs 1 (sevents cfg_repaired init [nested; SDeliver 1 TResult ShPlain no_content]) = [(Success, r)] /\
  app_cbs 1 (snd (sstep cfg_repaired (sfinal cfg_repaired init [nested])
                        (SDeliver 1 TResult ShPlain no_content))) = [] /\
  lookup 1 (app (sfinal cfg_repaired init [nested])) = None.
Proof.
  repeat split; try (cbn; intuition discriminate); vm_compute; try discriminate; try reflexivity;
    auto 10.
Qed.

(* without nested deliveries the order of registration and hand-down is unobservable: this is
   why no sequential register-then-deliver history exposes the defect *)
Theorem register_order_unobservable_sequentially : forall c1 c2,
  app_route c1 = app_route c2 -> lib_route c1 = lib_route c2 ->
  strict_reply c1 = strict_reply c2 -> strict_iface c1 = strict_iface c2 ->
  late_delete c1 = late_delete c2 -> late_delete_iface c1 = late_delete_iface c2 ->
  forall h st, run c1 st h = run c2 st h.
Proof.
  intros c1 c2 E1 E2 E3 E4 E5 E6.
  assert (R : forall st i r hs he rt, reissue c1 st i r hs he rt = reissue c2 st i r hs he rt).
  { intros. unfold reissue. rewrite E1. reflexivity. }
  assert (TI : forall st i t, to_interface c1 st i t = to_interface c2 st i t).
  { intros. unfold to_interface, iconsumes. rewrite E4, E6.
    destruct (if if strict_iface c2 then is_reply t else true then lookup i (app st) else None);
      [|reflexivity].
    destruct (which_of t); [|reflexivity]. destruct (cb_flag (ehs e) (ehe e) w); [|reflexivity].
    destruct (next_retry (ehs e) (ehe e) (ert e) w); [rewrite R|]; reflexivity. }
  assert (F : forall st i e w, fire c1 st i e w = fire c2 st i e w).
  { intros. unfold fire. destruct (rorigin (ereq e)) as [k|[]]; try reflexivity; apply TI. }
  assert (TL : forall st l i t, try_layer c1 st l i t = try_layer c2 st l i t).
  { intros. unfold try_layer, consumes. rewrite E3, E5.
    destruct (if strict_reply c2 then is_reply t else true); [|reflexivity].
    destruct (lookup i (regs st l)); [|reflexivity]. rewrite !F. reflexivity. }
  assert (H : forall st l i t sh, handler c1 st l i t sh = handler c2 st l i t sh).
  { intros. unfold handler. destruct l, sh; try reflexivity. destruct t; try reflexivity. apply TI. }
  assert (PR : forall ls st i t sh, proto_recv c1 st ls i t sh = proto_recv c2 st ls i t sh).
  { induction ls as [|l ls IH]; intros; cbn [proto_recv]; [reflexivity|].
    rewrite TL, H. destruct (match try_layer c2 st l i t with Some r => r | None => _ end).
    rewrite IH. reflexivity. }
  assert (D : forall st i t sh, deliver c1 st i t sh = deliver c2 st i t sh).
  { intros. unfold deliver. rewrite !TL.
    destruct (try_layer c2 st LCtl i t); [reflexivity|].
    destruct (match try_layer c2 st LSend i t with Some r => r | None => _ end) as [s1 e1].
    rewrite TL, PR. reflexivity. }
  induction h as [|o h IH]; intro st; [reflexivity|].
  cbn [run].
  assert (S : step c1 st o = step c2 st o).
  { destruct o; cbn [step]; try reflexivity; [| |apply D].
    - unfold app_request. rewrite R. reflexivity.
    - unfold lib_request. rewrite E2. reflexivity. }
  rewrite S. destruct (step c2 st o). rewrite IH. reflexivity.
Qed.

(* ------------------------------------------------------------------ the content of a stanza *)

(* The registries and the callbacks depend on the tag, the id and the type of an incoming iq (and
   the receive handlers on the two facts in [shape]) -- on NOTHING else it carries: not on an
   <error> child, its code / text / backoff attributes, further children or attributes.  Any two
   histories that agree up to the content of the delivered stanzas (deferred or from inside a
   send) produce the same per-op events and the same final state, for ANY table.  So every
   theorem about [srun] / [sevents] / [sfinal] quantifies over all such contents, and "answered"
   means: a result/error iq with the id arrived, whatever it says. *)
Lemma deliver_all_erase c ds : forall st,
  deliver_all c st (map erase_nd ds) = deliver_all c st ds.
Proof.
  induction ds as [|d ds IH]; intro st; [reflexivity|].
  cbn [map deliver_all erase_nd nd nid ntyp nshape].
  destruct (deliver c st (nid d) (ntyp d) (nshape d)) as [st1 ev1]. rewrite IH. reflexivity.
Qed.

Lemma sstep_erase c st o : sstep c st (erase o) = sstep c st o.
Proof.
  destruct o as [k hs he rt sync|lk sync|i t sh ct|i]; cbn [erase sstep]; try reflexivity.
  - unfold app_request_sync. destruct (app_route c k) as [l s e|l|]; try reflexivity;
      rewrite deliver_all_erase; reflexivity.
  - unfold lib_request_sync. destruct (lib_route c lk) as [l [s e]].
    rewrite deliver_all_erase. reflexivity.
Qed.

Theorem reply_content_irrelevant_thm : forall c h st, srun c st (map erase h) = srun c st h.
Proof.
  intros c h. induction h as [|o h IH]; intro st; [reflexivity|].
  cbn [map srun]. rewrite sstep_erase. destruct (sstep c st o) as [st1 ev]. rewrite IH. reflexivity.
Qed.

Corollary same_up_to_content_thm : forall c h1 h2 st,
  map erase h1 = map erase h2 -> srun c st h1 = srun c st h2.
Proof.
  intros c h1 h2 st E.
  rewrite <- (reply_content_irrelevant_thm c h1), <- (reply_content_irrelevant_thm c h2), E.
  reflexivity.
Qed.

(* non-vacuity: an error carrying <error code="406" text="not-acceptable" backoff="3600"/>, its
   replay and a later result for the same id, vs the same history with a bare error -- same
   events, one error callback, nothing registered afterwards (the shape of seeded C08-8 would
   fire the error callback twice and the success callback once, and keep both entries) *)
Example nonvacuous_content :
  let backoff := mkcontent [] [([101;114;114;111;114]%N,
                               [([99;111;100;101], [52;48;54]);
                                ([98;97;99;107;111;102;102], [51;54;48;48])])]%N in
  let h ct := [SApp KLastSeen true true no_retry [];
               SDeliver 1 TError ShPlain ct; SDeliver 1 TError ShPlain ct;
               SDeliver 1 TResult ShPlain ct] in
  srun cfg_repaired init (h backoff) = srun cfg_repaired init (h no_content) /\
  app_cbs 1 (sevents cfg_repaired init (h backoff)) = [(Error, mkreq 1 (OApp KLastSeen))] /\
  lookup 1 (app (sfinal cfg_repaired init (h backoff))) = None /\
  lookup 1 (regs (sfinal cfg_repaired init (h backoff)) LPresence) = None.
Proof. vm_compute. repeat split. Qed.
