(* C08 -- proofs.  All statements are about the executable model in C08Model.v, for an
   arbitrary routing table [c : cfg]; C08Inst.v instantiates them with the generated table. *)
From YV Require Import Common.Tac C08.C08Model.

(* ------------------------------------------------------------------ basic facts *)

Lemma layer_eqb_eq a b : layer_eqb a b = true <-> a = b.
Proof. destruct a, b; cbn; split; intro H; try reflexivity; try discriminate. Qed.

Lemma layer_eqb_refl a : layer_eqb a a = true.
Proof. apply layer_eqb_eq; reflexivity. Qed.

Lemma layer_eqb_neq a b : a <> b -> layer_eqb a b = false.
Proof.
  intro H. destruct (layer_eqb a b) eqn:E; [|reflexivity].
  apply layer_eqb_eq in E. contradiction.
Qed.

Lemma lookup_cons i j e r :
  lookup i ((j, e) :: r) = if N.eqb i j then Some e else lookup i r.
Proof. reflexivity. Qed.

Lemma lookup_remove i j r :
  lookup i (remove j r) = if N.eqb i j then None else lookup i r.
Proof.
  induction r as [|[k e] r IH]; cbn [remove lookup].
  - destruct (N.eqb i j); reflexivity.
  - destruct (N.eqb j k) eqn:Ejk.
    + rewrite IH. destruct (N.eqb i j) eqn:Eij; [reflexivity|].
      destruct (N.eqb i k) eqn:Eik; [|reflexivity].
      apply N.eqb_eq in Ejk, Eik. apply N.eqb_neq in Eij. congruence.
    + cbn [lookup]. rewrite IH.
      destruct (N.eqb i k) eqn:Eik; [|reflexivity].
      destruct (N.eqb i j) eqn:Eij; [|reflexivity].
      apply N.eqb_eq in Eij, Eik. apply N.eqb_neq in Ejk. congruence.
Qed.

Lemma regs_set_reg st l r l' :
  regs (set_reg st l r) l' = if layer_eqb l l' then r else regs st l'.
Proof. reflexivity. Qed.

(* ------------------------------------------------------------------ "about id j" *)

(* every event of a delivery of id j is about j; every registry change concerns key j only
   (with retries a delivery of j may also RE-register j, and re-send it) *)
Definition ev_about (j : N) (e : event) : Prop :=
  match e with
  | EvIssued _ => False
  | EvSent i | EvIface i _ | EvApp i _ _ | EvTop i | EvLib i _ _ _ | EvPong i => i = j
  end.

(* st' differs from st at most at key j *)
Record touch (j : N) (st st' : state) : Prop := {
  to_next : next st' = next st;
  to_app : forall i, i <> j -> lookup i (app st') = lookup i (app st);
  to_regs : forall l i, i <> j -> lookup i (regs st' l) = lookup i (regs st l)
}.

Lemma touch_refl j st : touch j st st.
Proof. constructor; auto. Qed.

Lemma touch_trans j a b c : touch j a b -> touch j b c -> touch j a c.
Proof.
  intros H1 H2. constructor.
  - rewrite (to_next _ _ _ H2). apply (to_next _ _ _ H1).
  - intros i Hi. rewrite (to_app _ _ _ H2 i Hi). apply (to_app _ _ _ H1 i Hi).
  - intros l i Hi. rewrite (to_regs _ _ _ H2 l i Hi). apply (to_regs _ _ _ H1 l i Hi).
Qed.

Lemma touch_app_remove j st : touch j st (set_app st (remove j (app st))).
Proof.
  constructor; cbn [set_app next app regs]; auto.
  intros i Hi. rewrite lookup_remove. apply N.eqb_neq in Hi. rewrite Hi. reflexivity.
Qed.

Lemma touch_app_cons j st e : touch j st (set_app st ((j, e) :: app st)).
Proof.
  constructor; cbn [set_app next app regs]; auto.
  intros i Hi. rewrite lookup_cons. apply N.eqb_neq in Hi. rewrite Hi. reflexivity.
Qed.

Lemma touch_reg_remove j st l : touch j st (set_reg st l (remove j (regs st l))).
Proof.
  constructor; cbn [set_reg next app regs]; auto.
  intros l' i Hi. destruct (layer_eqb l l') eqn:E; [|reflexivity].
  apply layer_eqb_eq in E. subst l'. rewrite lookup_remove. apply N.eqb_neq in Hi. rewrite Hi.
  reflexivity.
Qed.

Lemma touch_reg_cons j st l e : touch j st (set_reg st l ((j, e) :: regs st l)).
Proof.
  constructor; cbn [set_reg next app regs]; auto.
  intros l' i Hi. destruct (layer_eqb l l') eqn:E; [|reflexivity].
  apply layer_eqb_eq in E. subst l'. rewrite lookup_cons. apply N.eqb_neq in Hi. rewrite Hi.
  reflexivity.
Qed.

(* key j occurs in some registry *)
Definition present (st : state) (j : N) : Prop :=
  lookup j (app st) <> None \/ exists l, lookup j (regs st l) <> None.

(* a delivery of j touches key j only, and cannot make j appear out of nothing *)
Record shrinks (j : N) (st st' : state) : Prop := {
  sh_touch : touch j st st';
  sh_present : present st' j -> present st j
}.

Lemma sh_next j st st' : shrinks j st st' -> next st' = next st.
Proof. intro H. apply (to_next _ _ _ (sh_touch _ _ _ H)). Qed.

Lemma shrinks_refl j st : shrinks j st st.
Proof. constructor; [apply touch_refl|auto]. Qed.

Lemma shrinks_other j st st' :
  shrinks j st st' -> forall i, i <> j ->
  lookup i (app st') = lookup i (app st) /\ forall l, lookup i (regs st' l) = lookup i (regs st l).
Proof.
  intros H i Hi. split.
  - apply (to_app _ _ _ (sh_touch _ _ _ H) i Hi).
  - intro l. apply (to_regs _ _ _ (sh_touch _ _ _ H) l i Hi).
Qed.

Lemma shrinks_trans j a b c : shrinks j a b -> shrinks j b c -> shrinks j a c.
Proof.
  intros H1 H2. constructor.
  - eapply touch_trans; [apply (sh_touch _ _ _ H1)|apply (sh_touch _ _ _ H2)].
  - intro P. apply (sh_present _ _ _ H1), (sh_present _ _ _ H2), P.
Qed.

Lemma shrinks_of_present j st st' : present st j -> touch j st st' -> shrinks j st st'.
Proof. intros P T. constructor; [exact T|intros _; exact P]. Qed.

Lemma shrinks_app_remove j st : shrinks j st (set_app st (remove j (app st))).
Proof.
  constructor; [apply touch_app_remove|].
  intros [H|[l H]].
  - exfalso. apply H. cbn [set_app app]. rewrite lookup_remove, N.eqb_refl. reflexivity.
  - right. exists l. exact H.
Qed.

Lemma shrinks_reg_remove j st l : shrinks j st (set_reg st l (remove j (regs st l))).
Proof.
  constructor; [apply touch_reg_remove|].
  intros [H|[l' H]].
  - left. exact H.
  - right. exists l'. rewrite regs_set_reg in H. destruct (layer_eqb l l') eqn:E; [|exact H].
    exfalso. apply H. rewrite lookup_remove, N.eqb_refl. reflexivity.
Qed.

(* the combined fact proved for every sub-function of a delivery *)
Definition good (j : N) (st : state) (r : state * list event) : Prop :=
  shrinks j st (fst r) /\ Forall (ev_about j) (snd r).

Lemma good_refl j st : good j st (st, []).
Proof. split; [apply shrinks_refl|constructor]. Qed.

Lemma good_seq j st st1 ev1 st2 ev2 :
  good j st (st1, ev1) -> good j st1 (st2, ev2) -> good j st (st2, ev1 ++ ev2).
Proof.
  intros [A1 B1] [A2 B2]. split; cbn [fst snd] in *.
  - eapply shrinks_trans; eassumption.
  - apply Forall_app; split; assumption.
Qed.

Lemma reissue_touch c st j r hs he rt :
  touch j st (fst (reissue c st j r hs he rt)) /\
  Forall (ev_about j) (snd (reissue c st j r hs he rt)).
Proof.
  unfold reissue. destruct (rorigin r) as [k|lk]; [|split; [apply touch_refl|constructor]].
  pose proof (touch_app_cons j st (mkentry r hs he rt)) as T0.
  destruct (app_route c k) as [l s e|l|]; cbn [fst snd].
  - split; [|repeat constructor].
    eapply touch_trans; [exact T0|]. apply touch_reg_cons.
  - split; [exact T0|repeat constructor].
  - split; [exact T0|constructor].
Qed.

Lemma to_interface_good c st j t : good j st (to_interface c st j t).
Proof.
  unfold to_interface.
  destruct (if iconsumes c t then lookup j (app st) else None) as [e|] eqn:E;
    [|split; cbn [fst snd]; [apply shrinks_refl|repeat constructor]].
  assert (He : lookup j (app st) = Some e) by (destruct (iconsumes c t); [exact E|discriminate]).
  assert (P : present st j) by (left; rewrite He; discriminate).
  assert (G0 : good j st (set_app st (remove j (app st)), [EvIface j t])).
  { split; cbn [fst snd]; [apply shrinks_app_remove|repeat constructor]. }
  destruct (which_of t) as [w|]; [|exact G0].
  destruct (cb_flag (ehs e) (ehe e) w); [|exact G0].
  set (st_d := if late_delete_iface c then st else set_app st (remove j (app st))).
  assert (Td : touch j st st_d).
  { unfold st_d. destruct (late_delete_iface c); [apply touch_refl|apply touch_app_remove]. }
  assert (G2 : forall r2, r2 = match next_retry (ehs e) (ehe e) (ert e) w with
                                | Some rt' => reissue c st_d j (ereq e) (ehs e) (ehe e) rt'
                                | None => (st_d, [])
                                end ->
                          touch j st (fst r2) /\ Forall (ev_about j) (snd r2)).
  { intros r2 ->. destruct (next_retry (ehs e) (ehe e) (ert e) w) as [rt'|].
    - destruct (reissue_touch c st_d j (ereq e) (ehs e) (ehe e) rt') as [T F].
      split; [eapply touch_trans; eassumption|exact F].
    - split; [exact Td|constructor]. }
  destruct (match next_retry (ehs e) (ehe e) (ert e) w with
            | Some rt' => reissue c st_d j (ereq e) (ehs e) (ehe e) rt'
            | None => (st_d, [])
            end) as [st2 ev2] eqn:E2.
  destruct (G2 (st2, ev2) eq_refl) as [T2 F2]. cbn [fst snd] in T2, F2.
  split; cbn [fst snd].
  - apply shrinks_of_present; [exact P|].
    destruct (late_delete_iface c); [|exact T2].
    eapply touch_trans; [exact T2|apply touch_app_remove].
  - constructor; [reflexivity|]. constructor; [reflexivity|exact F2].
Qed.

Lemma fire_good c st j e w : good j st (fire c st j e w).
Proof.
  unfold fire. destruct (rorigin (ereq e)) as [k|lk].
  - apply to_interface_good.
  - destruct lk; try apply to_interface_good;
      (split; cbn [fst snd]; [apply shrinks_refl|repeat constructor]).
Qed.

Lemma try_layer_good c st l j t r : try_layer c st l j t = Some r -> good j st r.
Proof.
  unfold try_layer. destruct (consumes c t); [|discriminate].
  destruct (lookup j (regs st l)) as [e|]; [|discriminate].
  set (st_d := if late_delete c then st else set_reg st l (remove j (regs st l))).
  assert (Gd : good j st (st_d, [])).
  { split; [|constructor]. unfold st_d. cbn [fst].
    destruct (late_delete c); [apply shrinks_refl|apply shrinks_reg_remove]. }
  assert (F : forall w, good j st (fire c st_d j e w)).
  { intro w. pose proof (fire_good c st_d j e w) as G2.
    destruct (fire c st_d j e w) as [s2 e2].
    exact (good_seq _ _ _ _ _ _ Gd G2). }
  assert (G : good j st (match t with
                         | TResult => if ehs e then fire c st_d j e Success else (st_d, [])
                         | TError => if ehe e then fire c st_d j e Error else (st_d, [])
                         | _ => (st_d, [])
                         end)).
  { destruct t; try exact Gd.
    - destruct (ehs e); [apply F|exact Gd].
    - destruct (ehe e); [apply F|exact Gd]. }
  destruct (match t with
            | TResult => if ehs e then fire c st_d j e Success else (st_d, [])
            | TError => if ehe e then fire c st_d j e Error else (st_d, [])
            | _ => (st_d, [])
            end) as [st2 ev].
  intro H. apply Some_inj in H. subst r.
  destruct (late_delete c); [|exact G].
  destruct G as [S Fa]. split; cbn [fst snd] in *; [|exact Fa].
  eapply shrinks_trans; [exact S|apply shrinks_reg_remove].
Qed.

Lemma handler_good c st l j t sh : good j st (handler c st l j t sh).
Proof.
  unfold handler.
  destruct l, sh; try apply good_refl.
  - split; cbn [fst snd]; [apply shrinks_refl|repeat constructor].
  - destruct t; try apply good_refl. apply to_interface_good.
Qed.

Lemma proto_recv_good c ls : forall st j t sh, good j st (proto_recv c st ls j t sh).
Proof.
  induction ls as [|l ls IH]; intros st j t sh; cbn [proto_recv].
  - apply good_refl.
  - assert (G1 : good j st (match try_layer c st l j t with
                            | Some r => r | None => handler c st l j t sh end)).
    { destruct (try_layer c st l j t) as [r|] eqn:E.
      - eapply try_layer_good; eassumption.
      - apply handler_good. }
    destruct (match try_layer c st l j t with
              | Some r => r | None => handler c st l j t sh end) as [st1 ev1].
    pose proof (IH st1 j t sh) as G2.
    destruct (proto_recv c st1 ls j t sh) as [st2 ev2].
    eapply good_seq; eassumption.
Qed.

Lemma deliver_good c st j t sh : good j st (deliver c st j t sh).
Proof.
  unfold deliver.
  destruct (try_layer c st LCtl j t) as [r|] eqn:E1.
  { eapply try_layer_good; eassumption. }
  assert (G1 : good j st (match try_layer c st LSend j t with
                          | Some r => r | None => (st, []) end)).
  { destruct (try_layer c st LSend j t) as [r|] eqn:E.
    - eapply try_layer_good; eassumption.
    - apply good_refl. }
  destruct (match try_layer c st LSend j t with Some r => r | None => (st, []) end) as [st1 ev1].
  destruct (try_layer c st1 LRecv j t) as [[st2 ev2]|] eqn:E3.
  - eapply good_seq; [exact G1|]. eapply try_layer_good; eassumption.
  - pose proof (proto_recv_good c proto_order st1 j t sh) as G3.
    destruct (proto_recv c st1 proto_order j t sh) as [st3 ev3].
    eapply good_seq; eassumption.
Qed.

(* callbacks for id i among events that are all about another id *)
Lemma app_cbs_app i a b : app_cbs i (a ++ b) = app_cbs i a ++ app_cbs i b.
Proof. unfold app_cbs. apply flat_map_app. Qed.

Lemma lib_cbs_app i a b : lib_cbs i (a ++ b) = lib_cbs i a ++ lib_cbs i b.
Proof. unfold lib_cbs. apply flat_map_app. Qed.

Lemma cbs_about_other i j evs :
  i <> j -> Forall (ev_about j) evs -> app_cbs i evs = [] /\ lib_cbs i evs = [].
Proof.
  intros Hij H. induction H as [|e evs He _ [IH1 IH2]]; [split; reflexivity|].
  unfold app_cbs, lib_cbs in *. cbn [flat_map]. rewrite IH1, IH2.
  destruct e; cbn in He; try (split; reflexivity); subst.
  - assert (E : N.eqb i j = false) by (apply N.eqb_neq; exact Hij). rewrite E. split; reflexivity.
  - assert (E : N.eqb i j = false) by (apply N.eqb_neq; exact Hij). rewrite E. split; reflexivity.
Qed.

(* ------------------------------------------------------------------ unregistered ids *)

Definition unregistered (st : state) (i : N) : Prop :=
  lookup i (app st) = None /\ forall l, lookup i (regs st l) = None.

(* what the stack does with an iq nobody is waiting for: the receive handlers only *)
Definition ordinary (i : N) (t : ityp) (sh : shape) : list event :=
  match sh with
  | ShPlain => []
  | ShSPing => [EvPong i]
  | ShSync => match t with TResult => [EvIface i TResult; EvTop i] | _ => [] end
  end.

Lemma try_layer_unreg c st l i t : lookup i (regs st l) = None -> try_layer c st l i t = None.
Proof. intro H. unfold try_layer. rewrite H. destruct (consumes c t); reflexivity. Qed.

Lemma to_interface_unreg c st i t :
  lookup i (app st) = None -> to_interface c st i t = (st, [EvIface i t; EvTop i]).
Proof. intro H. unfold to_interface. rewrite H. destruct (iconsumes c t); reflexivity. Qed.

Definition hevents (l : layer) (i : N) (t : ityp) (sh : shape) : list event :=
  match l, sh with
  | LIq, ShSPing => [EvPong i]
  | LContacts, ShSync => match t with TResult => [EvIface i TResult; EvTop i] | _ => [] end
  | _, _ => []
  end.

Lemma handler_unreg c st l i t sh :
  lookup i (app st) = None -> handler c st l i t sh = (st, hevents l i t sh).
Proof.
  intro H. unfold handler, hevents. destruct l, sh; try reflexivity.
  destruct t; try reflexivity. apply to_interface_unreg. exact H.
Qed.

Lemma proto_recv_unreg c ls st i t sh :
  unregistered st i ->
  proto_recv c st ls i t sh = (st, flat_map (fun l => hevents l i t sh) ls).
Proof.
  intros [Ha Hr]. induction ls as [|l ls IH]; cbn [proto_recv flat_map]; [reflexivity|].
  rewrite try_layer_unreg by apply Hr. rewrite handler_unreg by exact Ha.
  rewrite IH. reflexivity.
Qed.

Lemma ordinary_flat i t sh : flat_map (fun l => hevents l i t sh) proto_order = ordinary i t sh.
Proof. destruct sh, t; reflexivity. Qed.

Theorem unknown_id_ordinary_thm : forall c st i t sh,
  unregistered st i -> deliver c st i t sh = (st, ordinary i t sh).
Proof.
  intros c st i t sh H. pose proof H as [Ha Hr]. unfold deliver.
  rewrite (try_layer_unreg c st LCtl), (try_layer_unreg c st LSend) by apply Hr.
  cbv beta iota.
  rewrite (try_layer_unreg c st LRecv) by apply Hr.
  rewrite proto_recv_unreg by exact H. rewrite ordinary_flat. reflexivity.
Qed.

Lemma ordinary_no_cb i j t sh : app_cbs i (ordinary j t sh) = [] /\ lib_cbs i (ordinary j t sh) = [].
Proof. destruct sh, t; split; reflexivity. Qed.

(* ------------------------------------------------------------------ non-reply stanzas *)

Lemma try_layer_nonreply c st l i t :
  strict_reply c = true -> is_reply t = false -> try_layer c st l i t = None.
Proof. intros Hs Ht. unfold try_layer, consumes. rewrite Hs, Ht. reflexivity. Qed.

Lemma proto_recv_nonreply c ls st i t sh :
  strict_reply c = true -> is_reply t = false ->
  proto_recv c st ls i t sh = (st, flat_map (fun l => hevents l i t sh) ls).
Proof.
  intros Hs Ht. induction ls as [|l ls IH]; cbn [proto_recv flat_map]; [reflexivity|].
  rewrite try_layer_nonreply by assumption.
  assert (Hh : handler c st l i t sh = (st, hevents l i t sh)).
  { unfold handler, hevents. destruct l, sh; try reflexivity. destruct t; try reflexivity.
    discriminate. }
  rewrite Hh, IH. reflexivity.
Qed.

(* a get/set iq never touches a registry, whatever id it carries: ordinary stanza *)
Theorem nonreply_ordinary_thm : forall c st i t sh,
  strict_reply c = true -> is_reply t = false ->
  deliver c st i t sh = (st, ordinary i t sh).
Proof.
  intros c st i t sh Hs Ht. unfold deliver.
  rewrite (try_layer_nonreply c st LCtl), (try_layer_nonreply c st LSend) by assumption.
  cbv beta iota.
  rewrite (try_layer_nonreply c st LRecv) by assumption.
  rewrite proto_recv_nonreply by assumption. rewrite ordinary_flat. reflexivity.
Qed.

(* ------------------------------------------------------------------ invariant: keys < next *)

Definition inv (st : state) : Prop :=
  (forall i e, lookup i (app st) = Some e -> (i < next st)%N) /\
  (forall l i e, lookup i (regs st l) = Some e -> (i < next st)%N).

Lemma inv_init : inv init.
Proof. split; cbn; intros; discriminate. Qed.

Lemma inv_unregistered st i : inv st -> (next st <= i)%N -> unregistered st i.
Proof.
  intros [Ia Ir] H. split.
  - destruct (lookup i (app st)) as [e|] eqn:E; [|reflexivity]. apply Ia in E. lia.
  - intro l. destruct (lookup i (regs st l)) as [e|] eqn:E; [|reflexivity]. apply Ir in E. lia.
Qed.

Lemma shrinks_inv j st st' : shrinks j st st' -> inv st -> inv st'.
Proof.
  intros S [Ia Ir].
  assert (Pj : present st' j -> (j < next st)%N).
  { intro P. apply (sh_present _ _ _ S) in P. destruct P as [H|[l H]].
    - destruct (lookup j (app st)) as [e|] eqn:E; [eapply Ia; eassumption|contradiction].
    - destruct (lookup j (regs st l)) as [e|] eqn:E; [eapply Ir; eassumption|contradiction]. }
  split.
  - intros i e H. rewrite (sh_next _ _ _ S). destruct (N.eq_dec i j) as [->|Hi].
    + apply Pj. left. rewrite H. discriminate.
    + destruct (shrinks_other _ _ _ S i Hi) as [A _]. rewrite A in H. eapply Ia; eassumption.
  - intros l i e H. rewrite (sh_next _ _ _ S). destruct (N.eq_dec i j) as [->|Hi].
    + apply Pj. right. exists l. rewrite H. discriminate.
    + destruct (shrinks_other _ _ _ S i Hi) as [_ A]. rewrite A in H. eapply Ir; eassumption.
Qed.

(* a request step: adds exactly key [next st], bumps the counter *)
Record grows (st st' : state) : Prop := {
  gr_next : next st' = N.succ (next st);
  gr_app : forall i, i <> next st -> lookup i (app st') = lookup i (app st);
  gr_regs : forall l i, i <> next st -> lookup i (regs st' l) = lookup i (regs st l)
}.

Lemma app_request_grows c st k hs he rt : grows st (fst (app_request c st k hs he rt)).
Proof.
  unfold app_request.
  set (st1 := mkstate (N.succ (next st)) (app st) (regs st)).
  destruct (reissue_touch c st1 (next st) (mkreq (next st) (OApp k)) hs he rt) as [T _].
  destruct (reissue c st1 (next st) (mkreq (next st) (OApp k)) hs he rt) as [st2 ev].
  cbn [fst] in *. constructor.
  - rewrite (to_next _ _ _ T). reflexivity.
  - intros i Hi. rewrite (to_app _ _ _ T i Hi). reflexivity.
  - intros l i Hi. rewrite (to_regs _ _ _ T l i Hi). reflexivity.
Qed.

Lemma lib_request_grows c st lk : grows st (fst (lib_request c st lk)).
Proof.
  unfold lib_request. destruct (lib_route c lk) as [l [s e]]. cbn [fst].
  constructor; cbn [set_reg next app regs]; auto.
  intros l' i Hi. destruct (layer_eqb l l') eqn:E; [|reflexivity].
  apply layer_eqb_eq in E. subst l'.
  rewrite lookup_cons. apply N.eqb_neq in Hi. rewrite Hi. reflexivity.
Qed.

Lemma grows_inv st st' :
  grows st st' ->
  (forall e, lookup (next st) (app st') = Some e -> True) ->
  inv st -> inv st'.
Proof.
  intros G _ [Ia Ir]. split.
  - intros i e H. rewrite (gr_next _ _ G).
    destruct (N.eq_dec i (next st)) as [->|Hi]; [lia|].
    rewrite (gr_app _ _ G i Hi) in H. apply Ia in H. lia.
  - intros l i e H. rewrite (gr_next _ _ G).
    destruct (N.eq_dec i (next st)) as [->|Hi]; [lia|].
    rewrite (gr_regs _ _ G l i Hi) in H. apply Ir in H. lia.
Qed.

Lemma request_events_no_cb i evs :
  Forall (fun e => match e with EvIssued _ | EvSent _ => True | _ => False end) evs ->
  app_cbs i evs = [] /\ lib_cbs i evs = [].
Proof.
  intro H. induction H as [|e evs He _ [IH1 IH2]]; [split; reflexivity|].
  unfold app_cbs, lib_cbs in *. cbn [flat_map]. rewrite IH1, IH2.
  destruct e; try contradiction; split; reflexivity.
Qed.

Lemma app_request_events c st k hs he rt :
  Forall (fun e => match e with EvIssued _ | EvSent _ => True | _ => False end)
         (snd (app_request c st k hs he rt)).
Proof.
  unfold app_request, reissue. cbn [rorigin].
  destruct (app_route c k); cbn [snd]; repeat constructor.
Qed.

Lemma lib_request_events c st lk :
  Forall (fun e => match e with EvIssued _ | EvSent _ => True | _ => False end)
         (snd (lib_request c st lk)).
Proof. unfold lib_request. destruct (lib_route c lk) as [l [s e]]; cbn [snd]; repeat constructor. Qed.

Lemma step_inv c st o : inv st -> inv (fst (step c st o)).
Proof.
  intro I. destruct o as [k hs he rt|lk|i t sh|i]; cbn [step].
  - eapply grows_inv; [apply app_request_grows|auto|exact I].
  - eapply grows_inv; [apply lib_request_grows|auto|exact I].
  - eapply shrinks_inv; [apply deliver_good|exact I].
  - exact I.
Qed.

Lemma run_cons c st o h :
  run c st (o :: h) =
  (fst (run c (fst (step c st o)) h), snd (step c st o) :: snd (run c (fst (step c st o)) h)).
Proof.
  cbn [run]. destruct (step c st o) as [st1 ev]. cbn [fst snd].
  destruct (run c st1 h) as [st2 evs]. reflexivity.
Qed.

Lemma events_cons c st o h :
  events c st (o :: h) = snd (step c st o) ++ events c (fst (step c st o)) h.
Proof. unfold events. rewrite run_cons. reflexivity. Qed.

Lemma final_cons c st o h : final c st (o :: h) = final c (fst (step c st o)) h.
Proof. unfold final. rewrite run_cons. reflexivity. Qed.

Lemma events_app c h1 : forall st h2,
  events c st (h1 ++ h2) = events c st h1 ++ events c (final c st h1) h2.
Proof.
  induction h1 as [|o h1 IH]; intros st h2.
  - reflexivity.
  - rewrite <- app_comm_cons, !events_cons, final_cons, IH, app_assoc. reflexivity.
Qed.

Lemma final_inv c h : forall st, inv st -> inv (final c st h).
Proof.
  induction h as [|o h IH]; intros st I; [exact I|].
  rewrite final_cons. apply IH, step_inv, I.
Qed.

(* ------------------------------------------------------------------ dead ids stay silent *)

(* i was issued before and is registered nowhere any more (or never was) *)
Definition dead (st : state) (i : N) : Prop := (i < next st)%N /\ unregistered st i.

Lemma dead_step c st o i :
  dead st i ->
  dead (fst (step c st o)) i /\
  app_cbs i (snd (step c st o)) = [] /\ lib_cbs i (snd (step c st o)) = [].
Proof.
  intros [Hlt [Ha Hr]]. destruct o as [k hs he rt|lk|j t sh|j]; cbn [step].
  - pose proof (app_request_grows c st k hs he rt) as G. split.
    + assert (Hi : i <> next st) by lia. split; [rewrite (gr_next _ _ G); lia|]. split.
      * rewrite (gr_app _ _ G i Hi). exact Ha.
      * intro l. rewrite (gr_regs _ _ G l i Hi). apply Hr.
    + apply request_events_no_cb, app_request_events.
  - pose proof (lib_request_grows c st lk) as G. split.
    + assert (Hi : i <> next st) by lia. split; [rewrite (gr_next _ _ G); lia|]. split.
      * rewrite (gr_app _ _ G i Hi). exact Ha.
      * intro l. rewrite (gr_regs _ _ G l i Hi). apply Hr.
    + apply request_events_no_cb, lib_request_events.
  - destruct (N.eq_dec i j) as [<-|Hij].
    + rewrite unknown_id_ordinary_thm by (split; assumption). cbn [fst snd].
      split; [split; [exact Hlt|split; assumption]|apply ordinary_no_cb].
    + pose proof (deliver_good c st j t sh) as [S F]. split.
      * destruct (shrinks_other _ _ _ S i Hij) as [A1 A2].
        split; [rewrite (sh_next _ _ _ S); exact Hlt|]. split.
        -- rewrite A1. exact Ha.
        -- intro l. rewrite A2. apply Hr.
      * apply (cbs_about_other i j); assumption.
  - cbn [fst snd]. split; [split; [exact Hlt|split; assumption]|split; reflexivity].
Qed.

Lemma dead_run c h : forall st i,
  dead st i -> app_cbs i (events c st h) = [] /\ lib_cbs i (events c st h) = [].
Proof.
  induction h as [|o h IH]; intros st i D; [split; reflexivity|].
  rewrite events_cons, app_cbs_app, lib_cbs_app.
  destruct (dead_step c st o i D) as [D' [E1 E2]].
  destruct (IH _ _ D') as [F1 F2]. rewrite E1, E2, F1, F2. split; reflexivity.
Qed.

(* ------------------------------------------------------------------ ids still in the future *)

Lemma next_mono_step c st o : (next st <= next (fst (step c st o)))%N.
Proof.
  destruct o as [k hs he rt|lk|j t sh|j]; cbn [step].
  - rewrite (gr_next _ _ (app_request_grows c st k hs he rt)). lia.
  - rewrite (gr_next _ _ (lib_request_grows c st lk)). lia.
  - destruct (deliver_good c st j t sh) as [S _]. rewrite (sh_next _ _ _ S). lia.
  - cbn [fst]. lia.
Qed.

Lemma next_mono_run c h : forall st, (next st <= next (final c st h))%N.
Proof.
  induction h as [|o h IH]; intro st; [unfold final; cbn; lia|].
  rewrite final_cons. pose proof (next_mono_step c st o). pose proof (IH (fst (step c st o))). lia.
Qed.

Lemma step_events_no_cb_unreg c st o i :
  unregistered st i -> app_cbs i (snd (step c st o)) = [] /\ lib_cbs i (snd (step c st o)) = [].
Proof.
  intro U. destruct o as [k hs he rt|lk|j t sh|j]; cbn [step].
  - apply request_events_no_cb, app_request_events.
  - apply request_events_no_cb, lib_request_events.
  - destruct (N.eq_dec i j) as [<-|Hij].
    + rewrite unknown_id_ordinary_thm by exact U. apply ordinary_no_cb.
    + destruct (deliver_good c st j t sh) as [_ F]. apply (cbs_about_other i j); assumption.
  - split; reflexivity.
Qed.

(* an id that has not been issued by the end of h got no callback during h *)
Lemma future_run c h : forall st i,
  inv st -> (next (final c st h) <= i)%N ->
  app_cbs i (events c st h) = [] /\ lib_cbs i (events c st h) = [].
Proof.
  induction h as [|o h IH]; intros st i I Hle; [split; reflexivity|].
  rewrite final_cons in Hle. rewrite events_cons, app_cbs_app, lib_cbs_app.
  assert (U : unregistered st i).
  { apply inv_unregistered; [exact I|].
    pose proof (next_mono_step c st o). pose proof (next_mono_run c h (fst (step c st o))). lia. }
  destruct (step_events_no_cb_unreg c st o i U) as [E1 E2].
  destruct (IH (fst (step c st o)) i (step_inv c st o I) Hle) as [F1 F2].
  rewrite E1, E2, F1, F2. split; reflexivity.
Qed.

Lemma NoDup_proto_order : NoDup proto_order.
Proof. unfold proto_order. repeat constructor; cbn; intuition discriminate. Qed.

Lemma all_akinds_complete k : In k all_akinds.
Proof. destruct k; cbn; tauto. Qed.

Lemma in_proto_In l : in_proto l = true -> In l proto_order.
Proof.
  unfold in_proto. rewrite existsb_exists. intros [x [Hx E]].
  apply layer_eqb_eq in E. subst x. exact Hx.
Qed.

(* ------------------------------------------------------------------ pending application requests *)

Lemma expected_seq_none i hs he r h : expected_seq i hs he r None h = [].
Proof. induction h as [|o h IH]; [reflexivity|]. destruct o; cbn [expected_seq]; exact IH. Qed.

Section Pending.
  Variable c : cfg.
  Variable i : N.
  Variable k : akind.
  Variable hs he : bool.
  Variable L : layer.

  Let r := mkreq i (OApp k).

  Definition pending (rt : retry) (st : state) : Prop :=
    (i < next st)%N /\
    lookup i (app st) = Some (mkentry r hs he rt) /\
    lookup i (regs st L) = Some (mkentry r true true no_retry) /\
    forall l, l <> L -> lookup i (regs st l) = None.

  (* what the first reply to a pending request produces: the entity at the interface layer, the
     callback (if given), and -- if that callback retries -- the same stanza going down again *)
  Definition reply_events (rt : retry) (t : ityp) : list event :=
    EvIface i t ::
    match which_of t with
    | Some w =>
      if cb_flag hs he w then
        EvApp i w r :: match next_retry hs he rt w with Some _ => [EvSent i] | None => [] end
      else []
    | None => []
    end.

  Definition after_reply (rt : retry) (t : ityp) : option retry :=
    match which_of t with Some w => next_retry hs he rt w | None => None end.

  (* pending again (the callback retried) or gone from every registry *)
  Definition settled (o : option retry) (st : state) : Prop :=
    match o with Some rt' => pending rt' st | None => dead st i end.

  Hypothesis Hstrict : strict_reply c = true.
  Hypothesis Hlate : late_delete c = false.
  Hypothesis Hlatei : late_delete_iface c = false.
  Hypothesis HR : app_route c k = RReg L true true.
  Hypothesis HL : in_proto L = true.
  Hypothesis Hsilent :
    forallb (fun l' => layer_eqb l' L ||
                       (hsilent l' TResult (shape_of k) && hsilent l' TError (shape_of k)))
            proto_order = true.

  Lemma L_not_axolotl : L <> LCtl /\ L <> LSend /\ L <> LRecv.
  Proof. destruct L; cbn in HL; try discriminate; repeat split; discriminate. Qed.

  Lemma settled_others o st : settled o st -> forall l, l <> L -> lookup i (regs st l) = None.
  Proof.
    destruct o as [rt'|]; cbn [settled].
    - intros [_ [_ [_ Ho]]]. exact Ho.
    - intros [_ [_ Hr]] l _. apply Hr.
  Qed.

  Lemma hsilent_handler st l t :
    is_reply t = true -> In l proto_order -> l <> L ->
    handler c st l i t (shape_of k) = (st, []).
  Proof.
    intros Ht Hin Hne.
    pose proof Hsilent as HS. rewrite forallb_forall in HS. specialize (HS l Hin).
    rewrite layer_eqb_neq in HS by exact Hne. cbn [orb] in HS.
    apply andb_prop in HS. destruct HS as [S1 S2].
    unfold handler. unfold hsilent in S1, S2.
    destruct l, (shape_of k); try reflexivity; destruct t; try reflexivity; discriminate.
  Qed.

  Lemma proto_recv_skip ls : forall st t,
    is_reply t = true -> (forall l, In l ls -> In l proto_order) -> ~ In L ls ->
    (forall l, l <> L -> lookup i (regs st l) = None) ->
    proto_recv c st ls i t (shape_of k) = (st, []).
  Proof.
    induction ls as [|l ls IH]; intros st t Ht Hsub HnL Hnone; cbn [proto_recv]; [reflexivity|].
    assert (Hl : l <> L) by (intro E; apply HnL; left; exact E).
    rewrite try_layer_unreg by (apply Hnone; exact Hl).
    rewrite hsilent_handler; [|exact Ht|apply Hsub; left; reflexivity|exact Hl].
    rewrite IH; [reflexivity|exact Ht| | |exact Hnone].
    - intros l' Hl'. apply Hsub. right. exact Hl'.
    - intro Hin. apply HnL. right. exact Hin.
  Qed.

  (* the first reply: entry removed BEFORE the dispatch at both levels, so a retry issued from
     inside the callback re-registers the id at both levels and stays registered *)
  Lemma try_layer_pending st rt t :
    pending rt st -> is_reply t = true ->
    exists st', try_layer c st L i t = Some (st', reply_events rt t) /\
                settled (after_reply rt t) st'.
  Proof.
    intros [Hlt [Ha [Hr Ho]]] Ht.
    set (st1 := set_reg st L (remove i (regs st L))).
    set (st2 := set_app st1 (remove i (app st1))).
    assert (D2 : dead st2 i).
    { split; [exact Hlt|]. split.
      - cbn [st2 set_app app]. rewrite lookup_remove, N.eqb_refl. reflexivity.
      - intro l. cbn [st2 set_app regs]. unfold st1. rewrite regs_set_reg.
        destruct (layer_eqb L l) eqn:E.
        + rewrite lookup_remove, N.eqb_refl. reflexivity.
        + apply Ho. intro E'. subst l. rewrite layer_eqb_refl in E. discriminate. }
    set (st3 := fun rt' =>
      set_reg (set_app st2 ((i, mkentry r hs he rt') :: app st2)) L
              ((i, mkentry r true true no_retry) :: regs st2 L)).
    assert (P3 : forall rt', pending rt' (st3 rt')).
    { intro rt'. split; [exact Hlt|]. split; [|split].
      - cbn [st3 set_reg set_app app]. rewrite lookup_cons, N.eqb_refl. reflexivity.
      - unfold st3. rewrite regs_set_reg, layer_eqb_refl, lookup_cons, N.eqb_refl. reflexivity.
      - intros l Hl. unfold st3. rewrite regs_set_reg.
        rewrite layer_eqb_neq by (intro E'; apply Hl; symmetry; exact E').
        cbn [set_app regs]. apply D2. }
    assert (TI : forall w,
      to_interface c st1 i (typ_of w) =
      if cb_flag hs he w then
        match next_retry hs he rt w with
        | Some rt' => (st3 rt', [EvIface i (typ_of w); EvApp i w r; EvSent i])
        | None => (st2, [EvIface i (typ_of w); EvApp i w r])
        end
      else (st2, [EvIface i (typ_of w)])).
    { intro w. unfold to_interface.
      assert (IC : iconsumes c (typ_of w) = true).
      { unfold iconsumes. destruct (strict_iface c), w; reflexivity. }
      rewrite IC. change (lookup i (app st1)) with (lookup i (app st)). rewrite Ha.
      cbn [ehs ehe ert ereq].
      replace (which_of (typ_of w)) with (Some w) by (destruct w; reflexivity).
      destruct (cb_flag hs he w); [|reflexivity].
      rewrite Hlatei. destruct (next_retry hs he rt w) as [rt'|]; [|reflexivity].
      unfold reissue. cbn [rorigin r]. rewrite HR. reflexivity. }
    unfold try_layer, consumes. rewrite Hstrict, Ht, Hr, Hlate. cbn [ehs ehe]. fold st1.
    unfold fire. cbn [ereq rorigin r].
    unfold reply_events, after_reply.
    destruct t; try discriminate; cbn [which_of].
    - rewrite (TI Success). cbn [typ_of cb_flag].
      destruct hs; [|exists st2; split; [reflexivity|exact D2]].
      destruct (next_retry true he rt Success) as [rt'|].
      + exists (st3 rt'). split; [reflexivity|apply P3].
      + exists st2. split; [reflexivity|exact D2].
    - rewrite (TI Error). cbn [typ_of cb_flag].
      destruct he; [|exists st2; split; [reflexivity|exact D2]].
      destruct (next_retry hs true rt Error) as [rt'|].
      + exists (st3 rt'). split; [reflexivity|apply P3].
      + exists st2. split; [reflexivity|exact D2].
  Qed.

  Lemma proto_recv_pending ls : forall st rt t,
    pending rt st -> is_reply t = true -> NoDup ls -> In L ls ->
    (forall l, In l ls -> In l proto_order) ->
    exists st', proto_recv c st ls i t (shape_of k) = (st', reply_events rt t) /\
                settled (after_reply rt t) st'.
  Proof.
    induction ls as [|l ls IH]; intros st rt t P Ht ND Hin Hsub; [contradiction|].
    cbn [proto_recv]. inversion ND as [|x xs Hnotin ND']; subst.
    destruct (layer_eqb l L) eqn:E.
    - apply layer_eqb_eq in E. subst l.
      destruct (try_layer_pending st rt t P Ht) as [st' [E1 D]]. rewrite E1.
      exists st'. split; [|exact D].
      rewrite proto_recv_skip; [rewrite app_nil_r; reflexivity|exact Ht| |exact Hnotin|].
      + intros l' Hl'. apply Hsub. right. exact Hl'.
      + exact (settled_others _ _ D).
    - assert (Hl : l <> L).
      { intro E'. subst l. rewrite layer_eqb_refl in E. discriminate. }
      pose proof P as [Hlt [Ha [Hr Ho]]].
      rewrite try_layer_unreg by (apply Ho; exact Hl).
      rewrite hsilent_handler; [|exact Ht|apply Hsub; left; reflexivity|exact Hl].
      destruct (IH st rt t P Ht ND') as [st' [E1 D]].
      + destruct Hin as [Hin|Hin]; [contradiction|exact Hin].
      + intros l' Hl'. apply Hsub. right. exact Hl'.
      + rewrite E1. exists st'. split; [reflexivity|exact D].
  Qed.

  Lemma deliver_pending st rt t :
    pending rt st -> is_reply t = true ->
    exists st', deliver c st i t (shape_of k) = (st', reply_events rt t) /\
                settled (after_reply rt t) st'.
  Proof.
    intros P Ht. destruct L_not_axolotl as [N1 [N2 N3]].
    pose proof P as [_ [_ [_ Ho]]].
    unfold deliver.
    rewrite (try_layer_unreg c st LCtl), (try_layer_unreg c st LSend)
      by (apply Ho; intro E; symmetry in E; contradiction).
    cbv beta iota.
    rewrite (try_layer_unreg c st LRecv) by (apply Ho; intro E; symmetry in E; contradiction).
    destruct (proto_recv_pending proto_order st rt t P Ht NoDup_proto_order (in_proto_In L HL))
      as [st' [E D]]; [auto|].
    rewrite E. exists st'. split; [reflexivity|exact D].
  Qed.

  Lemma app_cbs_reply rt t w :
    which_of t = Some w ->
    app_cbs i (reply_events rt t) = if cb_flag hs he w then [(w, r)] else [].
  Proof.
    intro Hw. unfold app_cbs, reply_events. rewrite Hw. cbn [flat_map app].
    destruct (cb_flag hs he w); [|reflexivity].
    cbn [flat_map]. rewrite N.eqb_refl.
    destruct (next_retry hs he rt w); reflexivity.
  Qed.

  Lemma pending_grows rt st st' : grows st st' -> pending rt st -> pending rt st'.
  Proof.
    intros G [Hlt [Ha [Hr Ho]]]. assert (Hi : i <> next st) by lia.
    split; [rewrite (gr_next _ _ G); lia|]. split; [|split].
    - rewrite (gr_app _ _ G i Hi). exact Ha.
    - rewrite (gr_regs _ _ G L i Hi). exact Hr.
    - intros l Hl. rewrite (gr_regs _ _ G l i Hi). apply Ho, Hl.
  Qed.

  Lemma pending_run h : forall rt st,
    pending rt st -> shaped i (shape_of k) h ->
    app_cbs i (events c st h) = expected_seq i hs he r (Some rt) h.
  Proof.
    induction h as [|o h IH]; intros rt st P Sh; [reflexivity|].
    rewrite events_cons, app_cbs_app.
    destruct o as [k' hs' he' rt'|lk|j t sh|j]; cbn [step].
    - destruct (request_events_no_cb i _ (app_request_events c st k' hs' he' rt')) as [E _].
      rewrite E. cbn [app expected_seq]. apply IH; [|exact Sh].
      eapply pending_grows; [apply app_request_grows|exact P].
    - destruct (request_events_no_cb i _ (lib_request_events c st lk)) as [E _].
      rewrite E. cbn [app expected_seq]. apply IH; [|exact Sh].
      eapply pending_grows; [apply lib_request_grows|exact P].
    - cbn [shaped] in Sh. destruct Sh as [Sh1 Sh2]. cbn [expected_seq].
      destruct (N.eqb i j) eqn:Eij.
      + apply N.eqb_eq in Eij. subst j.
        destruct (is_reply t) eqn:Ht.
        * rewrite (Sh1 eq_refl eq_refl).
          destruct (deliver_pending st rt t P Ht) as [st' [E D]]. rewrite E. cbn [fst snd].
          assert (Hw : exists w, which_of t = Some w) by (destruct t; try discriminate; eexists; reflexivity).
          destruct Hw as [w Hw]. rewrite Hw, (app_cbs_reply rt t w Hw).
          f_equal. unfold after_reply in D. rewrite Hw in D.
          destruct (next_retry hs he rt w) as [rt2|]; cbn [settled] in D.
          -- apply IH; assumption.
          -- rewrite expected_seq_none. apply (dead_run c h st' i D).
        * rewrite nonreply_ordinary_thm by assumption. cbn [fst snd].
          destruct (ordinary_no_cb i i t sh) as [E _]. rewrite E. cbn [app].
          replace (which_of t) with (@None which) by (destruct t; try discriminate; reflexivity).
          apply IH; assumption.
      + assert (Hij : i <> j) by (apply N.eqb_neq; exact Eij).
        destruct (deliver_good c st j t sh) as [S F].
        destruct (cbs_about_other i j _ Hij F) as [E _]. rewrite E. cbn [app].
        replace (match which_of t with
                 | Some _ => expected_seq i hs he r (Some rt) h
                 | None => expected_seq i hs he r (Some rt) h
                 end) with (expected_seq i hs he r (Some rt) h) by (destruct (which_of t); reflexivity).
        apply IH; [|exact Sh2].
        destruct P as [Hlt [Ha [Hr Ho]]].
        destruct (shrinks_other _ _ _ S i Hij) as [A1 A2].
        split; [rewrite (sh_next _ _ _ S); exact Hlt|]. split; [|split].
        -- rewrite A1. exact Ha.
        -- rewrite A2. exact Hr.
        -- intros l Hl. rewrite A2. apply Ho, Hl.
    - cbn [fst snd app expected_seq]. apply IH; assumption.
  Qed.
End Pending.

Lemma kind_ok_route c k :
  kind_ok c k = true ->
  exists L, app_route c k = RReg L true true /\ in_proto L = true /\
            forallb (fun l' => layer_eqb l' L ||
                               (hsilent l' TResult (shape_of k) && hsilent l' TError (shape_of k)))
                    proto_order = true.
Proof.
  unfold kind_ok. destruct (app_route c k) as [l s e|l|]; try discriminate.
  destruct s, e; try discriminate. intro H. apply andb_prop in H. destruct H as [H1 H2].
  exists l. repeat split; assumption.
Qed.

Lemma cfg_ok_parts c :
  cfg_ok c = true ->
  strict_reply c = true /\ late_delete c = false /\ late_delete_iface c = false /\
  forall k, in_domain k = true -> kind_ok c k = true.
Proof.
  unfold cfg_ok. intro H.
  apply andb_prop in H. destruct H as [H H4].
  apply andb_prop in H. destruct H as [H _].
  apply andb_prop in H. destruct H as [H _].
  apply andb_prop in H. destruct H as [H H3].
  apply andb_prop in H. destruct H as [H1 H2].
  repeat split; try assumption.
  - destruct (late_delete c); [discriminate|reflexivity].
  - destruct (late_delete_iface c); [discriminate|reflexivity].
  - intros k D. rewrite forallb_forall in H4. specialize (H4 k (all_akinds_complete k)).
    rewrite D in H4. exact H4.
Qed.

Lemma cfg_ok_kind c k : cfg_ok c = true -> in_domain k = true -> kind_ok c k = true.
Proof. intros H D. apply (cfg_ok_parts c H); exact D. Qed.

Lemma cfg_ok_strict c : cfg_ok c = true -> strict_reply c = true.
Proof. intro H. apply (cfg_ok_parts c H). Qed.

(* both _sendIq functions register the request before handing it down *)
Lemma cfg_ok_reg_first c : cfg_ok c = true -> reg_first c = true /\ reg_first_iface c = true.
Proof.
  unfold cfg_ok. intro H.
  apply andb_prop in H. destruct H as [H _].
  apply andb_prop in H. destruct H as [H H2].
  apply andb_prop in H. destruct H as [_ H1].
  split; assumption.
Qed.

(* THE correlation theorem, application level, WITH retries issued from inside callbacks.
   For every routing table in which kind k is transported faithfully and both registries remove
   the entry before dispatching, every history pre ++ [request of kind k] ++ post, where the
   request's callbacks may re-issue the SAME request (same id) up to [budget rt] times (on
   success if [rs rt], on error if [re rt]): the application callbacks invoked for the request's
   id are exactly [expected_seq]: every issue and every re-issue gets exactly the callback of the
   first result/error reply after THAT issue, with the original request attached -- whatever
   else happens before, in between and after. *)
Theorem app_exactly_once_retry_kind_thm : forall c k,
  strict_reply c = true -> late_delete c = false -> late_delete_iface c = false ->
  kind_ok c k = true ->
  forall pre hs he rt post,
  let i := next (final c init pre) in
  shaped i (shape_of k) post ->
  app_cbs i (events c init (pre ++ AppRequest k hs he rt :: post)) =
  expected_seq i hs he (mkreq i (OApp k)) (Some rt) post.
Proof.
  intros c k Hs Hl Hli Hk pre hs he rt post i Sh.
  destruct (kind_ok_route c k Hk) as [L [HR [HL HS]]].
  rewrite events_app, app_cbs_app.
  pose proof (final_inv c pre init inv_init) as I. fold i in I.
  destruct (future_run c pre init i inv_init) as [E _]; [subst i; lia|]. rewrite E. cbn [app].
  rewrite events_cons, app_cbs_app. cbn [step].
  destruct (request_events_no_cb i _ (app_request_events c (final c init pre) k hs he rt)) as [E2 _].
  rewrite E2. cbn [app].
  apply (pending_run c i k hs he L Hs Hl Hli HR HL HS); [|exact Sh].
  set (stp := final c init pre) in *.
  assert (U : unregistered stp i) by (apply inv_unregistered; [exact I|subst i; lia]).
  destruct U as [Ua Ur].
  unfold app_request, reissue. cbn [rorigin]. rewrite HR. cbn [fst]. fold i.
  split; [cbn [set_reg set_app next]; lia|]. split; [|split].
  - cbn [set_reg set_app app]. rewrite lookup_cons, N.eqb_refl. reflexivity.
  - rewrite regs_set_reg, layer_eqb_refl, lookup_cons, N.eqb_refl. reflexivity.
  - intros l Hl'. rewrite regs_set_reg.
    rewrite layer_eqb_neq by (intro E'; apply Hl'; symmetry; exact E').
    cbn [set_app regs]. apply Ur.
Qed.

Theorem app_exactly_once_retry_thm : forall c, cfg_ok c = true ->
  forall pre k hs he rt post,
  in_domain k = true ->
  let i := next (final c init pre) in
  shaped i (shape_of k) post ->
  app_cbs i (events c init (pre ++ AppRequest k hs he rt :: post)) =
  expected_seq i hs he (mkreq i (OApp k)) (Some rt) post.
Proof.
  intros c H pre k hs he rt post D.
  destruct (cfg_ok_parts c H) as [H1 [H2 [H3 H4]]].
  apply app_exactly_once_retry_kind_thm; auto.
Qed.

(* without retries the expected sequence is the single callback of the first reply *)
Lemma expected_seq_no_retry i hs he r h :
  expected_seq i hs he r (Some no_retry) h = expected hs he (first_reply i h) r.
Proof.
  induction h as [|o h IH]; [reflexivity|].
  destruct o as [k' hs' he' rt'|lk|j t sh|j]; cbn [expected_seq first_reply]; try exact IH.
  destruct t; cbn [which_of]; try exact IH.
  - destruct (N.eqb i j); [|exact IH].
    unfold next_retry. cbn [retry_flag no_retry rs]. rewrite andb_false_r.
    rewrite expected_seq_none, app_nil_r. reflexivity.
  - destruct (N.eqb i j); [|exact IH].
    unfold next_retry. cbn [retry_flag no_retry re]. rewrite andb_false_r.
    rewrite expected_seq_none, app_nil_r. reflexivity.
Qed.

Theorem app_exactly_once_kind_thm : forall c k,
  strict_reply c = true -> late_delete c = false -> late_delete_iface c = false ->
  kind_ok c k = true ->
  forall pre hs he post,
  let i := next (final c init pre) in
  shaped i (shape_of k) post ->
  app_cbs i (events c init (pre ++ AppRequest k hs he no_retry :: post)) =
  expected hs he (first_reply i post) (mkreq i (OApp k)).
Proof.
  intros c k H1 H2 H3 H4 pre hs he post i Sh.
  rewrite <- expected_seq_no_retry. apply app_exactly_once_retry_kind_thm; assumption.
Qed.

Theorem app_exactly_once_thm : forall c, cfg_ok c = true ->
  forall pre k hs he post,
  in_domain k = true ->
  let i := next (final c init pre) in
  shaped i (shape_of k) post ->
  app_cbs i (events c init (pre ++ AppRequest k hs he no_retry :: post)) =
  expected hs he (first_reply i post) (mkreq i (OApp k)).
Proof.
  intros c H pre k hs he post D i Sh.
  rewrite <- expected_seq_no_retry. apply app_exactly_once_retry_thm; assumption.
Qed.

(* ------------------------------------------------------------------ library-internal requests *)

Section PendingLib.
  Variable c : cfg.
  Variable i : N.
  Variable lk : lkind.
  Variable s e : bool.
  Variable L : layer.

  Let r := mkreq i (OLib lk).

  Hypothesis Hlk : lk <> LKPing.   (* the keep-alive ping's callbacks forward upward instead *)

  Definition pendingL (st : state) : Prop :=
    (i < next st)%N /\
    lookup i (app st) = None /\
    lookup i (regs st L) = Some (mkentry r s e no_retry) /\
    forall l, l <> L -> lookup i (regs st l) = None.

  Definition lib_events (t : ityp) : list event :=
    match t with
    | TResult => if s then [EvLib i lk Success r] else []
    | TError => if e then [EvLib i lk Error r] else []
    | _ => []
    end.

  Hypothesis Hstrict : strict_reply c = true.

  Lemma try_layer_pendingL st t :
    pendingL st -> is_reply t = true ->
    exists st', try_layer c st L i t = Some (st', lib_events t) /\ dead st' i.
  Proof.
    intros [Hlt [Ha [Hr Ho]]] Ht.
    exists (set_reg st L (remove i (regs st L))). split.
    - unfold try_layer, consumes. rewrite Hstrict, Ht, Hr. cbn [ehs ehe]. unfold lib_events, fire.
      cbn [ereq rorigin r].
      destruct t; try discriminate; [destruct s|destruct e]; destruct (late_delete c);
        destruct lk; try contradiction; reflexivity.
    - split; [exact Hlt|]. split; [exact Ha|].
      intro l. rewrite regs_set_reg. destruct (layer_eqb L l) eqn:E.
      + rewrite lookup_remove, N.eqb_refl. reflexivity.
      + apply Ho. intro E'. subst l. rewrite layer_eqb_refl in E. discriminate.
  Qed.

  Lemma hevents_no_cb ls j t sh :
    lib_cbs i (flat_map (fun l => hevents l j t sh) ls) = [].
  Proof.
    induction ls as [|l ls IH]; [reflexivity|].
    cbn [flat_map]. rewrite lib_cbs_app, IH, app_nil_r.
    unfold hevents. destruct l, sh; try reflexivity; destruct t; reflexivity.
  Qed.

  Lemma lib_cbs_reply t :
    is_reply t = true ->
    lib_cbs i (lib_events t) =
    expected s e (match t with TResult => Some Success | _ => Some Error end) r.
  Proof.
    intro Ht. unfold lib_cbs, lib_events, expected.
    destruct t; try discriminate; [destruct s|destruct e]; cbn [flat_map app];
      rewrite ?N.eqb_refl; reflexivity.
  Qed.

  Lemma proto_recv_pendingL ls : forall st t sh,
    pendingL st -> is_reply t = true -> In L ls ->
    exists st' evs, proto_recv c st ls i t sh = (st', evs) /\ dead st' i /\
                    lib_cbs i evs = lib_cbs i (lib_events t).
  Proof.
    induction ls as [|l ls IH]; intros st t sh P Ht Hin; [contradiction|].
    cbn [proto_recv].
    destruct (layer_eqb l L) eqn:E.
    - apply layer_eqb_eq in E. subst l.
      destruct (try_layer_pendingL st t P Ht) as [st' [E1 D]]. rewrite E1.
      rewrite proto_recv_unreg by apply D.
      exists st', (lib_events t ++ flat_map (fun l => hevents l i t sh) ls).
      split; [reflexivity|]. split; [exact D|].
      rewrite lib_cbs_app, hevents_no_cb, app_nil_r. reflexivity.
    - assert (Hl : l <> L).
      { intro E'. subst l. rewrite layer_eqb_refl in E. discriminate. }
      pose proof P as [Hlt [Ha [Hr Ho]]].
      rewrite try_layer_unreg by (apply Ho; exact Hl).
      rewrite handler_unreg by exact Ha.
      destruct Hin as [Hin|Hin]; [contradiction|].
      destruct (IH st t sh P Ht Hin) as [st' [evs [E1 [D C]]]]. rewrite E1.
      exists st', (hevents l i t sh ++ evs). split; [reflexivity|]. split; [exact D|].
      rewrite lib_cbs_app, C.
      replace (lib_cbs i (hevents l i t sh)) with (@nil (which * request)); [reflexivity|].
      unfold hevents. destruct l, sh; try reflexivity; destruct t; reflexivity.
  Qed.

  Lemma deliver_pendingL st t sh :
    pendingL st -> is_reply t = true ->
    (L = LCtl \/ L = LSend \/ L = LRecv \/ In L proto_order) ->
    exists st' evs, deliver c st i t sh = (st', evs) /\ dead st' i /\
                    lib_cbs i evs = lib_cbs i (lib_events t).
  Proof.
    intros P Ht HL. pose proof P as [Hlt [Ha [Hr Ho]]]. unfold deliver.
    destruct (try_layer_pendingL st t P Ht) as [st' [E1 D]].
    destruct HL as [E|[E|[E|HL]]].
    - rewrite E in E1. rewrite E1.
      exists st', (lib_events t). auto.
    - rewrite (try_layer_unreg c st LCtl) by (apply Ho; rewrite E; discriminate).
      rewrite E in E1. rewrite E1.
      rewrite (try_layer_unreg c st' LRecv) by apply D.
      rewrite proto_recv_unreg by apply D.
      eexists _, _. split; [reflexivity|]. split; [exact D|].
      rewrite lib_cbs_app, hevents_no_cb, app_nil_r. reflexivity.
    - rewrite (try_layer_unreg c st LCtl), (try_layer_unreg c st LSend)
        by (apply Ho; rewrite E; discriminate).
      cbv beta iota.
      rewrite E in E1. rewrite E1.
      eexists _, _. split; [reflexivity|]. split; [exact D|reflexivity].
    - assert (N1 : L <> LCtl /\ L <> LSend /\ L <> LRecv).
      { unfold proto_order in HL. cbn in HL. repeat split; intro E; rewrite E in HL; intuition discriminate. }
      destruct N1 as [N1 [N2 N3]].
      rewrite (try_layer_unreg c st LCtl), (try_layer_unreg c st LSend)
        by (apply Ho; intro E; symmetry in E; contradiction).
      cbv beta iota.
      rewrite (try_layer_unreg c st LRecv) by (apply Ho; intro E; symmetry in E; contradiction).
      clear st' E1 D.
      destruct (proto_recv_pendingL proto_order st t sh P Ht HL) as [st' [evs [E1 [D C]]]].
      rewrite E1. eexists _, _. split; [reflexivity|]. split; [exact D|exact C].
  Qed.

  Lemma pendingL_grows st st' : grows st st' -> pendingL st -> pendingL st'.
  Proof.
    intros G [Hlt [Ha [Hr Ho]]]. assert (Hi : i <> next st) by lia.
    split; [rewrite (gr_next _ _ G); lia|]. split; [|split].
    - rewrite (gr_app _ _ G i Hi). exact Ha.
    - rewrite (gr_regs _ _ G L i Hi). exact Hr.
    - intros l Hl. rewrite (gr_regs _ _ G l i Hi). apply Ho, Hl.
  Qed.

  Hypothesis HLwhere : L = LCtl \/ L = LSend \/ L = LRecv \/ In L proto_order.

  Lemma pendingL_run h : forall st,
    pendingL st -> lib_cbs i (events c st h) = expected s e (first_reply i h) r.
  Proof.
    induction h as [|o h IH]; intros st P; [reflexivity|].
    rewrite events_cons, lib_cbs_app.
    destruct o as [k' hs' he' rt'|lk'|j t sh|j]; cbn [step].
    - destruct (request_events_no_cb i _ (app_request_events c st k' hs' he' rt')) as [_ E].
      rewrite E. cbn [app first_reply]. apply IH.
      eapply pendingL_grows; [apply app_request_grows|exact P].
    - destruct (request_events_no_cb i _ (lib_request_events c st lk')) as [_ E].
      rewrite E. cbn [app first_reply]. apply IH.
      eapply pendingL_grows; [apply lib_request_grows|exact P].
    - destruct (N.eqb i j) eqn:Eij.
      + apply N.eqb_eq in Eij. subst j.
        destruct (is_reply t) eqn:Ht.
        * destruct (deliver_pendingL st t sh P Ht HLwhere) as [st' [evs [E1 [D C]]]].
          rewrite E1. cbn [fst snd].
          destruct (dead_run c h st' i D) as [_ F]. rewrite F, app_nil_r, C.
          rewrite lib_cbs_reply by exact Ht.
          destruct t; try discriminate; cbn [first_reply]; rewrite N.eqb_refl; reflexivity.
        * rewrite nonreply_ordinary_thm by assumption. cbn [fst snd].
          destruct (ordinary_no_cb i i t sh) as [_ E]. rewrite E. cbn [app].
          rewrite (IH st P). destruct t; try discriminate; reflexivity.
      + assert (Hij : i <> j) by (apply N.eqb_neq; exact Eij).
        destruct (deliver_good c st j t sh) as [S F].
        destruct (cbs_about_other i j _ Hij F) as [_ E]. rewrite E. cbn [app].
        rewrite IH.
        * destruct t; cbn [first_reply]; rewrite ?Eij; reflexivity.
        * destruct P as [Hlt [Ha [Hr Ho]]].
          destruct (shrinks_other _ _ _ S i Hij) as [A1 A2].
          split; [rewrite (sh_next _ _ _ S); exact Hlt|]. split; [|split].
          -- rewrite A1. exact Ha.
          -- rewrite A2. exact Hr.
          -- intros l Hl. rewrite A2. apply Ho, Hl.
    - cbn [fst snd app first_reply]. apply IH; assumption.
  Qed.
End PendingLib.

Lemma layer_where L : L = LCtl \/ L = LSend \/ L = LRecv \/ In L proto_order.
Proof. destruct L; cbn; tauto. Qed.

(* Library level: whatever layer issues the request (control, send, receive or a protocol
   layer), with whatever callbacks (s, e) it registers: the closure callbacks invoked for its
   id are exactly the one matching the first reply, with the original request, if registered. *)
Theorem lib_exactly_once_thm : forall c, strict_reply c = true ->
  forall pre lk post, lk <> LKPing ->
  let i := next (final c init pre) in
  let s := fst (snd (lib_route c lk)) in
  let e := snd (snd (lib_route c lk)) in
  lib_cbs i (events c init (pre ++ LibRequest lk :: post)) =
  expected s e (first_reply i post) (mkreq i (OLib lk)).
Proof.
  intros c Hs pre lk post Hlk i s e.
  rewrite events_app, lib_cbs_app.
  pose proof (final_inv c pre init inv_init) as I. fold i in I.
  destruct (future_run c pre init i inv_init) as [_ E]; [subst i; lia|]. rewrite E. cbn [app].
  rewrite events_cons, lib_cbs_app. cbn [step].
  destruct (request_events_no_cb i _ (lib_request_events c (final c init pre) lk)) as [_ E2].
  rewrite E2. cbn [app].
  set (stp := final c init pre) in *.
  assert (U : unregistered stp i) by (apply inv_unregistered; [exact I|subst i; lia]).
  destruct U as [Ua Ur].
  subst s e. unfold lib_request. fold i.
  destruct (lib_route c lk) as [L [s e]]. cbn [fst snd].
  apply (pendingL_run c i lk s e L Hlk Hs (layer_where L)).
  split; [cbn [set_reg next]; lia|]. split; [|split].
  - cbn [set_reg app]. exact Ua.
  - rewrite regs_set_reg, layer_eqb_refl, lookup_cons, N.eqb_refl. reflexivity.
  - intros l Hl. rewrite regs_set_reg.
    rewrite layer_eqb_neq by (intro E'; apply Hl; symmetry; exact E').
    cbn [regs]. apply Ur.
Qed.

(* ------------------------------------------------------------------ never-issued ids, id uniqueness *)

(* ids outside the issued range [1, next) never get any callback, at either level *)
Theorem never_issued_thm : forall c h j,
  (j = 0 \/ next (final c init h) <= j)%N ->
  app_cbs j (events c init h) = [] /\ lib_cbs j (events c init h) = [].
Proof.
  intros c h j [->|H].
  - apply dead_run. split; [cbn; lia|]. split; [reflexivity|intro l; reflexivity].
  - apply future_run; [apply inv_init|exact H].
Qed.

Lemma issued_ids_app a b : issued_ids (a ++ b) = issued_ids a ++ issued_ids b.
Proof. unfold issued_ids. apply flat_map_app. Qed.

Lemma issued_about j evs : Forall (ev_about j) evs -> issued_ids evs = [].
Proof.
  intro H. induction H as [|e evs He _ IH]; [reflexivity|].
  unfold issued_ids in *. cbn [flat_map]. rewrite IH. destruct e; try reflexivity; contradiction.
Qed.

Lemma step_issued c st o :
  issued_ids (snd (step c st o)) =
  match o with AppRequest _ _ _ _ | LibRequest _ => [next st] | _ => [] end /\
  next (fst (step c st o)) =
  match o with AppRequest _ _ _ _ | LibRequest _ => N.succ (next st) | _ => next st end.
Proof.
  destruct o as [k hs he rt|lk|j t sh|j]; cbn [step].
  - split; [|apply (gr_next _ _ (app_request_grows c st k hs he rt))].
    unfold app_request, reissue. cbn [rorigin]. destruct (app_route c k); reflexivity.
  - split; [|apply (gr_next _ _ (lib_request_grows c st lk))].
    unfold lib_request. destruct (lib_route c lk) as [l [s e]]. reflexivity.
  - destruct (deliver_good c st j t sh) as [S F]. split.
    + apply (issued_about j), F.
    + apply (sh_next _ _ _ S).
  - split; reflexivity.
Qed.

Lemma issued_range c h : forall st x,
  In x (issued_ids (events c st h)) -> (next st <= x < next (final c st h))%N.
Proof.
  induction h as [|o h IH]; intros st x Hin; [contradiction|].
  rewrite events_cons, issued_ids_app in Hin. rewrite final_cons.
  destruct (step_issued c st o) as [E1 E2].
  pose proof (next_mono_run c h (fst (step c st o))) as M.
  apply in_app_or in Hin. destruct Hin as [Hin|Hin].
  - rewrite E1 in Hin. destruct o; try contradiction;
      (destruct Hin as [<-|[]]; rewrite E2 in M; lia).
  - apply IH in Hin. pose proof (next_mono_step c st o). lia.
Qed.

(* the process-wide counter never hands out the same id twice (single-threaded histories) *)
Theorem ids_unique_thm : forall c h,
  NoDup (issued_ids (events c init h)) /\
  forall x, In x (issued_ids (events c init h)) -> (1 <= x < next (final c init h))%N.
Proof.
  intros c h. split; [|intros x Hx; apply (issued_range c h init x Hx)].
  generalize init. induction h as [|o h IH]; intro st; [constructor|].
  rewrite events_cons, issued_ids_app.
  destruct (step_issued c st o) as [E1 E2]. rewrite E1.
  destruct o; cbn [app]; try apply IH;
    (constructor; [|apply IH]; intro Hin; apply issued_range in Hin; rewrite E2 in Hin; lia).
Qed.

(* ------------------------------------------------------------------ non-vacuity, and the unrepaired tree *)

(* the routing of the tree WITH the C08 fixes (what Gen/C08Table.v is expected to say) *)
Definition route_repaired (k : akind) : route :=
  match k with
  | KPing => RReg LIq true true
  | KGList | KGParts => RReg LGroups true true
  | KSync => RReg LContacts true true
  | _ => route_unrepaired k
  end.
Definition lib_route_repaired (lk : lkind) : layer * (bool * bool) :=
  match lk with LKPing => (LIq, (true, true)) | _ => lib_route_unrepaired lk end.
Definition cfg_repaired : cfg := mkcfg route_repaired lib_route_repaired true true false false true true.

Example cfg_repaired_ok : cfg_ok cfg_repaired = true.
Proof. vm_compute. reflexivity. Qed.

(* a non-trivial history satisfying every hypothesis: replies before the request, interleaved
   requests, a get with the pending id, error first then a late result, a duplicate *)
Example nonvacuous :
  let pre := [Deliver 2 TResult ShPlain; AppRequest KSync true true no_retry] in
  let post := [LibRequest LKFetchSend; Deliver 2 TGet ShSPing; Deliver 1 TResult ShSync;
               Deliver 2 TError ShPlain; Deliver 2 TResult ShPlain; Deliver 2 TError ShPlain] in
  next (final cfg_repaired init pre) = 2%N /\
  shaped 2 (shape_of KPing) post /\
  app_cbs 2 (events cfg_repaired init (pre ++ AppRequest KPing true true no_retry :: post)) =
  [(Error, mkreq 2 (OApp KPing))] /\
  app_cbs 1 (events cfg_repaired init (pre ++ AppRequest KPing true true no_retry :: post)) =
  [(Success, mkreq 1 (OApp KSync))].
Proof. vm_compute. repeat split; intros; try reflexivity; discriminate. Qed.

(* ... and with retries: the error callback re-issues the request (budget 2, on error only):
   error -> retry, duplicate error answers the retry -> second retry, result answers that one,
   later replies are ordinary; the stanza went down three times *)
Example nonvacuous_retry :
  let rt := mkretry false true 2 in
  let post := [Deliver 1 TError ShPlain; Deliver 1 TGet ShSPing; Deliver 1 TError ShPlain;
               Deliver 1 TResult ShPlain; Deliver 1 TError ShPlain; Deliver 1 TResult ShPlain] in
  let r := mkreq 1 (OApp KLastSeen) in
  shaped 1 (shape_of KLastSeen) post /\
  expected_seq 1 true true r (Some rt) post = [(Error, r); (Error, r); (Success, r)] /\
  app_cbs 1 (events cfg_repaired init ([] ++ AppRequest KLastSeen true true rt :: post)) =
  [(Error, r); (Error, r); (Success, r)] /\
  length (filter (fun e => match e with EvSent 1 => true | _ => false end)
                 (events cfg_repaired init (AppRequest KLastSeen true true rt :: post))) = 3%nat.
Proof. vm_compute. repeat split; intros; try reflexivity; discriminate. Qed.

(* On the tree as pinned BEFORE the fixes the property is false; the witnesses are kept so
   that a regression shows up as a failing proof of [kind_ok]/[cfg_ok] for the generated table
   and as a failing history in the harness (corpus/C08). *)
Definition refutes (c : cfg) (k : akind) (post : list op) : Prop :=
  shaped 1 (shape_of k) post /\
  app_cbs 1 (events c init ([] ++ AppRequest k true true no_retry :: post)) <>
  expected true true (first_reply 1 post) (mkreq 1 (OApp k)).

Lemma ping_error_refuted : refutes cfg_unrepaired KPing [Deliver 1 TError ShPlain].
Proof. split; [cbn; auto|vm_compute; discriminate]. Qed.

Lemma group_list_error_refuted : refutes cfg_unrepaired KGList [Deliver 1 TError ShPlain].
Proof. split; [cbn; auto|vm_compute; discriminate]. Qed.

Lemma group_participants_error_refuted : refutes cfg_unrepaired KGParts [Deliver 1 TError ShPlain].
Proof. split; [cbn; auto|vm_compute; discriminate]. Qed.

(* contact sync: the error reaches nobody, and a later result then fires SUCCESS *)
Lemma contact_sync_error_refuted :
  refutes cfg_unrepaired KSync [Deliver 1 TError ShSync] /\
  refutes cfg_unrepaired KSync [Deliver 1 TError ShSync; Deliver 1 TResult ShSync].
Proof. split; (split; [cbn; auto|vm_compute; discriminate]). Qed.

(* a get/set stanza carrying a pending id silently cancels the request (any kind) *)
Lemma nonreply_consumes_refuted :
  refutes cfg_unrepaired KLastSeen [Deliver 1 TGet ShSPing; Deliver 1 TResult ShPlain] /\
  refutes (mkcfg route_repaired lib_route_repaired false true false false true true) KLastSeen
          [Deliver 1 TSet ShPlain; Deliver 1 TResult ShPlain].
Proof. split; (split; [cbn; intuition discriminate|vm_compute; discriminate]). Qed.

(* the unrepaired table is exactly what [cfg_ok] rejects, kind by kind *)
Lemma unrepaired_kinds :
  filter (fun k => in_domain k && negb (kind_ok cfg_unrepaired k)) all_akinds =
  [KPing; KGList; KGParts; KSync].
Proof. vm_compute. reflexivity. Qed.

(* Removing the registry entry AFTER the callback dispatch (seeded regression C08-1; either
   level): the re-registration a retrying callback makes is deleted by the late removal, and
   the reply to the retry reaches no callback.  Without retries the variant is indistinguishable. *)
Definition refutes_retry (c : cfg) (k : akind) (rt : retry) (post : list op) : Prop :=
  shaped 1 (shape_of k) post /\
  app_cbs 1 (events c init ([] ++ AppRequest k true true rt :: post)) <>
  expected_seq 1 true true (mkreq 1 (OApp k)) (Some rt) post.

Definition cfg_late_proto : cfg := mkcfg route_repaired lib_route_repaired true true true false true true.
Definition cfg_late_iface : cfg := mkcfg route_repaired lib_route_repaired true true false true true true.

Lemma delete_after_dispatch_refuted :
  (* retry on error, then the result for the retry is lost *)
  refutes_retry cfg_late_proto KLastSeen (mkretry false true 1)
                [Deliver 1 TError ShPlain; Deliver 1 TResult ShPlain] /\
  (* retry on success (poll again), second result lost *)
  refutes_retry cfg_late_proto KGList (mkretry true false 1)
                [Deliver 1 TResult ShPlain; Deliver 1 TResult ShPlain] /\
  (* the same defect in the interface layer's registry *)
  refutes_retry cfg_late_iface KLastSeen (mkretry false true 1)
                [Deliver 1 TError ShPlain; Deliver 1 TResult ShPlain] /\
  (* after the lost reply the application entry is still registered: the request hangs *)
  lookup 1 (app (final cfg_late_proto init
                   [AppRequest KLastSeen true true (mkretry false true 1);
                    Deliver 1 TError ShPlain; Deliver 1 TResult ShPlain])) <> None.
Proof.
  repeat split; try (cbn; intuition discriminate); vm_compute; discriminate.
Qed.
