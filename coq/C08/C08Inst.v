(* C08 -- the general theorems instantiated with the routing table regenerated from the source
   (Gen/C08Table.v).  [gen_cfg_ok] is the obligation the generated table must meet: every request
   kind of the property's domain is registered by a protocol layer with both callbacks, no
   other layer reacts to its replies, processIqRegistry consumes only result/error and removes
   the entry BEFORE dispatching the callback (both levels), and both _sendIq functions put the
   request into the registry BEFORE handing it down. *)
From YV Require Import Common.Tac C08.C08Model C08.C08Proofs C08.C08Ping C08.C08Sync Gen.C08Table.

Lemma gen_cfg_ok : cfg_ok gen_cfg = true.
Proof. vm_compute. reflexivity. Qed.

Lemma gen_strict : strict_reply gen_cfg = true.
Proof. exact (cfg_ok_strict gen_cfg gen_cfg_ok). Qed.

Theorem gen_app_exactly_once_thm : forall pre k hs he post,
  in_domain k = true ->
  let i := next (final gen_cfg init pre) in
  shaped i (shape_of k) post ->
  app_cbs i (events gen_cfg init (pre ++ AppRequest k hs he no_retry :: post)) =
  expected hs he (first_reply i post) (mkreq i (OApp k)).
Proof. exact (app_exactly_once_thm gen_cfg gen_cfg_ok). Qed.

Theorem gen_app_exactly_once_retry_thm : forall pre k hs he rt post,
  in_domain k = true ->
  let i := next (final gen_cfg init pre) in
  shaped i (shape_of k) post ->
  app_cbs i (events gen_cfg init (pre ++ AppRequest k hs he rt :: post)) =
  expected_seq i hs he (mkreq i (OApp k)) (Some rt) post.
Proof. exact (app_exactly_once_retry_thm gen_cfg gen_cfg_ok). Qed.

Theorem gen_lib_exactly_once_thm : forall pre lk post, lk <> LKPing ->
  let i := next (final gen_cfg init pre) in
  let s := fst (snd (lib_route gen_cfg lk)) in
  let e := snd (snd (lib_route gen_cfg lk)) in
  lib_cbs i (events gen_cfg init (pre ++ LibRequest lk :: post)) =
  expected s e (first_reply i post) (mkreq i (OLib lk)).
Proof. exact (lib_exactly_once_thm gen_cfg gen_strict). Qed.

Theorem gen_nonreply_ordinary_thm : forall st i t sh,
  is_reply t = false -> deliver gen_cfg st i t sh = (st, ordinary i t sh).
Proof. intros st i t sh. exact (nonreply_ordinary_thm gen_cfg st i t sh gen_strict). Qed.

Theorem gen_libping_forwarded_once_thm : forall pre post,
  let st := final gen_cfg init pre in
  let i := next st in
  let s := fst (snd (lib_route gen_cfg LKPing)) in
  let e := snd (snd (lib_route gen_cfg LKPing)) in
  shaped i ShPlain post ->
  iface_evs i (events gen_cfg (fst (step gen_cfg st (LibRequest LKPing))) post) =
  expected_iface s e (first_reply i post).
Proof. apply (libping_forwarded_once_thm gen_cfg gen_strict). vm_compute. reflexivity. Qed.

Theorem unrepaired_refuted_thm :
  refutes cfg_unrepaired KPing [Deliver 1 TError ShPlain] /\
  refutes cfg_unrepaired KGList [Deliver 1 TError ShPlain] /\
  refutes cfg_unrepaired KGParts [Deliver 1 TError ShPlain] /\
  refutes cfg_unrepaired KSync [Deliver 1 TError ShSync] /\
  refutes cfg_unrepaired KSync [Deliver 1 TError ShSync; Deliver 1 TResult ShSync] /\
  refutes cfg_unrepaired KLastSeen [Deliver 1 TGet ShSPing; Deliver 1 TResult ShPlain].
Proof.
  repeat split;
    try apply ping_error_refuted; try apply group_list_error_refuted;
    try apply group_participants_error_refuted; try apply contact_sync_error_refuted;
    try apply nonreply_consumes_refuted.
Qed.

(* ---------- histories with deliveries from inside sends (C08Sync.v) ---------- *)

Lemma gen_reg_first : reg_first gen_cfg = true /\ reg_first_iface gen_cfg = true.
Proof. exact (cfg_ok_reg_first gen_cfg gen_cfg_ok). Qed.

Lemma gen_all_routed : all_routed gen_cfg = true.
Proof. vm_compute. reflexivity. Qed.

Theorem gen_sync_is_sequential_thm : forall h st,
  sevents gen_cfg st h = events gen_cfg st (flatten h) /\
  sfinal gen_cfg st h = final gen_cfg st (flatten h).
Proof. exact (sflat_thm gen_cfg (proj1 gen_reg_first) (proj2 gen_reg_first) gen_all_routed). Qed.

Theorem gen_sync_app_exactly_once_thm : forall pre k hs he rt sync post,
  in_domain k = true ->
  let i := next (sfinal gen_cfg init pre) in
  shaped i (shape_of k) (map dl sync ++ flatten post) ->
  app_cbs i (sevents gen_cfg init (pre ++ SApp k hs he rt sync :: post)) =
  expected_seq i hs he (mkreq i (OApp k)) (Some rt) (map dl sync ++ flatten post).
Proof. exact (sync_app_exactly_once_retry_thm gen_cfg gen_cfg_ok gen_all_routed). Qed.

Theorem gen_sync_app_registered_iff_outstanding_thm : forall pre k hs he rt sync post,
  in_domain k = true ->
  let i := next (sfinal gen_cfg init pre) in
  shaped i (shape_of k) (map dl sync ++ flatten post) ->
  registered_iff_outstanding i
    (armed_after i hs he (Some rt) (map dl sync ++ flatten post))
    (sfinal gen_cfg init (pre ++ SApp k hs he rt sync :: post)).
Proof. exact (sync_app_registered_iff_outstanding_thm gen_cfg gen_cfg_ok gen_all_routed). Qed.

Theorem gen_sync_lib_exactly_once_thm : forall pre lk sync post, lk <> LKPing ->
  let i := next (sfinal gen_cfg init pre) in
  let s := fst (snd (lib_route gen_cfg lk)) in
  let e := snd (snd (lib_route gen_cfg lk)) in
  lib_cbs i (sevents gen_cfg init (pre ++ SLib lk sync :: post)) =
  expected s e (first_reply i (map dl sync ++ flatten post)) (mkreq i (OLib lk)).
Proof.
  exact (sync_lib_exactly_once_thm gen_cfg gen_strict (proj1 gen_reg_first) (proj2 gen_reg_first)
                                   gen_all_routed).
Qed.

Theorem gen_sync_lib_registered_iff_outstanding_thm : forall pre lk sync post,
  let i := next (sfinal gen_cfg init pre) in
  (lk = LKPing -> shaped i ShPlain (map dl sync ++ flatten post)) ->
  lib_registered_iff_outstanding i (fst (lib_route gen_cfg lk))
    (first_reply i (map dl sync ++ flatten post))
    (sfinal gen_cfg init (pre ++ SLib lk sync :: post)).
Proof.
  intros pre lk sync post i H.
  apply (sync_lib_registered_iff_outstanding_thm gen_cfg gen_strict (proj1 gen_reg_first)
           (proj2 gen_reg_first) gen_all_routed).
  intro E. split; [subst lk; vm_compute; reflexivity|exact (H E)].
Qed.

Theorem gen_sync_libping_forwarded_once_thm : forall pre sync post,
  let st := sfinal gen_cfg init pre in
  let i := next st in
  let s := fst (snd (lib_route gen_cfg LKPing)) in
  let e := snd (snd (lib_route gen_cfg LKPing)) in
  shaped i ShPlain (map dl sync ++ flatten post) ->
  iface_evs i (sevents gen_cfg st (SLib LKPing sync :: post)) =
  expected_iface s e (first_reply i (map dl sync ++ flatten post)).
Proof.
  apply (sync_libping_forwarded_once_thm gen_cfg gen_strict (proj1 gen_reg_first)
           (proj2 gen_reg_first) gen_all_routed).
  vm_compute. reflexivity.
Qed.
