(* C08 -- the keep-alive ping (library request whose callbacks forward the reply upward). *)
From YV Require Import Common.Tac C08.C08Model C08.C08Proofs.

(* types of the iq entities with id i that reached the interface layer *)
Definition iface_evs (i : N) (evs : list event) : list ityp :=
  flat_map (fun e => match e with
                     | EvIface j t => if N.eqb i j then [t] else []
                     | _ => []
                     end) evs.

Lemma iface_evs_app i a b : iface_evs i (a ++ b) = iface_evs i a ++ iface_evs i b.
Proof. unfold iface_evs. apply flat_map_app. Qed.

Lemma iface_about_other i j evs : i <> j -> Forall (ev_about j) evs -> iface_evs i evs = [].
Proof.
  intros Hij H. induction H as [|e evs He _ IH]; [reflexivity|].
  unfold iface_evs in *. cbn [flat_map]. rewrite IH.
  destruct e; cbn in He; try reflexivity; subst.
  assert (E : N.eqb i j = false) by (apply N.eqb_neq; exact Hij). rewrite E. reflexivity.
Qed.

Lemma iface_request_events i evs :
  Forall (fun e => match e with EvIssued _ | EvSent _ => True | _ => False end) evs ->
  iface_evs i evs = [].
Proof.
  intro H. induction H as [|e evs He _ IH]; [reflexivity|].
  unfold iface_evs in *. cbn [flat_map]. rewrite IH. destruct e; try contradiction; reflexivity.
Qed.

Lemma iface_ordinary i t sh :
  (is_reply t = true -> sh = ShPlain) -> iface_evs i (ordinary i t sh) = [].
Proof.
  intro H. destruct sh; try reflexivity. destruct t; try reflexivity.
  specialize (H eq_refl). discriminate.
Qed.

Lemma handler_plain c st l i t : handler c st l i t ShPlain = (st, []).
Proof. destruct l; reflexivity. Qed.

Lemma hevents_plain ls i t : flat_map (fun l => hevents l i t ShPlain) ls = [].
Proof. induction ls as [|l ls IH]; [reflexivity|]. cbn [flat_map]. rewrite IH. destruct l; reflexivity. Qed.

(* once dead, no iq entity with that id reaches the interface layer any more, provided replies
   to it keep the plain shape (a sync-shaped result is passed up by the contacts layer) *)
Lemma dead_run_iface c h : forall st i,
  dead st i -> shaped i ShPlain h -> iface_evs i (events c st h) = [].
Proof.
  induction h as [|o h IH]; intros st i D Sh; [reflexivity|].
  rewrite events_cons, iface_evs_app.
  destruct (dead_step c st o i D) as [D' _].
  destruct o as [k hs he rt|lk|j t sh|j]; cbn [step] in *.
  - rewrite (iface_request_events i _ (app_request_events c st k hs he rt)). apply IH; assumption.
  - rewrite (iface_request_events i _ (lib_request_events c st lk)). apply IH; assumption.
  - cbn [shaped] in Sh. destruct Sh as [Sh1 Sh2].
    destruct (N.eq_dec i j) as [<-|Hij].
    + destruct D as [Hlt U]. rewrite unknown_id_ordinary_thm in * by exact U. cbn [fst snd] in *.
      rewrite iface_ordinary by (intro Ht; apply Sh1; [apply N.eqb_refl|exact Ht]).
      apply IH; assumption.
    + destruct (deliver_good c st j t sh) as [_ F].
      rewrite (iface_about_other i j _ Hij F). apply IH; assumption.
  - cbn [fst snd] in *. apply IH; assumption.
Qed.

Section PendingPing.
  Variable c : cfg.
  Variable i : N.
  Variable s e : bool.
  Variable L : layer.

  Let r := mkreq i (OLib LKPing).

  Definition pendingP (st : state) : Prop :=
    (i < next st)%N /\
    lookup i (app st) = None /\
    lookup i (regs st L) = Some (mkentry r s e no_retry) /\
    forall l, l <> L -> lookup i (regs st l) = None.

  Definition ping_events (t : ityp) : list event :=
    match t with
    | TResult => if s then [EvIface i TResult; EvTop i] else []
    | TError => if e then [EvIface i TError; EvTop i] else []
    | _ => []
    end.

  Hypothesis Hstrict : strict_reply c = true.
  Hypothesis HL : In L proto_order.

  Lemma try_layer_pendingP st t :
    pendingP st -> is_reply t = true ->
    exists st', try_layer c st L i t = Some (st', ping_events t) /\ dead st' i.
  Proof.
    intros [Hlt [Ha [Hr Ho]]] Ht.
    exists (set_reg st L (remove i (regs st L))). split.
    - unfold try_layer, consumes. rewrite Hstrict, Ht, Hr. cbn [ehs ehe]. unfold ping_events, fire.
      cbn [ereq rorigin r].
      destruct t; try discriminate; [destruct s|destruct e]; destruct (late_delete c);
        try reflexivity; cbn [typ_of]; rewrite to_interface_unreg by exact Ha; reflexivity.
    - split; [exact Hlt|]. split; [exact Ha|].
      intro l. rewrite regs_set_reg. destruct (layer_eqb L l) eqn:E.
      + rewrite lookup_remove, N.eqb_refl. reflexivity.
      + apply Ho. intro E'. subst l. rewrite layer_eqb_refl in E. discriminate.
  Qed.

  Lemma proto_recv_pendingP ls : forall st t,
    pendingP st -> is_reply t = true -> In L ls ->
    exists st', proto_recv c st ls i t ShPlain = (st', ping_events t) /\ dead st' i.
  Proof.
    induction ls as [|l ls IH]; intros st t P Ht Hin; [contradiction|].
    cbn [proto_recv].
    destruct (layer_eqb l L) eqn:E.
    - apply layer_eqb_eq in E. subst l.
      destruct (try_layer_pendingP st t P Ht) as [st' [E1 D]]. rewrite E1.
      rewrite proto_recv_unreg by apply D. rewrite hevents_plain, app_nil_r.
      exists st'. split; [reflexivity|exact D].
    - assert (Hl : l <> L).
      { intro E'. subst l. rewrite layer_eqb_refl in E. discriminate. }
      pose proof P as [Hlt [Ha [Hr Ho]]].
      rewrite try_layer_unreg by (apply Ho; exact Hl).
      rewrite handler_plain.
      destruct Hin as [Hin|Hin]; [contradiction|].
      destruct (IH st t P Ht Hin) as [st' [E1 D]]. rewrite E1.
      exists st'. split; [reflexivity|exact D].
  Qed.

  Lemma deliver_pendingP st t :
    pendingP st -> is_reply t = true ->
    exists st', deliver c st i t ShPlain = (st', ping_events t) /\ dead st' i.
  Proof.
    intros P Ht. pose proof P as [Hlt [Ha [Hr Ho]]].
    assert (N1 : L <> LCtl /\ L <> LSend /\ L <> LRecv).
    { pose proof HL as H. unfold proto_order in H. cbn in H.
      repeat split; intro E; rewrite E in H; intuition discriminate. }
    destruct N1 as [N1 [N2 N3]]. unfold deliver.
    rewrite (try_layer_unreg c st LCtl), (try_layer_unreg c st LSend)
      by (apply Ho; intro E; symmetry in E; contradiction).
    cbv beta iota.
    rewrite (try_layer_unreg c st LRecv) by (apply Ho; intro E; symmetry in E; contradiction).
    destruct (proto_recv_pendingP proto_order st t P Ht HL) as [st' [E1 D]].
    rewrite E1. exists st'. split; [reflexivity|exact D].
  Qed.

  Definition expected_iface (fr : option which) : list ityp :=
    match fr with
    | Some Success => if s then [TResult] else []
    | Some Error => if e then [TError] else []
    | None => []
    end.

  Lemma pendingP_grows st st' : grows st st' -> pendingP st -> pendingP st'.
  Proof.
    intros G [Hlt [Ha [Hr Ho]]]. assert (Hi : i <> next st) by lia.
    split; [rewrite (gr_next _ _ G); lia|]. split; [|split].
    - rewrite (gr_app _ _ G i Hi). exact Ha.
    - rewrite (gr_regs _ _ G L i Hi). exact Hr.
    - intros l Hl. rewrite (gr_regs _ _ G l i Hi). apply Ho, Hl.
  Qed.

  Lemma pendingP_run h : forall st,
    pendingP st -> shaped i ShPlain h ->
    iface_evs i (events c st h) = expected_iface (first_reply i h).
  Proof.
    induction h as [|o h IH]; intros st P Sh; [reflexivity|].
    rewrite events_cons, iface_evs_app.
    destruct o as [k' hs' he' rt'|lk'|j t sh|j]; cbn [step].
    - rewrite (iface_request_events i _ (app_request_events c st k' hs' he' rt')).
      cbn [app first_reply]. apply IH; [|exact Sh].
      eapply pendingP_grows; [apply app_request_grows|exact P].
    - rewrite (iface_request_events i _ (lib_request_events c st lk')).
      cbn [app first_reply]. apply IH; [|exact Sh].
      eapply pendingP_grows; [apply lib_request_grows|exact P].
    - cbn [shaped] in Sh. destruct Sh as [Sh1 Sh2].
      destruct (N.eqb i j) eqn:Eij.
      + apply N.eqb_eq in Eij. subst j.
        destruct (is_reply t) eqn:Ht.
        * rewrite (Sh1 eq_refl eq_refl).
          destruct (deliver_pendingP st t P Ht) as [st' [E1 D]]. rewrite E1. cbn [fst snd].
          rewrite (dead_run_iface c h st' i D Sh2), app_nil_r.
          destruct t; try discriminate; cbn [first_reply]; rewrite N.eqb_refl;
            unfold ping_events, expected_iface, iface_evs;
            [destruct s|destruct e]; cbn [flat_map app]; rewrite ?N.eqb_refl; reflexivity.
        * rewrite nonreply_ordinary_thm by assumption. cbn [fst snd].
          rewrite iface_ordinary by (intro Ht'; rewrite Ht in Ht'; discriminate). cbn [app].
          rewrite (IH st P Sh2). destruct t; try discriminate; reflexivity.
      + assert (Hij : i <> j) by (apply N.eqb_neq; exact Eij).
        destruct (deliver_good c st j t sh) as [S F].
        rewrite (iface_about_other i j _ Hij F). cbn [app].
        rewrite IH; [| |exact Sh2].
        * destruct t; cbn [first_reply]; rewrite ?Eij; reflexivity.
        * destruct P as [Hlt [Ha [Hr Ho]]].
          destruct (shrinks_other _ _ _ S i Hij) as [A1 A2].
          split; [rewrite (sh_next _ _ _ S); exact Hlt|]. split; [|split].
          -- rewrite A1. exact Ha.
          -- rewrite A2. exact Hr.
          -- intros l Hl. rewrite A2. apply Ho, Hl.
    - cbn [fst snd app first_reply]. apply IH; assumption.
  Qed.
End PendingPing.

(* The keep-alive ping: after the request, its reply is forwarded to the interface layer exactly
   once -- the first result (if a success callback is registered) or the first error (if an
   error callback is registered); later replies with that id are not forwarded. *)
Theorem libping_forwarded_once_thm : forall c, strict_reply c = true ->
  in_proto (fst (lib_route c LKPing)) = true ->
  forall pre post,
  let st := final c init pre in
  let i := next st in
  let s := fst (snd (lib_route c LKPing)) in
  let e := snd (snd (lib_route c LKPing)) in
  shaped i ShPlain post ->
  iface_evs i (events c (fst (step c st (LibRequest LKPing))) post) =
  expected_iface s e (first_reply i post).
Proof.
  intros c Hs HL pre post st i s e Sh.
  pose proof (final_inv c pre init inv_init) as I. fold st in I.
  assert (U : unregistered st i) by (apply inv_unregistered; [exact I|subst i; lia]).
  destruct U as [Ua Ur].
  assert (P : pendingP i s e (fst (lib_route c LKPing)) (fst (step c st (LibRequest LKPing)))).
  { subst s e. cbn [step]. unfold lib_request. fold i.
    destruct (lib_route c LKPing) as [L [s e]]. cbn [fst snd].
    split; [cbn [set_reg next]; lia|]. split; [|split].
    - cbn [set_reg app]. exact Ua.
    - rewrite regs_set_reg, layer_eqb_refl, lookup_cons, N.eqb_refl. reflexivity.
    - intros l Hl. rewrite regs_set_reg.
      rewrite layer_eqb_neq by (intro E'; apply Hl; symmetry; exact E').
      cbn [regs]. apply Ur. }
  apply (pendingP_run c i s e _ Hs (in_proto_In _ HL)); assumption.
Qed.
