(* C08 -- request/response correlation.  Definitions only.

   Model of  yowsup/layers/__init__.py      YowProtocolLayer._sendIq / processIqRegistry / receive,
                                            YowParallelLayer.receive/send
             yowsup/layers/interface/interface.py  YowInterfaceLayer._sendIq / processIqRegistry / receive
             yowsup/structs/protocolentity.py      ProtocolEntity._generateId (process-wide counter)
   and of the way the default stack (axolotl control layer, the send||receive pair, the
   parallel protocol-layer group, the interface layer) hands an incoming iq stanza around.

   The per-kind routing (which layer registers an application request of which kind and
   with which callbacks), the registry test and removal order of the two processIqRegistry
   functions and the order "register, then hand down" of the two _sendIq functions are NOT
   written here: they are a parameter [cfg], regenerated from the layers' source on every run
   (coq/Gen/C08Table.v, harness/translators/c08_table.py).

   Two history types: [op] (requests and deliveries strictly one after the other) and [sop]
   (every request additionally lists the stanzas the bottom of the stack delivers upward from
   INSIDE its send() of that request, i.e. while the sender is still in toLower of _sendIq).
   [srun] is the executable model that is extracted and compared with the code; [run] is its
   restriction to histories without nested deliveries (C08Sync.lift_run).                     *)
From YV Require Import Common.Tac.

(* layers that own a registry or have an "iq" entry in their handleMap *)
Inductive layer :=
| LPresence | LIb | LIq | LContacts | LGroups | LMedia | LPrivacy | LProfiles   (* parallel protocol group *)
| LCtl | LSend | LRecv.                                                         (* axolotl layers *)

(* application request kinds (one per request entity class the layers distinguish) *)
Inductive akind :=
| KPing | KLastSeen | KPicGet | KPicSet | KPrivGet | KPrivSet | KStatGet | KStatSet
| KGCreate | KGInfo | KGLeave | KGList | KGSubject | KGParts | KGAdd | KGPromote | KGDemote | KGRemove
| KSync | KUpload
(* kinds for which the stack defines no reply entity: outside the property's domain *)
| KPush | KProps | KClean | KPrivList.

(* library-internal requests: key fetch (from each axolotl layer), key upload, group info,
   and the keep-alive ping issued by the ping thread *)
Inductive lkind := LKFetchCtl | LKFetchSend | LKFetchRecv | LKUpload | LKGroupInfo | LKPing.

(* the type attribute of an incoming iq: "result" | "error" | "get" | "set" | written in any other
   way ("Error", "RESULT", absent ...): the registries compare case-sensitively *)
Inductive ityp := TResult | TError | TGet | TSet | TOther.
(* what of a stanza's shape the "iq" receive handlers look at:
   a <sync> child (contacts layer) / xmlns="urn:xmpp:ping" (iq layer) *)
Inductive shape := ShPlain | ShSync | ShSPing.
Inductive which := Success | Error.

Inductive origin := OApp (k : akind) | OLib (lk : lkind).
Record request := mkreq { rid : N; rorigin : origin }.

(* what the transporting layer does with an application request of a kind *)
Inductive route :=
| RReg (l : layer) (hs he : bool)   (* _sendIq(entity, success?, error?) : registers, forwards down *)
| RFwd (l : layer)                  (* toLower(entity.toProtocolTreeNode()) : no registry *)
| RNone.                            (* no layer claims it: never sent *)

Record cfg := mkcfg {
  app_route : akind -> route;
  lib_route : lkind -> layer * (bool * bool);   (* issuing layer, success cb?, error cb? *)
  strict_reply : bool;  (* YowProtocolLayer.processIqRegistry consumes an entry only for type result/error *)
  strict_iface : bool;  (* the same for YowInterfaceLayer.processIqRegistry *)
  late_delete : bool;   (* YowProtocolLayer.processIqRegistry removes the entry AFTER the callback
                           dispatch (the code removes it BEFORE: false) *)
  late_delete_iface : bool; (* the same for YowInterfaceLayer.processIqRegistry *)
  reg_first : bool;     (* YowProtocolLayer._sendIq puts the request into iqRegistry BEFORE it hands the
                           stanza down (the code does: true); false = toLower first, register afterwards *)
  reg_first_iface : bool   (* the same for YowInterfaceLayer._sendIq *)
}.

(* what the application's callbacks do when invoked: the usual "retry" pattern re-issues the
   ORIGINAL request entity (same id) from inside the callback, a bounded number of times *)
Record retry := mkretry { rs : bool; re : bool; budget : nat }.
Definition no_retry : retry := mkretry false false 0.

Record entry := mkentry { ereq : request; ehs : bool; ehe : bool; ert : retry }.
Definition reg := list (N * entry).

Record state := mkstate { next : N; app : reg; regs : layer -> reg }.

Inductive event :=
| EvIssued (i : N)                                   (* a request got id i *)
| EvSent (i : N)                                     (* its stanza went down, once *)
| EvIface (i : N) (t : ityp)                         (* an iq entity reached the interface layer *)
| EvApp (i : N) (w : which) (r : request)            (* application callback for reply id i, with request r *)
| EvTop (i : N)                                      (* interface layer treated it as an ordinary entity *)
| EvLib (i : N) (lk : lkind) (w : which) (r : request)  (* library callback (closure) for reply id i *)
| EvPong (i : N).                                    (* iq layer answered a server ping *)

Inductive op :=
| AppRequest (k : akind) (hs he : bool) (rt : retry)   (* interface._sendIq(entity, onSuccess?, onError?) *)
| LibRequest (lk : lkind)
| Deliver (i : N) (t : ityp) (sh : shape)   (* incoming <iq id=i type=t> *)
| DeliverOther (i : N).                     (* incoming non-iq stanza carrying id i *)

Definition layer_eqb (a b : layer) : bool :=
  match a, b with
  | LPresence, LPresence | LIb, LIb | LIq, LIq | LContacts, LContacts | LGroups, LGroups
  | LMedia, LMedia | LPrivacy, LPrivacy | LProfiles, LProfiles | LCtl, LCtl | LSend, LSend
  | LRecv, LRecv => true
  | _, _ => false
  end.

Fixpoint lookup (i : N) (r : reg) : option entry :=
  match r with
  | [] => None
  | (j, e) :: r' => if N.eqb i j then Some e else lookup i r'
  end.

(* del self.iqRegistry[i] *)
Fixpoint remove (i : N) (r : reg) : reg :=
  match r with
  | [] => []
  | (j, e) :: r' => if N.eqb i j then remove i r' else (j, e) :: remove i r'
  end.

Definition set_reg (st : state) (l : layer) (r : reg) : state :=
  mkstate (next st) (app st) (fun l' => if layer_eqb l l' then r else regs st l').

Definition set_app (st : state) (r : reg) : state := mkstate (next st) r (regs st).

Definition is_reply (t : ityp) : bool := match t with TResult | TError => true | _ => false end.
Definition consumes (c : cfg) (t : ityp) : bool := if strict_reply c then is_reply t else true.
Definition iconsumes (c : cfg) (t : ityp) : bool := if strict_iface c then is_reply t else true.
Definition typ_of (w : which) : ityp := match w with Success => TResult | Error => TError end.

Definition cb_flag (hs he : bool) (w : which) : bool := match w with Success => hs | Error => he end.
Definition retry_flag (rt : retry) (w : which) : bool := match w with Success => rs rt | Error => re rt end.
Definition which_of (t : ityp) : option which :=
  match t with TResult => Some Success | TError => Some Error | _ => None end.

(* the callbacks handed to the re-issued request, if the invoked callback w retries *)
Definition next_retry (hs he : bool) (rt : retry) (w : which) : option retry :=
  if cb_flag hs he w && retry_flag rt w then
    match budget rt with S n => Some (mkretry (rs rt) (re rt) n) | O => None end
  else None.

(* YowInterfaceLayer._sendIq(entity, ...) for an entity that already has its id i (= rid r: every
   entry is stored under its request's id): registers in the application registry, then
   YowParallelLayer.send hands it to the layer that claims the kind *)
Definition reissue (c : cfg) (st : state) (i : N) (r : request) (hs he : bool) (rt : retry)
  : state * list event :=
  match rorigin r with
  | OApp k =>
    let st0 := set_app st ((i, mkentry r hs he rt) :: app st) in
    match app_route c k with
    | RReg l s e => (set_reg st0 l ((i, mkentry r s e no_retry) :: regs st0 l), [EvSent i])
    | RFwd _ => (st0, [EvSent i])
    | RNone => (st0, [])
    end
  | OLib _ => (st, [])
  end.

(* YowInterfaceLayer.receive(entity) for an iq entity with id i and type t *)
Definition to_interface (c : cfg) (st : state) (i : N) (t : ityp) : state * list event :=
  match (if iconsumes c t then lookup i (app st) else None) with
  | Some e =>
    let removed := set_app st (remove i (app st)) in
    match which_of t with
    | Some w =>
      if cb_flag (ehs e) (ehe e) w then
        (* the callback runs -- with the entry already removed, unless the table says late *)
        let st_d := if late_delete_iface c then st else removed in
        let '(st2, ev2) :=
          match next_retry (ehs e) (ehe e) (ert e) w with
          | Some rt' => reissue c st_d i (ereq e) (ehs e) (ehe e) rt'
          | None => (st_d, [])
          end in
        ((if late_delete_iface c then set_app st2 (remove i (app st2)) else st2),
         EvIface i t :: EvApp i w (ereq e) :: ev2)
      else (removed, [EvIface i t])
    | None => (removed, [EvIface i t])
    end
  | None => (st, [EvIface i t; EvTop i])
  end.

(* invoking the callback a layer stored with an entry: the protocol layers' callbacks
   (and the iq layer's for its own keep-alive ping) convert the node and pass it upward;
   the axolotl layers' callbacks are closures of the library *)
Definition fire (c : cfg) (st : state) (i : N) (e : entry) (w : which) : state * list event :=
  match rorigin (ereq e) with
  | OApp _ => to_interface c st i (typ_of w)
  | OLib LKPing => to_interface c st i (typ_of w)
  | OLib lk => (st, [EvLib i lk w (ereq e)])
  end.

(* YowProtocolLayer.processIqRegistry in layer l; None = returned False *)
Definition try_layer (c : cfg) (st : state) (l : layer) (i : N) (t : ityp)
  : option (state * list event) :=
  if consumes c t then
    match lookup i (regs st l) with
    | Some e =>
      let st_d := if late_delete c then st else set_reg st l (remove i (regs st l)) in
      let '(st2, ev) := match t with
                        | TResult => if ehs e then fire c st_d i e Success else (st_d, [])
                        | TError => if ehe e then fire c st_d i e Error else (st_d, [])
                        | _ => (st_d, [])
                        end in
      Some ((if late_delete c then set_reg st2 l (remove i (regs st2 l)) else st2), ev)
    | None => None
    end
  else None.

(* the handleMap["iq"] receive handler of protocol layer l, for a stanza its registry did not claim *)
Definition handler (c : cfg) (st : state) (l : layer) (i : N) (t : ityp) (sh : shape)
  : state * list event :=
  match l, sh with
  | LIq, ShSPing => (st, [EvPong i])
  | LContacts, ShSync => match t with TResult => to_interface c st i TResult | _ => (st, []) end
  | _, _ => (st, [])
  end.

(* YowStackBuilder.getProtocolLayers(), restricted to the layers with an "iq" entry *)
Definition proto_order : list layer :=
  [LPresence; LIb; LIq; LContacts; LGroups; LMedia; LPrivacy; LProfiles].

(* YowParallelLayer.receive over the protocol layers *)
Fixpoint proto_recv (c : cfg) (st : state) (ls : list layer) (i : N) (t : ityp) (sh : shape)
  : state * list event :=
  match ls with
  | [] => (st, [])
  | l :: ls' =>
    let '(st1, ev1) := match try_layer c st l i t with
                       | Some r => r
                       | None => handler c st l i t sh
                       end in
    let '(st2, ev2) := proto_recv c st1 ls' i t sh in
    (st2, ev1 ++ ev2)
  end.

(* an incoming iq from below: control layer, then send || receive, then the protocol group *)
Definition deliver (c : cfg) (st : state) (i : N) (t : ityp) (sh : shape) : state * list event :=
  match try_layer c st LCtl i t with
  | Some r => r                                  (* consumed: not passed upward *)
  | None =>
    let '(st1, ev1) := match try_layer c st LSend i t with
                       | Some r => r
                       | None => (st, [])        (* the send layer forwards receipts only *)
                       end in
    match try_layer c st1 LRecv i t with
    | Some (st2, ev2) => (st2, ev1 ++ ev2)
    | None => let '(st3, ev3) := proto_recv c st1 proto_order i t sh in (st3, ev1 ++ ev3)
    end
  end.

Definition app_request (c : cfg) (st : state) (k : akind) (hs he : bool) (rt : retry)
  : state * list event :=
  let i := next st in
  let '(st1, ev) := reissue c (mkstate (N.succ i) (app st) (regs st)) i (mkreq i (OApp k)) hs he rt in
  (st1, EvIssued i :: ev).

Definition lib_request (c : cfg) (st : state) (lk : lkind) : state * list event :=
  let i := next st in
  let r := mkreq i (OLib lk) in
  let '(l, (s, e)) := lib_route c lk in
  let st0 := mkstate (N.succ i) (app st) (regs st) in
  (set_reg st0 l ((i, mkentry r s e no_retry) :: regs st0 l), [EvIssued i; EvSent i]).

Definition step (c : cfg) (st : state) (o : op) : state * list event :=
  match o with
  | AppRequest k hs he rt => app_request c st k hs he rt
  | LibRequest lk => lib_request c st lk
  | Deliver i t sh => deliver c st i t sh
  | DeliverOther _ => (st, [])
  end.

(* per-op outputs and final state *)
Fixpoint run (c : cfg) (st : state) (h : list op) : state * list (list event) :=
  match h with
  | [] => (st, [])
  | o :: h' =>
    let '(st1, ev) := step c st o in
    let '(st2, evs) := run c st1 h' in
    (st2, ev :: evs)
  end.

Definition init : state := mkstate 1 [] (fun _ => []).

Definition events (c : cfg) (st : state) (h : list op) : list event := concat (snd (run c st h)).
Definition final (c : cfg) (st : state) (h : list op) : state := fst (run c st h).

(* ---------- deliveries from INSIDE a send (re-entrant; added after seeded regression C08-5) ----------

   A request is on the wire as soon as its stanza reaches the bottom of the stack, i.e. while the
   sender is still inside toLower() of its own _sendIq.  A reader thread (or a transport that
   answers synchronously) can hand stanzas upward at exactly that moment.  [sync] lists the
   stanzas delivered from inside the bottom's send(), before it returns: replies to this very
   request (id = the id the request gets), replays of them, non-reply iqs with the same id,
   stanzas for other ids.  The order "register, then hand down" of the two _sendIq functions is
   a cfg parameter read from the source ([reg_first], [reg_first_iface]).                      *)

(* EVERYTHING ELSE an incoming iq carries beyond tag, id, type and the two things the "iq" receive
   handlers look at ([shape]): further attributes and its children with their attributes -- e.g.
   the <error code=".." text=".." backoff="3600"/> child of an error reply.  Names and values
   are byte strings.  The model carries it through the histories and never looks at it
   (Theorem reply_content_irrelevant); the correspondence run checks that the code does not either. *)
Definition bytes := list N.
Definition attrs := list (bytes * bytes).
Record content := mkcontent { cx_attrs : attrs; cx_children : list (bytes * attrs) }.
Definition no_content : content := mkcontent [] [].

Record ndel := mkndel { nid : N; ntyp : ityp; nshape : shape; ncontent : content }.
Definition nd (i : N) (t : ityp) (sh : shape) : ndel := mkndel i t sh no_content.

Fixpoint deliver_all (c : cfg) (st : state) (ds : list ndel) : state * list event :=
  match ds with
  | [] => (st, [])
  | d :: ds' =>
    let '(st1, ev1) := deliver c st (nid d) (ntyp d) (nshape d) in
    let '(st2, ev2) := deliver_all c st1 ds' in
    (st2, ev1 ++ ev2)
  end.

(* self.iqRegistry[id] = (entity, onSuccess, onError) *)
Definition reg_app (st : state) (i : N) (e : entry) : state := set_app st ((i, e) :: app st).
Definition reg_layer (st : state) (l : layer) (i : N) (e : entry) : state :=
  set_reg st l ((i, e) :: regs st l).

(* YowInterfaceLayer._sendIq(entity, ...) for a fresh entity: [register;] toLower -> the claiming
   layer's _sendIq: [register;] toLower -> ... -> bottom.send, which delivers [sync] upward before
   it returns; [register] in the layer; [register] in the interface layer *)
Definition app_request_sync (c : cfg) (st : state) (k : akind) (hs he : bool) (rt : retry)
           (sync : list ndel) : state * list event :=
  let i := next st in
  let r := mkreq i (OApp k) in
  let ea := mkentry r hs he rt in
  let st0 := mkstate (N.succ i) (app st) (regs st) in
  let st1 := if reg_first_iface c then reg_app st0 i ea else st0 in
  let '(st4, ev) :=
    match app_route c k with
    | RReg l s e =>
      let el := mkentry r s e no_retry in
      let st2 := if reg_first c then reg_layer st1 l i el else st1 in
      let '(st3, ev3) := deliver_all c st2 sync in
      ((if reg_first c then st3 else reg_layer st3 l i el), EvSent i :: ev3)
    | RFwd _ => let '(st3, ev3) := deliver_all c st1 sync in (st3, EvSent i :: ev3)
    | RNone => (st1, [])       (* nothing reaches the bottom: nothing is delivered from inside *)
    end in
  ((if reg_first_iface c then st4 else reg_app st4 i ea), EvIssued i :: ev).

(* a library layer's own _sendIq (YowProtocolLayer._sendIq) *)
Definition lib_request_sync (c : cfg) (st : state) (lk : lkind) (sync : list ndel)
  : state * list event :=
  let i := next st in
  let r := mkreq i (OLib lk) in
  let '(l, (s, e)) := lib_route c lk in
  let el := mkentry r s e no_retry in
  let st0 := mkstate (N.succ i) (app st) (regs st) in
  let st1 := if reg_first c then reg_layer st0 l i el else st0 in
  let '(st2, ev2) := deliver_all c st1 sync in
  ((if reg_first c then st2 else reg_layer st2 l i el), EvIssued i :: EvSent i :: ev2).

(* histories WITH deliveries from inside a send *)
Inductive sop :=
| SApp (k : akind) (hs he : bool) (rt : retry) (sync : list ndel)
| SLib (lk : lkind) (sync : list ndel)
| SDeliver (i : N) (t : ityp) (sh : shape) (ct : content)
| SOther (i : N).

Definition sstep (c : cfg) (st : state) (o : sop) : state * list event :=
  match o with
  | SApp k hs he rt sync => app_request_sync c st k hs he rt sync
  | SLib lk sync => lib_request_sync c st lk sync
  | SDeliver i t sh _ => deliver c st i t sh
  | SOther _ => (st, [])
  end.

Fixpoint srun (c : cfg) (st : state) (h : list sop) : state * list (list event) :=
  match h with
  | [] => (st, [])
  | o :: h' =>
    let '(st1, ev) := sstep c st o in
    let '(st2, evs) := srun c st1 h' in
    (st2, ev :: evs)
  end.

Definition sevents (c : cfg) (st : state) (h : list sop) : list event := concat (snd (srun c st h)).
Definition sfinal (c : cfg) (st : state) (h : list sop) : state := fst (srun c st h).

(* the sequential reading of such a history: the request, THEN what was delivered inside its send.
   (Theorem sflat: when both _sendIq functions register first, a history and its sequential
   reading produce the same events and the same final state.) *)
Definition dl (d : ndel) : op := Deliver (nid d) (ntyp d) (nshape d).
Definition flat1 (o : sop) : list op :=
  match o with
  | SApp k hs he rt sync => AppRequest k hs he rt :: map dl sync
  | SLib lk sync => LibRequest lk :: map dl sync
  | SDeliver i t sh _ => [Deliver i t sh]
  | SOther i => [DeliverOther i]
  end.
Definition flatten (h : list sop) : list op := flat_map flat1 h.

(* the same history with the content of every delivered stanza forgotten *)
Definition erase_nd (d : ndel) : ndel := nd (nid d) (ntyp d) (nshape d).
Definition erase (o : sop) : sop :=
  match o with
  | SApp k hs he rt sync => SApp k hs he rt (map erase_nd sync)
  | SLib lk sync => SLib lk (map erase_nd sync)
  | SDeliver i t sh _ => SDeliver i t sh no_content
  | SOther i => SOther i
  end.

(* plain histories as histories without nested deliveries *)
Definition lift (o : op) : sop :=
  match o with
  | AppRequest k hs he rt => SApp k hs he rt []
  | LibRequest lk => SLib lk []
  | Deliver i t sh => SDeliver i t sh no_content
  | DeliverOther i => SOther i
  end.

(* ---------- observation functions used by the theorems ---------- *)

Definition app_cbs (i : N) (evs : list event) : list (which * request) :=
  flat_map (fun e => match e with
                     | EvApp j w r => if N.eqb i j then [(w, r)] else []
                     | _ => []
                     end) evs.

Definition lib_cbs (i : N) (evs : list event) : list (which * request) :=
  flat_map (fun e => match e with
                     | EvLib j _ w r => if N.eqb i j then [(w, r)] else []
                     | _ => []
                     end) evs.

Definition issued_ids (evs : list event) : list N :=
  flat_map (fun e => match e with EvIssued i => [i] | _ => [] end) evs.

(* first reply (result/error) to id i in a history suffix *)
Fixpoint first_reply (i : N) (h : list op) : option which :=
  match h with
  | [] => None
  | Deliver j TResult _ :: h' => if N.eqb i j then Some Success else first_reply i h'
  | Deliver j TError _ :: h' => if N.eqb i j then Some Error else first_reply i h'
  | _ :: h' => first_reply i h'
  end.

Definition expected (hs he : bool) (fr : option which) (r : request) : list (which * request) :=
  match fr with
  | Some Success => if hs then [(Success, r)] else []
  | Some Error => if he then [(Error, r)] else []
  | None => []
  end.

(* With retries: every issue and re-issue of id i gets exactly the callback of the first reply
   after THAT issue.  [armed] = the retry policy of the currently outstanding issue, None once
   nothing is outstanding any more. *)
Fixpoint expected_seq (i : N) (hs he : bool) (r : request) (armed : option retry) (h : list op)
  : list (which * request) :=
  match h with
  | [] => []
  | Deliver j t _ :: h' =>
    match armed, which_of t with
    | Some rt, Some w =>
      if N.eqb i j then
        (if cb_flag hs he w then [(w, r)] else []) ++ expected_seq i hs he r (next_retry hs he rt w) h'
      else expected_seq i hs he r armed h'
    | _, _ => expected_seq i hs he r armed h'
    end
  | _ :: h' => expected_seq i hs he r armed h'
  end.

(* is an issue of id i still outstanding after h, and with which retry policy *)
Fixpoint armed_after (i : N) (hs he : bool) (armed : option retry) (h : list op) : option retry :=
  match h with
  | [] => armed
  | Deliver j t _ :: h' =>
    match armed, which_of t with
    | Some rt, Some w =>
      if N.eqb i j then armed_after i hs he (next_retry hs he rt w) h'
      else armed_after i hs he armed h'
    | _, _ => armed_after i hs he armed h'
    end
  | _ :: h' => armed_after i hs he armed h'
  end.

(* the reply shape the server uses for a kind (only contact sync replies carry <sync>) *)
Definition shape_of (k : akind) : shape := match k with KSync => ShSync | _ => ShPlain end.

(* replies to id i in h have the shape of kind k's reply entity *)
Fixpoint shaped (i : N) (sh0 : shape) (h : list op) : Prop :=
  match h with
  | [] => True
  | Deliver j t sh :: h' =>
    (N.eqb i j = true -> is_reply t = true -> sh = sh0) /\ shaped i sh0 h'
  | _ :: h' => shaped i sh0 h'
  end.

Definition in_domain (k : akind) : bool :=
  match k with KPush | KProps | KClean | KPrivList => false | _ => true end.

Definition all_akinds : list akind :=
  [KPing; KLastSeen; KPicGet; KPicSet; KPrivGet; KPrivSet; KStatGet; KStatSet;
   KGCreate; KGInfo; KGLeave; KGList; KGSubject; KGParts; KGAdd; KGPromote; KGDemote; KGRemove;
   KSync; KUpload; KPush; KProps; KClean; KPrivList].
Definition all_lkinds : list lkind :=
  [LKFetchCtl; LKFetchSend; LKFetchRecv; LKUpload; LKGroupInfo; LKPing].
Definition all_layers : list layer :=
  [LPresence; LIb; LIq; LContacts; LGroups; LMedia; LPrivacy; LProfiles; LCtl; LSend; LRecv].

(* silent receive handler of layer l for (t, sh): decidable form *)
Definition hsilent (l : layer) (t : ityp) (sh : shape) : bool :=
  match l, sh with
  | LIq, ShSPing => false
  | LContacts, ShSync => match t with TResult => false | _ => true end
  | _, _ => true
  end.

Definition in_proto (l : layer) : bool := existsb (layer_eqb l) proto_order.

(* a kind is transported faithfully: a protocol layer registers it with both callbacks, and no
   OTHER layer's receive handler reacts to the shape of its replies *)
Definition kind_ok (c : cfg) (k : akind) : bool :=
  match app_route c k with
  | RReg l true true =>
    in_proto l &&
    forallb (fun l' => layer_eqb l' l ||
                       (hsilent l' TResult (shape_of k) && hsilent l' TError (shape_of k)))
            proto_order
  | _ => false
  end.

(* every application kind reaches the bottom of the stack (some layer claims it) *)
Definition all_routed (c : cfg) : bool :=
  forallb (fun k => match app_route c k with RNone => false | _ => true end) all_akinds.

Definition cfg_ok (c : cfg) : bool :=
  strict_reply c && negb (late_delete c) && negb (late_delete_iface c) &&
  reg_first c && reg_first_iface c &&
  forallb (fun k => negb (in_domain k) || kind_ok c k) all_akinds.

(* ---------- the pinned tree BEFORE the C08 fixes (kept for the _refuted witnesses) ---------- *)

Definition route_unrepaired (k : akind) : route :=
  match k with
  | KPing => RReg LIq true false
  | KLastSeen => RReg LPresence true true
  | KPicGet | KPicSet | KPrivGet | KPrivSet | KStatGet | KStatSet => RReg LProfiles true true
  | KGList | KGParts => RReg LGroups true false
  | KGCreate | KGInfo | KGLeave | KGSubject | KGAdd | KGPromote | KGDemote | KGRemove =>
    RReg LGroups true true
  | KSync => RFwd LContacts
  | KUpload => RReg LMedia true true
  | KPush | KProps => RFwd LIq
  | KClean => RFwd LIb
  | KPrivList => RFwd LPrivacy
  end.

Definition lib_route_unrepaired (lk : lkind) : layer * (bool * bool) :=
  match lk with
  | LKFetchCtl => (LCtl, (true, true))
  | LKFetchSend => (LSend, (true, true))
  | LKFetchRecv => (LRecv, (true, true))
  | LKUpload => (LCtl, (true, true))
  | LKGroupInfo => (LSend, (true, false))
  | LKPing => (LIq, (true, false))
  end.

Definition cfg_unrepaired : cfg :=
  mkcfg route_unrepaired lib_route_unrepaired false false false false true true.
