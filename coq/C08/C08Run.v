(* Glue between the sx line format and the C08 model (unverified, trusted, small).
   The routing table is the one regenerated from the source: Gen/C08Table.v.        *)
From YV Require Import Common.Tac Common.Sx C08.C08Model Gen.C08Table.

Definition akind_of (n : N) : akind := nth (N.to_nat n) all_akinds KPing.
Definition lkind_of (n : N) : lkind := nth (N.to_nat n) all_lkinds LKPing.
Definition ityp_of (n : N) : ityp := nth (N.to_nat n) [TResult; TError; TGet; TSet; TOther] TOther.
Definition shape_of_n (n : N) : shape := nth (N.to_nat n) [ShPlain; ShSync; ShSPing] ShPlain.

Fixpoint index_of {A} (eqb : A -> A -> bool) (x : A) (l : list A) : N :=
  match l with
  | [] => 0
  | y :: l' => if eqb x y then 0 else N.succ (index_of eqb x l')
  end.

Definition akind_eqb (a b : akind) : bool :=
  match a, b with
  | KPing, KPing | KLastSeen, KLastSeen | KPicGet, KPicGet | KPicSet, KPicSet
  | KPrivGet, KPrivGet | KPrivSet, KPrivSet | KStatGet, KStatGet | KStatSet, KStatSet
  | KGCreate, KGCreate | KGInfo, KGInfo | KGLeave, KGLeave | KGList, KGList
  | KGSubject, KGSubject | KGParts, KGParts | KGAdd, KGAdd | KGPromote, KGPromote
  | KGDemote, KGDemote | KGRemove, KGRemove | KSync, KSync | KUpload, KUpload
  | KPush, KPush | KProps, KProps | KClean, KClean | KPrivList, KPrivList => true
  | _, _ => false
  end.
Definition lkind_eqb (a b : lkind) : bool :=
  match a, b with
  | LKFetchCtl, LKFetchCtl | LKFetchSend, LKFetchSend | LKFetchRecv, LKFetchRecv
  | LKUpload, LKUpload | LKGroupInfo, LKGroupInfo | LKPing, LKPing => true
  | _, _ => false
  end.

Definition sx_which (w : which) : sx := SN (match w with Success => 0 | Error => 1 end).
Definition sx_ityp (t : ityp) : sx :=
  SN (match t with TResult => 0 | TError => 1 | TGet => 2 | TSet => 3 | TOther => 4 end).
(* a request as (id, 0 app-kind | 1 lib-kind, code) *)
Definition sx_request (r : request) : sx :=
  match rorigin r with
  | OApp k => SL [SN (rid r); SN 0; SN (index_of akind_eqb k all_akinds)]
  | OLib lk => SL [SN (rid r); SN 1; SN (index_of lkind_eqb lk all_lkinds)]
  end.

Definition sx_event (e : event) : sx :=
  match e with
  | EvIssued i => SL [SN 0; SN i]
  | EvSent i => SL [SN 1; SN i]
  | EvIface i t => SL [SN 2; SN i; sx_ityp t]
  | EvApp i w r => SL [SN 3; SN i; sx_which w; sx_request r]
  | EvTop i => SL [SN 4; SN i]
  | EvLib i lk w r => SL [SN 5; SN i; SN (index_of lkind_eqb lk all_lkinds); sx_which w; sx_request r]
  | EvPong i => SL [SN 6; SN i]
  end.

(* the rest of a stanza: ((attr ...) (child ...)), attr = (name value), child = (tag (attr ...)) *)
Definition attrs_of (s : sx) : attrs :=
  map (fun a => (sx_get_b (sx_nth a 0), sx_get_b (sx_nth a 1))) (sx_get_l s).
Definition content_of (s : sx) : content :=
  mkcontent (attrs_of (sx_nth s 0))
            (map (fun ch => (sx_get_b (sx_nth ch 0), attrs_of (sx_nth ch 1))) (sx_get_l (sx_nth s 1))).

(* a stanza delivered from inside a send: (id typ shape content) *)
Definition ndel_of (s : sx) : ndel :=
  mkndel (sx_get_n (sx_nth s 0)) (ityp_of (sx_get_n (sx_nth s 1))) (shape_of_n (sx_get_n (sx_nth s 2)))
         (content_of (sx_nth s 3)).

(* op: (0 kind hs he rs re budget (sync ...)) | (1 lkind (sync ...)) | (2 id typ shape content) | (3 id) *)
Definition op_of (s : sx) : sop :=
  let a n := sx_get_n (sx_nth s n) in
  match a 0%nat with
  | 0 => SApp (akind_of (a 1%nat)) (sx_get_bool (sx_nth s 2)) (sx_get_bool (sx_nth s 3))
              (mkretry (sx_get_bool (sx_nth s 4)) (sx_get_bool (sx_nth s 5)) (N.to_nat (a 6%nat)))
              (map ndel_of (sx_get_l (sx_nth s 7)))
  | 1 => SLib (lkind_of (a 1%nat)) (map ndel_of (sx_get_l (sx_nth s 2)))
  | 2 => SDeliver (a 1%nat) (ityp_of (a 2%nat)) (shape_of_n (a 3%nat)) (content_of (sx_nth s 4))
  | _ => SOther (a 1%nat)
  end%N.

Definition sx_keys (r : reg) : sx := SL (map (fun p => SN (fst p)) r).

Definition sx_state (st : state) : sx :=
  SL [SN (next st); sx_keys (app st); SL (map (fun l => sx_keys (regs st l)) all_layers)].

Definition exec_with (c : cfg) (arg : sx) : sx :=
  let h := map op_of (sx_get_l arg) in
  let '(st, evs) := srun c init h in
  SL [SL (map (fun ev => SL (map sx_event ev)) evs); sx_state st].

(* arg: (op ...) -> ((per-op (event ...)) (next (app ids) ((layer ids) ...))) with the generated table *)
Definition run_hist (arg : sx) : sx := exec_with gen_cfg arg.

(* the same history on the pinned tree's routing before the C08 fixes (witness replay) *)
Definition run_hist_unrepaired (arg : sx) : sx := exec_with cfg_unrepaired arg.

(* the generated table itself: ((route per akind) (route per lkind) strict strict_iface cfg_ok) *)
Definition layer_code (l : layer) : N := index_of layer_eqb l all_layers.
Definition sx_route (r : route) : sx :=
  match r with
  | RReg l s e => SL [SN 0; SN (layer_code l); sx_bool s; sx_bool e]
  | RFwd l => SL [SN 1; SN (layer_code l)]
  | RNone => SL [SN 2]
  end.
Definition run_table (arg : sx) : sx :=
  SL [SL (map (fun k => sx_route (app_route gen_cfg k)) all_akinds);
      SL (map (fun lk => let '(l, (s, e)) := lib_route gen_cfg lk in
                         SL [SN (layer_code l); sx_bool s; sx_bool e]) all_lkinds);
      sx_bool (strict_reply gen_cfg); sx_bool (strict_iface gen_cfg); sx_bool (cfg_ok gen_cfg);
      SL (map (fun k => sx_bool (kind_ok gen_cfg k)) all_akinds);
      sx_bool (late_delete gen_cfg); sx_bool (late_delete_iface gen_cfg);
      sx_bool (reg_first gen_cfg); sx_bool (reg_first_iface gen_cfg); sx_bool (all_routed gen_cfg)].
