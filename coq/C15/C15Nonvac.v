(* Non-vacuity: the hypotheses of the C15 theorems (prims_ok, and the no-collision
   idealisation on the queried pairs) are jointly satisfiable by a concrete, non-trivial
   instance, and the theorems then yield concrete conclusions.  The instance is a toy
   (XOR "cipher", additive checksum "MAC"); the real primitives are exercised by the
   harness.                                                                              *)
From YV Require Import Common.Tac C15.C15Model C15.C15Proofs.

Local Open Scope nat_scope.

Definition toy_hkdf (k info : list N) (n : nat) : list N := repeat (hd 0%N k) n.
Definition toy_cbc (key iv p : list N) : list N := map (N.lxor (hd 0%N key)) p.
Definition toy_sum (l : list N) : N := fold_right N.add 0%N l.
Definition toy_hmac (k m : list N) : list N := repeat ((toy_sum k + 3 * toy_sum m) mod 256)%N 32.

Lemma toy_cbc_inv key iv p : toy_cbc key iv (toy_cbc key iv p) = p.
Proof.
  unfold toy_cbc. rewrite map_map. induction p as [|x p IH]; cbn [map]; [reflexivity|].
  rewrite IH, <- N.lxor_assoc, N.lxor_nilpotent, N.lxor_0_l. reflexivity.
Qed.

Example toy_prims_ok : prims_ok toy_hkdf toy_cbc toy_cbc toy_hmac.
Proof.
  unfold prims_ok. split; [|split; [|split]].
  - intros. apply repeat_length.
  - intros. apply map_length.
  - intros. apply toy_cbc_inv.
  - intros. apply repeat_length.
Qed.

Example toy_roundtrip_empty :
  decrypt toy_hkdf toy_cbc toy_hmac (encrypt toy_hkdf toy_cbc toy_hmac [] [7%N] [1%N]) [7%N] [1%N] = Ok [].
Proof. apply (roundtrip_thm _ _ _ _ toy_prims_ok). Qed.

(* a genuine ciphertext and one with its first body byte changed (tag kept) *)
Definition tk : list N := [7%N].
Definition tinfo : list N := [1%N].
Definition tc : list N := encrypt toy_hkdf toy_cbc toy_hmac [1%N; 2%N; 3%N] tk tinfo.
Definition tc' : list N := match tc with x :: r => N.lxor x 1 :: r | [] => [] end.
Definition td : list N := derive toy_hkdf tk tinfo.

Definition tQ (k m : list N) : Prop :=
  (k = mk_of td /\ m = iv_of td ++ body_of tc) \/ (k = mk_of td /\ m = iv_of td ++ body_of tc').

Lemma tQ_inj : forall k1 m1 k2 m2, tQ k1 m1 -> tQ k2 m2 ->
  tmac toy_hmac k1 m1 = tmac toy_hmac k2 m2 -> k1 = k2 /\ m1 = m2.
Proof.
  intros k1 m1 k2 m2 [[-> ->]|[-> ->]] [[-> ->]|[-> ->]] H; split; try reflexivity;
    exfalso; vm_compute in H; discriminate.
Qed.

Example toy_tamper_rejected : decrypt toy_hkdf toy_cbc toy_hmac tc' tk tinfo = ErrMac.
Proof.
  apply (tamper_body_thm _ _ _ _ toy_prims_ok tQ tQ_inj [1%N; 2%N; 3%N] tk tinfo tc').
  - left. split; reflexivity.
  - right. split; reflexivity.
  - vm_compute. discriminate.
  - vm_compute. reflexivity.
Qed.
