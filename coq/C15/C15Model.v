(* Model of yowsup/layers/protocol_media/mediacipher.py (MediaCipher.encrypt / decrypt and,
   through the `info` argument, the eight per-kind wrappers).  Definitions only.
   Bytes are N < 256, byte strings are list N, lengths are nat.

   External primitives are Section variables:
     hkdf k info n      = HKDFv3().deriveSecrets(k, info, n)
     cbc_enc key iv p   = Cipher(AES(key), CBC(iv)).encryptor().update(p)+finalize()
     cbc_dec key iv c   = Cipher(AES(key), CBC(iv)).decryptor().update(c)+finalize()
     hmac k m           = hmac.new(k, m, sha256).digest()
   PKCS#7 (cryptography.hazmat.primitives.padding.PKCS7(128)) is modelled concretely.     *)
From YV Require Import Common.Tac.

Local Open Scope nat_scope.

Inductive result : Type :=
| Ok (p : list N)      (* plaintext returned *)
| ErrMac               (* ValueError("Invalid MAC") *)
| ErrLen               (* decryptor.finalize(): data not a multiple of the block length *)
| ErrPad.              (* unpadder.finalize(): "Invalid padding bytes." *)

Fixpoint bytes_eqb (a b : list N) : bool :=
  match a, b with
  | [], [] => true
  | x :: a', y :: b' => N.eqb x y && bytes_eqb a' b'
  | _, _ => false
  end.

(* PKCS7(128).padder(): always appends n = 16 - len mod 16 (1..16) bytes of value n *)
Definition pkcs7_pad (p : list N) : list N :=
  let n := 16 - length p mod 16 in p ++ repeat (N.of_nat n) n.

(* PKCS7(128).unpadder(): the data must be a non-empty whole number of blocks; the last
   byte v must satisfy 1 <= v <= 16 and the last v bytes must all equal v *)
Definition pkcs7_unpad (d : list N) : option (list N) :=
  if Nat.eqb (length d) 0 then None
  else if negb (Nat.eqb (length d mod 16) 0) then None
  else
    let v := last d 0%N in
    let n := N.to_nat v in
    if ((1 <=? v)%N && (v <=? 16)%N && forallb (N.eqb v) (skipn (length d - n) d))%bool
    then Some (firstn (length d - n) d)
    else None.

Section Media.
  Variable hkdf : list N -> list N -> nat -> list N.
  Variable cbc_enc cbc_dec : list N -> list N -> list N -> list N.
  Variable hmac : list N -> list N -> list N.

  (* derived = HKDFv3().deriveSecrets(ref_key, media_info, 112) *)
  Definition derive (k info : list N) : list N := hkdf k info 112.
  (* parts = ByteUtil.split(derived, 16, 32); iv = parts[0]; key = parts[1] *)
  Definition iv_of (d : list N) : list N := firstn 16 d.
  Definition key_of (d : list N) : list N := firstn 32 (skipn 16 d).
  (* mac_key = derived[48:80] *)
  Definition mk_of (d : list N) : list N := firstn 32 (skipn 48 d).

  (* mac.update(iv); mac.update(ciphertext); mac.digest()[:10] *)
  Definition tmac (mk m : list N) : list N := firstn 10 (hmac mk m).

  (* the one place where the repaired code and the code before
     fixes/C15-always-pad.patch differ *)
  Definition pad_policy (always : bool) (p : list N) : list N :=
    if (always || negb (Nat.eqb (length p mod 16) 0))%bool then pkcs7_pad p else p.

  Definition encrypt_gen (always : bool) (p k info : list N) : list N :=
    let d := derive k info in
    let iv := iv_of d in
    let c := cbc_enc (key_of d) iv (pad_policy always p) in
    c ++ tmac (mk_of d) (iv ++ c).

  (* MediaCipher.encrypt after the fix: always PKCS#7-pad *)
  Definition encrypt : list N -> list N -> list N -> list N := encrypt_gen true.
  (* MediaCipher.encrypt as shipped: pad only when len % 16 != 0 *)
  Definition encrypt_unaligned_only : list N -> list N -> list N -> list N := encrypt_gen false.

  (* ciphertext[:-10], ciphertext[-10:]  (Python slicing: for len < 10 the body is empty and
     the "tag" is the whole input; nat subtraction saturates the same way) *)
  Definition body_of (c : list N) : list N := firstn (length c - 10) c.
  Definition tag_of (c : list N) : list N := skipn (length c - 10) c.

  Definition decrypt (c k info : list N) : result :=
    let d := derive k info in
    let iv := iv_of d in
    let body := body_of c in
    if bytes_eqb (tag_of c) (tmac (mk_of d) (iv ++ body)) then
      if Nat.eqb (length body mod 16) 0 then
        match pkcs7_unpad (cbc_dec (key_of d) iv body) with
        | Some p => Ok p
        | None => ErrPad
        end
      else ErrLen
    else ErrMac.

  (* What the theorems assume of the primitives (each is a fact about HKDF / AES-CBC /
     HMAC-SHA256 that the harness exercises with the real libraries). *)
  Definition prims_ok : Prop :=
    (forall k info n, length (hkdf k info n) = n) /\
    (forall key iv p, length key = 32 -> length iv = 16 -> length p mod 16 = 0 ->
        length (cbc_enc key iv p) = length p) /\
    (forall key iv p, length key = 32 -> length iv = 16 -> length p mod 16 = 0 ->
        cbc_dec key iv (cbc_enc key iv p) = p) /\
    (forall k m, length (hmac k m) = 32).

  (* ---- independent statement of the WhatsApp media layout (spec, not the code path) ----
     mediaKeyExpanded = HKDF(mediaKey, kind-info, 112) = iv(16) || cipherKey(32) || macKey(32) || refKey(32)
     enc  = AES-256-CBC(cipherKey, iv, plaintext || PKCS#7 padding (1..16 bytes, always))
     mac  = first 10 bytes of HMAC-SHA256(macKey, iv || enc)
     file = enc || mac                                                                  *)
  Definition wa_layout (p k info c : list N) : Prop :=
    exists iv ckey mkey refkey enc mac macrest padlen,
      hkdf k info 112 = iv ++ ckey ++ mkey ++ refkey /\
      length iv = 16 /\ length ckey = 32 /\ length mkey = 32 /\ length refkey = 32 /\
      1 <= padlen <= 16 /\ (length p + padlen) mod 16 = 0 /\
      enc = cbc_enc ckey iv (p ++ repeat (N.of_nat padlen) padlen) /\
      hmac mkey (iv ++ enc) = mac ++ macrest /\ length mac = 10 /\
      c = enc ++ mac.
End Media.
