From YV Require Import Common.Tac C15.C15Model.

Local Open Scope nat_scope.

(* ---------- byte-string equality ---------- *)
Lemma bytes_eqb_refl a : bytes_eqb a a = true.
Proof. induction a as [|x a IH]; cbn [bytes_eqb]; [reflexivity|]. rewrite N.eqb_refl, IH. reflexivity. Qed.

Lemma bytes_eqb_eq a : forall b, bytes_eqb a b = true <-> a = b.
Proof.
  induction a as [|x a IH]; intros [|y b]; cbn [bytes_eqb]; split; intros H;
    try reflexivity; try discriminate.
  - apply andb_true_iff in H. destruct H as [H1 H2]. apply N.eqb_eq in H1. apply IH in H2.
    subst. reflexivity.
  - apply cons_inj in H. destruct H as [-> ->]. rewrite N.eqb_refl. apply bytes_eqb_refl.
Qed.

Lemma bytes_eqb_neq a b : a <> b -> bytes_eqb a b = false.
Proof. intros H. destruct (bytes_eqb a b) eqn:E; [|reflexivity]. apply bytes_eqb_eq in E. contradiction. Qed.

(* ---------- PKCS#7 ---------- *)
Lemma padlen_range n : 1 <= 16 - n mod 16 <= 16.
Proof. pose proof (Nat.mod_upper_bound n 16). lia. Qed.

Lemma pad_length p : length (pkcs7_pad p) = length p + (16 - length p mod 16).
Proof. unfold pkcs7_pad. rewrite app_length, repeat_length. reflexivity. Qed.

Lemma pad_length_mod p : length (pkcs7_pad p) mod 16 = 0.
Proof. rewrite pad_length. lia. Qed.

Lemma pad_length_pos p : 0 < length (pkcs7_pad p).
Proof. rewrite pad_length. pose proof (padlen_range (length p)). lia. Qed.

Lemma last_app_repeat {A} (p : list A) x n d : 1 <= n -> last (p ++ repeat x n) d = x.
Proof.
  intros H. destruct n as [|n]; [lia|].
  change (repeat x (S n)) with (x :: repeat x n). rewrite repeat_cons, app_assoc. apply last_last.
Qed.

Lemma forallb_repeat (f : N -> bool) x n : f x = true -> forallb f (repeat x n) = true.
Proof. intros H. induction n as [|n IH]; cbn [repeat forallb]; [reflexivity|]. rewrite H, IH. reflexivity. Qed.

(* unpad . pad = id, for every byte string (any length, incl. 0 and multiples of 16) *)
Lemma unpad_pad p : pkcs7_unpad (pkcs7_pad p) = Some p.
Proof.
  unfold pkcs7_unpad.
  pose proof (pad_length_pos p) as Hpos. pose proof (pad_length_mod p) as Hmod.
  pose proof (padlen_range (length p)) as Hr.
  destruct (Nat.eqb_spec (length (pkcs7_pad p)) 0) as [E|_]; [lia|].
  rewrite Hmod. cbn [Nat.eqb negb].
  set (n := 16 - length p mod 16) in *.
  assert (Hlast : last (pkcs7_pad p) 0%N = N.of_nat n).
  { unfold pkcs7_pad. fold n. apply last_app_repeat. lia. }
  rewrite Hlast, Nat2N.id.
  assert (Hlen : length (pkcs7_pad p) - n = length p) by (rewrite pad_length; fold n; lia).
  rewrite Hlen. unfold pkcs7_pad. fold n.
  rewrite skipn_app, skipn_all, Nat.sub_diag. cbn [skipn app].
  rewrite firstn_app, firstn_all, Nat.sub_diag. cbn [firstn]. rewrite app_nil_r.
  rewrite forallb_repeat by apply N.eqb_refl.
  destruct (N.leb_spec 1 (N.of_nat n)); [|lia].
  destruct (N.leb_spec (N.of_nat n) 16); [|lia].
  reflexivity.
Qed.

(* what the real unpadder accepts *)
Lemma unpad_Some d p : pkcs7_unpad d = Some p ->
  exists n, 1 <= n <= 16 /\ n <= length d /\ length d mod 16 = 0 /\ d = p ++ repeat (N.of_nat n) n.
Proof.
  unfold pkcs7_unpad.
  destruct (Nat.eqb_spec (length d) 0) as [|Hne]; [discriminate|].
  destruct (Nat.eqb_spec (length d mod 16) 0) as [Hm|]; [|discriminate]. cbn [negb].
  set (v := last d 0%N). set (n := N.to_nat v).
  destruct (N.leb_spec 1 v) as [H1|]; [|discriminate].
  destruct (N.leb_spec v 16) as [H2|]; [|discriminate]. cbn [andb].
  destruct (forallb (N.eqb v) (skipn (length d - n) d)) eqn:Hf; [|discriminate].
  intros H. apply Some_inj in H. subst p.
  assert (Hd16 : 16 <= length d) by lia.
  exists n. repeat split; try lia.
  rewrite <- (firstn_skipn (length d - n) d) at 1. f_equal.
  assert (Hl : length (skipn (length d - n) d) = n) by (rewrite skipn_length; lia).
  rewrite forallb_forall in Hf.
  assert (Hall : forall x, In x (skipn (length d - n) d) -> x = N.of_nat n).
  { intros x Hx. apply Hf in Hx. apply N.eqb_eq in Hx. subst x. unfold n. rewrite N2Nat.id. reflexivity. }
  revert Hl Hall. generalize (skipn (length d - n) d). generalize (N.of_nat n). generalize n.
  clear. induction n as [|n IH]; intros x l Hl Hall.
  - destruct l; [reflexivity|discriminate].
  - destruct l as [|y l]; [discriminate|]. cbn [repeat]. f_equal.
    + apply Hall. left. reflexivity.
    + apply IH; [cbn in Hl; lia|]. intros z Hz. apply Hall. right. exact Hz.
Qed.

(* ---------- slicing the derived secret ---------- *)
Lemma skipn_skipn {A} a : forall b (l : list A), skipn a (skipn b l) = skipn (b + a) l.
Proof.
  intros b. induction b as [|b IH]; intros l; [reflexivity|].
  destruct l as [|x l]; [destruct a; reflexivity|]. cbn [skipn Nat.add]. apply IH.
Qed.

Lemma firstn_app_exact {A} n (a b : list A) : length a = n -> firstn n (a ++ b) = a.
Proof. intros <-. rewrite firstn_app, firstn_all, Nat.sub_diag. cbn [firstn]. apply app_nil_r. Qed.

Lemma skipn_app_exact {A} n (a b : list A) : length a = n -> skipn n (a ++ b) = b.
Proof. intros <-. rewrite skipn_app, skipn_all, Nat.sub_diag. reflexivity. Qed.

Section Proofs.
  Variable hkdf : list N -> list N -> nat -> list N.
  Variable cbc_enc cbc_dec : list N -> list N -> list N -> list N.
  Variable hmac : list N -> list N -> list N.
  Hypothesis Hok : prims_ok hkdf cbc_enc cbc_dec hmac.

  Notation derive := (derive hkdf).
  Notation tmac := (tmac hmac).
  Notation encrypt := (encrypt hkdf cbc_enc hmac).
  Notation encrypt_gen := (encrypt_gen hkdf cbc_enc hmac).
  Notation encrypt_unaligned_only := (encrypt_unaligned_only hkdf cbc_enc hmac).
  Notation decrypt := (decrypt hkdf cbc_dec hmac).
  Notation wa_layout := (wa_layout hkdf cbc_enc hmac).

  Let Hhkdf : forall k info n, length (hkdf k info n) = n := proj1 Hok.
  Let Hcbc_len := proj1 (proj2 Hok).
  Let Hcbc_inv := proj1 (proj2 (proj2 Hok)).
  Let Hhmac : forall k m, length (hmac k m) = 32 := proj2 (proj2 (proj2 Hok)).

  Lemma derive_len k info : length (derive k info) = 112.
  Proof. apply Hhkdf. Qed.

  Lemma iv_len k info : length (iv_of (derive k info)) = 16.
  Proof. unfold iv_of. rewrite firstn_length, derive_len. reflexivity. Qed.

  Lemma key_len k info : length (key_of (derive k info)) = 32.
  Proof. unfold key_of. rewrite firstn_length, skipn_length, derive_len. reflexivity. Qed.

  Lemma mk_len k info : length (mk_of (derive k info)) = 32.
  Proof. unfold mk_of. rewrite firstn_length, skipn_length, derive_len. reflexivity. Qed.

  Lemma tmac_len mk m : length (tmac mk m) = 10.
  Proof. unfold C15Model.tmac. rewrite firstn_length, Hhmac. reflexivity. Qed.

  Lemma body_app c t : length t = 10 -> body_of (c ++ t) = c.
  Proof.
    intros H. unfold body_of. rewrite app_length, H.
    replace (length c + 10 - 10) with (length c) by lia.
    rewrite firstn_app, firstn_all, Nat.sub_diag. cbn [firstn]. apply app_nil_r.
  Qed.

  Lemma tag_app c t : length t = 10 -> tag_of (c ++ t) = t.
  Proof.
    intros H. unfold tag_of. rewrite app_length, H.
    replace (length c + 10 - 10) with (length c) by lia.
    rewrite skipn_app, skipn_all, Nat.sub_diag. reflexivity.
  Qed.

  Lemma body_tag c : body_of c ++ tag_of c = c.
  Proof. apply firstn_skipn. Qed.

  Lemma tag_short c : length c < 10 -> length (tag_of c) < 10.
  Proof. intros H. unfold tag_of. rewrite skipn_length. lia. Qed.

  (* the encryption of a block-multiple message, then decryption, characterised *)
  Lemma decrypt_encrypt_gen always p k info :
    decrypt (encrypt_gen always p k info) k info =
    match pkcs7_unpad (pad_policy always p) with Some q => Ok q | None => ErrPad end.
  Proof.
    unfold C15Model.decrypt, C15Model.encrypt_gen.
    set (d := derive k info). set (iv := iv_of d). set (key := key_of d). set (mk := mk_of d).
    set (pp := pad_policy always p).
    assert (Hpp : length pp mod 16 = 0).
    { unfold pp, pad_policy. destruct always; cbn [orb]; [apply pad_length_mod|].
      destruct (Nat.eqb_spec (length p mod 16) 0) as [E|E]; cbn [negb]; [exact E|apply pad_length_mod]. }
    assert (Hiv : length iv = 16) by apply iv_len.
    assert (Hkey : length key = 32) by apply key_len.
    set (c := cbc_enc key iv pp).
    rewrite body_app by apply tmac_len. rewrite tag_app by apply tmac_len.
    rewrite bytes_eqb_refl.
    unfold c at 1. rewrite Hcbc_len by assumption. rewrite Hpp. cbn [Nat.eqb].
    unfold c. rewrite Hcbc_inv by assumption. reflexivity.
  Qed.

  (* ---------- round trip: every plaintext, every key, every info string ---------- *)
  Theorem roundtrip_thm : forall p k info, decrypt (encrypt p k info) k info = Ok p.
  Proof.
    intros p k info. unfold C15Model.encrypt. rewrite decrypt_encrypt_gen.
    unfold pad_policy. cbn [orb]. rewrite unpad_pad. reflexivity.
  Qed.

  (* the shipped pad-only-when-unaligned policy does NOT have the property *)
  Theorem unaligned_only_refuted_thm : forall k info,
    (* empty content: an error instead of the plaintext *)
    decrypt (encrypt_unaligned_only [] k info) k info = ErrPad /\
    (* 16 aligned bytes ending in 0x01: DIFFERENT plaintext, no error *)
    (let p := repeat 0%N 15 ++ [1%N] in
     decrypt (encrypt_unaligned_only p k info) k info = Ok (repeat 0%N 15) /\ repeat 0%N 15 <> p) /\
    (* and it is the same function on unaligned input *)
    (forall p, length p mod 16 <> 0 -> encrypt_unaligned_only p k info = encrypt p k info).
  Proof.
    intros k info. unfold C15Model.encrypt_unaligned_only, C15Model.encrypt. repeat split.
    - rewrite decrypt_encrypt_gen. reflexivity.
    - rewrite decrypt_encrypt_gen. reflexivity.
    - discriminate.
    - intros p Hp. unfold C15Model.encrypt_gen, pad_policy.
      destruct (Nat.eqb_spec (length p mod 16) 0); [contradiction|]. reflexivity.
  Qed.

  (* ---------- layout ---------- *)
  Lemma derive_split k info :
    let d := derive k info in
    d = iv_of d ++ key_of d ++ mk_of d ++ skipn 80 d.
  Proof.
    cbn zeta. unfold iv_of, key_of, mk_of.
    set (d := derive k info).
    rewrite <- (firstn_skipn 16 d) at 1. f_equal.
    rewrite <- (firstn_skipn 32 (skipn 16 d)) at 1. f_equal.
    rewrite skipn_skipn. cbn [Nat.add].
    rewrite <- (firstn_skipn 32 (skipn 48 d)) at 1. f_equal.
    rewrite skipn_skipn. reflexivity.
  Qed.

  Theorem layout_thm : forall p k info, wa_layout p k info (encrypt p k info).
  Proof.
    intros p k info. unfold C15Model.wa_layout, C15Model.encrypt, C15Model.encrypt_gen.
    set (d := derive k info).
    pose proof (padlen_range (length p)) as Hr.
    exists (iv_of d), (key_of d), (mk_of d), (skipn 80 d),
      (cbc_enc (key_of d) (iv_of d) (pkcs7_pad p)),
      (tmac (mk_of d) (iv_of d ++ cbc_enc (key_of d) (iv_of d) (pkcs7_pad p))),
      (skipn 10 (hmac (mk_of d) (iv_of d ++ cbc_enc (key_of d) (iv_of d) (pkcs7_pad p)))),
      (16 - length p mod 16).
    repeat split.
    - apply (derive_split k info).
    - apply iv_len.
    - apply key_len.
    - apply mk_len.
    - rewrite skipn_length. unfold d. rewrite derive_len. reflexivity.
    - lia.
    - lia.
    - lia.
    - unfold C15Model.tmac. symmetry. apply firstn_skipn.
    - apply tmac_len.
  Qed.

  (* the layout determines the file: anything laid out the WhatsApp way IS the library's output *)
  Theorem layout_unique_thm : forall p k info c, wa_layout p k info c -> c = encrypt p k info.
  Proof.
    intros p k info c (iv & ckey & mkey & refkey & enc & mac & macrest & padlen & Hd & Hiv & Hck & Hmk &
                        Hrk & Hpl & Hmod & Henc & Hmac & Hml & Hc).
    assert (Hpad : padlen = 16 - length p mod 16) by lia.
    unfold C15Model.encrypt, C15Model.encrypt_gen, pad_policy. cbn [orb].
    unfold C15Model.derive. rewrite Hd.
    assert (E1 : iv_of (iv ++ ckey ++ mkey ++ refkey) = iv).
    { unfold iv_of. apply firstn_app_exact. exact Hiv. }
    assert (E2 : key_of (iv ++ ckey ++ mkey ++ refkey) = ckey).
    { unfold key_of. rewrite (skipn_app_exact 16) by exact Hiv. apply firstn_app_exact. exact Hck. }
    assert (E3 : mk_of (iv ++ ckey ++ mkey ++ refkey) = mkey).
    { unfold mk_of. rewrite (app_assoc iv ckey).
      rewrite (skipn_app_exact 48) by (rewrite app_length, Hiv, Hck; reflexivity).
      apply firstn_app_exact. exact Hmk. }
    rewrite E1, E2, E3. unfold pkcs7_pad. rewrite <- Hpad, <- Henc.
    unfold C15Model.tmac. rewrite Hmac.
    rewrite (firstn_app_exact 10) by exact Hml. exact Hc.
  Qed.

  Theorem length_thm : forall p k info,
    length (encrypt p k info) = (length p / 16 + 1) * 16 + 10.
  Proof.
    intros p k info. unfold C15Model.encrypt, C15Model.encrypt_gen, pad_policy. cbn [orb].
    rewrite app_length, tmac_len, Hcbc_len;
      [|apply key_len|apply iv_len|apply pad_length_mod].
    rewrite pad_length. lia.
  Qed.

  (* ---------- tamper detection ---------- *)
  (* acceptance by the MAC gate is exactly "carries the truncated MAC of iv || its own body" *)
  Theorem accept_iff_tag_thm : forall c k info,
    decrypt c k info <> ErrMac <->
    tag_of c = tmac (mk_of (derive k info)) (iv_of (derive k info) ++ body_of c).
  Proof.
    intros c k info. unfold C15Model.decrypt.
    destruct (bytes_eqb (tag_of c) _) eqn:E.
    - apply bytes_eqb_eq in E. split; [intros _; exact E|intros _].
      destruct (Nat.eqb _ 0); [destruct (pkcs7_unpad _)|]; discriminate.
    - split; [intros H; contradiction H; reflexivity|].
      intros H. apply bytes_eqb_eq in H. congruence.
  Qed.

  (* whatever is returned as plaintext was MAC-checked first, came from a whole number of
     blocks and was validly padded: nothing is decrypted or unpadded before the tag matched *)
  Theorem accepted_thm : forall c k info p',
    decrypt c k info = Ok p' ->
    let d := derive k info in
    tag_of c = tmac (mk_of d) (iv_of d ++ body_of c) /\
    length (body_of c) mod 16 = 0 /\
    pkcs7_unpad (cbc_dec (key_of d) (iv_of d) (body_of c)) = Some p'.
  Proof.
    intros c k info p' H. cbn zeta.
    assert (Hacc : decrypt c k info <> ErrMac) by (rewrite H; discriminate).
    apply accept_iff_tag_thm in Hacc. split; [exact Hacc|].
    unfold C15Model.decrypt in H. rewrite Hacc, bytes_eqb_refl in H.
    destruct (Nat.eqb_spec (length (body_of c) mod 16) 0) as [E|E]; [|discriminate].
    split; [exact E|]. destruct (pkcs7_unpad _); [|discriminate]. congruence.
  Qed.

  (* plaintext is only ever produced from 10 bytes + a whole number of blocks: every truncation
     or extension whose length is not 10 mod 16 can never yield plaintext, whatever its bytes *)
  Theorem accepted_length_thm : forall c k info p',
    decrypt c k info = Ok p' -> 10 <= length c /\ length c mod 16 = 10.
  Proof.
    intros c k info p' H. destruct (accepted_thm c k info p' H) as (Ht & Hm & _).
    assert (Hc10 : 10 <= length c).
    { destruct (Nat.lt_ge_cases (length c) 10) as [Hs|Hs]; [|exact Hs].
      apply tag_short in Hs. rewrite Ht, tmac_len in Hs. lia. }
    split; [exact Hc10|].
    assert (Hb : length (body_of c) = length c - 10).
    { unfold body_of. rewrite firstn_length. lia. }
    rewrite Hb in Hm. lia.
  Qed.

  Theorem short_rejected_thm : forall c k info, length c < 10 -> decrypt c k info = ErrMac.
  Proof.
    intros c k info H. unfold C15Model.decrypt. rewrite bytes_eqb_neq; [reflexivity|].
    intros E. apply tag_short in H. rewrite E, tmac_len in H. lia.
  Qed.

  (* Modifying the tag only (body intact) is rejected -- no cryptographic assumption needed *)
  Theorem tamper_tag_thm : forall p k info c',
    let c := encrypt p k info in
    c' <> c -> body_of c' = body_of c -> decrypt c' k info = ErrMac.
  Proof.
    intros p k info c' c Hne Hb.
    destruct (decrypt c' k info) eqn:E; try reflexivity;
      (assert (Hacc : decrypt c' k info <> ErrMac) by (rewrite E; discriminate);
       apply accept_iff_tag_thm in Hacc; exfalso; apply Hne;
       rewrite <- (body_tag c'), <- (body_tag c), Hacc, Hb; f_equal;
       unfold c, C15Model.encrypt, C15Model.encrypt_gen;
       rewrite tag_app by apply tmac_len; rewrite body_app by apply tmac_len; reflexivity).
  Qed.

  (* A ciphertext that is accepted although it differs from the genuine one carries a valid
     truncated MAC for a body that was never MACed: an existential forgery of HMAC-SHA256/80.
     (That no such forgery can be produced without the key is cryptography, outside the model.) *)
  Theorem forgery_reduction_thm : forall p k info c',
    let c := encrypt p k info in
    let d := derive k info in
    c' <> c -> decrypt c' k info <> ErrMac ->
    body_of c' <> body_of c /\ tag_of c' = tmac (mk_of d) (iv_of d ++ body_of c').
  Proof.
    intros p k info c' c d Hne Hacc. split.
    - intros Hb. apply Hacc. apply (tamper_tag_thm p k info c' Hne Hb).
    - apply accept_iff_tag_thm. exact Hacc.
  Qed.

  (* ---- idealisation: the truncated MAC has no collision among the queried (key, message)
     pairs.  Q names the pairs the statement talks about; the hypothesis is a Section
     hypothesis, discharged in C15Nonvac for a concrete instance, never an axiom. ---- *)
  Section Injective.
    Variable Q : list N -> list N -> Prop.
    Hypothesis tmac_inj_on_Q : forall k1 m1 k2 m2,
      Q k1 m1 -> Q k2 m2 -> tmac k1 m1 = tmac k2 m2 -> k1 = k2 /\ m1 = m2.

    (* Modifying the body (any number of bytes, any length change) while keeping the tag *)
    Theorem tamper_body_thm : forall p k info c',
      let c := encrypt p k info in
      let d := derive k info in
      Q (mk_of d) (iv_of d ++ body_of c) -> Q (mk_of d) (iv_of d ++ body_of c') ->
      c' <> c -> tag_of c' = tag_of c -> decrypt c' k info = ErrMac.
    Proof.
      intros p k info c' c d Q1 Q2 Hne Ht.
      destruct (decrypt c' k info) eqn:E; try reflexivity;
        (assert (Hacc : decrypt c' k info <> ErrMac) by (rewrite E; discriminate);
         apply accept_iff_tag_thm in Hacc; exfalso; apply Hne;
         assert (Htc : tag_of c = tmac (mk_of d) (iv_of d ++ body_of c))
           by (unfold c, C15Model.encrypt, C15Model.encrypt_gen;
               rewrite tag_app by apply tmac_len; rewrite body_app by apply tmac_len; reflexivity);
         rewrite Ht, Htc in Hacc; fold d in Hacc;
         destruct (tmac_inj_on_Q _ _ _ _ Q1 Q2 Hacc) as [_ Hm];
         apply app_inv_head in Hm;
         rewrite <- (body_tag c'), <- (body_tag c), Ht, Hm; reflexivity).
    Qed.

    (* Every single-byte corruption changes either the body or the tag but never both *)
    Theorem tamper_one_side_thm : forall p k info c',
      let c := encrypt p k info in
      let d := derive k info in
      Q (mk_of d) (iv_of d ++ body_of c) -> Q (mk_of d) (iv_of d ++ body_of c') ->
      c' <> c -> (body_of c' = body_of c \/ tag_of c' = tag_of c) -> decrypt c' k info = ErrMac.
    Proof.
      intros p k info c' c d Q1 Q2 Hne [Hb|Ht].
      - apply (tamper_tag_thm p k info c' Hne Hb).
      - apply (tamper_body_thm p k info c' Q1 Q2 Hne Ht).
    Qed.

    (* Wrong media key or wrong media kind: rejected as soon as the derived MAC key differs
       (HKDF giving different output for different (key, info) is the HKDF idealisation) *)
    Theorem wrong_key_thm : forall p k info k' info',
      let c := encrypt p k info in
      let d := derive k info in
      let d' := derive k' info' in
      mk_of d' <> mk_of d ->
      Q (mk_of d) (iv_of d ++ body_of c) -> Q (mk_of d') (iv_of d' ++ body_of c) ->
      decrypt c k' info' = ErrMac.
    Proof.
      intros p k info k' info' c d d' Hmk Q1 Q2.
      destruct (decrypt c k' info') eqn:E; try reflexivity;
        (assert (Hacc : decrypt c k' info' <> ErrMac) by (rewrite E; discriminate);
         apply accept_iff_tag_thm in Hacc; exfalso; apply Hmk;
         assert (Htc : tag_of c = tmac (mk_of d) (iv_of d ++ body_of c))
           by (unfold c, C15Model.encrypt, C15Model.encrypt_gen;
               rewrite tag_app by apply tmac_len; rewrite body_app by apply tmac_len; reflexivity);
         rewrite Htc in Hacc; fold d' in Hacc;
         destruct (tmac_inj_on_Q _ _ _ _ Q1 Q2 Hacc) as [Hk _]; symmetry; exact Hk).
    Qed.
  End Injective.
End Proofs.
