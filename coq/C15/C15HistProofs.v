From YV Require Import Common.Tac C15.C15Model C15.C15Proofs C15.C15HistModel.

Section HistProofs.
  Variable hkdf : list N -> list N -> nat -> list N.
  Variable cbc_enc cbc_dec : list N -> list N -> list N -> list N.
  Variable hmac : list N -> list N -> list N.

  Notation pure_call := (pure_call hkdf cbc_enc cbc_dec hmac).
  Notation step := (step hkdf cbc_enc cbc_dec hmac).
  Notation run := (run hkdf cbc_enc cbc_dec hmac).
  Notation lookup := (lookup hkdf).
  Notation memo_inv := (memo_inv hkdf).

  Lemma lookup_sound mode st k info : mode <> MemoKeyOnly -> memo_inv st ->
    memo_inv (fst (lookup mode st k info)) /\ snd (lookup mode st k info) = hkdf k info 112.
  Proof.
    intros Hm Hinv. destruct mode; [| |contradiction]; cbn [C15HistModel.lookup].
    - split; [exact Hinv|reflexivity].
    - destruct st as [[[k0 i0] d]|]; [|split; reflexivity].
      cbn [memo_hit]. destruct (bytes_eqb k0 k && bytes_eqb i0 info) eqn:E; [|split; reflexivity].
      apply andb_true_iff in E. destruct E as [E1 E2].
      apply bytes_eqb_eq in E1. apply bytes_eqb_eq in E2. subst k0 i0.
      split; [exact Hinv|exact Hinv].
  Qed.

  Lemma step_pure mode st c : mode <> MemoKeyOnly -> memo_inv st ->
    memo_inv (fst (step mode st c)) /\ snd (step mode st c) = pure_call c.
  Proof.
    intros Hm Hinv. destruct c as [p k info|c k info]; cbn [C15HistModel.step];
      destruct (lookup_sound mode st k info Hm Hinv) as [H1 H2];
      destruct (lookup mode st k info) as [st' d]; cbn [fst snd] in *; subst d;
      (split; [exact H1|reflexivity]).
  Qed.

  (* History independence: an object without memo, or with a memo keyed on (key, info), returns
     for EVERY call of EVERY history exactly what the pure function gives for that call alone *)
  Theorem history_independent_thm : forall mode, mode <> MemoKeyOnly ->
    forall cs st, memo_inv st -> run mode st cs = map pure_call cs.
  Proof.
    intros mode Hm cs. induction cs as [|c cs IH]; intros st Hinv; [reflexivity|].
    cbn [C15HistModel.run map]. destruct (step_pure mode st c Hm Hinv) as [H1 H2].
    destruct (step mode st c) as [st' o]. cbn [fst snd] in *. subst o. rewrite (IH st' H1). reflexivity.
  Qed.

  (* The memo keyed on the media key only (seeded regression C15-1) is history dependent, for all
     primitives satisfying prims_ok, all plaintexts, keys and kinds: after an encrypt under
     kind i1, (a) a decrypt of that file under ANY other kind i2 returns the plaintext instead
     of rejecting, (b) an encrypt under any other kind returns the FIRST kind's file. *)
  Theorem memo_by_key_refuted_thm : prims_ok hkdf cbc_enc cbc_dec hmac ->
    forall p k i1 i2,
      run MemoKeyOnly None [CEnc p k i1; CDec (encrypt hkdf cbc_enc hmac p k i1) k i2] =
        [OBytes (encrypt hkdf cbc_enc hmac p k i1); ORes (Ok p)] /\
      run MemoKeyOnly None [CEnc p k i1; CEnc p k i2] =
        [OBytes (encrypt hkdf cbc_enc hmac p k i1); OBytes (encrypt hkdf cbc_enc hmac p k i1)].
  Proof.
    intros Hok p k i1 i2. split.
    - cbn [C15HistModel.run C15HistModel.step C15HistModel.lookup memo_hit]. rewrite bytes_eqb_refl.
      change (encrypt (fun _ _ _ => hkdf k i1 112) cbc_enc hmac p k i1) with (encrypt hkdf cbc_enc hmac p k i1).
      change (decrypt (fun _ _ _ => hkdf k i1 112) cbc_dec hmac (encrypt hkdf cbc_enc hmac p k i1) k i2)
        with (decrypt hkdf cbc_dec hmac (encrypt hkdf cbc_enc hmac p k i1) k i1).
      rewrite (roundtrip_thm _ _ _ _ Hok). reflexivity.
    - cbn [C15HistModel.run C15HistModel.step C15HistModel.lookup memo_hit]. rewrite bytes_eqb_refl.
      reflexivity.
  Qed.
End HistProofs.
