(* C15: a MediaCipher OBJECT driven through a history of calls.  Definitions only.
   The shipped class keeps no state, so its object model is `pure_call` applied call by call
   (mode NoMemo).  The family below also contains objects that memoise the last HKDF
   expansion, keyed either on (media key, kind-info) or on the media key only: the first is
   indistinguishable from the stateless code for every history, the second is not (the seeded
   regression C15-1; see C15_memo_by_key_refuted).                                           *)
From YV Require Import Common.Tac C15.C15Model.

Inductive call : Type :=
| CEnc (p k info : list N)       (* encrypt(plaintext, ref_key, media_info) *)
| CDec (c k info : list N).      (* decrypt(ciphertext, ref_key, media_info) *)

Inductive out : Type :=
| OBytes (c : list N)
| ORes (r : result).

Inductive memo_mode : Type := NoMemo | MemoKeyInfo | MemoKeyOnly.

(* memo: (media key, info, derived secret) of the last expansion *)
Definition mstate : Type := option (list N * list N * list N).

Section Hist.
  Variable hkdf : list N -> list N -> nat -> list N.
  Variable cbc_enc cbc_dec : list N -> list N -> list N -> list N.
  Variable hmac : list N -> list N -> list N.

  (* what a call returns judged from its own arguments alone *)
  Definition pure_call (c : call) : out :=
    match c with
    | CEnc p k info => OBytes (encrypt hkdf cbc_enc hmac p k info)
    | CDec c k info => ORes (decrypt hkdf cbc_dec hmac c k info)
    end.

  Definition memo_hit (mode : memo_mode) (k0 i0 k info : list N) : bool :=
    match mode with
    | NoMemo => false
    | MemoKeyInfo => bytes_eqb k0 k && bytes_eqb i0 info
    | MemoKeyOnly => bytes_eqb k0 k
    end.

  (* _derive_secrets(ref_key, media_info): new memo and the 112 bytes handed to the caller *)
  Definition lookup (mode : memo_mode) (st : mstate) (k info : list N) : mstate * list N :=
    match mode, st with
    | NoMemo, _ => (st, hkdf k info 112)
    | _, Some (k0, i0, d) =>
      if memo_hit mode k0 i0 k info then (st, d)
      else (Some (k, info, hkdf k info 112), hkdf k info 112)
    | _, None => (Some (k, info, hkdf k info 112), hkdf k info 112)
    end.

  (* encrypt / decrypt running on the bytes `d` they were handed instead of expanding themselves *)
  Definition step (mode : memo_mode) (st : mstate) (c : call) : mstate * out :=
    match c with
    | CEnc p k info =>
      let '(st', d) := lookup mode st k info in
      (st', OBytes (encrypt (fun _ _ _ => d) cbc_enc hmac p k info))
    | CDec c k info =>
      let '(st', d) := lookup mode st k info in
      (st', ORes (decrypt (fun _ _ _ => d) cbc_dec hmac c k info))
    end.

  Fixpoint run (mode : memo_mode) (st : mstate) (cs : list call) : list out :=
    match cs with
    | [] => []
    | c :: r => let '(st', o) := step mode st c in o :: run mode st' r
    end.

  (* the memo, when present, holds the genuine expansion of its own (key, info) *)
  Definition memo_inv (st : mstate) : Prop :=
    match st with
    | Some (k, i, d) => d = hkdf k i 112
    | None => True
    end.
End Hist.
