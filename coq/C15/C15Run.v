(* Glue between the sx line format and the C15 model (unverified, trusted, tiny).
   Oracle ids:  1 hkdf (k info n)   2 cbc_enc (key iv data)   3 cbc_dec (key iv data)
                4 hmac-sha256 (key msg)                                                *)
From YV Require Import Common.Tac Common.Sx C15.C15Model.

Definition o_hkdf (oracle : sx -> sx) (k info : list N) (n : nat) : list N :=
  sx_get_b (oracle (SL [SN 1; SB k; SB info; SN (N.of_nat n)])).
Definition o_cbc_enc (oracle : sx -> sx) (key iv d : list N) : list N :=
  sx_get_b (oracle (SL [SN 2; SB key; SB iv; SB d])).
Definition o_cbc_dec (oracle : sx -> sx) (key iv d : list N) : list N :=
  sx_get_b (oracle (SL [SN 3; SB key; SB iv; SB d])).
Definition o_hmac (oracle : sx -> sx) (k m : list N) : list N :=
  sx_get_b (oracle (SL [SN 4; SB k; SB m])).

Definition sx_result (r : result) : sx :=
  match r with
  | Ok p => SL [SN 0; SB p]
  | ErrMac => SL [SN 1]
  | ErrLen => SL [SN 2]
  | ErrPad => SL [SN 3]
  end.

(* arg: (N always  B plaintext  B key  B info) -> B ciphertext *)
Definition orun_encrypt (oracle : sx -> sx) (arg : sx) : sx :=
  SB (encrypt_gen (o_hkdf oracle) (o_cbc_enc oracle) (o_hmac oracle)
        (sx_get_bool (sx_nth arg 0)) (sx_get_b (sx_nth arg 1))
        (sx_get_b (sx_nth arg 2)) (sx_get_b (sx_nth arg 3))).

(* arg: (B ciphertext  B key  B info) -> (N0 B plaintext) | (N1) | (N2) | (N3) *)
Definition orun_decrypt (oracle : sx -> sx) (arg : sx) : sx :=
  sx_result (decrypt (o_hkdf oracle) (o_cbc_dec oracle) (o_hmac oracle)
        (sx_get_b (sx_nth arg 0)) (sx_get_b (sx_nth arg 1)) (sx_get_b (sx_nth arg 2))).

(* arg: B data -> B padded *)
Definition run_pad (arg : sx) : sx := SB (pkcs7_pad (sx_get_b arg)).

(* arg: B data -> () invalid | (B unpadded) *)
Definition run_unpad (arg : sx) : sx := sx_opt SB (pkcs7_unpad (sx_get_b arg)).
