(* Non-vacuity of enc_prims_ok: a concrete toy instance (multiplicative "DH" on one byte,
   "AEAD" that appends a marker byte) satisfies every hypothesis, and the blob theorem then
   yields a concrete conclusion.  The real X25519 / AES-GCM are exercised by the harness. *)
From YV Require Import Common.Tac C20.C20Model C20.C20ProofsUrl C20.C20ProofsTok.

Local Open Scope N_scope.

Definition toy_keypair (s : N) : list N * list N := ([s mod 256], repeat (s mod 256) 32).
Definition toy_dh (pub priv : list N) : list N := [(hd 0 pub * hd 0 priv) mod 256].
Definition toy_aead_enc (k n p a : list N) : list N := p ++ [7].
Definition toy_aead_dec (k n c a : list N) : option (list N) :=
  if last c 0 =? 7 then Some (removelast c) else None.

Lemma repeat_byte x n : byte x -> Forall byte (repeat x n).
Proof. intros H. induction n; cbn [repeat]; constructor; assumption. Qed.

Example toy_enc_prims_ok : enc_prims_ok toy_keypair toy_dh toy_aead_enc toy_aead_dec.
Proof.
  unfold enc_prims_ok, priv_of, pub_of, toy_keypair, toy_dh, toy_aead_enc, toy_aead_dec.
  split; [|split; [|split]].
  - intros s t. cbn [fst snd repeat hd]. f_equal. lia.
  - intros k n p a _. rewrite last_last, N.eqb_refl, removelast_last. reflexivity.
  - intros s. cbn [snd]. split; [apply repeat_length|].
    apply repeat_byte. unfold byte. lia.
  - intros k n p a Hp. apply Forall_app. split; [exact Hp|]. constructor; [unfold byte; lia|constructor].
Qed.

(* cc=49 & in = "1-2" : decrypts under the toy server key 5, drawn ephemeral 9 *)
Definition toy_ps : list (list N * pvalue) := [([99; 99], VInt 49); ([105; 110], VStr [49; 45; 50])].

Lemma toy_ps_ok : Forall param_ok toy_ps.
Proof.
  unfold toy_ps, param_ok, key_ok, value_ok, codepoint.
  repeat constructor; cbn; try lia.
Qed.

Example toy_blob_decrypts :
  decrypt_blob toy_dh toy_aead_dec (priv_of toy_keypair 5)
    (encrypt_params toy_keypair toy_dh toy_aead_enc (pub_of toy_keypair 5) toy_ps 9)
  = Some [99; 99; 61; 52; 57; 38; 105; 110; 61; 49; 37; 50; 100; 50].
Proof.
  rewrite (blob_decrypts_thm _ _ _ _ toy_enc_prims_ok 5 toy_ps 9 toy_ps_ok).
  vm_compute. reflexivity.
Qed.
