(* C20 proofs, part 1: percent-encoding (urlencode / urlencodeParams). *)
From YV Require Import Common.Tac C20.C20Model.

Local Open Scope N_scope.

(* ---------- finite sweeps: a boolean fact checked on 0..n-1 holds below n ---------- *)
Fixpoint nrange (n : nat) : list N :=
  match n with O => [] | S k => nrange k ++ [N.of_nat k] end.

Lemma In_nrange n : forall x, x < N.of_nat n -> In x (nrange n).
Proof.
  induction n as [|n IH]; intros x H; [lia|]. cbn [nrange]. apply in_or_app.
  destruct (N.eq_dec x (N.of_nat n)) as [->|Hne]; [right; left; reflexivity|left; apply IH; lia].
Qed.

Lemma below (n : nat) (P : N -> bool) :
  forallb P (nrange n) = true -> forall x, x < N.of_nat n -> P x = true.
Proof. intros H x Hx. rewrite forallb_forall in H. apply H, In_nrange, Hx. Qed.

Fixpoint leqb (a b : list N) : bool :=
  match a, b with
  | [], [] => true
  | x :: a', y :: b' => (x =? y) && leqb a' b'
  | _, _ => false
  end.

Lemma leqb_eq a : forall b, leqb a b = true -> a = b.
Proof.
  induction a as [|x a IH]; intros [|y b] H; try reflexivity; try discriminate.
  cbn [leqb] in H. apply andb_true_iff in H. destruct H as [H1 H2].
  apply N.eqb_eq in H1. apply IH in H2. subst. reflexivity.
Qed.

(* ---------- list plumbing ---------- *)
Lemma flat_map_ext_Forall {A B} (P : A -> Prop) (f g : A -> list B) l :
  Forall P l -> (forall x, P x -> f x = g x) -> flat_map f l = flat_map g l.
Proof.
  intros HF H. induction HF as [|x l Hx _ IH]; [reflexivity|]. cbn [flat_map]. rewrite IH, (H x Hx). reflexivity.
Qed.

Lemma flat_map_flat_map {A B C} (f : A -> list B) (g : B -> list C) l :
  flat_map g (flat_map f l) = flat_map (fun x => flat_map g (f x)) l.
Proof. induction l as [|x l IH]; [reflexivity|]. cbn [flat_map]. rewrite flat_map_app, IH. reflexivity. Qed.

Lemma map_flat_map {A B C} (f : A -> list B) (g : B -> C) l :
  map g (flat_map f l) = flat_map (fun x => map g (f x)) l.
Proof. induction l as [|x l IH]; [reflexivity|]. cbn [flat_map]. rewrite map_app, IH. reflexivity. Qed.

Lemma Forall_flat_map {A B} (P : B -> Prop) (Q : A -> Prop) (f : A -> list B) l :
  Forall Q l -> (forall x, Q x -> Forall P (f x)) -> Forall P (flat_map f l).
Proof.
  intros HF H. induction HF as [|x l Hx _ IH]; [constructor|]. cbn [flat_map].
  apply Forall_app. split; [apply H, Hx|exact IH].
Qed.

Lemma replace1_flat_map {A} c r (f : A -> list N) l :
  replace1 c r (flat_map f l) = flat_map (fun x => replace1 c r (f x)) l.
Proof. unfold replace1. apply flat_map_flat_map. Qed.

Lemma replace3_flat_map {A} (f : A -> list N) l :
  replace3 (flat_map f l) = flat_map (fun x => replace3 (f x)) l.
Proof. unfold replace3. rewrite !replace1_flat_map. reflexivity. Qed.

(* ---------- per-byte facts, by exhaustive evaluation over the 256 bytes ---------- *)
Lemma byte_piece : forall b, byte b -> replace3 (quote_piece [b]) = pct_encode_byte b.
Proof.
  intros b Hb. apply leqb_eq.
  apply (below 256 (fun b => leqb (replace3 (quote_piece [b])) (pct_encode_byte b))); [vm_compute; reflexivity|exact Hb].
Qed.

Definition high (b : N) : Prop := 128 <= b < 256.

Lemma high_quote : forall b, high b ->
  urllib_quote_byte b = [37; hex_upper (b / 16); hex_upper (b mod 16)] /\
  replace3 (map ascii_lower [37; hex_upper (b / 16); hex_upper (b mod 16)]) = pct_encode_byte b.
Proof.
  intros b [Hlo Hhi].
  assert (H := below 256 (fun b => (b <? 128) ||
     (leqb (urllib_quote_byte b) [37; hex_upper (b / 16); hex_upper (b mod 16)] &&
      leqb (replace3 (map ascii_lower [37; hex_upper (b / 16); hex_upper (b mod 16)])) (pct_encode_byte b)))
     eq_refl b Hhi).
  cbv beta in H. apply orb_true_iff in H. destruct H as [H|H]; [lia|].
  apply andb_true_iff in H. destruct H as [H1 H2]. split; apply leqb_eq; assumption.
Qed.

Lemma high_piece : forall l, l <> [] -> Forall high l -> replace3 (quote_piece l) = pct_encode l.
Proof.
  intros l Hne HF. unfold quote_piece.
  assert (Hq : flat_map urllib_quote_byte l =
               flat_map (fun b => [37; hex_upper (b / 16); hex_upper (b mod 16)]) l).
  { apply (flat_map_ext_Forall high); [exact HF|]. intros x Hx. apply (high_quote x Hx). }
  rewrite Hq. destruct l as [|b l]; [contradiction|].
  cbn [flat_map app]. rewrite N.eqb_refl.
  change (37 :: hex_upper (b / 16) :: hex_upper (b mod 16) ::
          flat_map (fun b0 => [37; hex_upper (b0 / 16); hex_upper (b0 mod 16)]) l)
    with (flat_map (fun b0 => [37; hex_upper (b0 / 16); hex_upper (b0 mod 16)]) (b :: l)).
  rewrite map_flat_map, replace3_flat_map. unfold pct_encode.
  apply (flat_map_ext_Forall high); [exact HF|]. intros x Hx. apply (high_quote x Hx).
Qed.

(* ---------- UTF-8 facts ---------- *)
Lemma utf8_char_ascii cp : cp < 128 -> utf8_char cp = [cp].
Proof. intros H. unfold utf8_char. destruct (N.ltb_spec cp 128); [reflexivity|lia]. Qed.

Lemma utf8_char_high cp : 128 <= cp -> codepoint cp -> utf8_char cp <> [] /\ Forall high (utf8_char cp).
Proof.
  unfold codepoint, utf8_char, high. intros Hlo Hhi.
  destruct (N.ltb_spec cp 128); [lia|].
  destruct (N.ltb_spec cp 2048).
  { split; [discriminate|]. repeat constructor; lia. }
  destruct (N.ltb_spec cp 65536).
  { split; [discriminate|]. repeat constructor; lia. }
  split; [discriminate|]. repeat constructor; lia.
Qed.

Lemma utf8_char_bytes cp : codepoint cp -> Forall byte (utf8_char cp).
Proof.
  intros H. destruct (N.lt_ge_cases cp 128) as [Hlt|Hge].
  - rewrite utf8_char_ascii by exact Hlt. constructor; [unfold byte; lia|constructor].
  - destruct (utf8_char_high cp Hge H) as [_ HF]. eapply Forall_impl; [|exact HF].
    unfold high, byte. intros; lia.
Qed.

Lemma utf8_bytes s : Forall codepoint s -> Forall byte (utf8 s).
Proof. intros H. unfold utf8. apply (Forall_flat_map byte codepoint); [exact H|apply utf8_char_bytes]. Qed.

Lemma utf8_ascii s : Forall (fun c => c < 128) s -> utf8 s = s.
Proof.
  intros H. unfold utf8. induction H as [|x l Hx _ IH]; [reflexivity|].
  cbn [flat_map]. rewrite IH, utf8_char_ascii by exact Hx. reflexivity.
Qed.

Lemma char_piece cp : codepoint cp -> replace3 (quote_piece (utf8_char cp)) = pct_encode (utf8_char cp).
Proof.
  intros H. destruct (N.lt_ge_cases cp 128) as [Hlt|Hge].
  - rewrite utf8_char_ascii by exact Hlt. unfold pct_encode. cbn [flat_map]. rewrite app_nil_r.
    apply byte_piece. unfold byte. lia.
  - destruct (utf8_char_high cp Hge H) as [Hne HF]. apply high_piece; assumption.
Qed.

(* ---------- the code's urlencode is RFC 3986 percent-encoding of the value's bytes ---------- *)
Lemma urlencode_bytes_spec bs : Forall byte bs -> urlencode_bytes bs = pct_encode bs.
Proof.
  intros H. unfold urlencode_bytes, pct_encode. rewrite replace3_flat_map.
  apply (flat_map_ext_Forall byte); [exact H|]. intros x Hx. apply byte_piece, Hx.
Qed.

Lemma urlencode_str_spec s : Forall codepoint s -> urlencode_str s = pct_encode (utf8 s).
Proof.
  intros H. unfold urlencode_str, pct_encode, utf8. rewrite replace3_flat_map, flat_map_flat_map.
  apply (flat_map_ext_Forall codepoint); [exact H|]. intros x Hx. apply char_piece, Hx.
Qed.

(* decimal text *)
Lemma uint_bytes_digits u : Forall (fun c => 48 <= c <= 57) (uint_bytes u).
Proof. induction u; cbn [uint_bytes]; constructor; try assumption; lia. Qed.

Lemma decimal_ascii z : Forall (fun c => c < 128) (decimal z).
Proof.
  unfold decimal. destruct (Z.to_int z) as [u|u].
  - eapply Forall_impl; [|apply uint_bytes_digits]. cbv beta. intros; lia.
  - constructor; [lia|]. eapply Forall_impl; [|apply uint_bytes_digits]. cbv beta. intros; lia.
Qed.

Lemma value_bytes_ok v : value_ok v -> Forall byte (value_bytes v).
Proof.
  destruct v as [b|s|z]; cbn [value_ok value_bytes]; intros H.
  - exact H.
  - apply utf8_bytes, H.
  - eapply Forall_impl; [|apply decimal_ascii]. unfold byte. cbv beta. intros; lia.
Qed.

Theorem urlencode_spec_thm : forall v, value_ok v -> urlencode v = pct_encode (value_bytes v).
Proof.
  intros [b|s|z] H; cbn [urlencode value_bytes value_ok] in *.
  - apply urlencode_bytes_spec, H.
  - apply urlencode_str_spec, H.
  - rewrite urlencode_str_spec.
    + rewrite utf8_ascii by apply decimal_ascii. reflexivity.
    + eapply Forall_impl; [|apply decimal_ascii]. unfold codepoint. cbv beta. intros; lia.
Qed.

(* ---------- decoding ---------- *)
Lemma pct_byte_cases : forall b, byte b ->
  (pct_encode_byte b = [b] /\ (b =? 37) = false /\ (is_alnum b || (b =? 46)) = true) \/
  (exists h l, pct_encode_byte b = [37; h; l] /\ (is_lower_hex h && is_lower_hex l) = true /\
               (is_hex h && is_hex l) = true /\ 16 * hexval h + hexval l = b).
Proof.
  intros b Hb. unfold pct_encode_byte.
  assert (H := below 256 (fun b =>
     if is_alnum b || (b =? 46) then negb (b =? 37)
     else is_lower_hex (hex_lower (b / 16)) && is_lower_hex (hex_lower (b mod 16)) &&
          (is_hex (hex_lower (b / 16)) && is_hex (hex_lower (b mod 16))) &&
          (16 * hexval (hex_lower (b / 16)) + hexval (hex_lower (b mod 16)) =? b)) eq_refl b Hb).
  cbv beta in H. destruct (is_alnum b || (b =? 46)) eqn:E.
  - left. repeat split. destruct (b =? 37); [discriminate|reflexivity].
  - right. exists (hex_lower (b / 16)), (hex_lower (b mod 16)).
    apply andb_true_iff in H. destruct H as [H H3]. apply andb_true_iff in H. destruct H as [H1 H2].
    apply N.eqb_eq in H3. repeat split; assumption.
Qed.

Lemma decode_byte b r : byte b -> percent_decode (pct_encode_byte b ++ r) = b :: percent_decode r.
Proof.
  intros Hb. destruct (pct_byte_cases b Hb) as [(E & Hne & _)|(h & l & E & _ & Hh & Hv)]; rewrite E.
  - cbn [app percent_decode]. rewrite Hne. reflexivity.
  - cbn [app percent_decode]. rewrite N.eqb_refl, Hh, Hv. reflexivity.
Qed.

Lemma decode_pct bs : Forall byte bs -> percent_decode (pct_encode bs) = bs.
Proof.
  intros H. unfold pct_encode. induction H as [|b l Hb _ IH]; [reflexivity|].
  cbn [flat_map]. rewrite decode_byte by exact Hb. rewrite IH. reflexivity.
Qed.

(* standard decoding of an encoded parameter value returns the value *)
Theorem urlencode_rt_thm : forall v, value_ok v -> percent_decode (urlencode v) = value_bytes v.
Proof.
  intros v H. rewrite urlencode_spec_thm by exact H. apply decode_pct, value_bytes_ok, H.
Qed.

(* the text case down to the characters: UTF-8 is modelled concretely, so the decoded bytes are
   the UTF-8 encoding of the original string *)
Corollary urlencode_str_rt s : Forall codepoint s -> percent_decode (urlencode (VStr s)) = utf8 s.
Proof. intros H. apply (urlencode_rt_thm (VStr s) H). Qed.

(* UTF-8 reads back: together with urlencode_str_rt, text values are recovered character by
   character *)
Lemma utf8_decode_char cp rest : codepoint cp ->
  utf8_decode (utf8_char cp ++ rest) = option_map (cons cp) (utf8_decode rest).
Proof.
  unfold codepoint, utf8_char. intros Hcp.
  destruct (N.ltb_spec cp 128) as [H1|H1].
  { cbn [app utf8_decode]. destruct (N.ltb_spec cp 128); [reflexivity|lia]. }
  destruct (N.ltb_spec cp 2048) as [H2|H2].
  { cbn [app utf8_decode]. unfold is_cont.
    destruct (N.ltb_spec (192 + cp / 64) 128); [lia|].
    destruct (N.ltb_spec (192 + cp / 64) 192); [lia|].
    destruct (N.ltb_spec (192 + cp / 64) 224); [|lia].
    destruct (N.leb_spec 128 (128 + cp mod 64)); [|lia].
    destruct (N.ltb_spec (128 + cp mod 64) 192); [|lia]. cbn [andb].
    replace ((192 + cp / 64 - 192) * 64 + (128 + cp mod 64 - 128)) with cp by lia. reflexivity. }
  destruct (N.ltb_spec cp 65536) as [H3|H3].
  { cbn [app utf8_decode]. unfold is_cont.
    destruct (N.ltb_spec (224 + cp / 4096) 128); [lia|].
    destruct (N.ltb_spec (224 + cp / 4096) 192); [lia|].
    destruct (N.ltb_spec (224 + cp / 4096) 224); [lia|].
    destruct (N.ltb_spec (224 + cp / 4096) 240); [|lia].
    destruct (N.leb_spec 128 (128 + (cp / 64) mod 64)); [|lia].
    destruct (N.ltb_spec (128 + (cp / 64) mod 64) 192); [|lia].
    destruct (N.leb_spec 128 (128 + cp mod 64)); [|lia].
    destruct (N.ltb_spec (128 + cp mod 64) 192); [|lia]. cbn [andb].
    replace ((224 + cp / 4096 - 224) * 4096 + (128 + (cp / 64) mod 64 - 128) * 64 + (128 + cp mod 64 - 128))
      with cp by lia. reflexivity. }
  cbn [app utf8_decode]. unfold is_cont.
  destruct (N.ltb_spec (240 + cp / 262144) 128); [lia|].
  destruct (N.ltb_spec (240 + cp / 262144) 192); [lia|].
  destruct (N.ltb_spec (240 + cp / 262144) 224); [lia|].
  destruct (N.ltb_spec (240 + cp / 262144) 240); [lia|].
  destruct (N.ltb_spec (240 + cp / 262144) 248); [|lia].
  destruct (N.leb_spec 128 (128 + (cp / 4096) mod 64)); [|lia].
  destruct (N.ltb_spec (128 + (cp / 4096) mod 64) 192); [|lia].
  destruct (N.leb_spec 128 (128 + (cp / 64) mod 64)); [|lia].
  destruct (N.ltb_spec (128 + (cp / 64) mod 64) 192); [|lia].
  destruct (N.leb_spec 128 (128 + cp mod 64)); [|lia].
  destruct (N.ltb_spec (128 + cp mod 64) 192); [|lia]. cbn [andb].
  replace ((240 + cp / 262144 - 240) * 262144 + (128 + (cp / 4096) mod 64 - 128) * 4096 +
           (128 + (cp / 64) mod 64 - 128) * 64 + (128 + cp mod 64 - 128)) with cp by lia.
  reflexivity.
Qed.

Theorem utf8_rt_thm : forall s, Forall codepoint s -> utf8_decode (utf8 s) = Some s.
Proof.
  intros s H. unfold utf8. induction H as [|cp l Hcp _ IH]; [reflexivity|].
  cbn [flat_map]. rewrite utf8_decode_char by exact Hcp. rewrite IH. reflexivity.
Qed.

Theorem urlencode_text_rt_thm : forall s, Forall codepoint s ->
  utf8_decode (percent_decode (urlencode (VStr s))) = Some s.
Proof. intros s H. rewrite urlencode_str_rt by exact H. apply utf8_rt_thm, H. Qed.

(* ---------- output alphabet ---------- *)
Lemma wf_byte b r : byte b -> wf_enc (pct_encode_byte b ++ r) = wf_enc r.
Proof.
  intros Hb. destruct (pct_byte_cases b Hb) as [(E & Hne & Hal)|(h & l & E & Hl & _ & _)]; rewrite E.
  - cbn [app wf_enc]. rewrite Hne, Hal. reflexivity.
  - cbn [app wf_enc]. rewrite N.eqb_refl, Hl. reflexivity.
Qed.

Lemma wf_pct bs : Forall byte bs -> wf_enc (pct_encode bs) = true.
Proof.
  intros H. unfold pct_encode. induction H as [|b l Hb _ IH]; [reflexivity|].
  cbn [flat_map]. rewrite wf_byte by exact Hb. exact IH.
Qed.

Theorem urlencode_alphabet_thm : forall v, value_ok v -> wf_enc (urlencode v) = true.
Proof. intros v H. rewrite urlencode_spec_thm by exact H. apply wf_pct, value_bytes_ok, H. Qed.

Definition nosep (c : N) : Prop := c <> 38 /\ c <> 61.

Lemma nosep_byte b : byte b -> Forall nosep (pct_encode_byte b).
Proof.
  intros Hb.
  assert (H := below 256 (fun b => forallb (fun c => negb (c =? 38) && negb (c =? 61)) (pct_encode_byte b))
                     eq_refl b Hb).
  cbv beta in H. rewrite forallb_forall in H. apply Forall_forall. intros c Hc.
  apply H in Hc. apply andb_true_iff in Hc. destruct Hc as [H1 H2].
  unfold nosep. split; apply N.eqb_neq; [destruct (c =? 38)|destruct (c =? 61)]; try reflexivity; discriminate.
Qed.

Lemma nosep_urlencode v : value_ok v -> Forall nosep (urlencode v).
Proof.
  intros H. rewrite urlencode_spec_thm by exact H. unfold pct_encode.
  apply (Forall_flat_map nosep byte); [apply value_bytes_ok, H|apply nosep_byte].
Qed.

(* ---------- parameters: order preserved, parseable back ---------- *)
Lemma split_on_nosep c p : Forall (fun x => x <> c) p -> split_on c p = [p].
Proof.
  intros H. induction H as [|x l Hx _ IH]; [reflexivity|].
  cbn [split_on]. apply N.eqb_neq in Hx. rewrite Hx, IH. reflexivity.
Qed.

Lemma split_on_app c p r : Forall (fun x => x <> c) p -> split_on c (p ++ c :: r) = p :: split_on c r.
Proof.
  intros H. induction H as [|x l Hx _ IH]; cbn [app split_on].
  - rewrite N.eqb_refl. reflexivity.
  - apply N.eqb_neq in Hx. rewrite Hx, IH. reflexivity.
Qed.

Lemma split_first_app c k v : Forall (fun x => x <> c) k -> split_first c (k ++ c :: v) = Some (k, v).
Proof.
  intros H. induction H as [|x l Hx _ IH]; cbn [app split_first].
  - rewrite N.eqb_refl. reflexivity.
  - apply N.eqb_neq in Hx. rewrite Hx, IH. reflexivity.
Qed.

Definition piece_of (kv : list N * pvalue) : list N := utf8 (fst kv) ++ [61] ++ urlencode (snd kv).

Lemma piece_no_amp kv : param_ok kv -> Forall (fun x => x <> 38) (piece_of kv).
Proof.
  intros [[_ Hk] Hv]. unfold piece_of. apply Forall_app. split.
  - eapply Forall_impl; [|exact Hk]. cbv beta. intros a [H _]. exact H.
  - apply Forall_app. split; [constructor; [lia|constructor]|].
    eapply Forall_impl; [|apply nosep_urlencode, Hv]. intros a [H _]. exact H.
Qed.

Lemma split_join pieces : pieces <> [] -> Forall (Forall (fun x => x <> 38)) pieces ->
  split_on 38 (join [38] pieces) = pieces.
Proof.
  intros Hne HF. induction HF as [|p l Hp Hl IH]; [contradiction|].
  destruct l as [|q l].
  - cbn [join]. apply split_on_nosep, Hp.
  - change (join [38] (p :: q :: l)) with (p ++ [38] ++ join [38] (q :: l)).
    cbn [app]. rewrite split_on_app by exact Hp. rewrite IH by discriminate. reflexivity.
Qed.

Lemma parse_piece kv : param_ok kv -> split_first 61 (piece_of kv) = Some (utf8 (fst kv), urlencode (snd kv)).
Proof.
  intros [[_ Hk] _]. unfold piece_of. cbn [app]. apply split_first_app.
  eapply Forall_impl; [|exact Hk]. cbv beta. intros a [_ H]. exact H.
Qed.

Lemma parse_pieces_map ps : Forall param_ok ps ->
  parse_pieces (map piece_of ps) = Some (map meaning ps).
Proof.
  intros H. induction H as [|kv l Hkv _ IH]; [reflexivity|].
  cbn [map parse_pieces]. rewrite (parse_piece kv Hkv), IH.
  unfold meaning at 1. rewrite (urlencode_rt_thm _ (proj2 Hkv)). reflexivity.
Qed.

Theorem params_thm : forall ps, Forall param_ok ps ->
  parse_params (urlencode_params ps) = Some (map meaning ps).
Proof.
  intros ps H. unfold urlencode_params. fold piece_of.
  change (map (fun kv => utf8 (fst kv) ++ [61] ++ urlencode (snd kv)) ps) with (map piece_of ps).
  destruct ps as [|kv ps]; [reflexivity|].
  assert (Hs : split_on 38 (join [38] (map piece_of (kv :: ps))) = map piece_of (kv :: ps)).
  { apply split_join; [discriminate|]. apply Forall_map. eapply Forall_impl; [|exact H].
    apply piece_no_amp. }
  assert (Hne : exists x t, join [38] (map piece_of (kv :: ps)) = x :: t).
  { cbn [map]. destruct (map piece_of ps) as [|q l]; cbn [join].
    - unfold piece_of. destruct (utf8 (fst kv)); cbn [app]; eauto.
    - unfold piece_of. destruct (utf8 (fst kv)); cbn [app]; eauto. }
  destruct Hne as (x & t & E). unfold parse_params. rewrite E, <- E, Hs.
  apply parse_pieces_map, H.
Qed.

(* the encoded parameter string is a byte string *)
Lemma pct_byte_bytes b : byte b -> Forall byte (pct_encode_byte b).
Proof.
  intros Hb.
  assert (H := below 256 (fun b => forallb (fun c => c <? 256) (pct_encode_byte b)) eq_refl b Hb).
  cbv beta in H. rewrite forallb_forall in H. apply Forall_forall. intros c Hc.
  apply H in Hc. unfold byte. lia.
Qed.

Lemma urlencode_bytes_out v : value_ok v -> Forall byte (urlencode v).
Proof.
  intros H. rewrite urlencode_spec_thm by exact H. unfold pct_encode.
  apply (Forall_flat_map byte byte); [apply value_bytes_ok, H|apply pct_byte_bytes].
Qed.

Lemma join_bytes sep pieces : Forall byte sep -> Forall (Forall byte) pieces -> Forall byte (join sep pieces).
Proof.
  intros Hs HF. induction HF as [|p l Hp _ IH]; [constructor|].
  destruct l as [|q l]; [exact Hp|].
  change (join sep (p :: q :: l)) with (p ++ sep ++ join sep (q :: l)).
  apply Forall_app. split; [exact Hp|]. apply Forall_app. split; [exact Hs|exact IH].
Qed.

Lemma params_bytes ps : Forall param_ok ps -> Forall byte (urlencode_params ps).
Proof.
  intros H. unfold urlencode_params. apply join_bytes.
  - constructor; [unfold byte; lia|constructor].
  - apply Forall_map. eapply Forall_impl; [|exact H]. intros kv [[Hk _] Hv].
    apply Forall_app. split; [apply utf8_bytes, Hk|].
    apply Forall_app. split; [constructor; [unfold byte; lia|constructor]|apply urlencode_bytes_out, Hv].
Qed.

(* ---------- decimal text reads back ---------- *)
Lemma bytes_uint_rt u : bytes_uint (uint_bytes u) = Some u.
Proof. induction u; cbn [uint_bytes bytes_uint]; try reflexivity; rewrite IHu; reflexivity. Qed.

Theorem decimal_rt_thm : forall z, parse_decimal (decimal z) = Some z.
Proof.
  intros z. unfold decimal. pose proof (DecimalZ.of_to z) as Hz.
  destruct (Z.to_int z) as [u|u] eqn:E.
  - unfold parse_decimal. destruct (uint_bytes u) as [|c r] eqn:Eu.
    + destruct u; cbn [uint_bytes] in Eu; try discriminate.
      (* Z.to_int never yields the empty numeral *)
      (* then Hz reads 0 = z while E says z is not 0 *)
      exfalso. cbn in Hz. subst z. cbn in E. discriminate.
    + assert (Hc : 48 <= c <= 57).
      { pose proof (uint_bytes_digits u) as HF. rewrite Eu in HF. inversion HF; assumption. }
      destruct (N.eqb_spec c 45); [lia|]. rewrite <- Eu, bytes_uint_rt. cbn [option_map]. rewrite Hz. reflexivity.
  - unfold parse_decimal. rewrite N.eqb_refl.
    destruct (uint_bytes u) as [|c r] eqn:Eu.
    + exfalso. destruct u; cbn [uint_bytes] in Eu; try discriminate.
      cbn in Hz. subst z. cbn in E. discriminate.
    + rewrite <- Eu, bytes_uint_rt. cbn [option_map]. rewrite Hz. reflexivity.
Qed.
