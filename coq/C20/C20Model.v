(* Model of the registration-request helpers.  Definitions only.
     yowsup/common/http/warequest.py   WARequest.urlencode / urlencodeParams / encryptParams
     yowsup/env/env_android.py         AndroidYowsupEnv.getToken
   Bytes are N < 256, byte strings list N; a Python str is the list of its code points (N);
   ints are Z.  base64, hex, decimal and UTF-8 are modelled concretely; SHA-1, X25519 key
   generation / agreement and AES-GCM are Section variables.                              *)
From YV Require Import Common.Tac.
From Coq Require Decimal DecimalZ.

Local Open Scope N_scope.

Definition byte (b : N) : Prop := b < 256.

(* ------------------------------------------------------------------ characters *)
Definition is_digit (c : N) : bool := (48 <=? c) && (c <=? 57).
Definition is_upper (c : N) : bool := (65 <=? c) && (c <=? 90).
Definition is_lower (c : N) : bool := (97 <=? c) && (c <=? 122).
Definition is_alnum (c : N) : bool := is_digit c || is_upper c || is_lower c.

(* str.lower() on ASCII *)
Definition ascii_lower (c : N) : N := if is_upper c then c + 32 else c.

Definition hex_upper (d : N) : N := if d <? 10 then 48 + d else 55 + d.   (* 0-9 A-F *)
Definition hex_lower (d : N) : N := if d <? 10 then 48 + d else 87 + d.   (* 0-9 a-f *)
Definition is_lower_hex (c : N) : bool := is_digit c || ((97 <=? c) && (c <=? 102)).
Definition is_hex (c : N) : bool := is_lower_hex c || ((65 <=? c) && (c <=? 70)).
Definition hexval (c : N) : N :=
  if is_digit c then c - 48 else if (97 <=? c) && (c <=? 102) then c - 87 else c - 55.

(* ------------------------------------------------------------------ UTF-8 (str.encode()) *)
Definition utf8_char (cp : N) : list N :=
  if cp <? 128 then [cp]
  else if cp <? 2048 then [192 + cp / 64; 128 + cp mod 64]
  else if cp <? 65536 then [224 + cp / 4096; 128 + (cp / 64) mod 64; 128 + cp mod 64]
  else [240 + cp / 262144; 128 + (cp / 4096) mod 64; 128 + (cp / 64) mod 64; 128 + cp mod 64].

Definition utf8 (s : list N) : list N := flat_map utf8_char s.

(* the standard reading of UTF-8 (lead byte gives the length, continuation bytes are 10xxxxxx);
   None on a malformed sequence.  Written independently of utf8_char. *)
Definition is_cont (b : N) : bool := (128 <=? b) && (b <? 192).

Fixpoint utf8_decode (l : list N) : option (list N) :=
  match l with
  | [] => Some []
  | b0 :: t =>
    if b0 <? 128 then option_map (cons b0) (utf8_decode t)
    else if b0 <? 192 then None
    else if b0 <? 224 then
      match t with
      | b1 :: r =>
        if is_cont b1 then option_map (cons ((b0 - 192) * 64 + (b1 - 128))) (utf8_decode r) else None
      | _ => None
      end
    else if b0 <? 240 then
      match t with
      | b1 :: b2 :: r =>
        if is_cont b1 && is_cont b2
        then option_map (cons ((b0 - 224) * 4096 + (b1 - 128) * 64 + (b2 - 128))) (utf8_decode r)
        else None
      | _ => None
      end
    else if b0 <? 248 then
      match t with
      | b1 :: b2 :: b3 :: r =>
        if is_cont b1 && is_cont b2 && is_cont b3
        then option_map (cons ((b0 - 240) * 262144 + (b1 - 128) * 4096 + (b2 - 128) * 64 + (b3 - 128)))
                        (utf8_decode r)
        else None
      | _ => None
      end
    else None
  end.

(* a Python str character: a code point below 0x110000 *)
Definition codepoint (cp : N) : Prop := cp < 1114112.

(* ------------------------------------------------------------------ decimal text (str(int)) *)
Fixpoint uint_bytes (u : Decimal.uint) : list N :=
  match u with
  | Decimal.Nil => []
  | Decimal.D0 u => 48 :: uint_bytes u | Decimal.D1 u => 49 :: uint_bytes u
  | Decimal.D2 u => 50 :: uint_bytes u | Decimal.D3 u => 51 :: uint_bytes u
  | Decimal.D4 u => 52 :: uint_bytes u | Decimal.D5 u => 53 :: uint_bytes u
  | Decimal.D6 u => 54 :: uint_bytes u | Decimal.D7 u => 55 :: uint_bytes u
  | Decimal.D8 u => 56 :: uint_bytes u | Decimal.D9 u => 57 :: uint_bytes u
  end.

Definition decimal (z : Z) : list N :=
  match Z.to_int z with
  | Decimal.Pos u => uint_bytes u
  | Decimal.Neg u => 45 :: uint_bytes u
  end.

(* the standard reading of a decimal numeral, written independently *)
Fixpoint bytes_uint (l : list N) : option Decimal.uint :=
  match l with
  | [] => Some Decimal.Nil
  | c :: r =>
    match bytes_uint r with
    | None => None
    | Some u =>
      if c =? 48 then Some (Decimal.D0 u) else if c =? 49 then Some (Decimal.D1 u)
      else if c =? 50 then Some (Decimal.D2 u) else if c =? 51 then Some (Decimal.D3 u)
      else if c =? 52 then Some (Decimal.D4 u) else if c =? 53 then Some (Decimal.D5 u)
      else if c =? 54 then Some (Decimal.D6 u) else if c =? 55 then Some (Decimal.D7 u)
      else if c =? 56 then Some (Decimal.D8 u) else if c =? 57 then Some (Decimal.D9 u)
      else None
    end
  end.

Definition parse_decimal (l : list N) : option Z :=
  match l with
  | [] => None
  | c :: r =>
    if c =? 45 then match r with [] => None | _ => option_map (fun u => Z.of_int (Decimal.Neg u)) (bytes_uint r) end
    else option_map (fun u => Z.of_int (Decimal.Pos u)) (bytes_uint l)
  end.

(* ------------------------------------------------------------------ WARequest.urlencode *)
(* urllib.parse.quote(x, safe=''): never quoted are A-Z a-z 0-9 _ . - ~ *)
Definition quote_safe (b : N) : bool :=
  is_alnum b || (b =? 95) || (b =? 46) || (b =? 45) || (b =? 126).

Definition urllib_quote_byte (b : N) : list N :=
  if quote_safe b then [b] else [37; hex_upper (b / 16); hex_upper (b mod 16)].

(* one loop iteration: quoted = urllib_quote(char, safe='');
   out += quoted if quoted[0] != '%' else quoted.lower()
   `piece` is the UTF-8 encoding of the character (str input) or the single byte (bytes input) *)
Definition quote_piece (piece : list N) : list N :=
  let q := flat_map urllib_quote_byte piece in
  match q with
  | c :: _ => if c =? 37 then map ascii_lower q else q
  | [] => q
  end.

(* str.replace(c, r) for a single character c *)
Definition replace1 (c : N) (r : list N) (s : list N) : list N :=
  flat_map (fun x => if x =? c then r else [x]) s.

(* .replace('-', '%2d').replace('_', '%5f').replace('~', '%7e') *)
Definition replace3 (s : list N) : list N :=
  replace1 126 [37; 55; 101] (replace1 95 [37; 53; 102] (replace1 45 [37; 50; 100] s)).

Definition urlencode_bytes (bs : list N) : list N :=
  replace3 (flat_map (fun b => quote_piece [b]) bs).

Definition urlencode_str (s : list N) : list N :=
  replace3 (flat_map (fun cp => quote_piece (utf8_char cp)) s).

Inductive pvalue : Type :=
| VBytes (b : list N)
| VStr (s : list N)        (* code points *)
| VInt (z : Z).

(* if type(value) not in (str, bytes): value = str(value) *)
Definition urlencode (v : pvalue) : list N :=
  match v with
  | VBytes b => urlencode_bytes b
  | VStr s => urlencode_str s
  | VInt z => urlencode_str (decimal z)
  end.

(* the bytes a parameter value stands for (what the server must get back) *)
Definition value_bytes (v : pvalue) : list N :=
  match v with
  | VBytes b => b
  | VStr s => utf8 s
  | VInt z => decimal z
  end.

Fixpoint join (sep : list N) (l : list (list N)) : list N :=
  match l with
  | [] => []
  | [x] => x
  | x :: r => x ++ sep ++ join sep r
  end.

(* "&".join("%s=%s" % (k, urlencode(v)) for k, v in params), as bytes (.encode()) *)
Definition urlencode_params (ps : list (list N * pvalue)) : list N :=
  join [38] (map (fun kv => utf8 (fst kv) ++ [61] ++ urlencode (snd kv)) ps).

(* ---- the independent side: RFC 3986 percent-encoding, and the standard decoder ---- *)
Definition pct_encode_byte (b : N) : list N :=
  if is_alnum b || (b =? 46) then [b] else [37; hex_lower (b / 16); hex_lower (b mod 16)].
Definition pct_encode (bs : list N) : list N := flat_map pct_encode_byte bs.

(* urllib.parse.unquote_to_bytes: %XY with two hex digits (either case) is one byte,
   everything else (incl. a malformed escape) is kept literally *)
Fixpoint percent_decode (s : list N) : list N :=
  match s with
  | [] => []
  | x :: t =>
    if x =? 37 then
      match t with
      | h :: l :: r =>
        if is_hex h && is_hex l then (16 * hexval h + hexval l) :: percent_decode r
        else x :: percent_decode t
      | _ => x :: percent_decode t
      end
    else x :: percent_decode t
  end.

(* output alphabet: every character is alphanumeric or '.', or starts an escape '%' followed by
   exactly two LOWER-case hex digits *)
Fixpoint wf_enc (s : list N) : bool :=
  match s with
  | [] => true
  | x :: t =>
    if x =? 37 then
      match t with
      | h :: l :: r => is_lower_hex h && is_lower_hex l && wf_enc r
      | _ => false
      end
    else (is_alnum x || (x =? 46)) && wf_enc t
  end.

(* a query-string parser: split on '&', each piece at its first '=', decode the value *)
Fixpoint split_on (c : N) (s : list N) : list (list N) :=
  match s with
  | [] => [[]]
  | x :: r =>
    if x =? c then [] :: split_on c r
    else match split_on c r with
         | p :: ps => (x :: p) :: ps
         | [] => [[x]]
         end
  end.

Fixpoint split_first (c : N) (s : list N) : option (list N * list N) :=
  match s with
  | [] => None
  | x :: r =>
    if x =? c then Some ([], r)
    else match split_first c r with
         | Some (a, b) => Some (x :: a, b)
         | None => None
         end
  end.

Fixpoint parse_pieces (l : list (list N)) : option (list (list N * list N)) :=
  match l with
  | [] => Some []
  | p :: r =>
    match split_first 61 p, parse_pieces r with
    | Some (k, v), Some rest => Some ((k, percent_decode v) :: rest)
    | _, _ => None
    end
  end.

Definition parse_params (s : list N) : option (list (list N * list N)) :=
  match s with
  | [] => Some []
  | _ :: _ => parse_pieces (split_on 38 s)
  end.

Definition value_ok (v : pvalue) : Prop :=
  match v with
  | VBytes b => Forall byte b
  | VStr s => Forall codepoint s
  | VInt _ => True
  end.

(* a key is a Python str that does not itself contain the separators '&' and '=' (all of
   yowsup's are plain identifiers) *)
Definition key_ok (k : list N) : Prop :=
  Forall codepoint k /\ Forall (fun c => c <> 38 /\ c <> 61) (utf8 k).
Definition param_ok (kv : list N * pvalue) : Prop := key_ok (fst kv) /\ value_ok (snd kv).
(* what a parameter means to the receiver: key bytes and value bytes *)
Definition meaning (kv : list N * pvalue) : list N * list N := (utf8 (fst kv), value_bytes (snd kv)).


(* ------------------------------------------------------------------ base64 *)
Definition b64char (i : N) : N :=
  if i <? 26 then 65 + i else if i <? 52 then 71 + i else if i <? 62 then i - 4
  else if i =? 62 then 43 else 47.

Definition b64val (c : N) : option N :=
  if is_upper c then Some (c - 65) else if is_lower c then Some (c - 71)
  else if is_digit c then Some (c + 4) else if c =? 43 then Some 62
  else if c =? 47 then Some 63 else None.

Fixpoint b64encode (l : list N) : list N :=
  match l with
  | [] => []
  | a :: t =>
    match t with
    | [] => [b64char (a / 4); b64char ((a mod 4) * 16); 61; 61]
    | b :: t' =>
      match t' with
      | [] => [b64char (a / 4); b64char ((a mod 4) * 16 + b / 16); b64char ((b mod 16) * 4); 61]
      | c :: r =>
        b64char (a / 4) :: b64char ((a mod 4) * 16 + b / 16) ::
        b64char ((b mod 16) * 4 + c / 64) :: b64char (c mod 64) :: b64encode r
      end
    end
  end.

(* strict decoder: alphabet only, padding only in the last group *)
Fixpoint b64decode (s : list N) : option (list N) :=
  match s with
  | [] => Some []
  | c0 :: c1 :: c2 :: c3 :: r =>
    match b64val c0, b64val c1 with
    | Some v0, Some v1 =>
      if c3 =? 61 then
        match r with
        | [] =>
          if c2 =? 61 then Some [v0 * 4 + v1 / 16]
          else match b64val c2 with
               | Some v2 => Some [v0 * 4 + v1 / 16; (v1 mod 16) * 16 + v2 / 4]
               | None => None
               end
        | _ => None
        end
      else
        match b64val c2, b64val c3, b64decode r with
        | Some v2, Some v3, Some rest =>
          Some ((v0 * 4 + v1 / 16) :: ((v1 mod 16) * 16 + v2 / 4) :: ((v2 mod 4) * 64 + v3) :: rest)
        | _, _, _ => None
        end
    | _, _ => None
    end
  | _ => None
  end.

Definition odflt (o : option (list N)) : list N := match o with Some x => x | None => [] end.

(* ------------------------------------------------------------------ getToken *)
Section Token.
  Variable sha1 : list N -> list N.

  (* for i in range(0, 64): pad.append(c ^ keyDecoded[i]) *)
  Definition xor_pad (c : N) (key : list N) : list N := map (fun k => N.lxor c k) (firstn 64 key).

  Definition token_raw (key sig cls phone : list N) : list N :=
    let data := sig ++ cls ++ phone in
    sha1 (xor_pad 92 key ++ sha1 (xor_pad 54 key ++ data)).

  (* None = an exception (undecodable constant, or IndexError for a key shorter than 64) *)
  Definition get_token (key_b64 sig_b64 cls_b64 phone : list N) : option (list N) :=
    match b64decode key_b64, b64decode sig_b64, b64decode cls_b64 with
    | Some key, Some sig, Some cls =>
      if (64 <=? length key)%nat then Some (b64encode (token_raw key sig cls (utf8 phone)))
      else None
    | _, _, _ => None
    end.

  (* ---- independent: HMAC as RFC 2104 defines it, for any hash H with block size B ---- *)
  Fixpoint xor_bytes (a b : list N) : list N :=
    match a, b with
    | x :: a', y :: b' => N.lxor x y :: xor_bytes a' b'
    | _, _ => []
    end.

  Definition hmac_rfc2104 (H : list N -> list N) (B : nat) (K m : list N) : list N :=
    let K0 := if (B <? length K)%nat then H K else K in
    let Kp := K0 ++ repeat 0 (B - length K0) in
    H (xor_bytes Kp (repeat 92 B) ++ H (xor_bytes Kp (repeat 54 B) ++ m)).
End Token.

(* ------------------------------------------------------------------ encryptParams *)
Section Enc.
  (* Curve.generateKeyPair() consuming one draw of the random stream: (private, public[1:]) *)
  Variable gen_keypair : N -> list N * list N.
  (* Curve.calculateAgreement(public, private) *)
  Variable dh : list N -> list N -> list N.
  (* AESGCM(key).encrypt(nonce, data, aad) / .decrypt(nonce, data, aad) *)
  Variable aead_enc : list N -> list N -> list N -> list N -> list N.
  Variable aead_dec : list N -> list N -> list N -> list N -> option (list N).

  Definition priv_of (seed : N) : list N := fst (gen_keypair seed).
  Definition pub_of (seed : N) : list N := snd (gen_keypair seed).

  (* b'\x00\x00\x00\x00' + struct.pack('>Q', 0) *)
  Definition enc_nonce : list N := repeat 0 12.

  (* the payload of [('ENC', payload)]; `draw` is this call's draw from the random stream *)
  Definition encrypt_params (server_pub : list N) (ps : list (list N * pvalue)) (draw : N) : list N :=
    let kp := gen_keypair draw in
    let encoded := urlencode_params ps in
    let ct := aead_enc (dh server_pub (fst kp)) enc_nonce encoded [] in
    b64encode (snd kp ++ ct).

  (* a run of requests: the only state threaded from one call to the next is the position in
     the random stream -- nothing about earlier keys is kept *)
  Fixpoint encrypt_calls (server_pub : list N) (rng : nat -> N) (pos : nat)
           (reqs : list (list (list N * pvalue))) : list (list N) :=
    match reqs with
    | [] => []
    | ps :: r => encrypt_params server_pub ps (rng pos) :: encrypt_calls server_pub rng (S pos) r
    end.

  (* what the server does with the blob *)
  Definition decrypt_blob (server_priv : list N) (blob : list N) : option (list N) :=
    match b64decode blob with
    | Some raw => aead_dec (dh (firstn 32 raw) server_priv) enc_nonce (skipn 32 raw) []
    | None => None
    end.

  Definition enc_prims_ok : Prop :=
    (forall s t, dh (pub_of s) (priv_of t) = dh (pub_of t) (priv_of s)) /\
    (forall k n p a, Forall byte p -> aead_dec k n (aead_enc k n p a) a = Some p) /\
    (forall s, length (pub_of s) = 32%nat /\ Forall byte (pub_of s)) /\
    (forall k n p a, Forall byte p -> Forall byte (aead_enc k n p a)).
End Enc.
