(* Glue between the sx line format and the C20 model (unverified, trusted, tiny).
   value encoding:  (N0 B bytes) | (N1 (N cp ...)) | (N2 N sign B magnitude)   sign 1 = negative,
                    magnitude big-endian base 256 (the driver's numbers are native ints)
   Oracle ids: 1 sha1 (B)   2 gen_keypair (N draw) -> (B priv B pub)   3 dh (B pub B priv)
               4 aead_enc (B key B nonce B data B aad)   5 aead_dec (...) -> () | (B plain)   *)
From YV Require Import Common.Tac Common.Sx C20.C20Model.

Definition sx_cps (s : sx) : list N := map sx_get_n (sx_get_l s).

Definition be_N (l : list N) : N := fold_left (fun acc b => acc * 256 + b)%N l 0%N.

Definition sx_value (s : sx) : pvalue :=
  let tag := sx_get_n (sx_nth s 0) in
  if (tag =? 0)%N then VBytes (sx_get_b (sx_nth s 1))
  else if (tag =? 1)%N then VStr (sx_cps (sx_nth s 1))
  else let m := Z.of_N (be_N (sx_get_b (sx_nth s 2))) in
       VInt (if sx_get_bool (sx_nth s 1) then Z.opp m else m).

Definition sx_params (s : sx) : list (list N * pvalue) :=
  map (fun kv => (sx_cps (sx_nth kv 0), sx_value (sx_nth kv 1))) (sx_get_l s).

(* value -> B *)
Definition run_urlencode (arg : sx) : sx := SB (urlencode (sx_value arg)).
(* value -> B : the bytes the value stands for *)
Definition run_value_bytes (arg : sx) : sx := SB (value_bytes (sx_value arg)).
(* ((cps value) ...) -> B *)
Definition run_urlencode_params (arg : sx) : sx := SB (urlencode_params (sx_params arg)).
Definition run_percent_decode (arg : sx) : sx := SB (percent_decode (sx_get_b arg)).
Definition run_pct_encode (arg : sx) : sx := SB (pct_encode (sx_get_b arg)).
(* B -> () | ((B key B value) ...) *)
Definition run_parse_params (arg : sx) : sx :=
  sx_opt (fun l => SL (map (fun kv => SL [SB (fst kv); SB (snd kv)]) l)) (parse_params (sx_get_b arg)).
Definition run_b64encode (arg : sx) : sx := SB (b64encode (sx_get_b arg)).
Definition run_b64decode (arg : sx) : sx := sx_opt SB (b64decode (sx_get_b arg)).
Definition run_utf8 (arg : sx) : sx := SB (utf8 (sx_cps arg)).
(* B -> () | ((N cp ...)) *)
Definition run_utf8_decode (arg : sx) : sx := sx_opt (fun l => SL (map SN l)) (utf8_decode (sx_get_b arg)).
(* B -> () | (N sign N magnitude)   (only used below 2^60) *)
Definition run_parse_decimal (arg : sx) : sx :=
  sx_opt (fun z => SL [sx_bool (Z.ltb z 0); SN (Z.abs_N z)]) (parse_decimal (sx_get_b arg)).

Definition o_sha1 (oracle : sx -> sx) (m : list N) : list N := sx_get_b (oracle (SL [SN 1; SB m])).
Definition o_keypair (oracle : sx -> sx) (draw : N) : list N * list N :=
  let r := oracle (SL [SN 2; SN draw]) in (sx_get_b (sx_nth r 0), sx_get_b (sx_nth r 1)).
Definition o_dh (oracle : sx -> sx) (pub priv : list N) : list N :=
  sx_get_b (oracle (SL [SN 3; SB pub; SB priv])).
Definition o_aead_enc (oracle : sx -> sx) (k n p a : list N) : list N :=
  sx_get_b (oracle (SL [SN 4; SB k; SB n; SB p; SB a])).
Definition o_aead_dec (oracle : sx -> sx) (k n c a : list N) : option (list N) :=
  match sx_get_l (oracle (SL [SN 5; SB k; SB n; SB c; SB a])) with
  | [x] => Some (sx_get_b x)
  | _ => None
  end.

(* (B key_b64  B sig_b64  B cls_b64  (cps phone)) -> () | (B token) *)
Definition orun_token (oracle : sx -> sx) (arg : sx) : sx :=
  sx_opt SB (get_token (o_sha1 oracle) (sx_get_b (sx_nth arg 0)) (sx_get_b (sx_nth arg 1))
                       (sx_get_b (sx_nth arg 2)) (sx_cps (sx_nth arg 3))).

(* (B server_pub  (N draw ...)  N start  (params ...)) -> (B blob ...) : a run of calls *)
Definition orun_encrypt_calls (oracle : sx -> sx) (arg : sx) : sx :=
  let draws := map sx_get_n (sx_get_l (sx_nth arg 1)) in
  SL (map SB (encrypt_calls (o_keypair oracle) (o_dh oracle) (o_aead_enc oracle)
                (sx_get_b (sx_nth arg 0)) (fun i => nth i draws 0%N)
                (N.to_nat (sx_get_n (sx_nth arg 2)))
                (map sx_params (sx_get_l (sx_nth arg 3))))).

(* (B server_priv  B blob) -> () | (B plaintext) *)
Definition orun_decrypt_blob (oracle : sx -> sx) (arg : sx) : sx :=
  sx_opt SB (decrypt_blob (o_dh oracle) (o_aead_dec oracle)
                          (sx_get_b (sx_nth arg 0)) (sx_get_b (sx_nth arg 1))).
