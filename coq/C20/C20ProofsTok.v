(* C20 proofs, part 2: base64, the token construction, the encrypted blob. *)
From YV Require Import Common.Tac C20.C20Model C20.C20ProofsUrl.

Local Open Scope N_scope.

(* ---------- base64 ---------- *)
Lemma b64_sextet : forall i, i < 64 -> b64val (b64char i) = Some i /\ (b64char i =? 61) = false.
Proof.
  intros i Hi.
  assert (H := below 64 (fun i => match b64val (b64char i) with Some j => j =? i | None => false end
                                  && negb (b64char i =? 61)) eq_refl i Hi).
  cbv beta in H. apply andb_true_iff in H. destruct H as [H1 H2].
  destruct (b64val (b64char i)) as [j|]; [|discriminate]. apply N.eqb_eq in H1. subst j.
  split; [reflexivity|]. destruct (b64char i =? 61); [discriminate|reflexivity].
Qed.

Lemma b64_rt_n : forall n l, (length l <= n)%nat -> Forall byte l -> b64decode (b64encode l) = Some l.
Proof.
  unfold byte. induction n as [|n IH]; intros l Hl HF.
  { destruct l; [reflexivity|cbn in Hl; lia]. }
  destruct l as [|a [|b [|c r]]].
  - reflexivity.
  - inversion HF as [|? ? Ha _]; subst.
    cbn [b64encode b64decode].
    destruct (b64_sextet (a / 4)) as [E0 _]; [lia|].
    destruct (b64_sextet ((a mod 4) * 16)) as [E1 _]; [lia|].
    rewrite E0, E1, !N.eqb_refl. f_equal. f_equal. lia.
  - inversion HF as [|? ? Ha HF1]; subst. inversion HF1 as [|? ? Hb _]; subst.
    cbn [b64encode b64decode].
    destruct (b64_sextet (a / 4)) as [E0 _]; [lia|].
    destruct (b64_sextet ((a mod 4) * 16 + b / 16)) as [E1 _]; [lia|].
    destruct (b64_sextet ((b mod 16) * 4)) as [E2 N2]; [lia|].
    rewrite E0, E1, N.eqb_refl, N2, E2. f_equal. f_equal; [lia|]. f_equal. lia.
  - inversion HF as [|? ? Ha HF1]; subst. inversion HF1 as [|? ? Hb HF2]; subst.
    inversion HF2 as [|? ? Hc HF3]; subst.
    cbn [b64encode b64decode].
    destruct (b64_sextet (a / 4)) as [E0 _]; [lia|].
    destruct (b64_sextet ((a mod 4) * 16 + b / 16)) as [E1 _]; [lia|].
    destruct (b64_sextet ((b mod 16) * 4 + c / 64)) as [E2 _]; [lia|].
    destruct (b64_sextet (c mod 64)) as [E3 N3]; [lia|].
    rewrite E0, E1, N3, E2, E3.
    rewrite (IH r); [|cbn [length] in Hl; lia|exact HF3].
    f_equal. f_equal; [lia|]. f_equal; [lia|]. f_equal. lia.
Qed.

Theorem b64_rt_thm : forall l, Forall byte l -> b64decode (b64encode l) = Some l.
Proof. intros l. apply (b64_rt_n (length l)). lia. Qed.

(* ---------- token: the manual pads are RFC 2104 HMAC with the first 64 key bytes ---------- *)
Lemma xor_bytes_repeat c : forall K, xor_bytes K (repeat c (length K)) = map (fun k => N.lxor c k) K.
Proof.
  induction K as [|x K IH]; [reflexivity|].
  cbn [length repeat xor_bytes map]. rewrite IH, N.lxor_comm. reflexivity.
Qed.

Lemma hmac_exact_block (H : list N -> list N) (B : nat) (K m : list N) : length K = B ->
  hmac_rfc2104 H B K m = H (map (fun k => N.lxor 92 k) K ++ H (map (fun k => N.lxor 54 k) K ++ m)).
Proof.
  intros <-. unfold hmac_rfc2104. rewrite Nat.ltb_irrefl, Nat.sub_diag. cbn [repeat].
  rewrite app_nil_r, !xor_bytes_repeat. reflexivity.
Qed.

Theorem token_raw_thm : forall sha1 key sig cls phone, (64 <= length key)%nat ->
  token_raw sha1 key sig cls phone = hmac_rfc2104 sha1 64 (firstn 64 key) (sig ++ cls ++ phone).
Proof.
  intros sha1 key sig cls phone Hk. rewrite hmac_exact_block.
  - reflexivity.
  - rewrite firstn_length. apply Nat.min_l. exact Hk.
Qed.

(* what getToken returns, whenever it returns *)
Theorem token_thm : forall sha1 kb sb cb phone tok,
  get_token sha1 kb sb cb phone = Some tok ->
  exists key sig cls,
    b64decode kb = Some key /\ b64decode sb = Some sig /\ b64decode cb = Some cls /\
    (64 <= length key)%nat /\
    tok = b64encode (hmac_rfc2104 sha1 64 (firstn 64 key) (sig ++ cls ++ utf8 phone)).
Proof.
  intros sha1 kb sb cb phone tok. unfold get_token.
  destruct (b64decode kb) as [key|]; [|discriminate].
  destruct (b64decode sb) as [sig|]; [|discriminate].
  destruct (b64decode cb) as [cls|]; [|discriminate].
  destruct (Nat.leb_spec 64 (length key)) as [Hk|]; [|discriminate].
  intros H. apply Some_inj in H. subst tok. exists key, sig, cls.
  repeat split; try assumption. rewrite token_raw_thm by exact Hk. reflexivity.
Qed.

Lemma token_some : forall sha1 kb sb cb phone key sig cls,
  b64decode kb = Some key -> b64decode sb = Some sig -> b64decode cb = Some cls ->
  (64 <=? length key)%nat = true ->
  get_token sha1 kb sb cb phone =
  Some (b64encode (hmac_rfc2104 sha1 64 (firstn 64 key) (sig ++ cls ++ utf8 phone))).
Proof.
  intros sha1 kb sb cb phone key sig cls E1 E2 E3 Hk. unfold get_token.
  rewrite E1, E2, E3, Hk. rewrite token_raw_thm by (apply Nat.leb_le, Hk). reflexivity.
Qed.

(* ---------- the encrypted blob ---------- *)
Lemma firstn_app_len {A} n (a b : list A) : length a = n -> firstn n (a ++ b) = a.
Proof. intros <-. rewrite firstn_app, firstn_all, Nat.sub_diag. cbn [firstn]. apply app_nil_r. Qed.

Lemma skipn_app_len {A} n (a b : list A) : length a = n -> skipn n (a ++ b) = b.
Proof. intros <-. rewrite skipn_app, skipn_all, Nat.sub_diag. reflexivity. Qed.

Section EncProofs.
  Variable gen_keypair : N -> list N * list N.
  Variable dh : list N -> list N -> list N.
  Variable aead_enc : list N -> list N -> list N -> list N -> list N.
  Variable aead_dec : list N -> list N -> list N -> list N -> option (list N).
  Hypothesis Hok : enc_prims_ok gen_keypair dh aead_enc aead_dec.

  Notation priv_of := (priv_of gen_keypair).
  Notation pub_of := (pub_of gen_keypair).
  Notation encrypt_params := (encrypt_params gen_keypair dh aead_enc).
  Notation encrypt_calls := (encrypt_calls gen_keypair dh aead_enc).
  Notation decrypt_blob := (decrypt_blob dh aead_dec).

  Let Hdh := proj1 Hok.
  Let Haead := proj1 (proj2 Hok).
  Let Hpub := proj1 (proj2 (proj2 Hok)).
  Let Hct := proj2 (proj2 (proj2 Hok)).

  (* blob = b64(ephemeral public key (32 bytes) || AES-GCM ciphertext of the encoded parameters) *)
  Theorem blob_layout_thm : forall server_pub ps draw, Forall param_ok ps ->
    b64decode (encrypt_params server_pub ps draw) =
    Some (pub_of draw ++ aead_enc (dh server_pub (priv_of draw)) enc_nonce (urlencode_params ps) []) /\
    length (pub_of draw) = 32%nat.
  Proof.
    intros server_pub ps draw Hps. split; [|apply Hpub].
    unfold C20Model.encrypt_params. apply b64_rt_thm. apply Forall_app.
    split; [apply Hpub|apply Hct, params_bytes, Hps].
  Qed.

  (* the holder of the private key matching the server key used recovers exactly the encoded
     parameter string *)
  Theorem blob_decrypts_thm : forall s ps draw, Forall param_ok ps ->
    decrypt_blob (priv_of s) (encrypt_params (pub_of s) ps draw) = Some (urlencode_params ps).
  Proof.
    intros s ps draw Hps. unfold C20Model.decrypt_blob.
    rewrite (proj1 (blob_layout_thm (pub_of s) ps draw Hps)).
    rewrite (firstn_app_len 32) by apply Hpub. rewrite (skipn_app_len 32) by apply Hpub.
    rewrite (Hdh draw s). apply Haead, params_bytes, Hps.
  Qed.

  (* the j-th request of a run uses the j-th draw after the starting position, and nothing else *)
  Theorem ephemeral_per_call_thm : forall server_pub rng reqs pos j ps,
    nth_error reqs j = Some ps ->
    nth_error (encrypt_calls server_pub rng pos reqs) j = Some (encrypt_params server_pub ps (rng (pos + j)%nat)).
  Proof.
    intros server_pub rng reqs. induction reqs as [|q reqs IH]; intros pos j ps H.
    - destruct j; discriminate.
    - destruct j as [|j]; cbn [nth_error C20Model.encrypt_calls] in *.
      + apply Some_inj in H. subst q. rewrite Nat.add_0_r. reflexivity.
      + rewrite (IH (S pos) j ps H). rewrite Nat.add_succ_r. reflexivity.
  Qed.

  (* different ephemeral public keys give different blobs (whatever the parameters) *)
  Theorem distinct_draws_thm : forall server_pub ps1 ps2 d1 d2,
    Forall param_ok ps1 -> Forall param_ok ps2 -> pub_of d1 <> pub_of d2 -> encrypt_params server_pub ps1 d1 <> encrypt_params server_pub ps2 d2.
  Proof.
    intros server_pub ps1 ps2 d1 d2 Hp1 Hp2 Hne E.
    pose proof (proj1 (blob_layout_thm server_pub ps1 d1 Hp1)) as E1.
    pose proof (proj1 (blob_layout_thm server_pub ps2 d2 Hp2)) as E2.
    rewrite E, E2 in E1. apply Some_inj in E1.
    apply (f_equal (firstn 32)) in E1.
    rewrite !(firstn_app_len 32) in E1 by apply Hpub. congruence.
  Qed.
End EncProofs.
