(* C20: the thin instantiation that depends on the generated constants (coq/Gen/C20Env.v,
   rewritten from yowsup/env/env_android.py on every run) and on the pinned reference copy. *)
From YV Require Import Common.Tac C20.C20Model C20.C20ProofsUrl C20.C20ProofsTok.
From YV Require C20.C20Ref Gen.C20Env.

(* WhatsApp's key / signature / class digest, decoded from the pinned reference text *)
Definition ref_key : list N := odflt (b64decode C20Ref.key_b64).
Definition ref_sig : list N := odflt (b64decode C20Ref.sig_b64).
Definition ref_cls : list N := odflt (b64decode C20Ref.cls_b64).

Theorem constants_thm :
  C20Env.key_b64 = C20Ref.key_b64 /\ C20Env.sig_b64 = C20Ref.sig_b64 /\ C20Env.cls_b64 = C20Ref.cls_b64.
Proof. repeat split; apply leqb_eq; vm_compute; reflexivity. Qed.

(* the reference constants are what they should be: an 80-byte key (of which HMAC sees 64),
   an 822-byte DER certificate, a 16-byte MD5 digest -- all byte strings *)
Theorem ref_shape_thm :
  (length ref_key = 80 /\ length ref_sig = 822 /\ length ref_cls = 16)%nat /\
  forallb (fun b => b <? 256)%N (ref_key ++ ref_sig ++ ref_cls) = true.
Proof. vm_compute. repeat split; reflexivity. Qed.

(* getToken with the constants of the CURRENT source = base64 of RFC 2104 HMAC-SHA1 keyed with
   the first 64 bytes of the REFERENCE key over signature || class digest || phone number *)
Theorem env_token_thm : forall sha1 phone,
  get_token sha1 C20Env.key_b64 C20Env.sig_b64 C20Env.cls_b64 phone =
  Some (b64encode (hmac_rfc2104 sha1 64 (firstn 64 ref_key) (ref_sig ++ ref_cls ++ utf8 phone))).
Proof. intros sha1 phone. apply token_some; vm_compute; reflexivity. Qed.
