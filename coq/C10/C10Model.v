(* C10 — message payloads: attribute objects <-> protobuf messages.
   Model of yowsup/layers/protocol_messages/protocolentities/attributes/converter.py as a
   generic interpreter over a converter TABLE (coq/Gen/C10Table.v, regenerated from the Python
   source on every run).  Definitions only.

   Values.  One universe for attribute objects and protobuf messages:
     attribute object  = VRec <class name> [(field, value) ...]   (None fields are present as VNone)
     protobuf message  = list (field, value) holding ONLY the fields that are present
                         (proto2 presence); a sub-message is VRec <message type> fields,
                         a non-empty repeated scalar is VList.  Lookup is first-match.
   Text is its UTF-8 byte list, floats are their IEEE-754 binary64 bit pattern.            *)
From Coq Require Import Ascii.
From Coq.Init Require Import Byte.
From YV Require Import Common.Tac.

(* identifiers (field / class / converter names).  Not Coq's [name]: its extracted module
   String.ml would shadow OCaml's String in the shared driver. *)
Inductive name : Type := NE | NC (a : ascii) (r : name).
Fixpoint name_of_bytes (l : list byte) : name :=
  match l with [] => NE | b :: r => NC (ascii_of_byte b) (name_of_bytes r) end.
Fixpoint bytes_of_name (n : name) : list byte :=
  match n with NE => [] | NC a r => byte_of_ascii a :: bytes_of_name r end.
Declare Scope name_scope.
Delimit Scope name_scope with name.
Bind Scope name_scope with name.
String Notation name name_of_bytes bytes_of_name : name_scope.
Fixpoint name_eqb (a b : name) : bool :=
  match a, b with
  | NE, NE => true
  | NC x a', NC y b' => Ascii.eqb x y && name_eqb a' b'
  | _, _ => false
  end.

Inductive val : Type :=
| VNone
| VStr (s : list N)
| VInt (z : Z)
| VBool (b : bool)
| VBytes (b : list N)
| VFlt (bits : N)
| VList (l : list val)
| VRec (cls : name) (fs : list (name * val)).

Definition pmsg := list (name * val).

Inductive res (A : Type) : Type := Ok (a : A) | Err (code : N).
Arguments Ok {A} a.
Arguments Err {A} code.
(* error codes: 1 AttributeError (missing attribute / unknown proto field)
                2 TypeError|ValueError raised by protobuf's type checkers (incl. assigning None)
                3 constructor failure (assert in a setter, missing required argument)
                4 out of fuel   5 unknown converter name (table inconsistency)             *)

Definition bind {A B} (r : res A) (f : A -> res B) : res B :=
  match r with Ok a => f a | Err c => Err c end.

Fixpoint mapM {A B} (f : A -> res B) (l : list A) : res (list B) :=
  match l with
  | [] => Ok []
  | x :: r => bind (f x) (fun y => bind (mapM f r) (fun ys => Ok (y :: ys)))
  end.

Fixpoint assoc {A} (k : name) (l : list (name * A)) : option A :=
  match l with
  | [] => None
  | (k', v) :: r => if name_eqb k' k then Some v else assoc k r
  end.

Fixpoint somes {A} (l : list (option A)) : list A :=
  match l with [] => [] | Some x :: r => x :: somes r | None :: r => somes r end.

(* ---------- protobuf schema (from the descriptors of e2e_pb2 / protocol_pb2) ---------- *)
Inductive sty := TStr | TBytes | TBool | TInt (lo hi : Z) | TEnum (vals : list Z) | TDouble | TFloat.
Inductive fty := FScalar (t : sty) | FRepeated (t : sty) | FMsg (m : name) | FOther.
Definition schema := list (name * list (name * fty)).

Definition is_nil {A} (l : list A) : bool := match l with [] => true | _ => false end.

(* Python truthiness; attribute classes define neither __bool__ nor __len__ (translator checks) *)
Definition truthy (v : val) : bool :=
  match v with
  | VNone => false
  | VStr s => negb (is_nil s)
  | VInt z => negb (z =? 0)%Z
  | VBool b => b
  | VBytes b => negb (is_nil b)
  | VFlt bits => negb (bits mod 9223372036854775808 =? 0)%N
  | VList l => negb (is_nil l)
  | VRec _ _ => true
  end.

Definition is_none (v : val) : bool := match v with VNone => true | _ => false end.

Definition flt_exp (bits : N) : N := ((bits / 4503599627370496) mod 2048)%N.
Definition flt_man (bits : N) : N := (bits mod 4503599627370496)%N.
Definition flt_finite (bits : N) : bool := (bits <? 18446744073709551616)%N && negb (flt_exp bits =? 2047)%N.
(* a finite double that a float32 field stores exactly: +-0 or a normal float32 *)
Definition f32_exact (bits : N) : bool :=
  flt_finite bits &&
  (((flt_man bits =? 0) && (flt_exp bits =? 0))%N
   || ((flt_man bits mod 536870912 =? 0) && (897 <=? flt_exp bits) && (flt_exp bits <=? 1150))%N).

Definition zmem (z : Z) (l : list Z) : bool := existsb (Z.eqb z) l.

(* protobuf's per-type value checker; None fits nothing *)
Definition fits (t : sty) (v : val) : bool :=
  match t, v with
  | TStr, VStr _ => true
  | TBytes, VBytes _ => true
  | TBool, VBool _ => true
  | TInt lo hi, VInt z => ((lo <=? z) && (z <=? hi))%Z
  | TEnum vals, VInt z => zmem z vals
  | TDouble, VFlt b => flt_finite b
  | TFloat, VFlt b => f32_exact b
  | _, _ => false
  end.

Definition sdefault (t : sty) : val :=
  match t with
  | TStr => VStr [] | TBytes => VBytes [] | TBool => VBool false
  | TInt _ _ => VInt 0 | TEnum vals => VInt (hd 0%Z vals) | TDouble => VFlt 0 | TFloat => VFlt 0
  end.

Definition field_ty (sch : schema) (mt pf : name) : option fty :=
  match assoc mt sch with Some fs => assoc pf fs | None => None end.

(* p.pf *)
Definition pread (sch : schema) (mt : name) (p : pmsg) (pf : name) : res val :=
  match field_ty sch mt pf with
  | Some (FScalar t) => Ok (match assoc pf p with Some v => v | None => sdefault t end)
  | Some (FRepeated _) => Ok (match assoc pf p with Some v => v | None => VList [] end)
  | Some (FMsg m) => Ok (match assoc pf p with Some v => v | None => VRec m [] end)
  | _ => Err 1
  end.

(* p.HasField(hf): only singular fields *)
Definition phas (sch : schema) (mt : name) (p : pmsg) (hf : name) : res bool :=
  match field_ty sch mt hf with
  | Some (FScalar _) | Some (FMsg _) => Ok (match assoc hf p with Some _ => true | None => false end)
  | _ => Err 2
  end.

Definition sub_fields (v : val) : pmsg := match v with VRec _ fs => fs | _ => [] end.

(* ---------- converter table ---------- *)
Inductive guard := GAlways | GNotNone | GTruthy | GNonEmptyList.
Inductive tkind := KAssign | KAssignList | KMerge (conv : name).
(* [if guard(a.src):]  m.pf = a.src  |  m.pf[:] = a.src  |  m.pf.MergeFrom(self.<conv>_to_proto(a.src)) *)
Record tstmt := { ts_guard : guard; ts_pf : name; ts_src : name; ts_kind : tkind }.

Inductive fexpr :=
| FField (pf : name)                      (* p.pf *)
| FIfHas (pf hf : name)                   (* p.pf if p.HasField("hf") else None *)
| FIfTruthy (pf cf : name)                (* p.pf if p.cf else None *)
| FListOrEmpty (pf lf : name)             (* p.pf if len(p.lf) else [] *)
| FConv (conv pf : name)                  (* self.proto_to_<conv>(p.pf) *)
| FConvIfHas (conv pf hf : name)          (* self.proto_to_<conv>(p.pf) if p.HasField("hf") else None *)
| FOmitted                                  (* constructor parameter with a default, not passed *)
| FMissing.                                 (* required constructor parameter not passed: TypeError *)

(* what the class constructor does with the argument *)
Inductive store := SPlain | SOrEmptyList | SIfTruthy.
Inductive ck := CkNone | CkIn (l : list Z) | CkCls (c : name).
Record farg := { fa_field : name; fa_expr : fexpr; fa_store : store; fa_ck : ck }.

Record conv := { cv_cls : name; cv_msg : name; cv_to : list tstmt; cv_from : list farg }.
Record table := { t_schema : schema; t_convs : list (name * conv) }.

Definition vget (a : val) (f : name) : option val :=
  match a with VRec _ fs => assoc f fs | _ => None end.

Definition guard_passes (g : guard) (v : val) : bool :=
  match g with
  | GAlways => true
  | GNotNone => negb (is_none v)
  | GTruthy => truthy v
  | GNonEmptyList => match v with VNone => false | VInt _ | VBool _ | VFlt _ | VRec _ _ => true | _ => truthy v end
  end.

Definition check (c : ck) (v : val) : bool :=
  match c, v with
  | CkNone, _ => true
  | CkIn l, VInt z => zmem z l
  | CkCls c, VRec c' _ => name_eqb c c'
  | _, _ => false
  end.

Definition apply_store (st : store) (c : ck) (x : val) : res val :=
  match st with
  | SPlain => if check c x then Ok x else Err 3
  | SOrEmptyList => Ok (if truthy x then x else VList [])
  | SIfTruthy => if truthy x then (if check c x then Ok x else Err 3) else Ok VNone
  end.

(* ---------- to-side: one statement; [rec] converts a nested attribute object ---------- *)
Section Level.
  Variable T : table.
  Variable to_rec : name -> val -> res pmsg.
  Variable from_rec : name -> pmsg -> res val.
  Variable dom_rec : name -> val -> bool.

  Definition eval_stmt (mt : name) (a : val) (s : tstmt) : res (option (name * val)) :=
    match vget a (ts_src s) with
    | None => Err 1
    | Some v =>
      if guard_passes (ts_guard s) v then
        match ts_kind s, field_ty (t_schema T) mt (ts_pf s) with
        | _, None => Err 1
        | KAssign, Some (FScalar t) => if fits t v then Ok (Some (ts_pf s, v)) else Err 2
        | KAssignList, Some (FRepeated t) =>
          match v with
          | VList l => if forallb (fits t) l then Ok (if is_nil l then None else Some (ts_pf s, v)) else Err 2
          | _ => Err 2
          end
        | KMerge c, Some (FMsg m) =>
          match assoc c (t_convs T) with
          | None => Err 5
          | Some cv =>
            bind (to_rec c v) (fun sub =>
              if name_eqb (cv_msg cv) m then Ok (Some (ts_pf s, VRec m sub)) else Err 2)
          end
        | _, _ => Err 2
        end
      else Ok None
    end.

  (* the message after all statements ran: newest write first, lookup is first-match *)
  Definition to_level (cv : conv) (a : val) : res pmsg :=
    bind (mapM (eval_stmt (cv_msg cv) a) (cv_to cv)) (fun ows => Ok (rev (somes ows))).

  Definition eval_fexpr (mt : name) (p : pmsg) (e : fexpr) : res val :=
    let sch := t_schema T in
    match e with
    | FField pf => pread sch mt p pf
    | FIfHas pf hf => bind (phas sch mt p hf) (fun h => if h then pread sch mt p pf else Ok VNone)
    | FIfTruthy pf cf => bind (pread sch mt p cf) (fun c => if truthy c then pread sch mt p pf else Ok VNone)
    | FListOrEmpty pf lf =>
      bind (pread sch mt p lf) (fun c =>
        match c with
        | VList l => if is_nil l then Ok (VList []) else pread sch mt p pf
        | _ => Err 2
        end)
    | FConv c pf => bind (pread sch mt p pf) (fun sub => from_rec c (sub_fields sub))
    | FConvIfHas c pf hf =>
      bind (phas sch mt p hf) (fun h =>
        if h then bind (pread sch mt p pf) (fun sub => from_rec c (sub_fields sub)) else Ok VNone)
    | FOmitted => Ok VNone
    | FMissing => Err 3
    end.

  Definition eval_farg (mt : name) (p : pmsg) (fa : farg) : res (name * val) :=
    bind (eval_fexpr mt p (fa_expr fa)) (fun x =>
      bind (apply_store (fa_store fa) (fa_ck fa) x) (fun y => Ok (fa_field fa, y))).

  Definition from_level (cv : conv) (p : pmsg) : res val :=
    bind (mapM (eval_farg (cv_msg cv) p) (cv_from cv)) (fun fs => Ok (VRec (cv_cls cv) fs)).

  (* ---------- computed domain ---------- *)
  Definition passes (a : val) (s : tstmt) : bool :=
    match vget a (ts_src s) with Some v => guard_passes (ts_guard s) v | None => false end.

  (* scalar equality; deliberately false on lists and records *)
  Definition list_N_eqb (x y : list N) : bool :=
    (fix go x y := match x, y with
                   | [], [] => true
                   | a :: x', b :: y' => (a =? b)%N && go x' y'
                   | _, _ => false end) x y.
  Definition sveqb (x y : val) : bool :=
    match x, y with
    | VStr a, VStr b => list_N_eqb a b
    | VBytes a, VBytes b => list_N_eqb a b
    | VInt a, VInt b => (a =? b)%Z
    | VBool a, VBool b => Bool.eqb a b
    | VFlt a, VFlt b => (a =? b)%N
    | _, _ => false
    end.

  Definition tkind_eqb (k k' : tkind) : bool :=
    match k, k' with
    | KAssign, KAssign => true
    | KAssignList, KAssignList => true
    | KMerge c, KMerge c' => name_eqb c c'
    | _, _ => false
    end.

  (* no statement that passes its guard writes pf *)
  Definition writers_none (a : val) (stmts : list tstmt) (pf : name) : bool :=
    forallb (fun s => negb (name_eqb (ts_pf s) pf && passes a s)) stmts.

  (* every statement that passes and writes pf is of kind k and writes the value of field f
     (because it reads f itself, or — scalars only, [alias]=true — reads an equal value);
     and there is at least one *)
  Definition writers_all (a : val) (stmts : list tstmt) (pf f : name) (v : val) (k : tkind)
             (alias : bool) : bool :=
    forallb (fun s =>
      if name_eqb (ts_pf s) pf && passes a s then
        tkind_eqb (ts_kind s) k &&
        (name_eqb (ts_src s) f
         || (alias && match vget a (ts_src s) with Some w => sveqb w v | None => false end))
      else true) stmts
    && existsb (fun s => name_eqb (ts_pf s) pf && passes a s) stmts.

  Definition stmt_ok (mt : name) (a : val) (s : tstmt) : bool :=
    match vget a (ts_src s) with
    | None => false
    | Some v =>
      if guard_passes (ts_guard s) v then
        match ts_kind s, field_ty (t_schema T) mt (ts_pf s) with
        | KAssign, Some (FScalar t) => fits t v
        | KAssignList, Some (FRepeated t) => match v with VList l => forallb (fits t) l | _ => false end
        | KMerge c, Some (FMsg m) =>
          match assoc c (t_convs T) with
          | Some cv => name_eqb (cv_msg cv) m && dom_rec c v
          | None => false
          end
        | _, _ => false
        end
      else true
    end.

  (* constructor side conditions: the value handed to the constructor is None / a proto default /
     an empty list / the sender's value *)
  Definition none_store_ok (st : store) (c : ck) : bool :=
    match st, c with SPlain, CkNone => true | SPlain, _ => false | _, _ => true end.
  Definition dflt_store_ok (st : store) (c : ck) : bool :=
    match st, c with SOrEmptyList, _ => true | _, CkNone => true | _, _ => false end.
  Definition empty_store_ok (st : store) (c : ck) : bool :=
    match st with SPlain => check c (VList []) | SOrEmptyList => true | SIfTruthy => false end.
  Definition keep_store_ok (st : store) (c : ck) (v : val) : bool :=
    match st with
    | SPlain => check c v
    | SOrEmptyList => truthy v
    | SIfTruthy => truthy v && check c v
    end.

  Definition is_scalar_f (mt pf : name) : bool :=
    match field_ty (t_schema T) mt pf with Some (FScalar _) => true | _ => false end.
  Definition is_rep_f (mt pf : name) : bool :=
    match field_ty (t_schema T) mt pf with Some (FRepeated _) => true | _ => false end.
  Definition is_msg_f (mt pf : name) : bool :=
    match field_ty (t_schema T) mt pf with Some (FMsg _) => true | _ => false end.

  (* the condition on field fa_field of a, given how the from-side reads it back *)
  Definition leaf_ok (mt : name) (a : val) (stmts : list tstmt) (fa : farg) : bool :=
    let f := fa_field fa in let st := fa_store fa in let c := fa_ck fa in
    match vget a f with
    | None => false
    | Some v =>
      match fa_expr fa with
      | FOmitted => is_none v && none_store_ok st c
      | FMissing => false
      | FField pf =>
        match v with
        | VNone => writers_none a stmts pf && dflt_store_ok st c && (is_scalar_f mt pf || is_rep_f mt pf)
        | VRec _ _ => false
        | VList [] => writers_none a stmts pf && is_rep_f mt pf && empty_store_ok st c
        | VList _ => writers_all a stmts pf f v KAssignList false && keep_store_ok st c v
        | _ => writers_all a stmts pf f v KAssign true && keep_store_ok st c v
        end
      | FIfHas pf hf =>
        name_eqb pf hf &&
        match v with
        | VNone => writers_none a stmts pf && none_store_ok st c && is_scalar_f mt pf
        | VRec _ _ | VList _ => false
        | _ => writers_all a stmts pf f v KAssign true && keep_store_ok st c v
        end
      | FIfTruthy pf cf =>
        name_eqb pf cf &&
        match v with
        | VNone => writers_none a stmts pf && dflt_store_ok st c && is_scalar_f mt pf
        | VRec _ _ | VList _ => false
        | _ => writers_all a stmts pf f v KAssign true && keep_store_ok st c v && truthy v
        end
      | FListOrEmpty pf lf =>
        name_eqb pf lf &&
        match v with
        | VNone => writers_none a stmts pf && dflt_store_ok st c && is_rep_f mt pf
        | VList [] => writers_none a stmts pf && is_rep_f mt pf && empty_store_ok st c
        | VList _ => writers_all a stmts pf f v KAssignList false && keep_store_ok st c v
        | _ => false
        end
      | FConv cn pf =>
        match v with
        | VRec _ _ => writers_all a stmts pf f v (KMerge cn) false && dom_rec cn v && keep_store_ok st c v
        | _ => false
        end
      | FConvIfHas cn pf hf =>
        name_eqb pf hf &&
        match v with
        | VNone => writers_none a stmts pf && none_store_ok st c && is_msg_f mt pf
        | VRec _ _ => writers_all a stmts pf f v (KMerge cn) false && dom_rec cn v && keep_store_ok st c v
        | _ => false
        end
      end
    end.

  Definition known_field (cv : conv) (f : name) : bool :=
    existsb (fun fa => name_eqb (fa_field fa) f) (cv_from cv).

  Definition dom_level (cv : conv) (a : val) : bool :=
    match a with
    | VRec c fs =>
      name_eqb c (cv_cls cv)
      && forallb (fun fv => known_field cv (fst fv)) fs
      && forallb (stmt_ok (cv_msg cv) a) (cv_to cv)
      && forallb (leaf_ok (cv_msg cv) a (cv_to cv)) (cv_from cv)
    | _ => false
    end.
End Level.

(* ---------- tying the knot with fuel (one unit per nesting level) ---------- *)
Fixpoint to_proto_f (n : nat) (T : table) (cn : name) (a : val) : res pmsg :=
  match n with
  | O => Err 4
  | S n' => match assoc cn (t_convs T) with
            | None => Err 5
            | Some cv => to_level T (to_proto_f n' T) cv a
            end
  end.

Fixpoint from_proto_f (n : nat) (T : table) (cn : name) (p : pmsg) : res val :=
  match n with
  | O => Err 4
  | S n' => match assoc cn (t_convs T) with
            | None => Err 5
            | Some cv => from_level T (from_proto_f n' T) cv p
            end
  end.

Fixpoint in_domain_f (n : nat) (T : table) (cn : name) (a : val) : bool :=
  match n with
  | O => false
  | S n' => match assoc cn (t_convs T) with
            | None => false
            | Some cv => dom_level T (in_domain_f n' T) cv a
            end
  end.

Definition roundtrip_f (n : nat) (T : table) (cn : name) (a : val) : res val :=
  bind (to_proto_f n T cn a) (from_proto_f n T cn).

(* ---------- "every field the sender set comes back with the same value" ---------- *)
Definition is_default (v : val) : Prop :=
  v = VNone \/ v = VList [] \/ exists t, v = sdefault t.

Inductive covers : val -> val -> Prop :=
| cov_none : forall v', is_default v' -> covers VNone v'
| cov_str : forall s, covers (VStr s) (VStr s)
| cov_int : forall z, covers (VInt z) (VInt z)
| cov_bool : forall b, covers (VBool b) (VBool b)
| cov_bytes : forall b, covers (VBytes b) (VBytes b)
| cov_flt : forall b, covers (VFlt b) (VFlt b)
| cov_list : forall l, covers (VList l) (VList l)
| cov_rec : forall c fs fs',
    (forall f v, assoc f fs = Some v -> exists v', assoc f fs' = Some v' /\ covers v v') ->
    covers (VRec c fs) (VRec c fs').
