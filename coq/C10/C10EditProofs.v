(* C10 proofs, part 3: edit, then serialise.
   The model's converter is a function of the object's VALUE (serialise_depends_on_value_only_thm:
   even only of what the fields read, not of the representation), so an object obtained by parsing
   and then edited serialises exactly like a freshly composed object with the same field values;
   edit_then_roundtrip_thm is C10_set_fields_preserved applied to the edited object, together
   with the facts that the edited path reads the new value and every diverging path is untouched. *)
From Coq Require Import Ascii.
From YV Require Import Common.Tac C10.C10Model C10.C10Proofs C10.C10Edit.

Lemma assoc_set_same : forall k v (l : list (name * val)) x, assoc k l = Some x -> assoc k (set_assoc k v l) = Some v.
Proof.
  induction l as [|[k' y] l IH]; cbn; intros x H; [discriminate|].
  destruct (name_eqb k' k) eqn:E; cbn; rewrite E; [reflexivity|]. eapply IH. exact H.
Qed.

Lemma assoc_set_other : forall k g v (l : list (name * val)), g <> k -> assoc g (set_assoc k v l) = assoc g l.
Proof.
  induction l as [|[k' y] l IH]; cbn; intros Hne; [reflexivity|].
  destruct (name_eqb k' k) eqn:E; cbn.
  - apply name_eqb_eq in E. subst k'.
    assert (Hf : name_eqb k g = false) by (apply name_eqb_neq; congruence). rewrite Hf. reflexivity.
  - destruct (name_eqb k' g); [reflexivity|]. apply IH. exact Hne.
Qed.

(* the edited path reads the new value *)
Lemma get_set_same : forall phi v a, get_path phi a <> None -> get_path phi (set_path phi v a) = Some v.
Proof.
  induction phi as [|f rest IH]; intros v a H; [reflexivity|].
  cbn [get_path set_path] in *. destruct a as [| | | | | | |c fs]; cbn [vget] in *; try congruence.
  destruct (assoc f fs) as [x|] eqn:E; [|congruence].
  cbn [vget]. rewrite (assoc_set_same _ _ _ _ E). apply IH. exact H.
Qed.

(* every path that parts ways with the edited one reads what it read before *)
Lemma get_set_other : forall phi psi v a, diverges phi psi = true ->
  get_path psi (set_path phi v a) = get_path psi a.
Proof.
  induction phi as [|f rest IH]; intros psi v a H; [discriminate|].
  destruct psi as [|g s]; [discriminate|]. cbn [diverges] in H.
  cbn [set_path]. destruct a as [| | | | | | |c fs]; try reflexivity.
  destruct (assoc f fs) as [x|] eqn:E; [|reflexivity].
  cbn [get_path vget]. destruct (name_eqb f g) eqn:Efg.
  - apply name_eqb_eq in Efg. subst g. rewrite (assoc_set_same _ _ _ _ E), E. apply IH. exact H.
  - rewrite assoc_set_other; [reflexivity|]. intro Heq. subst g. rewrite name_eqb_refl in Efg. discriminate.
Qed.

(* the class of an object is not touched by an edit below it *)
Lemma set_path_class : forall phi v c fs, phi <> [] -> exists fs', set_path phi v (VRec c fs) = VRec c fs'.
Proof.
  intros phi v c fs H. destruct phi as [|f rest]; [congruence|]. cbn [set_path].
  destruct (assoc f fs); eauto.
Qed.

(* ---------- serialisation depends on the field values only ---------- *)
Lemma mapM_ext {A B} (f g : A -> res B) : forall l, (forall x, In x l -> f x = g x) -> mapM f l = mapM g l.
Proof.
  induction l as [|x l IH]; cbn; intros H; [reflexivity|].
  rewrite (H x (or_introl eq_refl)), IH; [reflexivity|]. intros; apply H; auto.
Qed.

Theorem serialise_depends_on_value_only_thm : forall T n cn a b,
  (forall f, vget a f = vget b f) -> to_proto_f n T cn a = to_proto_f n T cn b.
Proof.
  intros T n cn a b H. destruct n as [|n]; [reflexivity|]. cbn [to_proto_f].
  destruct (assoc cn (t_convs T)) as [cv|]; [|reflexivity].
  unfold to_level. f_equal. apply mapM_ext. intros s _. unfold eval_stmt. rewrite (H (ts_src s)). reflexivity.
Qed.

(* ---------- edit, serialise, parse ---------- *)
Theorem edit_then_roundtrip_thm : forall T n cn a phi v,
  in_domain_f n T cn (set_path phi v a) = true ->
  exists p b, to_proto_f n T cn (set_path phi v a) = Ok p /\ from_proto_f n T cn p = Ok b
    /\ covers (set_path phi v a) b
    /\ (get_path phi a <> None -> get_path phi (set_path phi v a) = Some v)
    /\ (forall psi, diverges phi psi = true -> get_path psi (set_path phi v a) = get_path psi a).
Proof.
  intros T n cn a phi v H.
  destruct (set_fields_preserved_thm T n cn _ H) as [p [b [H1 [H2 H3]]]].
  exists p, b. repeat split; try assumption.
  - apply get_set_same.
  - intros psi Hd. apply get_set_other. exact Hd.
Qed.

(* any number of assignments, in any order, between any two serialisations *)
Theorem edits_then_roundtrip_thm : forall T n cn a edits,
  in_domain_f n T cn (set_paths edits a) = true ->
  exists p b, to_proto_f n T cn (set_paths edits a) = Ok p /\ from_proto_f n T cn p = Ok b
    /\ covers (set_paths edits a) b.
Proof. intros T n cn a edits H. apply set_fields_preserved_thm. exact H. Qed.

(* ---------- an edit below a nested object stays in the domain when the edited LEVEL does ----------
   in_domain is a whole-object condition (aliased attributes must stay equal, required fields set,
   ...), so an arbitrary assignment can leave it.  But it is compositional: replacing a nested
   object by another one of the same class that lies in every sub-domain the old one was in keeps
   every enclosing object in its domain.  So for an edit at any depth only the level that holds the
   edited field has to be re-examined. *)
Lemma forallb_ext' {A} (f g : A -> bool) : forall l, (forall x, f x = g x) -> forallb f l = forallb g l.
Proof. induction l as [|x l IH]; cbn; intro H; [reflexivity|]. rewrite H, IH; auto. Qed.

Lemma existsb_ext' {A} (f g : A -> bool) : forall l, (forall x, f x = g x) -> existsb f l = existsb g l.
Proof. induction l as [|x l IH]; cbn; intro H; [reflexivity|]. rewrite H, IH; auto. Qed.

Lemma forallb_set_assoc : forall (P : name -> bool) k v (l : list (name * val)),
  forallb (fun fv => P (fst fv)) l = true -> forallb (fun fv => P (fst fv)) (set_assoc k v l) = true.
Proof.
  induction l as [|[k' x] l IH]; cbn; intro H; [reflexivity|].
  apply andb_true_iff in H. destruct H as [H1 H2].
  destruct (name_eqb k' k); cbn; rewrite H1; cbn; auto.
Qed.

Section Replace.
  Variable T : table.
  Variable dom_rec : name -> val -> bool.
  Variables (c : name) (fs : list (name * val)) (f c0 : name) (fx fx' : list (name * val)).
  Hypothesis Hf : assoc f fs = Some (VRec c0 fx).
  Hypothesis Hdom : forall cn, dom_rec cn (VRec c0 fx) = true -> dom_rec cn (VRec c0 fx') = true.
  Let a : val := VRec c fs.
  Let a' : val := VRec c (set_assoc f (VRec c0 fx') fs).

  Lemma vget_new : vget a' f = Some (VRec c0 fx').
  Proof. cbn. eapply assoc_set_same. exact Hf. Qed.

  Lemma vget_old : vget a f = Some (VRec c0 fx).
  Proof. exact Hf. Qed.

  Lemma vget_other : forall g, g <> f -> vget a' g = vget a g.
  Proof. intros g H. cbn. apply assoc_set_other. exact H. Qed.

  Lemma vget_cases : forall g, (g = f /\ vget a' g = Some (VRec c0 fx') /\ vget a g = Some (VRec c0 fx))
                               \/ (g <> f /\ vget a' g = vget a g).
  Proof.
    intro g. destruct (name_eqb g f) eqn:E.
    - apply name_eqb_eq in E. subst g. left. split; [reflexivity|]. split; [apply vget_new|apply vget_old].
    - right. assert (g <> f) by (apply name_eqb_neq; exact E). split; [assumption|]. apply vget_other. assumption.
  Qed.

  Lemma passes_same : forall s, passes a' s = passes a s.
  Proof.
    intro s. unfold passes. destruct (vget_cases (ts_src s)) as [[_ [H1 H2]]|[_ H]].
    - rewrite H1, H2. destruct (ts_guard s); reflexivity.
    - rewrite H. reflexivity.
  Qed.

  Lemma wnone_same : forall st pf, writers_none a' st pf = writers_none a st pf.
  Proof. intros st pf. unfold writers_none. apply forallb_ext'. intro s. rewrite passes_same. reflexivity. Qed.

  Lemma wall_same : forall st pf g v k alias,
    writers_all a' st pf g v k alias = writers_all a st pf g v k alias.
  Proof.
    intros st pf g v k alias. unfold writers_all. f_equal.
    - apply forallb_ext'. intro s. rewrite passes_same.
      destruct (name_eqb (ts_pf s) pf && passes a s); [|reflexivity].
      destruct (vget_cases (ts_src s)) as [[_ [H1 H2]]|[_ H]].
      + rewrite H1, H2. reflexivity.
      + rewrite H. reflexivity.
    - apply existsb_ext'. intro s. rewrite passes_same. reflexivity.
  Qed.

  Lemma wall_noalias : forall (b : val) st pf g v v' k,
    writers_all b st pf g v k false = writers_all b st pf g v' k false.
  Proof. intros. unfold writers_all. f_equal. Qed.

  Lemma keep_rec_same : forall st ck, keep_store_ok st ck (VRec c0 fx') = keep_store_ok st ck (VRec c0 fx).
  Proof. intros st ck. destruct st, ck; reflexivity. Qed.

  Lemma stmt_ok_mono : forall mt s, stmt_ok T dom_rec mt a s = true -> stmt_ok T dom_rec mt a' s = true.
  Proof.
    intros mt s H. unfold stmt_ok in *. destruct (vget_cases (ts_src s)) as [[_ [H1 H2]]|[_ H0]].
    - rewrite H1. rewrite H2 in H.
      replace (guard_passes (ts_guard s) (VRec c0 fx')) with (guard_passes (ts_guard s) (VRec c0 fx))
        by (destruct (ts_guard s); reflexivity).
      destruct (guard_passes (ts_guard s) (VRec c0 fx)); [|reflexivity].
      destruct (ts_kind s) as [| |cn]; destruct (field_ty (t_schema T) mt (ts_pf s)) as [[t|t|m|]|]; try discriminate.
      + destruct t; discriminate.
      + destruct (assoc cn (t_convs T)) as [cv|]; [|discriminate].
        apply andb_true_iff in H. destruct H as [Ha Hb]. rewrite Ha. cbn. apply Hdom. exact Hb.
    - rewrite H0. exact H.
  Qed.

  Lemma leaf_ok_mono : forall mt st fa, leaf_ok T dom_rec mt a st fa = true -> leaf_ok T dom_rec mt a' st fa = true.
  Proof.
    intros mt st fa H. unfold leaf_ok in *.
    destruct (vget_cases (fa_field fa)) as [[_ [H1 H2]]|[_ H0]].
    - rewrite H1. rewrite H2 in H.
      destruct (fa_expr fa) as [pf|pf hf|pf cf|pf lf|cn pf|cn pf hf| |];
        repeat rewrite wall_same; repeat rewrite wnone_same; rewrite ?keep_rec_same;
        try rewrite (wall_noalias a st _ _ (VRec c0 fx') (VRec c0 fx)).
      + discriminate.
      + apply andb_true_iff in H. destruct H as [_ H]. discriminate.
      + apply andb_true_iff in H. destruct H as [_ H]. discriminate.
      + apply andb_true_iff in H. destruct H as [_ H]. discriminate.
      + apply andb_true_iff in H. destruct H as [H Hk]. apply andb_true_iff in H. destruct H as [Hw Hd].
        rewrite Hw, (Hdom _ Hd), Hk. reflexivity.
      + apply andb_true_iff in H. destruct H as [He H]. rewrite He. cbn [andb].
        apply andb_true_iff in H. destruct H as [H Hk]. apply andb_true_iff in H. destruct H as [Hw Hd].
        rewrite Hw, (Hdom _ Hd), Hk. reflexivity.
      + discriminate.
      + discriminate.
    - rewrite H0. destruct (vget a (fa_field fa)) as [v|]; [|discriminate].
      destruct (fa_expr fa) as [pf|pf hf|pf cf|pf lf|cn pf|cn pf hf| |];
        repeat rewrite wall_same; repeat rewrite wnone_same; exact H.
  Qed.

  Lemma dom_level_replace : forall cv, dom_level T dom_rec cv a = true -> dom_level T dom_rec cv a' = true.
  Proof.
    intros cv H. unfold dom_level, a, a' in *. fold a in H. fold a'.
    apply andb_true_iff in H. destruct H as [H Hleaf].
    apply andb_true_iff in H. destruct H as [H Hstmt].
    apply andb_true_iff in H. destruct H as [Hcls Hknown].
    rewrite Hcls. cbn [andb]. apply andb_true_iff. split; [apply andb_true_iff; split|].
    - apply (forallb_set_assoc (known_field cv)). exact Hknown.
    - rewrite forallb_forall in *. intros s Hs. apply stmt_ok_mono. auto.
    - rewrite forallb_forall in *. intros fa Hfa. apply leaf_ok_mono. auto.
  Qed.
End Replace.

(* x' lies in every sub-domain x lies in *)
Definition dom_le (n : nat) (T : table) (x x' : val) : Prop :=
  forall cn, in_domain_f n T cn x = true -> in_domain_f n T cn x' = true.

(* a computed sufficient check: only converters of the table can have anything in their domain *)
Definition dom_le_b (n : nat) (T : table) (x x' : val) : bool :=
  forallb (fun ncv => implb (in_domain_f n T (fst ncv) x) (in_domain_f n T (fst ncv) x')) (t_convs T).

Lemma dom_le_b_sound : forall n T x x', dom_le_b n T x x' = true -> dom_le n T x x'.
Proof.
  intros n T x x' H cn Hd. pose proof Hd as Hd'. destruct n as [|n]; [discriminate|].
  cbn [in_domain_f] in Hd'. destruct (assoc cn (t_convs T)) as [cv|] eqn:E; [|discriminate].
  unfold dom_le_b in H. rewrite forallb_forall in H. specialize (H (cn, cv) (assoc_in _ _ _ E)).
  cbn [fst] in H. rewrite Hd in H. exact H.
Qed.

Lemma dom_le_step : forall T n c fs f c0 fx fx',
  assoc f fs = Some (VRec c0 fx) -> dom_le n T (VRec c0 fx) (VRec c0 fx') ->
  dom_le (S n) T (VRec c fs) (VRec c (set_assoc f (VRec c0 fx') fs)).
Proof.
  intros T n c fs f c0 fx fx' Hf Hle cn H. cbn [in_domain_f] in *.
  destruct (assoc cn (t_convs T)) as [cv|]; [|discriminate].
  eapply dom_level_replace; eauto.
Qed.

Theorem edit_stays_in_domain_thm : forall T pre n a c0 fx fx',
  get_path pre a = Some (VRec c0 fx) -> dom_le n T (VRec c0 fx) (VRec c0 fx') ->
  dom_le (length pre + n) T a (set_path pre (VRec c0 fx') a).
Proof.
  intros T. induction pre as [|f rest IH]; intros n a c0 fx fx' Hg Hle.
  - cbn in *. inversion Hg; subst. exact Hle.
  - cbn [get_path] in Hg. destruct a as [| | | | | | |c fs]; cbn [vget] in Hg; try discriminate.
    destruct (assoc f fs) as [y|] eqn:Ey; [|discriminate].
    cbn [set_path length plus]. rewrite Ey.
    specialize (IH n y c0 fx fx' Hg Hle).
    assert (Hy : exists cy fy fy', y = VRec cy fy /\ set_path rest (VRec c0 fx') y = VRec cy fy').
    { destruct rest as [|g rest'].
      - cbn in Hg. inversion Hg; subst. exists c0, fx, fx'. split; reflexivity.
      - destruct y as [| | | | | | |cy fy]; cbn in Hg; try discriminate.
        destruct (set_path_class (g :: rest') (VRec c0 fx') cy fy ltac:(discriminate)) as [fy' E].
        exists cy, fy, fy'. split; [reflexivity|exact E]. }
    destruct Hy as [cy [fy [fy' [E1 E2]]]]. subst y. rewrite E2 in *.
    exact (dom_le_step T _ c fs f cy fy fy' Ey IH).
Qed.

Lemma set_path_app : forall pre rest v a x, get_path pre a = Some x ->
  set_path (pre ++ rest) v a = set_path pre (set_path rest v x) a.
Proof.
  induction pre as [|f pre IH]; intros rest v a x H.
  - cbn in *. inversion H; subst. reflexivity.
  - cbn [get_path] in H. destruct a as [| | | | | | |c fs]; cbn [vget] in H; try discriminate.
    destruct (assoc f fs) as [y|] eqn:Ey; [|discriminate].
    cbn [app set_path]. rewrite Ey. rewrite (IH rest v y x H). reflexivity.
Qed.

(* the form the harness exercises on objects obtained by parsing: a in the domain, the assignment
   a.pre.g = v keeps the object holding g in (every sub-domain it was in) => the edited whole object
   serialises, parses back, and the result covers the edited object *)
Theorem edit_in_domain_roundtrip_thm : forall T n cn a pre g v c0 fx,
  in_domain_f (length pre + n) T cn a = true ->
  get_path pre a = Some (VRec c0 fx) ->
  dom_le n T (VRec c0 fx) (set_path [g] v (VRec c0 fx)) ->
  exists p b, to_proto_f (length pre + n) T cn (set_path (pre ++ [g]) v a) = Ok p
    /\ from_proto_f (length pre + n) T cn p = Ok b
    /\ covers (set_path (pre ++ [g]) v a) b.
Proof.
  intros T n cn a pre g v c0 fx Hdom Hget Hle.
  apply set_fields_preserved_thm. rewrite (set_path_app _ _ _ _ _ Hget).
  destruct (set_path_class [g] v c0 fx ltac:(discriminate)) as [fx' E]. rewrite E in *.
  exact (edit_stays_in_domain_thm T pre n a c0 fx fx' Hget Hle cn Hdom).
Qed.
