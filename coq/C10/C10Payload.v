(* C10 — received payloads.  Definitions only (extracted with the model).

   A payload received from a peer is a protobuf message of the model ([pmsg]: the PRESENT fields
   only, proto2 presence).  This file defines, from the converter table,
     - [pread_at p phi]   : presence-aware reader along a field path (an unset optional reads as
                            absent, not as its default; a sub-message at the end of a path reads
                            as a presence marker);
     - [modelled_path]    : the paths the converter table reads or writes, recursively;
     - [wf_payload]       : the payloads a peer can legitimately send for a converter's message
                            type (typed scalar values, non-empty repeated fields, nested
                            sub-messages of the declared type, any nesting depth up to the fuel);
     - [lossy_payload]    : the payloads whose re-serialisation changes a modelled path:
                            an ABSENT field that the from-side reads without a presence test
                            (p.f / proto_to_x(p.f) without HasField) comes back PRESENT with its
                            default (absent sub-message: present and filled with defaults);
     - [gap_payload]      : the (smaller) class that parses to an object outside the computed
                            domain of C10Model: an absent scalar that one attribute reads with
                            HasField and another one without (aliased attributes);
     - [table_ok]         : the computed check on a converter table under which the theorems of
                            C10PayloadProofs.v hold (shape only: which statement writes what the
                            which constructor argument reads; guards restricted to `is not None`
                            / unconditional on scalars, truthiness / non-empty on lists).        *)
From Coq Require Import Ascii.
From YV Require Import Common.Tac C10.C10Model.

Definition path := list name.

(* ---------- the presence-aware reader ---------- *)
Fixpoint pread_at (p : pmsg) (phi : path) : option val :=
  match phi with
  | [] => None
  | f :: rest =>
    match rest with
    | [] => match assoc f p with
            | Some (VRec m _) => Some (VRec m [])
            | o => o
            end
    | _ => match assoc f p with
           | Some (VRec _ sub) => pread_at sub rest
           | _ => None
           end
    end
  end.

(* ---------- what the table reads and writes ---------- *)
Definition fexpr_pf (e : fexpr) : option name :=
  match e with
  | FField pf | FIfHas pf _ | FIfTruthy pf _ | FListOrEmpty pf _ | FConv _ pf | FConvIfHas _ pf _ => Some pf
  | FOmitted | FMissing => None
  end.

Definition fexpr_sub (e : fexpr) : option name :=
  match e with FConv c _ | FConvIfHas c _ _ => Some c | _ => None end.

Definition reads (pf : name) (fa : farg) : bool :=
  match fexpr_pf (fa_expr fa) with Some pf' => name_eqb pf' pf | None => false end.

Definition writes (pf : name) (s : tstmt) : bool := name_eqb (ts_pf s) pf.

Definition modelled_field (cv : conv) (pf : name) : bool :=
  existsb (reads pf) (cv_from cv) || existsb (writes pf) (cv_to cv).

(* the converter a sub-message field is handed to *)
Definition sub_conv (cv : conv) (pf : name) : option name :=
  match find (reads pf) (cv_from cv) with
  | Some fa => fexpr_sub (fa_expr fa)
  | None => None
  end.

Fixpoint modelled_path (T : table) (cn : name) (phi : path) : bool :=
  match phi with
  | [] => false
  | f :: rest =>
    match assoc cn (t_convs T) with
    | None => false
    | Some cv =>
      match rest with
      | [] => modelled_field cv f
      | _ => match sub_conv cv f with
             | Some c => modelled_path T c rest
             | None => false
             end
      end
    end
  end.

Definition msg_of (T : table) (c : name) : name :=
  match assoc c (t_convs T) with Some cv => cv_msg cv | None => NE end.

(* what a path reads once the field at its end has been set to its proto default *)
Fixpoint path_default (T : table) (mt : name) (phi : path) : option val :=
  match phi with
  | [] => None
  | f :: rest =>
    match rest with
    | [] => match field_ty (t_schema T) mt f with
            | Some (FScalar t) => Some (sdefault t)
            | Some (FMsg m) => Some (VRec m [])
            | _ => None
            end
    | _ => match field_ty (t_schema T) mt f with
           | Some (FMsg m) => path_default T m rest
           | _ => None
           end
    end
  end.

(* the modelled fields of a converter, each once *)
Definition dedup_names (l : list name) : list name :=
  fold_right (fun x acc => if existsb (name_eqb x) acc then acc else x :: acc) [] l.
Definition modelled_fields (cv : conv) : list name :=
  dedup_names (somes (map (fun fa => fexpr_pf (fa_expr fa)) (cv_from cv)) ++ map ts_pf (cv_to cv)).

(* ---------- one nesting level ---------- *)
Section PLevel.
  Variable T : table.
  Variable wf_rec : name -> pmsg -> bool.
  Variable lossy_rec : name -> pmsg -> bool.
  Variable gap_rec : name -> pmsg -> bool.

  (* a present field: declared, of the declared type; a repeated field is present only when
     non-empty; a sub-message the library models is itself well-formed *)
  Definition wf_entry (cv : conv) (kv : name * val) : bool :=
    match field_ty (t_schema T) (cv_msg cv) (fst kv) with
    | Some (FScalar t) => fits t (snd kv)
    | Some (FRepeated t) =>
      match snd kv with
      | VList (x :: l) => forallb (fits t) (x :: l)
      | _ => false
      end
    | Some (FMsg m) =>
      match snd kv with
      | VRec m' sub =>
        name_eqb m' m &&
        match sub_conv cv (fst kv) with Some c => wf_rec c sub | None => true end
      | _ => false
      end
    | Some FOther => true
    | None => false
    end.

  (* an absent sub-message that is parsed unconditionally is parsed as the empty message *)
  Definition wf_absent (p : pmsg) (fa : farg) : bool :=
    match fa_expr fa with
    | FConv c pf => match assoc pf p with None => wf_rec c [] | Some _ => true end
    | _ => true
    end.

  Definition wf_level (cv : conv) (p : pmsg) : bool :=
    forallb (wf_entry cv) p && forallb (wf_absent p) (cv_from cv).

  Definition lossy_farg (mt : name) (p : pmsg) (fa : farg) : bool :=
    match fa_expr fa with
    | FField pf => match assoc pf p with None => is_scalar_f T mt pf | Some _ => false end
    | FConv c pf => match assoc pf p with None => true | Some v => lossy_rec c (sub_fields v) end
    | FConvIfHas c pf _ => match assoc pf p with None => false | Some v => lossy_rec c (sub_fields v) end
    | _ => false
    end.

  Definition lossy_level (cv : conv) (p : pmsg) : bool :=
    existsb (lossy_farg (cv_msg cv) p) (cv_from cv).

  Definition is_fifhas (pf : name) (fa : farg) : bool :=
    match fa_expr fa with FIfHas pf' _ => name_eqb pf' pf | _ => false end.

  Definition gap_farg (cv : conv) (p : pmsg) (fa : farg) : bool :=
    match fa_expr fa with
    | FField pf =>
      match assoc pf p with
      | None => is_scalar_f T (cv_msg cv) pf && existsb (is_fifhas pf) (cv_from cv)
      | Some _ => false
      end
    | FConv c pf => gap_rec c (match assoc pf p with None => [] | Some v => sub_fields v end)
    | FConvIfHas c pf _ => match assoc pf p with None => false | Some v => gap_rec c (sub_fields v) end
    | _ => false
    end.

  Definition gap_level (cv : conv) (p : pmsg) : bool :=
    existsb (gap_farg cv p) (cv_from cv).
End PLevel.

Fixpoint wf_payload (n : nat) (T : table) (cn : name) (p : pmsg) : bool :=
  match n with
  | O => false
  | S n' => match assoc cn (t_convs T) with
            | None => false
            | Some cv => wf_level T (wf_payload n' T) cv p
            end
  end.

Fixpoint lossy_payload (n : nat) (T : table) (cn : name) (p : pmsg) : bool :=
  match n with
  | O => false
  | S n' => match assoc cn (t_convs T) with
            | None => false
            | Some cv => lossy_level T (lossy_payload n' T) cv p
            end
  end.

Fixpoint gap_payload (n : nat) (T : table) (cn : name) (p : pmsg) : bool :=
  match n with
  | O => false
  | S n' => match assoc cn (t_convs T) with
            | None => false
            | Some cv => gap_level T (gap_payload n' T) cv p
            end
  end.

(* parse, then re-serialise what was parsed *)
Definition reserialise_f (n : nat) (T : table) (cn : name) (p : pmsg) : res pmsg :=
  bind (from_proto_f n T cn p) (to_proto_f n T cn).

(* ---------- the computed check on a converter table ---------- *)
Fixpoint nodup_names (l : list name) : bool :=
  match l with
  | [] => true
  | x :: r => negb (existsb (name_eqb x) r) && nodup_names r
  end.

Definition find_farg (cv : conv) (f : name) : option farg :=
  find (fun fa => name_eqb (fa_field fa) f) (cv_from cv).

(* the attribute read from pf is also the one written back to pf *)
Definition own_writer (cv : conv) (fa : farg) (pf : name) : bool :=
  existsb (fun s => name_eqb (ts_pf s) pf && name_eqb (ts_src s) (fa_field fa)) (cv_to cv).

Definition is_splain (st : store) : bool := match st with SPlain => true | _ => false end.
Definition is_cknone (c : ck) : bool := match c with CkNone => true | _ => false end.
Definition is_ckcls (c : ck) : bool := match c with CkCls _ => true | _ => false end.

Definition scalar_ck_ok (t : sty) (c : ck) : bool :=
  match c with
  | CkNone => true
  | CkIn l => match t with TEnum vals => forallb (fun z => zmem z l) vals | _ => false end
  | CkCls _ => false
  end.

Definition list_store_ok (st : store) (c : ck) : bool :=
  match st with
  | SPlain => is_cknone c
  | SOrEmptyList => true
  | SIfTruthy => false
  end.

Definition rec_store_ok (st : store) (c : ck) (cls : name) : bool :=
  match st with SOrEmptyList => false | _ => true end &&
  match c with CkNone => true | CkCls k => name_eqb k cls | CkIn _ => false end.

Definition farg_ok (T : table) (cv : conv) (fa : farg) : bool :=
  let mt := cv_msg cv in
  let st := fa_store fa in
  let c := fa_ck fa in
  match fa_expr fa with
  | FField pf =>
    match field_ty (t_schema T) mt pf with
    | Some (FScalar t) => is_splain st && scalar_ck_ok t c && fits t (sdefault t) && own_writer cv fa pf
    | Some (FRepeated _) => list_store_ok st c && own_writer cv fa pf
    | _ => false
    end
  | FIfHas pf hf =>
    name_eqb pf hf &&
    match field_ty (t_schema T) mt pf with
    | Some (FScalar _) => is_splain st && is_cknone c && own_writer cv fa pf
    | _ => false
    end
  | FListOrEmpty pf lf =>
    name_eqb pf lf &&
    match field_ty (t_schema T) mt pf with
    | Some (FRepeated _) => list_store_ok st c && own_writer cv fa pf
    | _ => false
    end
  | FConv cn pf =>
    match field_ty (t_schema T) mt pf, assoc cn (t_convs T) with
    | Some (FMsg m), Some cv' =>
      name_eqb (cv_msg cv') m && rec_store_ok st c (cv_cls cv') && own_writer cv fa pf
    | _, _ => false
    end
  | FConvIfHas cn pf hf =>
    name_eqb pf hf &&
    match field_ty (t_schema T) mt pf, assoc cn (t_convs T) with
    | Some (FMsg m), Some cv' =>
      name_eqb (cv_msg cv') m && rec_store_ok st c (cv_cls cv') && own_writer cv fa pf
      && negb (is_splain st && is_ckcls c)
    | _, _ => false
    end
  | FOmitted =>
    match st, c with
    | SPlain, CkNone => true
    | SIfTruthy, _ => true
    | _, _ => false
    end
  | FIfTruthy _ _ | FMissing => false
  end.

(* every reader of pf is the attribute named f *)
Definition sole_reader (cv : conv) (pf f : name) : bool :=
  forallb (fun fa => negb (reads pf fa) || name_eqb (fa_field fa) f) (cv_from cv).

Definition stmt_shape_ok (T : table) (cv : conv) (s : tstmt) : bool :=
  let pf := ts_pf s in
  match find_farg cv (ts_src s) with
  | None => false
  | Some fa =>
    reads pf fa &&
    match ts_kind s, fa_expr fa with
    | KAssign, FField _ =>
      is_scalar_f T (cv_msg cv) pf &&
      match ts_guard s with GAlways | GNotNone => true | _ => false end
    | KAssign, FIfHas _ _ =>
      match ts_guard s with GNotNone => true | _ => false end
    | KAssignList, FField _ | KAssignList, FListOrEmpty _ _ =>
      is_rep_f T (cv_msg cv) pf && sole_reader cv pf (ts_src s) &&
      match ts_guard s with GTruthy | GNonEmptyList => true | _ => false end
    | KMerge c, FConv c' _ => name_eqb c c' && sole_reader cv pf (ts_src s)
    | KMerge c, FConvIfHas c' _ _ =>
      name_eqb c c' && sole_reader cv pf (ts_src s) &&
      match ts_guard s with GAlways => false | _ => true end
    | _, _ => false
    end
  end.

Definition conv_ok (T : table) (cv : conv) : bool :=
  nodup_names (map fa_field (cv_from cv))
  && forallb (farg_ok T cv) (cv_from cv)
  && forallb (stmt_shape_ok T cv) (cv_to cv).

Definition table_ok (T : table) : bool :=
  forallb (fun ncv => conv_ok T (snd ncv)) (t_convs T).
