(* C10 proofs, part 1: every field the sender set comes back with the same value.
   Generic over converter tables: all conditions are inside the computed [in_domain_f]. *)
From Coq Require Import Ascii.
From YV Require Import Common.Tac C10.C10Model.

(* ---------- names, assoc, mapM ---------- *)
Lemma name_eqb_eq : forall a b, name_eqb a b = true <-> a = b.
Proof.
  induction a as [|x a IH]; destruct b as [|y b]; cbn; split; intro H; try congruence; try discriminate.
  - apply andb_true_iff in H. destruct H as [H1 H2]. apply Ascii.eqb_eq in H1. apply IH in H2. congruence.
  - inversion H; subst. apply andb_true_iff. split. apply Ascii.eqb_refl. apply IH. reflexivity.
Qed.

Lemma name_eqb_refl : forall a, name_eqb a a = true.
Proof. intro a. apply name_eqb_eq. reflexivity. Qed.

Lemma name_eqb_neq : forall a b, name_eqb a b = false <-> a <> b.
Proof.
  intros a b. split; intro H.
  - intro E. apply name_eqb_eq in E. congruence.
  - destruct (name_eqb a b) eqn:E; [apply name_eqb_eq in E; contradiction | reflexivity].
Qed.

Lemma assoc_in {A} : forall k (l : list (name * A)) v, assoc k l = Some v -> In (k, v) l.
Proof.
  induction l as [|[k' v'] l IH]; cbn; intros v H; [discriminate|].
  destruct (name_eqb k' k) eqn:E.
  - apply name_eqb_eq in E. left. congruence.
  - right. auto.
Qed.

Lemma in_assoc {A} : forall k (l : list (name * A)) v, In (k, v) l -> exists v', assoc k l = Some v' /\ In (k, v') l.
Proof.
  induction l as [|[k' v'] l IH]; cbn; intros v H; [contradiction|].
  destruct (name_eqb k' k) eqn:E.
  - apply name_eqb_eq in E. subst. exists v'. split; auto.
  - destruct H as [H|H].
    + inversion H; subst. rewrite name_eqb_refl in E. discriminate.
    + destruct (IH _ H) as [w [H1 H2]]. exists w. split; auto.
Qed.

Lemma assoc_none {A} : forall k (l : list (name * A)), (forall v, ~ In (k, v) l) -> assoc k l = None.
Proof.
  intros k l H. destruct (assoc k l) eqn:E; [|reflexivity].
  apply assoc_in in E. exfalso. eapply H; eauto.
Qed.

Lemma mapM_ok {A B} (f : A -> res B) : forall l r, mapM f l = Ok r -> Forall2 (fun x y => f x = Ok y) l r.
Proof.
  induction l as [|x l IH]; cbn; intros r H.
  - inversion H. constructor.
  - destruct (f x) eqn:E; cbn in H; [|discriminate].
    destruct (mapM f l) eqn:E2; cbn in H; [|discriminate].
    inversion H; subst. constructor; auto.
Qed.

Lemma mapM_intro {A B} (f : A -> res B) (P : A -> B -> Prop) :
  forall l, (forall x, In x l -> exists y, f x = Ok y /\ P x y) ->
  exists r, mapM f l = Ok r /\ Forall2 (fun x y => f x = Ok y /\ P x y) l r.
Proof.
  induction l as [|x l IH]; cbn; intros H.
  - exists []. split; [reflexivity|constructor].
  - destruct (H x (or_introl eq_refl)) as [y [Hy Py]].
    destruct IH as [r [Hr Fr]]. { intros; apply H; auto. }
    exists (y :: r). rewrite Hy, Hr. cbn. split; [reflexivity|constructor; auto].
Qed.

Lemma in_somes {A} : forall (l : list (option A)) x, In x (somes l) <-> In (Some x) l.
Proof.
  induction l as [|[y|] l IH]; cbn; intros x; split; intro H; auto.
  - destruct H as [H|H]; [left; congruence | right; apply IH; auto].
  - destruct H as [H|H]; [left; congruence | right; apply IH; auto].
  - right. apply IH. auto.
  - destruct H as [H|H]; [discriminate | apply IH; auto].
Qed.

Lemma forall2_in_r {A B} (R : A -> B -> Prop) : forall l r y, Forall2 R l r -> In y r -> exists x, In x l /\ R x y.
Proof.
  induction 1; cbn; intros Hin; [contradiction|].
  destruct Hin as [Hin|Hin]; [subst; eauto | destruct (IHForall2 Hin) as [x' [H1 H2]]; eauto].
Qed.

Lemma forall2_in_l {A B} (R : A -> B -> Prop) : forall l r x, Forall2 R l r -> In x l -> exists y, In y r /\ R x y.
Proof.
  induction 1; cbn; intros Hin; [contradiction|].
  destruct Hin as [Hin|Hin]; [subst; eauto | destruct (IHForall2 Hin) as [y' [H1 H2]]; eauto].
Qed.

(* ---------- scalar equality ---------- *)
Lemma list_N_eqb_eq : forall x y, list_N_eqb x y = true -> x = y.
Proof.
  induction x as [|a x IH]; destruct y as [|b y]; cbn; intro H; try discriminate; auto.
  apply andb_true_iff in H. destruct H as [H1 H2]. apply N.eqb_eq in H1. apply IH in H2. congruence.
Qed.

Lemma sveqb_eq : forall x y, sveqb x y = true -> x = y.
Proof.
  destruct x, y; cbn; intro H; try discriminate.
  - apply list_N_eqb_eq in H. congruence.
  - apply Z.eqb_eq in H. congruence.
  - apply Bool.eqb_prop in H. congruence.
  - apply list_N_eqb_eq in H. congruence.
  - apply N.eqb_eq in H. congruence.
Qed.

Definition is_scalar_val (v : val) : Prop :=
  match v with VStr _ | VInt _ | VBool _ | VBytes _ | VFlt _ => True | _ => False end.

Lemma covers_refl_flat : forall v, match v with VNone | VRec _ _ => False | _ => True end -> covers v v.
Proof. destruct v; cbn; intro H; try contradiction; constructor. Qed.

Lemma covers_rec_cls : forall c fs v', covers (VRec c fs) v' -> exists fs', v' = VRec c fs'.
Proof. intros c fs v' H. inversion H; subst. eauto. Qed.

Section LevelProofs.
  Variable T : table.
  Variable to_rec : name -> val -> res pmsg.
  Variable from_rec : name -> pmsg -> res val.
  Variable dom_rec : name -> val -> bool.
  Hypothesis H_rec : forall c v, dom_rec c v = true ->
    exists sub a', to_rec c v = Ok sub /\ from_rec c sub = Ok a' /\ covers v a'.

  Notation eval_stmt := (eval_stmt T to_rec).
  Notation sch := (t_schema T).

  (* what a successfully evaluated statement wrote *)
  Definition wrote (mt : name) (a : val) (s : tstmt) (ow : option (name * val)) : Prop :=
    exists v, vget a (ts_src s) = Some v /\
      if guard_passes (ts_guard s) v then
        match ts_kind s with
        | KAssign => exists t, field_ty sch mt (ts_pf s) = Some (FScalar t) /\ fits t v = true
                               /\ ow = Some (ts_pf s, v)
        | KAssignList => exists t l, field_ty sch mt (ts_pf s) = Some (FRepeated t) /\ v = VList l
                               /\ ow = (if is_nil l then None else Some (ts_pf s, v))
        | KMerge c => exists m sub, field_ty sch mt (ts_pf s) = Some (FMsg m) /\ to_rec c v = Ok sub
                               /\ ow = Some (ts_pf s, VRec m sub)
        end
      else ow = None.

  Lemma eval_stmt_inv : forall mt a s ow, eval_stmt mt a s = Ok ow -> wrote mt a s ow.
  Proof.
    intros mt a s ow H. unfold C10Model.eval_stmt in H. unfold wrote.
    destruct (vget a (ts_src s)) as [v|] eqn:Ev; [|discriminate].
    exists v. split; [reflexivity|].
    destruct (guard_passes (ts_guard s) v); [|congruence].
    destruct (ts_kind s) as [| |c]; destruct (field_ty sch mt (ts_pf s)) as [[t|t|m|]|] eqn:Ef; try discriminate.
    - destruct (fits t v) eqn:Efit; [|discriminate]. exists t. repeat split; congruence.
    - destruct v; try discriminate. destruct (forallb (fits t) l); [|discriminate].
      exists t, l. repeat split; congruence.
    - destruct (assoc c (t_convs T)) as [cv|]; [|discriminate].
      destruct (to_rec c v) as [sub|] eqn:Es; cbn in H; [|discriminate].
      destruct (name_eqb (cv_msg cv) m); [|discriminate].
      exists m, sub. repeat split; congruence.
  Qed.

  Lemma stmt_ok_eval : forall mt a s, stmt_ok T dom_rec mt a s = true -> exists ow, eval_stmt mt a s = Ok ow.
  Proof.
    intros mt a s H. unfold stmt_ok in H. unfold C10Model.eval_stmt.
    destruct (vget a (ts_src s)) as [v|]; [|discriminate].
    destruct (guard_passes (ts_guard s) v); [|eauto].
    destruct (ts_kind s) as [| |c]; destruct (field_ty sch mt (ts_pf s)) as [[t|t|m|]|]; try discriminate.
    - rewrite H. eauto.
    - destruct v; try discriminate. rewrite H. eauto.
    - destruct (assoc c (t_convs T)) as [cv|]; [|discriminate].
      apply andb_true_iff in H. destruct H as [H1 H2].
      destruct (H_rec _ _ H2) as [sub [a' [Hs _]]]. rewrite Hs. cbn. rewrite H1. eauto.
  Qed.

  Section OneObject.
    Variable mt : name.
    Variable a : val.
    Variable stmts : list tstmt.
    Variable ows : list (option (name * val)).
    Hypothesis H_ows : Forall2 (fun s ow => eval_stmt mt a s = Ok ow) stmts ows.

    Let p : pmsg := rev (somes ows).

    Lemma in_p : forall k x, In (k, x) p -> exists s, In s stmts /\ wrote mt a s (Some (k, x)).
    Proof.
      intros k x H. unfold p in H. apply in_rev in H. apply in_somes in H.
      destruct (forall2_in_r _ _ _ _ H_ows H) as [s [Hs He]].
      exists s. split; [assumption|]. apply eval_stmt_inv. assumption.
    Qed.

    Lemma wrote_some_passes : forall s k x, wrote mt a s (Some (k, x)) -> k = ts_pf s /\ passes a s = true.
    Proof.
      intros s k x [v [Hv H]]. unfold passes. rewrite Hv.
      destruct (guard_passes (ts_guard s) v); [|discriminate].
      destruct (ts_kind s).
      - destruct H as [t [_ [_ H]]]. inversion H. auto.
      - destruct H as [t [l [_ [_ H]]]]. destruct (is_nil l); [discriminate|]. inversion H. auto.
      - destruct H as [m [sub [_ [_ H]]]]. inversion H. auto.
    Qed.

    Lemma final_none : forall pf, writers_none a stmts pf = true -> assoc pf p = None.
    Proof.
      intros pf H. apply assoc_none. intros x Hin.
      destruct (in_p _ _ Hin) as [s [Hs Hw]].
      destruct (wrote_some_passes _ _ _ Hw) as [Hk Hp].
      unfold writers_none in H. rewrite forallb_forall in H. specialize (H s Hs).
      subst pf. rewrite name_eqb_refl, Hp in H. discriminate.
    Qed.

    Lemma final_some : forall pf X,
      (forall s x, In s stmts -> wrote mt a s (Some (pf, x)) -> x = X) ->
      (exists s, In s stmts /\ wrote mt a s (Some (pf, X))) ->
      assoc pf p = Some X.
    Proof.
      intros pf X Hall [s [Hs Hw]].
      assert (Hin : In (pf, X) p).
      { unfold p. apply -> in_rev. apply in_somes.
        destruct (forall2_in_l _ _ _ _ H_ows Hs) as [ow [Hin He]].
        apply eval_stmt_inv in He.
        destruct Hw as [v [Hv Hw]]. destruct He as [v' [Hv' He]].
        assert (v' = v) by congruence. subst v'.
        destruct (guard_passes (ts_guard s) v); [|discriminate].
        destruct (ts_kind s).
        - destruct Hw as [t [_ [_ Hw]]]. destruct He as [t' [_ [_ He]]]. congruence.
        - destruct Hw as [t [l [_ [Hl Hw]]]]. destruct He as [t' [l' [_ [Hl' He]]]].
          assert (l' = l) by congruence. subst l'. congruence.
        - destruct Hw as [m [sub [Hf [Hsub Hw]]]]. destruct He as [m' [sub' [Hf' [Hsub' He]]]].
          assert (m' = m) by congruence. assert (sub' = sub) by congruence. subst. congruence. }
      destruct (in_assoc _ _ _ Hin) as [x [Hx Hinx]]. rewrite Hx. f_equal.
      destruct (in_p _ _ Hinx) as [s' [Hs' Hw']]. eauto.
    Qed.

    (* unpacking writers_all *)
    Lemma writers_all_inv : forall pf f v k alias,
      writers_all a stmts pf f v k alias = true ->
      (forall s, In s stmts -> ts_pf s = pf -> passes a s = true ->
         tkind_eqb (ts_kind s) k = true /\
         (ts_src s = f \/ (alias = true /\ exists w, vget a (ts_src s) = Some w /\ w = v))) /\
      (exists s, In s stmts /\ ts_pf s = pf /\ passes a s = true).
    Proof.
      intros pf f v k alias H. unfold writers_all in H. apply andb_true_iff in H. destruct H as [H1 H2].
      split.
      - intros s Hs Hpf Hp. rewrite forallb_forall in H1. specialize (H1 s Hs).
        rewrite Hpf, name_eqb_refl, Hp in H1. cbn in H1.
        apply andb_true_iff in H1. destruct H1 as [Hk Hsrc]. split; [assumption|].
        apply orb_true_iff in Hsrc. destruct Hsrc as [Hsrc|Hsrc].
        + left. apply name_eqb_eq. assumption.
        + right. apply andb_true_iff in Hsrc. destruct Hsrc as [Ha Hw]. split; [assumption|].
          destruct (vget a (ts_src s)) as [w|]; [|discriminate]. exists w. split; [reflexivity|].
          apply sveqb_eq. assumption.
      - apply existsb_exists in H2. destruct H2 as [s [Hs H2]]. apply andb_true_iff in H2.
        destruct H2 as [Hpf Hp]. apply name_eqb_eq in Hpf. eauto.
    Qed.

    Lemma tkind_eqb_eq : forall k k', tkind_eqb k k' = true -> k = k'.
    Proof.
      destruct k, k'; cbn; intro H; try discriminate; try reflexivity.
      apply name_eqb_eq in H. congruence.
    Qed.

    Lemma stmt_wrote : forall s, In s stmts -> exists ow, wrote mt a s ow.
    Proof.
      intros s Hs. destruct (forall2_in_l _ _ _ _ H_ows Hs) as [ow [_ He]].
      exists ow. apply eval_stmt_inv. assumption.
    Qed.

    (* a scalar field f with value v, read back from pf *)
    Lemma final_scalar : forall pf f v,
      vget a f = Some v -> is_scalar_val v ->
      writers_all a stmts pf f v KAssign true = true ->
      assoc pf p = Some v /\ exists t, field_ty sch mt pf = Some (FScalar t) /\ fits t v = true.
    Proof.
      intros pf f v Hv Hsc H. apply writers_all_inv in H. destruct H as [Hall [s0 [Hs0 [Hpf0 Hp0]]]].
      assert (Hw : forall s, In s stmts -> ts_pf s = pf -> passes a s = true ->
                forall ow, wrote mt a s ow ->
                ow = Some (pf, v) /\ exists t, field_ty sch mt pf = Some (FScalar t) /\ fits t v = true).
      { intros s Hs Hpf Hp ow [w [Hw Hwr]].
        destruct (Hall s Hs Hpf Hp) as [Hk Hsrc]. apply tkind_eqb_eq in Hk.
        unfold passes in Hp. rewrite Hw in Hp. rewrite Hp, Hk in Hwr.
        assert (w = v).
        { destruct Hsrc as [E|[_ [w' [E1 E2]]]]; [rewrite E in Hw|]; congruence. }
        subst w. destruct Hwr as [t [Hf [Hfit How]]]. rewrite Hpf in *. eauto. }
      destruct (stmt_wrote s0 Hs0) as [ow0 Hw0].
      destruct (Hw s0 Hs0 Hpf0 Hp0 ow0 Hw0) as [E0 Hty]. subst ow0.
      split; [|assumption].
      apply final_some.
      - intros s x Hs Hwr. destruct (wrote_some_passes _ _ _ Hwr) as [Hk Hp].
        destruct (Hw s Hs (eq_sym Hk) Hp _ Hwr) as [E _]. congruence.
      - eauto.
    Qed.

    Lemma final_list : forall pf f x l,
      vget a f = Some (VList (x :: l)) ->
      writers_all a stmts pf f (VList (x :: l)) KAssignList false = true ->
      assoc pf p = Some (VList (x :: l)) /\ exists t, field_ty sch mt pf = Some (FRepeated t).
    Proof.
      intros pf f x l Hv H. apply writers_all_inv in H. destruct H as [Hall [s0 [Hs0 [Hpf0 Hp0]]]].
      assert (Hw : forall s, In s stmts -> ts_pf s = pf -> passes a s = true ->
                forall ow, wrote mt a s ow ->
                ow = Some (pf, VList (x :: l)) /\ exists t, field_ty sch mt pf = Some (FRepeated t)).
      { intros s Hs Hpf Hp ow [w [Hw Hwr]].
        destruct (Hall s Hs Hpf Hp) as [Hk Hsrc]. apply tkind_eqb_eq in Hk.
        unfold passes in Hp. rewrite Hw in Hp. rewrite Hp, Hk in Hwr.
        assert (w = VList (x :: l)).
        { destruct Hsrc as [E|[E _]]; [rewrite E in Hw; congruence | discriminate]. }
        subst w. destruct Hwr as [t [l' [Hf [Hl How]]]]. inversion Hl; subst l'. cbn in How.
        rewrite Hpf in *. eauto. }
      destruct (stmt_wrote s0 Hs0) as [ow0 Hw0].
      destruct (Hw s0 Hs0 Hpf0 Hp0 ow0 Hw0) as [E0 Hty]. subst ow0.
      split; [|assumption].
      apply final_some.
      - intros s y Hs Hwr. destruct (wrote_some_passes _ _ _ Hwr) as [Hk Hp].
        destruct (Hw s Hs (eq_sym Hk) Hp _ Hwr) as [E _]. congruence.
      - eauto.
    Qed.

    Lemma final_rec : forall pf f cn c fs,
      vget a f = Some (VRec c fs) ->
      writers_all a stmts pf f (VRec c fs) (KMerge cn) false = true ->
      exists m sub, assoc pf p = Some (VRec m sub) /\ field_ty sch mt pf = Some (FMsg m)
                    /\ to_rec cn (VRec c fs) = Ok sub.
    Proof.
      intros pf f cn c fs Hv H. apply writers_all_inv in H. destruct H as [Hall [s0 [Hs0 [Hpf0 Hp0]]]].
      assert (Hw : forall s, In s stmts -> ts_pf s = pf -> passes a s = true ->
                forall ow, wrote mt a s ow ->
                exists m sub, ow = Some (pf, VRec m sub) /\ field_ty sch mt pf = Some (FMsg m)
                              /\ to_rec cn (VRec c fs) = Ok sub).
      { intros s Hs Hpf Hp ow [w [Hw Hwr]].
        destruct (Hall s Hs Hpf Hp) as [Hk Hsrc]. apply tkind_eqb_eq in Hk.
        unfold passes in Hp. rewrite Hw in Hp. rewrite Hp, Hk in Hwr.
        assert (w = VRec c fs).
        { destruct Hsrc as [E|[E _]]; [rewrite E in Hw; congruence | discriminate]. }
        subst w. destruct Hwr as [m [sub [Hf [Hsub How]]]]. rewrite Hpf in *. eauto. }
      destruct (stmt_wrote s0 Hs0) as [ow0 Hw0].
      destruct (Hw s0 Hs0 Hpf0 Hp0 ow0 Hw0) as [m [sub [E0 [Hty Hsub]]]]. subst ow0.
      exists m, sub. split; [|split; assumption].
      apply final_some.
      - intros s y Hs Hwr. destruct (wrote_some_passes _ _ _ Hwr) as [Hk Hp].
        destruct (Hw s Hs (eq_sym Hk) Hp _ Hwr) as [m' [sub' [E [Hty' Hsub']]]].
        assert (m' = m) by congruence. assert (sub' = sub) by congruence. subst. congruence.
      - eauto.
    Qed.

    (* ---------- reading the fields back ---------- *)
    Ltac andb_split H :=
      repeat (let H' := fresh H in apply andb_true_iff in H; destruct H as [H H']).

    Lemma fin_keep : forall (f : name) st c v,
      keep_store_ok st c v = true -> covers v v ->
      exists v', bind (apply_store st c v) (fun y => Ok (f, y)) = Ok (f, v') /\ covers v v'.
    Proof.
      intros f st c v H Hc. exists v. split; [|assumption].
      unfold apply_store. destruct st; cbn in H.
      - rewrite H. reflexivity.
      - rewrite H. reflexivity.
      - apply andb_true_iff in H. destruct H as [H1 H2]. rewrite H1, H2. reflexivity.
    Qed.

    Lemma fin_none : forall (f : name) st c,
      none_store_ok st c = true ->
      exists v', bind (apply_store st c VNone) (fun y => Ok (f, y)) = Ok (f, v') /\ covers VNone v'.
    Proof.
      intros f st c H.
      destruct st, c; cbn in *; try discriminate; eexists; (split; [reflexivity|]); constructor;
        first [left; reflexivity | right; left; reflexivity].
    Qed.

    Lemma fin_dflt : forall (f : name) st c x,
      dflt_store_ok st c = true -> is_default x ->
      exists v', bind (apply_store st c x) (fun y => Ok (f, y)) = Ok (f, v') /\ covers VNone v'.
    Proof.
      intros f st c x H Hd. unfold apply_store.
      destruct st.
      - destruct c; try discriminate. cbn. exists x. split; [reflexivity|constructor; assumption].
      - cbn. eexists. split; [reflexivity|]. constructor. destruct (truthy x); [assumption|right; left; reflexivity].
      - destruct c; try discriminate. cbn. destruct (truthy x); cbn; eexists; (split; [reflexivity|]); constructor;
          [assumption | left; reflexivity].
    Qed.

    Lemma fin_empty : forall (f : name) st c,
      empty_store_ok st c = true ->
      exists v', bind (apply_store st c (VList [])) (fun y => Ok (f, y)) = Ok (f, v') /\ covers (VList []) v'.
    Proof.
      intros f st c H. exists (VList []). split; [|constructor].
      destruct st; cbn in *; try discriminate; [rewrite H|]; reflexivity.
    Qed.

    Lemma fin_rec : forall (f : name) st c c0 fs a',
      keep_store_ok st c (VRec c0 fs) = true -> covers (VRec c0 fs) a' ->
      exists v', bind (apply_store st c a') (fun y => Ok (f, y)) = Ok (f, v') /\ covers (VRec c0 fs) v'.
    Proof.
      intros f st c c0 fs a' H Hc. exists a'. split; [|assumption].
      destruct (covers_rec_cls _ _ _ Hc) as [fs' E]. subst a'.
      unfold apply_store. destruct st; cbn in *.
      - destruct c; cbn in *; try discriminate; try reflexivity. rewrite H. reflexivity.
      - reflexivity.
      - destruct c; cbn in *; try discriminate; try reflexivity. rewrite H. reflexivity.
    Qed.

    Lemma rec_back : forall pf f cn c fs,
      vget a f = Some (VRec c fs) ->
      writers_all a stmts pf f (VRec c fs) (KMerge cn) false = true ->
      dom_rec cn (VRec c fs) = true ->
      exists m sub a', assoc pf p = Some (VRec m sub) /\ field_ty sch mt pf = Some (FMsg m)
                       /\ from_rec cn sub = Ok a' /\ covers (VRec c fs) a'.
    Proof.
      intros pf f cn c fs Hv Hw Hd.
      destruct (final_rec _ _ _ _ _ Hv Hw) as [m [sub [Ha [Hf Hs]]]].
      destruct (H_rec _ _ Hd) as [sub' [a' [Hs' [Hfr Hc]]]].
      assert (sub' = sub) by congruence. subst sub'.
      exists m, sub, a'. auto.
    Qed.

    Ltac split2 H := apply andb_true_iff in H; destruct H as [H H0].
    Ltac split3 H := apply andb_true_iff in H; destruct H as [H H0];
                     apply andb_true_iff in H; destruct H as [H H1].

    Lemma leaf_covers : forall fa v,
      leaf_ok T dom_rec mt a stmts fa = true -> vget a (fa_field fa) = Some v ->
      exists v', eval_farg T from_rec mt p fa = Ok (fa_field fa, v') /\ covers v v'.
    Proof.
      intros fa v H Hv. unfold leaf_ok in H. rewrite Hv in H. unfold eval_farg.
      destruct (fa_expr fa) as [pf|pf hf|pf cf|pf lf|cn pf|cn pf hf| |] eqn:Ee; cbn [eval_fexpr].
      - (* FField *)
        destruct v as [|s|z|b|b|b|l|c fs]; try discriminate;
          try (split2 H; destruct (final_scalar pf _ _ Hv I H) as [Ha [t [Hf Hfit]]];
               unfold pread; rewrite Hf, Ha; cbn [bind]; apply fin_keep; [assumption|constructor]).
        + split3 H. pose proof (final_none _ H) as Ha.
          unfold is_scalar_f, is_rep_f in H0. unfold pread.
          destruct (field_ty sch mt pf) as [[t|t|m|]|] eqn:Ef; cbn in H0; try discriminate; rewrite Ha; cbn [bind];
            apply fin_dflt; try assumption.
          * right; right; eauto.
          * right; left; reflexivity.
        + destruct l as [|x l].
          * split3 H. pose proof (final_none _ H) as Ha. unfold is_rep_f in H1. unfold pread.
            destruct (field_ty sch mt pf) as [[t|t|m|]|] eqn:Ef; cbn in H1; try discriminate. rewrite Ha. cbn [bind].
            apply fin_empty. assumption.
          * split2 H. destruct (final_list pf _ _ _ Hv H) as [Ha [t Hf]].
            unfold pread. rewrite Hf, Ha. cbn [bind]. apply fin_keep; [assumption|constructor].
      - (* FIfHas *)
        apply andb_true_iff in H. destruct H as [Heq H]. apply name_eqb_eq in Heq. subst hf.
        destruct v as [|s|z|b|b|b|l|c fs]; try discriminate;
          try (split2 H; destruct (final_scalar pf _ _ Hv I H) as [Ha [t [Hf Hfit]]];
               unfold phas, pread; rewrite Hf, Ha; cbn [bind]; apply fin_keep; [assumption|constructor]).
        split3 H. pose proof (final_none _ H) as Ha. unfold is_scalar_f in H0. unfold phas.
        destruct (field_ty sch mt pf) as [[t|t|m|]|] eqn:Ef; cbn in H0; try discriminate. rewrite Ha. cbn [bind].
        apply fin_none. assumption.
      - (* FIfTruthy *)
        apply andb_true_iff in H. destruct H as [Heq H]. apply name_eqb_eq in Heq. subst cf.
        destruct v as [|s|z|b|b|b|l|c fs]; try discriminate;
          try (split3 H; destruct (final_scalar pf _ _ Hv I H) as [Ha [t [Hf Hfit]]];
               unfold pread; rewrite Hf, Ha; cbn [bind]; rewrite H0; apply fin_keep; [assumption|constructor]).
        split3 H. pose proof (final_none _ H) as Ha. unfold is_scalar_f in H0. unfold pread.
        destruct (field_ty sch mt pf) as [[t|t|m|]|] eqn:Ef; cbn in H0; try discriminate. rewrite Ha. cbn [bind].
        destruct (truthy (sdefault t)); apply fin_dflt; try assumption.
        + right; right; eauto.
        + left; reflexivity.
      - (* FListOrEmpty *)
        apply andb_true_iff in H. destruct H as [Heq H]. apply name_eqb_eq in Heq. subst lf.
        destruct v as [|s|z|b|b|b|l|c fs]; try discriminate.
        + split3 H. pose proof (final_none _ H) as Ha. unfold is_rep_f in H0. unfold pread.
          destruct (field_ty sch mt pf) as [[t|t|m|]|] eqn:Ef; cbn in H0; try discriminate. rewrite Ha. cbn [bind is_nil].
          apply fin_dflt; [assumption|right; left; reflexivity].
        + destruct l as [|x l].
          * split3 H. pose proof (final_none _ H) as Ha. unfold is_rep_f in H1. unfold pread.
            destruct (field_ty sch mt pf) as [[t|t|m|]|] eqn:Ef; cbn in H1; try discriminate. rewrite Ha. cbn [bind is_nil].
            apply fin_empty. assumption.
          * split2 H. destruct (final_list pf _ _ _ Hv H) as [Ha [t Hf]].
            unfold pread. rewrite Hf, Ha. cbn [bind is_nil]. apply fin_keep; [assumption|constructor].
      - (* FConv *)
        destruct v as [|s|z|b|b|b|l|c fs]; try discriminate.
        split3 H. destruct (rec_back pf _ cn c fs Hv H H1) as [m [sub [a' [Ha [Hf [Hfr Hc]]]]]].
        unfold pread. rewrite Hf, Ha. cbn [bind sub_fields]. rewrite Hfr. cbn [bind].
        eapply fin_rec; eassumption.
      - (* FConvIfHas *)
        apply andb_true_iff in H. destruct H as [Heq H]. apply name_eqb_eq in Heq. subst hf.
        destruct v as [|s|z|b|b|b|l|c fs]; try discriminate.
        + split3 H. pose proof (final_none _ H) as Ha. unfold is_msg_f in H0. unfold phas.
          destruct (field_ty sch mt pf) as [[t|t|m|]|] eqn:Ef; cbn in H0; try discriminate. rewrite Ha. cbn [bind].
          apply fin_none. assumption.
        + split3 H. destruct (rec_back pf _ cn c fs Hv H H1) as [m [sub [a' [Ha [Hf [Hfr Hc]]]]]].
          unfold phas, pread. rewrite Hf, Ha. cbn [bind sub_fields]. rewrite Hfr. cbn [bind].
          eapply fin_rec; eassumption.
      - (* FOmitted *)
        apply andb_true_iff in H. destruct H as [Hn H]. destruct v; try discriminate. cbn [bind].
        apply fin_none. assumption.
      - discriminate.
    Qed.
  End OneObject.

  Lemma assoc_forall2 : forall (P : farg -> val -> Prop) (f : name) (l : list farg) (r : list (name * val)),
    Forall2 (fun fa y => exists v', y = (fa_field fa, v') /\ P fa v') l r ->
    (exists fa, In fa l /\ fa_field fa = f) ->
    exists fa v', In fa l /\ fa_field fa = f /\ assoc f r = Some v' /\ P fa v'.
  Proof.
    intros P f l r H. induction H as [|fa y l r [v' [Hy HP]] _ IH]; intros [fa0 [Hin Hf]]; [contradiction|].
    subst y. cbn [assoc]. destruct (name_eqb (fa_field fa) f) eqn:E.
    - apply name_eqb_eq in E. exists fa, v'. cbn. auto.
    - destruct Hin as [Hin|Hin].
      + subst fa0. rewrite Hf, name_eqb_refl in E. discriminate.
      + destruct IH as [fa1 [v1 [H1 [H2 [H3 H4]]]]]; [eauto|].
        exists fa1, v1. cbn. auto.
  Qed.

  Lemma level_thm : forall cv a, dom_level T dom_rec cv a = true ->
    exists p a', to_level T to_rec cv a = Ok p /\ from_level T from_rec cv p = Ok a' /\ covers a a'.
  Proof.
    intros cv a H. unfold dom_level in H. destruct a as [| | | | | | |c fs]; try discriminate.
    apply andb_true_iff in H. destruct H as [H Hleaf].
    apply andb_true_iff in H. destruct H as [H Hstmt].
    apply andb_true_iff in H. destruct H as [Hcls Hknown].
    apply name_eqb_eq in Hcls. subst c.
    set (a := VRec (cv_cls cv) fs) in *.
    destruct (mapM_intro (eval_stmt (cv_msg cv) a) (fun _ _ => True) (cv_to cv)) as [ows [Hows _]].
    { intros s Hs. rewrite forallb_forall in Hstmt. destruct (stmt_ok_eval _ _ _ (Hstmt s Hs)) as [ow Ho]. eauto. }
    pose proof (mapM_ok _ _ _ Hows) as F.
    exists (rev (somes ows)).
    destruct (mapM_intro (eval_farg T from_rec (cv_msg cv) (rev (somes ows)))
               (fun fa y => exists v', y = (fa_field fa, v') /\
                                       forall v, vget a (fa_field fa) = Some v -> covers v v') (cv_from cv))
      as [fs' [Hfs' F']].
    { intros fa Hfa. rewrite forallb_forall in Hleaf. specialize (Hleaf fa Hfa).
      destruct (vget a (fa_field fa)) as [v|] eqn:Ev.
      - destruct (leaf_covers _ _ _ _ F fa v Hleaf Ev) as [v' [He Hc]].
        exists (fa_field fa, v'). split; [assumption|]. exists v'. split; [reflexivity|].
        intros v0 Hv0. congruence.
      - unfold leaf_ok in Hleaf. rewrite Ev in Hleaf. discriminate. }
    exists (VRec (cv_cls cv) fs'). split; [|split].
    - unfold to_level. fold a. rewrite Hows. reflexivity.
    - unfold from_level. rewrite Hfs'. reflexivity.
    - constructor. intros f v Hf.
      assert (Hex : exists fa, In fa (cv_from cv) /\ fa_field fa = f).
      { rewrite forallb_forall in Hknown. specialize (Hknown (f, v) (assoc_in _ _ _ Hf)).
        unfold known_field in Hknown. cbn in Hknown. apply existsb_exists in Hknown.
        destruct Hknown as [fa [H1 H2]]. apply name_eqb_eq in H2. eauto. }
      assert (F2 : Forall2 (fun fa y => exists v', y = (fa_field fa, v') /\
                     (forall v, vget a (fa_field fa) = Some v -> covers v v')) (cv_from cv) fs').
      { clear - F'. induction F'; constructor; auto. destruct H as [_ H]. exact H. }
      destruct (assoc_forall2 _ f _ _ F2 Hex) as [fa [v' [H1 [H2 [H3 H4]]]]].
      exists v'. split; [assumption|]. apply H4. rewrite H2. exact Hf.
  Qed.
End LevelProofs.

(* ---------- all nesting depths ---------- *)
Theorem set_fields_preserved_thm : forall T n cn a,
  in_domain_f n T cn a = true ->
  exists p a', to_proto_f n T cn a = Ok p /\ from_proto_f n T cn p = Ok a' /\ covers a a'.
Proof.
  intros T. induction n as [|n IH]; intros cn a H; [discriminate|].
  cbn [in_domain_f to_proto_f from_proto_f] in *.
  destruct (assoc cn (t_convs T)) as [cv|]; [|discriminate].
  eapply level_thm; eauto.
Qed.

Corollary roundtrip_thm : forall T n cn a,
  in_domain_f n T cn a = true -> exists a', roundtrip_f n T cn a = Ok a' /\ covers a a'.
Proof.
  intros T n cn a H. destruct (set_fields_preserved_thm _ _ _ _ H) as [p [a' [H1 [H2 H3]]]].
  exists a'. unfold roundtrip_f. rewrite H1. cbn. auto.
Qed.
