(* C10 proofs, part 2: received payloads.
   For every converter table that passes the computed check [table_ok], every converter of it and
   every nesting depth:
     wf_payload_in_domain_thm      a well-formed payload outside the gap class parses, and the
                                   parsed object is in the computed domain of C10Model;
     reserialise_full_thm          a well-formed payload outside the lossy class parses, the parsed
                                   object re-serialises, and every modelled field path reads the
                                   same in the re-serialised payload as in the received one
                                   (presence included).
   Both by one induction on the depth over a per-level lemma (level_payload). *)
From Coq Require Import Ascii.
From YV Require Import Common.Tac C10.C10Model C10.C10Proofs C10.C10Payload.

(* ---------- small facts ---------- *)
Lemma nodup_names_spec : forall l, nodup_names l = true -> NoDup l.
Proof.
  induction l as [|x l IH]; cbn; intro H; [constructor|].
  apply andb_true_iff in H. destruct H as [H1 H2]. constructor; [|auto].
  intro Hin. apply negb_true_iff in H1.
  assert (existsb (name_eqb x) l = true); [|congruence].
  apply existsb_exists. exists x. split; [assumption|apply name_eqb_refl].
Qed.

Lemma nodup_same : forall (l : list farg) fa fa',
  NoDup (map fa_field l) -> In fa l -> In fa' l -> fa_field fa = fa_field fa' -> fa = fa'.
Proof.
  induction l as [|x l IH]; cbn; intros fa fa' Hnd H1 H2 E; [contradiction|].
  inversion Hnd as [|? ? Hx Hnd']; subst.
  destruct H1 as [H1|H1]; destruct H2 as [H2|H2]; subst; auto.
  - exfalso. apply Hx. rewrite E. apply in_map. assumption.
  - exfalso. apply Hx. rewrite <- E. apply in_map. assumption.
Qed.

Lemma find_farg_spec : forall cv f fa, find_farg cv f = Some fa -> In fa (cv_from cv) /\ fa_field fa = f.
Proof.
  intros cv f fa H. unfold find_farg in H. apply find_some in H. destruct H as [H1 H2].
  apply name_eqb_eq in H2. auto.
Qed.

Lemma assoc_forall2_nodup : forall (Y : farg -> val -> Prop) (l : list farg) (r : list (name * val)),
  Forall2 (fun fa kv => fst kv = fa_field fa /\ Y fa (snd kv)) l r ->
  NoDup (map fa_field l) ->
  forall fa, In fa l -> exists y, assoc (fa_field fa) r = Some y /\ Y fa y.
Proof.
  intros Y l r H. induction H as [|x [k v] l r [Hk Hy] _ IH]; cbn; intros Hnd fa Hin; [contradiction|].
  cbn in Hk, Hy. subst k. inversion Hnd as [|? ? Hx Hnd']; subst.
  destruct Hin as [Hin|Hin].
  - subst x. rewrite name_eqb_refl. eauto.
  - destruct (name_eqb (fa_field x) (fa_field fa)) eqn:E.
    + apply name_eqb_eq in E. exfalso. apply Hx. rewrite E. apply in_map. assumption.
    + apply IH; assumption.
Qed.

Lemma sveqb_refl_fits : forall t v, fits t v = true -> sveqb v v = true /\ is_scalar_val v.
Proof.
  assert (L : forall l, list_N_eqb l l = true).
  { induction l as [|x l IH]; cbn; [reflexivity|]. rewrite N.eqb_refl. exact IH. }
  intros t v H. destruct t, v; cbn in H; try discriminate; cbn; split; auto;
    first [apply Z.eqb_refl | apply N.eqb_refl | (destruct b; reflexivity)].
Qed.

Lemma sdefault_not_none : forall t, guard_passes GNotNone (sdefault t) = true.
Proof. destruct t; reflexivity. Qed.

Lemma scalar_not_none : forall v, is_scalar_val v -> is_none v = false.
Proof. destruct v; cbn; intro H; try contradiction; reflexivity. Qed.

Lemma existsb_false_in {A} : forall (f : A -> bool) l x, existsb f l = false -> In x l -> f x = false.
Proof.
  intros f l x H Hin. destruct (f x) eqn:E; [|reflexivity].
  assert (existsb f l = true) by (apply existsb_exists; eauto). congruence.
Qed.

(* the last component of a path *)
Lemma pread_at_one : forall p f, pread_at p [f] =
  match assoc f p with Some (VRec m _) => Some (VRec m []) | o => o end.
Proof. reflexivity. Qed.

Lemma pread_at_cons : forall p f g rest, pread_at p (f :: g :: rest) =
  match assoc f p with Some (VRec _ sub) => pread_at sub (g :: rest) | _ => None end.
Proof. reflexivity. Qed.

(* what re-serialisation leaves of one modelled field *)
Definition field_same (T : table) (cv : conv) (pf : name) (p p' : pmsg) : Prop :=
  match assoc pf p with
  | None => assoc pf p' = None
  | Some v =>
    match v with
    | VRec m sub =>
      exists sub', assoc pf p' = Some (VRec m sub') /\
        forall c, sub_conv cv pf = Some c ->
        forall phi, modelled_path T c phi = true -> pread_at sub' phi = pread_at sub phi
    | _ => assoc pf p' = Some v
    end
  end.

(* a path reads the same, or it was absent and now reads its proto default *)
Definition path_same_or_mat (T : table) (mt : name) (q' q : pmsg) (phi : path) : Prop :=
  pread_at q' phi = pread_at q phi
  \/ (pread_at q phi = None /\ pread_at q' phi = path_default T mt phi /\ path_default T mt phi <> None).

Definition field_mat (T : table) (cv : conv) (pf : name) (p p' : pmsg) : Prop :=
  match assoc pf p with
  | None =>
    assoc pf p' = None
    \/ (exists t, field_ty (t_schema T) (cv_msg cv) pf = Some (FScalar t) /\ assoc pf p' = Some (sdefault t))
    \/ (exists m sub0 c, field_ty (t_schema T) (cv_msg cv) pf = Some (FMsg m) /\ sub_conv cv pf = Some c
          /\ msg_of T c = m /\ assoc pf p' = Some (VRec m sub0)
          /\ forall phi, modelled_path T c phi = true -> path_same_or_mat T m sub0 [] phi)
  | Some v =>
    match v with
    | VRec m sub =>
      exists sub', field_ty (t_schema T) (cv_msg cv) pf = Some (FMsg m) /\ assoc pf p' = Some (VRec m sub') /\
        forall c, sub_conv cv pf = Some c ->
          msg_of T c = m /\ forall phi, modelled_path T c phi = true -> path_same_or_mat T m sub' sub phi
    | _ => assoc pf p' = Some v
    end
  end.

Definition field_lossy (T : table) (cv : conv) (p p' : pmsg) : Prop :=
  exists pf, modelled_field cv pf = true /\
    ((assoc pf p = None /\ assoc pf p' <> None)
     \/ exists m sub sub' c phi, assoc pf p = Some (VRec m sub) /\ assoc pf p' = Some (VRec m sub') /\
          sub_conv cv pf = Some c /\ modelled_path T c phi = true /\
          pread_at sub phi = None /\ pread_at sub' phi <> None).

Section PLevelProofs.
  Variable T : table.
  Variable to_rec : name -> val -> res pmsg.
  Variable from_rec : name -> pmsg -> res val.
  Variable dom_rec : name -> val -> bool.
  Variable wf_rec lossy_rec gap_rec : name -> pmsg -> bool.

  Notation sch := (t_schema T).

  Definition cls_of (c : name) : name :=
    match assoc c (t_convs T) with Some cv => cv_cls cv | None => NE end.

  (* what the next level gives for a nested payload [sub] handed to converter [c] *)
  Definition rspec (c : name) (sub : pmsg) (y : val) : Prop :=
    from_rec c sub = Ok y /\ dom_rec c y = true /\ (exists fs, y = VRec (cls_of c) fs) /\
    exists sub', to_rec c y = Ok sub' /\
      (lossy_rec c sub = false ->
       forall phi, modelled_path T c phi = true -> pread_at sub' phi = pread_at sub phi) /\
      (forall phi, modelled_path T c phi = true -> path_same_or_mat T (msg_of T c) sub' sub phi) /\
      (lossy_rec c sub = true ->
       exists phi, modelled_path T c phi = true /\ pread_at sub phi = None /\ pread_at sub' phi <> None).

  Hypothesis H_rec : forall c sub, wf_rec c sub = true -> gap_rec c sub = false -> exists y, rspec c sub y.
  Hypothesis H_dom : forall c v, dom_rec c v = true ->
    exists sub a', to_rec c v = Ok sub /\ from_rec c sub = Ok a' /\ covers v a'.

  Variable cv : conv.
  Variable p : pmsg.
  Notation mt := (cv_msg cv).
  Hypothesis H_ok : conv_ok T cv = true.
  Hypothesis H_wf : wf_level T wf_rec cv p = true.
  Hypothesis H_gap : gap_level T gap_rec cv p = false.

  Lemma H_nd : NoDup (map fa_field (cv_from cv)).
  Proof.
    unfold conv_ok in H_ok. apply andb_true_iff in H_ok. destruct H_ok as [H _].
    apply andb_true_iff in H. destruct H as [H _]. apply nodup_names_spec. exact H.
  Qed.

  Lemma H_fa : forall fa, In fa (cv_from cv) -> farg_ok T cv fa = true.
  Proof.
    unfold conv_ok in H_ok. apply andb_true_iff in H_ok. destruct H_ok as [H _].
    apply andb_true_iff in H. destruct H as [_ H]. rewrite forallb_forall in H. exact H.
  Qed.

  Lemma H_st : forall s, In s (cv_to cv) -> stmt_shape_ok T cv s = true.
  Proof.
    unfold conv_ok in H_ok. apply andb_true_iff in H_ok. destruct H_ok as [_ H].
    rewrite forallb_forall in H. exact H.
  Qed.

  Lemma wf_present : forall pf v, assoc pf p = Some v -> wf_entry T wf_rec cv (pf, v) = true.
  Proof.
    intros pf v H. unfold wf_level in H_wf. apply andb_true_iff in H_wf. destruct H_wf as [H1 _].
    rewrite forallb_forall in H1. apply H1. apply assoc_in. exact H.
  Qed.

  Lemma wf_abs : forall fa, In fa (cv_from cv) -> wf_absent wf_rec p fa = true.
  Proof.
    unfold wf_level in H_wf. apply andb_true_iff in H_wf. destruct H_wf as [_ H2].
    rewrite forallb_forall in H2. exact H2.
  Qed.

  Lemma gap_fa : forall fa, In fa (cv_from cv) -> gap_farg T gap_rec cv p fa = false.
  Proof. intros fa Hin. eapply existsb_false_in; [exact H_gap|exact Hin]. Qed.

  Lemma own_writer_inv : forall fa pf, own_writer cv fa pf = true ->
    exists s, In s (cv_to cv) /\ ts_pf s = pf /\ ts_src s = fa_field fa.
  Proof.
    intros fa pf H. unfold own_writer in H. apply existsb_exists in H. destruct H as [s [Hs H]].
    apply andb_true_iff in H. destruct H as [H1 H2]. apply name_eqb_eq in H1, H2. eauto.
  Qed.

  (* the attribute a statement reads *)
  Lemma stmt_src : forall s, In s (cv_to cv) ->
    exists fa, In fa (cv_from cv) /\ fa_field fa = ts_src s /\ find_farg cv (ts_src s) = Some fa.
  Proof.
    intros s Hs. pose proof (H_st s Hs) as H. unfold stmt_shape_ok in H.
    destruct (find_farg cv (ts_src s)) as [fa|] eqn:E; [|discriminate].
    destruct (find_farg_spec _ _ _ E) as [H1 H2]. eauto.
  Qed.

  Lemma sole_reader_inv : forall pf f fa, sole_reader cv pf f = true -> In fa (cv_from cv) ->
    reads pf fa = true -> fa_field fa = f.
  Proof.
    intros pf f fa H Hin Hr. unfold sole_reader in H. rewrite forallb_forall in H.
    specialize (H fa Hin). rewrite Hr in H. cbn in H. apply name_eqb_eq. exact H.
  Qed.

  Lemma reads_inv : forall pf fa, reads pf fa = true -> fexpr_pf (fa_expr fa) = Some pf.
  Proof.
    intros pf fa H. unfold reads in H. destruct (fexpr_pf (fa_expr fa)) as [pf'|]; [|discriminate].
    apply name_eqb_eq in H. congruence.
  Qed.

  Ltac andb_all :=
    repeat match goal with
           | H : _ && _ = true |- _ => apply andb_true_iff in H; destruct H
           end.

  Lemma reader_own_writer : forall fa pf, In fa (cv_from cv) ->
    fexpr_pf (fa_expr fa) = Some pf -> own_writer cv fa pf = true.
  Proof.
    intros fa pf Hin He. pose proof (H_fa fa Hin) as H. unfold farg_ok in H.
    destruct (fa_expr fa) as [pf0|pf0 hf|pf0 cf|pf0 lf|c pf0|c pf0 hf| |]; cbn in He; try discriminate;
      apply Some_inj in He; subst pf0.
    - destruct (field_ty sch mt pf) as [[t|t|m|]|]; try discriminate; andb_all; assumption.
    - andb_all. destruct (field_ty sch mt pf) as [[t|t|m|]|]; try discriminate; andb_all; assumption.
    - andb_all. destruct (field_ty sch mt pf) as [[t|t|m|]|]; try discriminate; andb_all; assumption.
    - destruct (field_ty sch mt pf) as [[t|t|m|]|]; try discriminate.
      destruct (assoc c (t_convs T)); try discriminate. andb_all; assumption.
    - andb_all. destruct (field_ty sch mt pf) as [[t|t|m|]|]; try discriminate.
      destruct (assoc c (t_convs T)); try discriminate. andb_all; assumption.
  Qed.

  (* the statement that writes back what [fa] read, and what the table check says about it *)
  Lemma reader_stmt : forall fa pf, In fa (cv_from cv) -> fexpr_pf (fa_expr fa) = Some pf ->
    exists s, In s (cv_to cv) /\ ts_pf s = pf /\ ts_src s = fa_field fa /\ find_farg cv (ts_src s) = Some fa.
  Proof.
    intros fa pf Hin He. destruct (own_writer_inv _ _ (reader_own_writer _ _ Hin He)) as [s [Hs [H1 H2]]].
    exists s. repeat split; try assumption.
    destruct (stmt_src s Hs) as [fa1 [Hin1 [Hn1 Hf1]]]. rewrite Hf1. f_equal.
    apply (nodup_same _ _ _ H_nd Hin1 Hin). congruence.
  Qed.

  Lemma reads_self : forall fa pf, fexpr_pf (fa_expr fa) = Some pf -> reads pf fa = true.
  Proof. intros fa pf H. unfold reads. rewrite H. apply name_eqb_refl. Qed.

  Lemma sub_conv_reader : forall fa c pf, In fa (cv_from cv) ->
    (fa_expr fa = FConv c pf \/ exists hf, fa_expr fa = FConvIfHas c pf hf) -> sub_conv cv pf = Some c.
  Proof.
    intros fa c pf Hin He.
    assert (Hpf : fexpr_pf (fa_expr fa) = Some pf) by (destruct He as [He|[hf He]]; rewrite He; reflexivity).
    assert (Hsub : fexpr_sub (fa_expr fa) = Some c) by (destruct He as [He|[hf He]]; rewrite He; reflexivity).
    destruct (reader_stmt fa pf Hin Hpf) as [s [Hs [H1 [H2 H3]]]].
    pose proof (H_st s Hs) as H. unfold stmt_shape_ok in H. rewrite H3 in H.
    assert (Hsole : sole_reader cv pf (ts_src s) = true).
    { rewrite H1 in H. destruct He as [He|[hf He]]; rewrite He in H;
        destruct (ts_kind s); andb_all; try discriminate; assumption. }
    unfold sub_conv. destruct (find (reads pf) (cv_from cv)) as [fa0|] eqn:Ef.
    - apply find_some in Ef. destruct Ef as [Hin0 Hr0].
      assert (fa0 = fa).
      { apply (nodup_same _ _ _ H_nd Hin0 Hin). rewrite (sole_reader_inv _ _ _ Hsole Hin0 Hr0). exact H2. }
      subst fa0. exact Hsub.
    - pose proof (find_none _ _ Ef fa Hin) as Hn. rewrite (reads_self _ _ Hpf) in Hn. discriminate.
  Qed.

  (* ---------- step A: what the parse gives for each constructor argument ---------- *)
  Definition yspec (fa : farg) (y : val) : Prop :=
    match fa_expr fa with
    | FField pf | FListOrEmpty pf _ =>
      match field_ty sch mt pf with
      | Some (FScalar t) => y = match assoc pf p with Some v => v | None => sdefault t end
      | Some (FRepeated _) => y = match assoc pf p with Some v => v | None => VList [] end
      | _ => False
      end
    | FIfHas pf _ => y = match assoc pf p with Some v => v | None => VNone end
    | FConv c pf => rspec c (match assoc pf p with Some v => sub_fields v | None => [] end) y
    | FConvIfHas c pf _ => match assoc pf p with Some v => rspec c (sub_fields v) y | None => y = VNone end
    | FOmitted => y = VNone
    | _ => False
    end.

  (* a present repeated field is a non-empty typed list *)
  Lemma wf_rep : forall pf t v, field_ty sch mt pf = Some (FRepeated t) -> assoc pf p = Some v ->
    exists x l, v = VList (x :: l) /\ forallb (fits t) (x :: l) = true.
  Proof.
    intros pf t v Hf Ha. pose proof (wf_present _ _ Ha) as H. unfold wf_entry in H. cbn [fst snd] in H.
    rewrite Hf in H. destruct v as [| | | | | |[|x l]|]; try discriminate. eauto.
  Qed.

  Lemma wf_sca : forall pf t v, field_ty sch mt pf = Some (FScalar t) -> assoc pf p = Some v -> fits t v = true.
  Proof.
    intros pf t v Hf Ha. pose proof (wf_present _ _ Ha) as H. unfold wf_entry in H. cbn [fst snd] in H.
    rewrite Hf in H. exact H.
  Qed.

  Lemma wf_msg : forall pf m c v, field_ty sch mt pf = Some (FMsg m) -> sub_conv cv pf = Some c ->
    assoc pf p = Some v -> exists sub, v = VRec m sub /\ wf_rec c sub = true.
  Proof.
    intros pf m c v Hf Hc Ha. pose proof (wf_present _ _ Ha) as H. unfold wf_entry in H. cbn [fst snd] in H.
    rewrite Hf, Hc in H. destruct v; try discriminate. andb_all.
    match goal with H : name_eqb _ _ = true |- _ => apply name_eqb_eq in H; subst end. eauto.
  Qed.

  Lemma scalar_check : forall t c v, scalar_ck_ok t c = true -> fits t v = true -> check c v = true.
  Proof.
    intros t c v Hc Hf. destruct c as [|l|k]; cbn in *; try reflexivity; try discriminate.
    destruct t; try discriminate. destruct v; cbn in Hf; try discriminate.
    rewrite forallb_forall in Hc. unfold zmem in Hf. apply existsb_exists in Hf.
    destruct Hf as [x [Hx Hz]]. apply Z.eqb_eq in Hz. subst x. apply Hc. exact Hx.
  Qed.

  Lemma rec_check : forall st c cls fs, rec_store_ok st c cls = true ->
    apply_store st c (VRec cls fs) = Ok (VRec cls fs) /\ keep_store_ok st c (VRec cls fs) = true.
  Proof.
    intros st c cls fs H. unfold rec_store_ok in H. andb_all.
    destruct st; try discriminate; destruct c as [|l|k]; try discriminate; cbn;
      try (split; reflexivity);
      match goal with H : name_eqb _ _ = true |- _ => rewrite H end; split; reflexivity.
  Qed.

  Lemma list_keep : forall st c x l, list_store_ok st c = true ->
    apply_store st c (VList (x :: l)) = Ok (VList (x :: l)) /\ keep_store_ok st c (VList (x :: l)) = true.
  Proof.
    intros st c x l H. destruct st; cbn in H; try discriminate.
    - destruct c; try discriminate. split; reflexivity.
    - split; reflexivity.
  Qed.

  Lemma list_empty : forall st c, list_store_ok st c = true ->
    apply_store st c (VList []) = Ok (VList []) /\ empty_store_ok st c = true.
  Proof.
    intros st c H. destruct st; cbn in H; try discriminate.
    - destruct c; try discriminate. split; reflexivity.
    - split; reflexivity.
  Qed.

  Ltac fin := cbn [bind]; eexists; split; reflexivity.

  Lemma back_spec : forall fa, In fa (cv_from cv) ->
    exists y, eval_farg T from_rec mt p fa = Ok (fa_field fa, y) /\ yspec fa y.
  Proof.
    intros fa Hin. pose proof (H_fa fa Hin) as Hok. pose proof (gap_fa fa Hin) as Hg.
    pose proof (wf_abs fa Hin) as Hab.
    unfold farg_ok in Hok. unfold gap_farg in Hg. unfold wf_absent in Hab.
    unfold eval_farg, yspec.
    destruct (fa_expr fa) as [pf|pf hf|pf cf|pf lf|c pf|c pf hf| |] eqn:Ee; try discriminate; cbn [eval_fexpr].
    - (* FField *)
      unfold pread. destruct (field_ty sch mt pf) as [[t|t|m|]|] eqn:Ef; try discriminate; andb_all.
      + destruct (fa_store fa); try discriminate. cbn [bind apply_store].
        destruct (assoc pf p) as [v|] eqn:Ea.
        * rewrite (scalar_check t _ v); [|assumption|eapply wf_sca; eassumption]. fin.
        * rewrite (scalar_check t _ (sdefault t)); [|assumption|assumption]. fin.
      + cbn [bind]. destruct (assoc pf p) as [v|] eqn:Ea.
        * destruct (wf_rep _ _ _ Ef Ea) as [x [l [Ev _]]]. subst v.
          destruct (list_keep _ _ x l ltac:(eassumption)) as [E1 _]. rewrite E1. fin.
        * destruct (list_empty _ _ ltac:(eassumption)) as [E1 _]. rewrite E1. fin.
    - (* FIfHas *)
      andb_all. match goal with H : name_eqb pf hf = true |- _ => apply name_eqb_eq in H; subst hf end. unfold phas, pread.
      destruct (field_ty sch mt pf) as [[t|t|m|]|] eqn:Ef; try discriminate; andb_all.
      destruct (fa_store fa); try discriminate. destruct (fa_ck fa); try discriminate.
      destruct (assoc pf p) as [v|] eqn:Ea; fin.
    - (* FListOrEmpty *)
      andb_all. match goal with H : name_eqb pf lf = true |- _ => apply name_eqb_eq in H; subst lf end. unfold pread.
      destruct (field_ty sch mt pf) as [[t|t|m|]|] eqn:Ef; try discriminate; andb_all.
      cbn [bind]. destruct (assoc pf p) as [v|] eqn:Ea.
      + destruct (wf_rep _ _ _ Ef Ea) as [x [l [Ev _]]]. subst v. cbn [is_nil bind].
        destruct (list_keep _ _ x l ltac:(eassumption)) as [E1 _]. rewrite E1. fin.
      + cbn [is_nil bind]. destruct (list_empty _ _ ltac:(eassumption)) as [E1 _]. rewrite E1. fin.
    - (* FConv *)
      unfold pread. destruct (field_ty sch mt pf) as [[t|t|m|]|] eqn:Ef; try discriminate.
      destruct (assoc c (t_convs T)) as [cv'|] eqn:Ec; try discriminate. andb_all.
      assert (Hsc : sub_conv cv pf = Some c) by (eapply sub_conv_reader; eauto).
      assert (Hsub : exists sub, match assoc pf p with Some v => v | None => VRec m [] end = VRec m sub
                                 /\ match assoc pf p with Some v => sub_fields v | None => [] end = sub
                                 /\ wf_rec c sub = true).
      { destruct (assoc pf p) as [v|] eqn:Ea.
        - destruct (wf_msg _ _ _ _ Ef Hsc Ea) as [sub [Ev Hw]]. subst v. exists sub. auto.
        - exists []. auto. }
      destruct Hsub as [sub [E1 [E2 Hw]]]. rewrite E1. cbn [bind sub_fields]. rewrite E2 in *.
      destruct (H_rec c sub Hw Hg) as [y Hy]. pose proof Hy as Hy'.
      destruct Hy as [Hfr [_ [[fs Hfs] _]]]. rewrite Hfr. cbn [bind]. subst y.
      unfold cls_of in *. rewrite Ec in *.
      destruct (rec_check _ _ _ fs ltac:(eassumption)) as [E3 _]. rewrite E3. cbn [bind]. eexists. split; [reflexivity|exact Hy'].
    - (* FConvIfHas *)
      andb_all. match goal with H : name_eqb pf hf = true |- _ => apply name_eqb_eq in H; subst hf end. unfold phas, pread.
      destruct (field_ty sch mt pf) as [[t|t|m|]|] eqn:Ef; try discriminate.
      destruct (assoc c (t_convs T)) as [cv'|] eqn:Ec; try discriminate. andb_all.
      assert (Hsc : sub_conv cv pf = Some c) by (eapply sub_conv_reader; eauto).
      destruct (assoc pf p) as [v|] eqn:Ea; cbn [bind].
      + destruct (wf_msg _ _ _ _ Ef Hsc Ea) as [sub [Ev Hw]]. subst v. cbn [sub_fields] in *.
        destruct (H_rec c sub Hw Hg) as [y Hy]. pose proof Hy as Hy'.
        destruct Hy as [Hfr [_ [[fs Hfs] _]]]. rewrite Hfr. cbn [bind]. subst y.
        unfold cls_of in *. rewrite Ec in *.
        destruct (rec_check _ _ _ fs ltac:(eassumption)) as [E3 _]. rewrite E3. cbn [bind]. eexists. split; [reflexivity|exact Hy'].
      + exists VNone. split; [|reflexivity].
        destruct (fa_store fa); cbn in *; try discriminate; try reflexivity.
        destruct (fa_ck fa); cbn in *; try discriminate; reflexivity.
    - (* FOmitted *)
      cbn [bind]. exists VNone. split; [|reflexivity].
      destruct (fa_store fa); try discriminate; try reflexivity.
      destruct (fa_ck fa); try discriminate; reflexivity.
  Qed.

  (* the table check, per kind of constructor argument *)
  Definition fa_shape (fa : farg) : Prop :=
    let st := fa_store fa in let c := fa_ck fa in
    match fa_expr fa with
    | FField pf =>
      (exists t, field_ty sch mt pf = Some (FScalar t) /\ fits t (sdefault t) = true
                 /\ st = SPlain /\ scalar_ck_ok t c = true)
      \/ (exists t, field_ty sch mt pf = Some (FRepeated t) /\ list_store_ok st c = true)
    | FIfHas pf hf => pf = hf /\ exists t, field_ty sch mt pf = Some (FScalar t) /\ st = SPlain /\ c = CkNone
    | FListOrEmpty pf lf => pf = lf /\ exists t, field_ty sch mt pf = Some (FRepeated t) /\ list_store_ok st c = true
    | FConv cn pf =>
      exists m cv', field_ty sch mt pf = Some (FMsg m) /\ assoc cn (t_convs T) = Some cv'
                    /\ name_eqb (cv_msg cv') m = true /\ rec_store_ok st c (cv_cls cv') = true
    | FConvIfHas cn pf hf =>
      pf = hf /\ exists m cv', field_ty sch mt pf = Some (FMsg m) /\ assoc cn (t_convs T) = Some cv'
                    /\ name_eqb (cv_msg cv') m = true /\ rec_store_ok st c (cv_cls cv') = true
                    /\ (is_splain st && is_ckcls c) = false
    | FOmitted => (st = SPlain /\ c = CkNone) \/ st = SIfTruthy
    | _ => False
    end.

  Lemma fa_shape_of : forall fa, In fa (cv_from cv) -> fa_shape fa.
  Proof.
    intros fa Hin. pose proof (H_fa fa Hin) as H. unfold farg_ok in H. unfold fa_shape.
    destruct (fa_expr fa) as [pf|pf hf|pf cf|pf lf|c pf|c pf hf| |]; try discriminate.
    - destruct (field_ty sch mt pf) as [[t|t|m|]|]; try discriminate; andb_all.
      + left. exists t. repeat split; try assumption. destruct (fa_store fa); try discriminate; reflexivity.
      + right. exists t. auto.
    - andb_all. match goal with H : name_eqb pf hf = true |- _ => apply name_eqb_eq in H end.
      split; [assumption|]. destruct (field_ty sch mt pf) as [[t|t|m|]|]; try discriminate; andb_all.
      exists t. split; [reflexivity|]. split.
      + destruct (fa_store fa); try discriminate; reflexivity.
      + destruct (fa_ck fa); try discriminate; reflexivity.
    - andb_all. match goal with H : name_eqb pf lf = true |- _ => apply name_eqb_eq in H end.
      split; [assumption|]. destruct (field_ty sch mt pf) as [[t|t|m|]|]; try discriminate; andb_all.
      exists t. auto.
    - destruct (field_ty sch mt pf) as [[t|t|m|]|]; try discriminate.
      destruct (assoc c (t_convs T)) as [cv'|]; try discriminate. andb_all.
      exists m, cv'. auto.
    - andb_all. match goal with H : name_eqb pf hf = true |- _ => apply name_eqb_eq in H end.
      split; [assumption|]. destruct (field_ty sch mt pf) as [[t|t|m|]|]; try discriminate.
      destruct (assoc c (t_convs T)) as [cv'|]; try discriminate. andb_all.
      exists m, cv'. repeat split; try assumption.
      match goal with H : negb _ = true |- _ => apply negb_true_iff in H; exact H end.
    - destruct (fa_store fa); try discriminate; auto.
      destruct (fa_ck fa); try discriminate; auto.
  Qed.

  Lemma parse_level : exists fs, from_level T from_rec cv p = Ok (VRec (cv_cls cv) fs)
    /\ (forall fa, In fa (cv_from cv) -> exists y, assoc (fa_field fa) fs = Some y /\ yspec fa y)
    /\ (forall kv, In kv fs -> known_field cv (fst kv) = true).
  Proof.
    destruct (mapM_intro (eval_farg T from_rec mt p)
               (fun fa kv => fst kv = fa_field fa /\ yspec fa (snd kv)) (cv_from cv)) as [fs [Hfs F]].
    { intros fa Hin. destruct (back_spec fa Hin) as [y [He Hy]]. exists (fa_field fa, y). auto. }
    exists fs. split; [|split].
    - unfold from_level. rewrite Hfs. reflexivity.
    - apply assoc_forall2_nodup; [|exact H_nd].
      clear - F. induction F; constructor; auto. destruct H as [_ H]. exact H.
    - intros kv Hin. destruct (forall2_in_r _ _ _ _ F Hin) as [fa [Hfa [_ [Hk _]]]].
      unfold known_field. apply existsb_exists. exists fa. split; [assumption|].
      rewrite Hk. apply name_eqb_refl.
  Qed.

  (* ---------- steps B-D: the parsed object ---------- *)
  Section Parsed.
  Variable fs : list (name * val).
  Hypothesis H_known : forall kv, In kv fs -> known_field cv (fst kv) = true.
  Hypothesis H_a : forall fa, In fa (cv_from cv) -> exists y, assoc (fa_field fa) fs = Some y /\ yspec fa y.
  Let a : val := VRec (cv_cls cv) fs.

  Lemma vget_a : forall f, vget a f = assoc f fs.
  Proof. reflexivity. Qed.

  Definition pfval (t : sty) (pf : name) : val :=
    match assoc pf p with Some v => v | None => sdefault t end.

  Lemma pfval_fits : forall fa pf t, In fa (cv_from cv) -> fa_expr fa = FField pf ->
    field_ty sch mt pf = Some (FScalar t) -> fits t (pfval t pf) = true.
  Proof.
    intros fa pf t Hin He Hf. unfold pfval. destruct (assoc pf p) as [v|] eqn:Ea.
    - eapply wf_sca; eassumption.
    - pose proof (fa_shape_of fa Hin) as Hs. unfold fa_shape in Hs. rewrite He in Hs.
      destruct Hs as [[t' [Hf' [Hd _]]]|[t' [Hf' _]]]; rewrite Hf in Hf'; [|discriminate].
      apply Some_inj in Hf'. inversion Hf'; subst. exact Hd.
  Qed.

  (* what a statement writing a scalar field reads *)
  Lemma writer_scalar : forall s pf t, In s (cv_to cv) -> ts_pf s = pf ->
    field_ty sch mt pf = Some (FScalar t) ->
    ts_kind s = KAssign /\ exists fa_s y_s, In fa_s (cv_from cv) /\ fa_field fa_s = ts_src s
      /\ vget a (ts_src s) = Some y_s
      /\ ((fa_expr fa_s = FField pf /\ y_s = pfval t pf /\ (ts_guard s = GAlways \/ ts_guard s = GNotNone))
          \/ (fa_expr fa_s = FIfHas pf pf /\ y_s = match assoc pf p with Some v => v | None => VNone end
              /\ ts_guard s = GNotNone)).
  Proof.
    intros s pf t Hs Hpf Hf. pose proof (H_st s Hs) as H. unfold stmt_shape_ok in H.
    destruct (find_farg cv (ts_src s)) as [fa|] eqn:E; [|discriminate].
    destruct (find_farg_spec _ _ _ E) as [Hin Hn]. rewrite Hpf in H. andb_all.
    match goal with H : reads pf fa = true |- _ => pose proof (reads_inv _ _ H) as Hr end.
    destruct (H_a fa Hin) as [y [Hy Hys]]. pose proof (fa_shape_of fa Hin) as Hsh.
    unfold yspec in Hys. unfold fa_shape in Hsh.
    destruct (ts_kind s) as [| |c] eqn:Ek; destruct (fa_expr fa) as [pf0|pf0 hf|pf0 cf|pf0 lf|c0 pf0|c0 pf0 hf| |] eqn:Ee;
      try discriminate; cbn in Hr; apply Some_inj in Hr; subst pf0.
    - split; [reflexivity|]. exists fa, y. rewrite vget_a, <- Hn. repeat split; try assumption.
      left. rewrite Hf in Hys. split; [exact Ee|]. split; [exact Hys|].
      andb_all. destruct (ts_guard s); try discriminate; auto.
    - split; [reflexivity|]. exists fa, y. rewrite vget_a, <- Hn. repeat split; try assumption.
      right. destruct Hsh as [Hh _]. subst hf. split; [exact Ee|]. split; [exact Hys|].
      destruct (ts_guard s); try discriminate; auto.
    - andb_all. unfold is_rep_f in *. rewrite Hf in *. discriminate.
    - andb_all. unfold is_rep_f in *. rewrite Hf in *. discriminate.
    - destruct Hsh as [m [cv' [Hf' _]]]. rewrite Hf in Hf'. discriminate.
    - destruct Hsh as [_ [m [cv' [Hf' _]]]]. rewrite Hf in Hf'. discriminate.
  Qed.

  Lemma writer_list : forall s pf t fa, In s (cv_to cv) -> ts_pf s = pf ->
    field_ty sch mt pf = Some (FRepeated t) -> In fa (cv_from cv) -> reads pf fa = true ->
    ts_src s = fa_field fa /\ ts_kind s = KAssignList /\ (ts_guard s = GTruthy \/ ts_guard s = GNonEmptyList).
  Proof.
    intros s pf t fa Hs Hpf Hf Hin Hrd. pose proof (H_st s Hs) as H. unfold stmt_shape_ok in H.
    destruct (find_farg cv (ts_src s)) as [fa1|] eqn:E; [|discriminate].
    destruct (find_farg_spec _ _ _ E) as [Hin1 Hn1]. rewrite Hpf in H. andb_all.
    match goal with H : reads pf fa1 = true |- _ => pose proof (reads_inv _ _ H) as Hr end.
    pose proof (fa_shape_of fa1 Hin1) as Hsh. unfold fa_shape in Hsh.
    destruct (ts_kind s) as [| |c] eqn:Ek; destruct (fa_expr fa1) as [pf0|pf0 hf|pf0 cf|pf0 lf|c0 pf0|c0 pf0 hf| |] eqn:Ee;
      try discriminate; cbn in Hr; apply Some_inj in Hr; subst pf0.
    - andb_all. unfold is_scalar_f in *. rewrite Hf in *. discriminate.
    - destruct Hsh as [_ [t' [Hf' _]]]. rewrite Hf in Hf'. discriminate.
    - andb_all. split; [|split; [reflexivity|]].
      + symmetry. eapply sole_reader_inv; eassumption.
      + destruct (ts_guard s); try discriminate; auto.
    - andb_all. split; [|split; [reflexivity|]].
      + symmetry. eapply sole_reader_inv; eassumption.
      + destruct (ts_guard s); try discriminate; auto.
    - destruct Hsh as [m [cv' [Hf' _]]]. rewrite Hf in Hf'. discriminate.
    - destruct Hsh as [_ [m [cv' [Hf' _]]]]. rewrite Hf in Hf'. discriminate.
  Qed.

  Lemma writer_rec : forall s pf m fa, In s (cv_to cv) -> ts_pf s = pf ->
    field_ty sch mt pf = Some (FMsg m) -> In fa (cv_from cv) -> reads pf fa = true ->
    ts_src s = fa_field fa /\ exists c, ts_kind s = KMerge c /\ fexpr_sub (fa_expr fa) = Some c
      /\ ((exists hf, fa_expr fa = FConvIfHas c pf hf) -> ts_guard s <> GAlways).
  Proof.
    intros s pf m fa Hs Hpf Hf Hin Hrd. pose proof (H_st s Hs) as H. unfold stmt_shape_ok in H.
    destruct (find_farg cv (ts_src s)) as [fa1|] eqn:E; [|discriminate].
    destruct (find_farg_spec _ _ _ E) as [Hin1 Hn1]. rewrite Hpf in H. andb_all.
    match goal with H : reads pf fa1 = true |- _ => pose proof (reads_inv _ _ H) as Hr end.
    pose proof (fa_shape_of fa1 Hin1) as Hsh. unfold fa_shape in Hsh.
    destruct (ts_kind s) as [| |c] eqn:Ek; destruct (fa_expr fa1) as [pf0|pf0 hf|pf0 cf|pf0 lf|c0 pf0|c0 pf0 hf| |] eqn:Ee;
      try discriminate; cbn in Hr; apply Some_inj in Hr; subst pf0.
    - andb_all. unfold is_scalar_f in *. rewrite Hf in *. discriminate.
    - destruct Hsh as [_ [t' [Hf' _]]]. rewrite Hf in Hf'. discriminate.
    - andb_all. unfold is_rep_f in *. rewrite Hf in *. discriminate.
    - andb_all. unfold is_rep_f in *. rewrite Hf in *. discriminate.
    - andb_all. match goal with H : name_eqb c c0 = true |- _ => apply name_eqb_eq in H; subst c0 end.
      assert (Hsame : fa_field fa = ts_src s) by (eapply sole_reader_inv; eassumption).
      assert (fa = fa1) by (apply (nodup_same _ _ _ H_nd Hin Hin1); congruence). subst fa1.
      split; [auto|]. exists c. rewrite Ee. repeat split. intros [hf Hx]. discriminate.
    - andb_all. match goal with H : name_eqb c c0 = true |- _ => apply name_eqb_eq in H; subst c0 end.
      assert (Hsame : fa_field fa = ts_src s) by (eapply sole_reader_inv; eassumption).
      assert (fa = fa1) by (apply (nodup_same _ _ _ H_nd Hin Hin1); congruence). subst fa1.
      split; [auto|]. exists c. rewrite Ee. repeat split. intros _ Hg.
      rewrite Hg in *. discriminate.
  Qed.

  (* ---------- step B: every statement type-checks on the parsed object ---------- *)
  Lemma stmt_ok_all : forall s, In s (cv_to cv) -> stmt_ok T dom_rec mt a s = true.
  Proof.
    intros s Hs. pose proof (H_st s Hs) as H. unfold stmt_shape_ok in H.
    destruct (find_farg cv (ts_src s)) as [fa|] eqn:E; [|discriminate].
    destruct (find_farg_spec _ _ _ E) as [Hin Hn]. andb_all.
    match goal with H : reads _ fa = true |- _ => pose proof (reads_inv _ _ H) as Hr end.
    destruct (H_a fa Hin) as [y [Hy Hys]]. pose proof (fa_shape_of fa Hin) as Hsh.
    unfold stmt_ok. rewrite vget_a, <- Hn, Hy.
    destruct (guard_passes (ts_guard s) y) eqn:Eg; [|reflexivity].
    unfold yspec in Hys. unfold fa_shape in Hsh.
    destruct (ts_kind s) as [| |c] eqn:Ek; destruct (fa_expr fa) as [pf0|pf0 hf|pf0 cf|pf0 lf|c0 pf0|c0 pf0 hf| |] eqn:Ee;
      try discriminate; cbn in Hr; apply Some_inj in Hr; subst pf0.
    - andb_all. unfold is_scalar_f in *.
      destruct (field_ty sch mt (ts_pf s)) as [[t|t|m|]|] eqn:Ef; try discriminate.
      subst y. eapply pfval_fits; eassumption.
    - destruct Hsh as [_ [t [Hf [_ _]]]]. rewrite Hf.
      destruct (assoc (ts_pf s) p) as [v|] eqn:Ea; subst y.
      + eapply wf_sca; eassumption.
      + destruct (ts_guard s); try discriminate.
    - andb_all. unfold is_rep_f in *.
      destruct (field_ty sch mt (ts_pf s)) as [[t|t|m|]|] eqn:Ef; try discriminate.
      destruct (assoc (ts_pf s) p) as [v|] eqn:Ea; subst y.
      + destruct (wf_rep _ _ _ Ef Ea) as [x [l [Ev Hfit]]]. subst v. exact Hfit.
      + reflexivity.
    - andb_all. unfold is_rep_f in *.
      destruct (field_ty sch mt (ts_pf s)) as [[t|t|m|]|] eqn:Ef; try discriminate.
      destruct (assoc (ts_pf s) p) as [v|] eqn:Ea; subst y.
      + destruct (wf_rep _ _ _ Ef Ea) as [x [l [Ev Hfit]]]. subst v. exact Hfit.
      + reflexivity.
    - andb_all. match goal with H : name_eqb c c0 = true |- _ => apply name_eqb_eq in H; subst c0 end.
      destruct Hsh as [m [cv' [Hf [Hc [Hm _]]]]]. rewrite Hf, Hc, Hm.
      destruct Hys as [_ [Hd _]]. exact Hd.
    - andb_all. match goal with H : name_eqb c c0 = true |- _ => apply name_eqb_eq in H; subst c0 end.
      destruct Hsh as [_ [m [cv' [Hf [Hc [Hm _]]]]]]. rewrite Hf, Hc, Hm.
      destruct (assoc (ts_pf s) p) as [v|] eqn:Ea.
      + destruct Hys as [_ [Hd _]]. exact Hd.
      + subst y. destruct (ts_guard s); try discriminate.
  Qed.

  (* ---------- step C: who writes a proto field back ---------- *)
  Lemma wall_scalar : forall fa pf t v, In fa (cv_from cv) -> fexpr_pf (fa_expr fa) = Some pf ->
    field_ty sch mt pf = Some (FScalar t) -> assoc (fa_field fa) fs = Some v ->
    v = pfval t pf -> fits t v = true ->
    writers_all a (cv_to cv) pf (fa_field fa) v KAssign true = true.
  Proof.
    intros fa pf t v Hin He Hf Hav Hv Hfit. destruct (sveqb_refl_fits _ _ Hfit) as [Hsv Hsc].
    unfold writers_all. apply andb_true_iff. split.
    - apply forallb_forall. intros s Hs.
      destruct (name_eqb (ts_pf s) pf && passes a s) eqn:Ec; [|reflexivity].
      apply andb_true_iff in Ec. destruct Ec as [Hpf Hp]. apply name_eqb_eq in Hpf.
      destruct (writer_scalar s pf t Hs Hpf Hf) as [Hk [fa_s [y_s [Hins [Hns [Hvs Hc]]]]]].
      rewrite Hk. cbn [tkind_eqb andb]. apply orb_true_iff. right. rewrite Hvs.
      destruct Hc as [[_ [Hy _]]|[_ [Hy Hg]]].
      + rewrite Hy, <- Hv. exact Hsv.
      + unfold pfval in Hv. destruct (assoc pf p) as [v'|].
        * rewrite Hy, <- Hv. exact Hsv.
        * unfold passes in Hp. rewrite Hvs, Hg, Hy in Hp. discriminate.
    - apply existsb_exists. destruct (reader_stmt fa pf Hin He) as [s0 [Hs0 [H1 [H2 _]]]].
      exists s0. split; [assumption|]. rewrite H1, name_eqb_refl. cbn [andb].
      unfold passes. rewrite H2, vget_a, Hav.
      destruct (writer_scalar s0 pf t Hs0 H1 Hf) as [_ [fa_s [y_s [_ [_ [_ Hc]]]]]].
      assert (Hg : ts_guard s0 = GAlways \/ ts_guard s0 = GNotNone).
      { destruct Hc as [[_ [_ Hg]]|[_ [_ Hg]]]; auto. }
      destruct Hg as [Hg|Hg]; rewrite Hg; cbn; [reflexivity|].
      rewrite (scalar_not_none _ Hsc). reflexivity.
  Qed.

  Lemma wnone_scalar : forall fa pf t, In fa (cv_from cv) -> fa_expr fa = FIfHas pf pf ->
    field_ty sch mt pf = Some (FScalar t) -> assoc pf p = None ->
    writers_none a (cv_to cv) pf = true.
  Proof.
    intros fa pf t Hin He Hf Ha. unfold writers_none. apply forallb_forall. intros s Hs.
    destruct (name_eqb (ts_pf s) pf) eqn:Hpf; [|reflexivity]. apply name_eqb_eq in Hpf. cbn [andb].
    destruct (writer_scalar s pf t Hs Hpf Hf) as [_ [fa_s [y_s [Hins [_ [Hvs Hc]]]]]].
    destruct Hc as [[Hes _]|[_ [Hy Hg]]].
    - exfalso. pose proof (gap_fa fa_s Hins) as Hgap. unfold gap_farg in Hgap.
      rewrite Hes, Ha in Hgap. unfold is_scalar_f in Hgap. rewrite Hf in Hgap. cbn [andb] in Hgap.
      pose proof (existsb_false_in _ _ fa Hgap Hin) as Hx. unfold is_fifhas in Hx.
      rewrite He, name_eqb_refl in Hx. discriminate.
    - unfold passes. rewrite Hvs, Hg, Hy, Ha. reflexivity.
  Qed.

  Lemma wall_list : forall fa pf t x l, In fa (cv_from cv) -> fexpr_pf (fa_expr fa) = Some pf ->
    field_ty sch mt pf = Some (FRepeated t) -> assoc (fa_field fa) fs = Some (VList (x :: l)) ->
    writers_all a (cv_to cv) pf (fa_field fa) (VList (x :: l)) KAssignList false = true.
  Proof.
    intros fa pf t x l Hin He Hf Hav. unfold writers_all. apply andb_true_iff. split.
    - apply forallb_forall. intros s Hs.
      destruct (name_eqb (ts_pf s) pf && passes a s) eqn:Ec; [|reflexivity].
      apply andb_true_iff in Ec. destruct Ec as [Hpf Hp]. apply name_eqb_eq in Hpf.
      destruct (writer_list s pf t fa Hs Hpf Hf Hin (reads_self _ _ He)) as [Hsrc [Hk _]].
      rewrite Hk, Hsrc, name_eqb_refl. reflexivity.
    - apply existsb_exists. destruct (reader_stmt fa pf Hin He) as [s0 [Hs0 [H1 [H2 _]]]].
      exists s0. split; [assumption|]. rewrite H1, name_eqb_refl. cbn [andb].
      unfold passes. rewrite H2, vget_a, Hav.
      destruct (writer_list s0 pf t fa Hs0 H1 Hf Hin (reads_self _ _ He)) as [_ [_ [Hg|Hg]]];
        rewrite Hg; reflexivity.
  Qed.

  Lemma wnone_list : forall fa pf t, In fa (cv_from cv) -> fexpr_pf (fa_expr fa) = Some pf ->
    field_ty sch mt pf = Some (FRepeated t) -> assoc (fa_field fa) fs = Some (VList []) ->
    writers_none a (cv_to cv) pf = true.
  Proof.
    intros fa pf t Hin He Hf Hav. unfold writers_none. apply forallb_forall. intros s Hs.
    destruct (name_eqb (ts_pf s) pf) eqn:Hpf; [|reflexivity]. apply name_eqb_eq in Hpf. cbn [andb].
    destruct (writer_list s pf t fa Hs Hpf Hf Hin (reads_self _ _ He)) as [Hsrc [_ Hg]].
    unfold passes. rewrite Hsrc, vget_a, Hav. destruct Hg as [Hg|Hg]; rewrite Hg; reflexivity.
  Qed.

  Lemma wall_rec : forall fa pf m c cl fs', In fa (cv_from cv) -> fexpr_pf (fa_expr fa) = Some pf ->
    fexpr_sub (fa_expr fa) = Some c -> field_ty sch mt pf = Some (FMsg m) ->
    assoc (fa_field fa) fs = Some (VRec cl fs') ->
    writers_all a (cv_to cv) pf (fa_field fa) (VRec cl fs') (KMerge c) false = true.
  Proof.
    intros fa pf m c cl fs' Hin He Hsub Hf Hav. unfold writers_all. apply andb_true_iff. split.
    - apply forallb_forall. intros s Hs.
      destruct (name_eqb (ts_pf s) pf && passes a s) eqn:Ec; [|reflexivity].
      apply andb_true_iff in Ec. destruct Ec as [Hpf Hp]. apply name_eqb_eq in Hpf.
      destruct (writer_rec s pf m fa Hs Hpf Hf Hin (reads_self _ _ He)) as [Hsrc [c' [Hk [Hc' _]]]].
      assert (c' = c) by congruence. subst c'.
      rewrite Hk, Hsrc. cbn [tkind_eqb]. rewrite !name_eqb_refl. reflexivity.
    - apply existsb_exists. destruct (reader_stmt fa pf Hin He) as [s0 [Hs0 [H1 [H2 _]]]].
      exists s0. split; [assumption|]. rewrite H1, name_eqb_refl. cbn [andb].
      unfold passes. rewrite H2, vget_a, Hav. destruct (ts_guard s0); reflexivity.
  Qed.

  Lemma wnone_rec : forall fa pf m c hf, In fa (cv_from cv) -> fa_expr fa = FConvIfHas c pf hf ->
    field_ty sch mt pf = Some (FMsg m) -> assoc (fa_field fa) fs = Some VNone ->
    writers_none a (cv_to cv) pf = true.
  Proof.
    intros fa pf m c hf Hin He Hf Hav. unfold writers_none. apply forallb_forall. intros s Hs.
    destruct (name_eqb (ts_pf s) pf) eqn:Hpf; [|reflexivity]. apply name_eqb_eq in Hpf. cbn [andb].
    assert (Hr : reads pf fa = true) by (apply reads_self; rewrite He; reflexivity).
    destruct (writer_rec s pf m fa Hs Hpf Hf Hin Hr) as [Hsrc [c' [Hk [Hc' Hg]]]].
    rewrite He in Hc'. cbn in Hc'. apply Some_inj in Hc'. subst c'.
    unfold passes. rewrite Hsrc, vget_a, Hav.
    destruct (ts_guard s) eqn:Eg; try reflexivity. exfalso. apply Hg; eauto.
  Qed.

  Lemma leaf_ok_all : forall fa, In fa (cv_from cv) -> leaf_ok T dom_rec mt a (cv_to cv) fa = true.
  Proof.
    intros fa Hin. destruct (H_a fa Hin) as [y [Hy Hys]]. pose proof (fa_shape_of fa Hin) as Hsh.
    unfold leaf_ok. rewrite vget_a, Hy. unfold yspec in Hys. unfold fa_shape in Hsh.
    destruct (fa_expr fa) as [pf|pf hf|pf cf|pf lf|c pf|c pf hf| |] eqn:Ee; try contradiction.
    - (* FField *)
      assert (He : fexpr_pf (fa_expr fa) = Some pf) by (rewrite Ee; reflexivity).
      destruct Hsh as [[t [Hf [Hd [Hst Hck]]]]|[t [Hf Hls]]]; rewrite Hf in Hys.
      + assert (Hfit : fits t y = true) by (subst y; eapply pfval_fits; eassumption).
        assert (Hw : writers_all a (cv_to cv) pf (fa_field fa) y KAssign true = true)
          by (eapply wall_scalar; eassumption).
        assert (Hk : keep_store_ok (fa_store fa) (fa_ck fa) y = true)
          by (rewrite Hst; cbn; eapply scalar_check; eassumption).
        destruct (sveqb_refl_fits _ _ Hfit) as [_ Hsc]. clear Hys Hy Hfit.
        destruct y; cbn in Hsc; try contradiction; rewrite Hw, Hk; reflexivity.
      + destruct (assoc pf p) as [v|] eqn:Ea; subst y.
        * destruct (wf_rep _ _ _ Hf Ea) as [x [l [Ev _]]]. subst v.
          rewrite (wall_list fa pf t x l Hin He Hf Hy).
          destruct (list_keep _ _ x l Hls) as [_ Hk]. rewrite Hk. reflexivity.
        * rewrite (wnone_list fa pf t Hin He Hf Hy). unfold is_rep_f. rewrite Hf.
          destruct (list_empty _ _ Hls) as [_ Hk]. rewrite Hk. reflexivity.
    - (* FIfHas *)
      destruct Hsh as [Hh [t [Hf [Hst Hck]]]]. subst hf. rewrite name_eqb_refl. cbn [andb].
      assert (He : fexpr_pf (fa_expr fa) = Some pf) by (rewrite Ee; reflexivity).
      destruct (assoc pf p) as [v|] eqn:Ea; subst y.
      + assert (Hfit : fits t v = true) by (eapply wf_sca; eassumption).
        assert (Hw : writers_all a (cv_to cv) pf (fa_field fa) v KAssign true = true).
        { eapply wall_scalar; try eassumption. unfold pfval. rewrite Ea. reflexivity. }
        assert (Hk : keep_store_ok (fa_store fa) (fa_ck fa) v = true) by (rewrite Hst, Hck; reflexivity).
        destruct (sveqb_refl_fits _ _ Hfit) as [_ Hsc]. clear Hy Hfit Ea.
        destruct v; cbn in Hsc; try contradiction; rewrite Hw, Hk; reflexivity.
      + rewrite (wnone_scalar fa pf t Hin Ee Hf Ea). unfold is_scalar_f. rewrite Hf, Hst, Hck. reflexivity.
    - (* FListOrEmpty *)
      destruct Hsh as [Hh [t [Hf Hls]]]. subst lf. rewrite name_eqb_refl. cbn [andb].
      assert (He : fexpr_pf (fa_expr fa) = Some pf) by (rewrite Ee; reflexivity).
      rewrite Hf in Hys. destruct (assoc pf p) as [v|] eqn:Ea; subst y.
      + destruct (wf_rep _ _ _ Hf Ea) as [x [l [Ev _]]]. subst v.
        rewrite (wall_list fa pf t x l Hin He Hf Hy).
        destruct (list_keep _ _ x l Hls) as [_ Hk]. rewrite Hk. reflexivity.
      + rewrite (wnone_list fa pf t Hin He Hf Hy). unfold is_rep_f. rewrite Hf.
        destruct (list_empty _ _ Hls) as [_ Hk]. rewrite Hk. reflexivity.
    - (* FConv *)
      destruct Hsh as [m [cv' [Hf [Hc [Hm Hrs]]]]].
      assert (He : fexpr_pf (fa_expr fa) = Some pf) by (rewrite Ee; reflexivity).
      assert (Hsub : fexpr_sub (fa_expr fa) = Some c) by (rewrite Ee; reflexivity).
      destruct Hys as [_ [Hd [[fs' Hfs] _]]]. subst y. unfold cls_of in *. rewrite Hc in *.
      rewrite (wall_rec fa pf m c _ fs' Hin He Hsub Hf Hy), Hd.
      destruct (rec_check _ _ _ fs' Hrs) as [_ Hk]. rewrite Hk. reflexivity.
    - (* FConvIfHas *)
      destruct Hsh as [Hh [m [cv' [Hf [Hc [Hm [Hrs Hneg]]]]]]]. subst hf. rewrite name_eqb_refl. cbn [andb].
      assert (He : fexpr_pf (fa_expr fa) = Some pf) by (rewrite Ee; reflexivity).
      assert (Hsub : fexpr_sub (fa_expr fa) = Some c) by (rewrite Ee; reflexivity).
      destruct (assoc pf p) as [v|] eqn:Ea.
      + destruct Hys as [_ [Hd [[fs' Hfs] _]]]. subst y. unfold cls_of in *. rewrite Hc in *.
        rewrite (wall_rec fa pf m c _ fs' Hin He Hsub Hf Hy), Hd.
        destruct (rec_check _ _ _ fs' Hrs) as [_ Hk]. rewrite Hk. reflexivity.
      + subst y. rewrite (wnone_rec fa pf m c pf Hin Ee Hf Hy). unfold is_msg_f. rewrite Hf.
        unfold rec_store_ok in Hrs.
        destruct (fa_store fa); destruct (fa_ck fa); cbn in *; try discriminate; reflexivity.
    - (* FOmitted *)
      subst y. cbn [is_none andb].
      destruct Hsh as [[Hst Hck]|Hst]; rewrite Hst; [rewrite Hck|]; reflexivity.
  Qed.

  Lemma dom_level_a : dom_level T dom_rec cv a = true.
  Proof.
    unfold dom_level, a. rewrite name_eqb_refl. cbn [andb].
    apply andb_true_iff. split; [apply andb_true_iff; split|]; apply forallb_forall.
    - exact H_known.
    - exact stmt_ok_all.
    - exact leaf_ok_all.
  Qed.

  (* ---------- step D: the re-serialised payload, field by field ---------- *)
  Lemma modelled_reader : forall pf, modelled_field cv pf = true ->
    exists fa, In fa (cv_from cv) /\ fexpr_pf (fa_expr fa) = Some pf.
  Proof.
    intros pf H. unfold modelled_field in H. apply orb_true_iff in H. destruct H as [H|H].
    - apply existsb_exists in H. destruct H as [fa [Hin Hr]]. exists fa. split; [assumption|].
      apply reads_inv. exact Hr.
    - apply existsb_exists in H. destruct H as [s [Hs Hw]]. unfold writes in Hw. apply name_eqb_eq in Hw.
      pose proof (H_st s Hs) as Hsh. unfold stmt_shape_ok in Hsh.
      destruct (find_farg cv (ts_src s)) as [fa|] eqn:E; [|discriminate].
      destruct (find_farg_spec _ _ _ E) as [Hin _]. andb_all. exists fa. split; [assumption|].
      rewrite <- Hw. apply reads_inv. assumption.
  Qed.

  Lemma reser_fields : forall p', to_level T to_rec cv a = Ok p' ->
    lossy_level T lossy_rec cv p = false ->
    forall pf, modelled_field cv pf = true -> field_same T cv pf p p'.
  Proof.
    intros p' Hto Hlossy pf Hmod. unfold to_level in Hto.
    destruct (mapM (eval_stmt T to_rec mt a) (cv_to cv)) as [ows|] eqn:Em; cbn in Hto; [|discriminate].
    inversion Hto; subst p'. clear Hto. pose proof (mapM_ok _ _ _ Em) as F.
    destruct (modelled_reader pf Hmod) as [fa [Hin He]].
    destruct (H_a fa Hin) as [y [Hy Hys]]. pose proof (fa_shape_of fa Hin) as Hsh.
    pose proof (existsb_false_in _ _ fa Hlossy Hin) as Hl. unfold lossy_farg in Hl.
    unfold yspec in Hys. unfold fa_shape in Hsh. unfold field_same.
    destruct (fa_expr fa) as [pf0|pf0 hf|pf0 cf|pf0 lf|c pf0|c pf0 hf| |] eqn:Ee; try contradiction;
      cbn in He; try discriminate; apply Some_inj in He; subst pf0.
    - (* FField *)
      destruct Hsh as [[t [Hf [Hd [Hst Hck]]]]|[t [Hf Hls]]]; rewrite Hf in Hys.
      + destruct (assoc pf p) as [v|] eqn:Ea.
        * subst y. assert (Hfit : fits t v = true) by (eapply wf_sca; eassumption).
          destruct (sveqb_refl_fits _ _ Hfit) as [_ Hsc].
          assert (Hw : writers_all a (cv_to cv) pf (fa_field fa) v KAssign true = true).
          { eapply wall_scalar; try eassumption; [rewrite Ee; reflexivity|].
            unfold pfval. rewrite Ea. reflexivity. }
          destruct (final_scalar _ _ _ _ _ _ F pf (fa_field fa) v Hy Hsc Hw) as [Hfin _].
          destruct v; cbn in Hsc; try contradiction; exact Hfin.
        * unfold is_scalar_f in Hl. rewrite Hf in Hl. discriminate.
      + destruct (assoc pf p) as [v|] eqn:Ea; subst y.
        * destruct (wf_rep _ _ _ Hf Ea) as [x [l [Ev _]]]. subst v.
          assert (Hw := wall_list fa pf t x l Hin ltac:(rewrite Ee; reflexivity) Hf Hy).
          destruct (final_list _ _ _ _ _ _ F pf (fa_field fa) x l Hy Hw) as [Hfin _]. exact Hfin.
        * assert (Hw := wnone_list fa pf t Hin ltac:(rewrite Ee; reflexivity) Hf Hy).
          exact (final_none _ _ _ _ _ _ F pf Hw).
    - (* FIfHas *)
      destruct Hsh as [Hh [t [Hf [Hst Hck]]]]. subst hf.
      destruct (assoc pf p) as [v|] eqn:Ea; subst y.
      + assert (Hfit : fits t v = true) by (eapply wf_sca; eassumption).
        destruct (sveqb_refl_fits _ _ Hfit) as [_ Hsc].
        assert (Hw : writers_all a (cv_to cv) pf (fa_field fa) v KAssign true = true).
        { eapply wall_scalar; try eassumption; [rewrite Ee; reflexivity|].
          unfold pfval. rewrite Ea. reflexivity. }
        destruct (final_scalar _ _ _ _ _ _ F pf (fa_field fa) v Hy Hsc Hw) as [Hfin _].
        destruct v; cbn in Hsc; try contradiction; exact Hfin.
      + assert (Hw := wnone_scalar fa pf t Hin Ee Hf Ea).
        exact (final_none _ _ _ _ _ _ F pf Hw).
    - (* FListOrEmpty *)
      destruct Hsh as [Hh [t [Hf Hls]]]. subst lf. rewrite Hf in Hys.
      destruct (assoc pf p) as [v|] eqn:Ea; subst y.
      + destruct (wf_rep _ _ _ Hf Ea) as [x [l [Ev _]]]. subst v.
        assert (Hw := wall_list fa pf t x l Hin ltac:(rewrite Ee; reflexivity) Hf Hy).
        destruct (final_list _ _ _ _ _ _ F pf (fa_field fa) x l Hy Hw) as [Hfin _]. exact Hfin.
      + assert (Hw := wnone_list fa pf t Hin ltac:(rewrite Ee; reflexivity) Hf Hy).
        exact (final_none _ _ _ _ _ _ F pf Hw).
    - (* FConv *)
      destruct Hsh as [m [cv' [Hf [Hc [Hm Hrs]]]]].
      assert (Hsc : sub_conv cv pf = Some c) by (eapply sub_conv_reader; eauto).
      destruct (assoc pf p) as [v|] eqn:Ea; [|discriminate].
      destruct (wf_msg _ _ _ _ Hf Hsc Ea) as [sub [Ev _]]. subst v. cbn [sub_fields] in *.
      destruct Hys as [_ [_ [[fs' Hfs] [sub' [Hto [Hsame _]]]]]]. subst y.
      assert (Hw := wall_rec fa pf m c _ fs' Hin ltac:(rewrite Ee; reflexivity) ltac:(rewrite Ee; reflexivity) Hf Hy).
      destruct (final_rec _ _ _ _ _ _ F pf (fa_field fa) c _ fs' Hy Hw) as [m' [sub'' [Hfin [Hf' Hto']]]].
      assert (m' = m) by congruence. assert (sub'' = sub') by congruence. subst m' sub''.
      exists sub'. split; [exact Hfin|]. intros c0 Hc0. assert (c0 = c) by congruence. subst c0.
      apply Hsame. exact Hl.
    - (* FConvIfHas *)
      destruct Hsh as [Hh [m [cv' [Hf [Hc [Hm [Hrs Hneg]]]]]]]. subst hf.
      assert (Hsc : sub_conv cv pf = Some c) by (eapply sub_conv_reader; eauto).
      destruct (assoc pf p) as [v|] eqn:Ea.
      + destruct (wf_msg _ _ _ _ Hf Hsc Ea) as [sub [Ev _]]. subst v. cbn [sub_fields] in *.
        destruct Hys as [_ [_ [[fs' Hfs] [sub' [Hto [Hsame _]]]]]]. subst y.
        assert (Hw := wall_rec fa pf m c _ fs' Hin ltac:(rewrite Ee; reflexivity) ltac:(rewrite Ee; reflexivity) Hf Hy).
        destruct (final_rec _ _ _ _ _ _ F pf (fa_field fa) c _ fs' Hy Hw) as [m' [sub'' [Hfin [Hf' Hto']]]].
        assert (m' = m) by congruence. assert (sub'' = sub') by congruence. subst m' sub''.
        exists sub'. split; [exact Hfin|]. intros c0 Hc0. assert (c0 = c) by congruence. subst c0.
        apply Hsame. exact Hl.
      + subst y. assert (Hw := wnone_rec fa pf m c pf Hin Ee Hf Hy).
        exact (final_none _ _ _ _ _ _ F pf Hw).
  Qed.

  (* helpers: what the re-serialised message holds at pf *)
  Section Out.
    Variable ows : list (option (name * val)).
    Hypothesis F : Forall2 (fun s ow => eval_stmt T to_rec mt a s = Ok ow) (cv_to cv) ows.
    Let p' : pmsg := rev (somes ows).

    Lemma out_scalar : forall fa pf t v, In fa (cv_from cv) -> fexpr_pf (fa_expr fa) = Some pf ->
      field_ty sch mt pf = Some (FScalar t) -> assoc (fa_field fa) fs = Some v ->
      v = pfval t pf -> fits t v = true -> assoc pf p' = Some v /\ is_scalar_val v.
    Proof.
      intros fa pf t v Hin He Hf Hy Hv Hfit. destruct (sveqb_refl_fits _ _ Hfit) as [_ Hsc].
      assert (Hw := wall_scalar fa pf t v Hin He Hf Hy Hv Hfit).
      destruct (final_scalar _ _ _ _ _ _ F pf (fa_field fa) v Hy Hsc Hw) as [Hfin _]. auto.
    Qed.

    Lemma out_rec : forall fa pf m c cl fs' sub', In fa (cv_from cv) -> fexpr_pf (fa_expr fa) = Some pf ->
      fexpr_sub (fa_expr fa) = Some c -> field_ty sch mt pf = Some (FMsg m) ->
      assoc (fa_field fa) fs = Some (VRec cl fs') -> to_rec c (VRec cl fs') = Ok sub' ->
      assoc pf p' = Some (VRec m sub').
    Proof.
      intros fa pf m c cl fs' sub' Hin He Hsub Hf Hy Hto.
      assert (Hw := wall_rec fa pf m c cl fs' Hin He Hsub Hf Hy).
      destruct (final_rec _ _ _ _ _ _ F pf (fa_field fa) c cl fs' Hy Hw) as [m' [sub'' [Hfin [Hf' Hto']]]].
      assert (m' = m) by congruence. assert (sub'' = sub') by congruence. subst. exact Hfin.
    Qed.

    Lemma msg_of_shape : forall c cv' m, assoc c (t_convs T) = Some cv' -> name_eqb (cv_msg cv') m = true ->
      msg_of T c = m.
    Proof. intros c cv' m Hc Hm. unfold msg_of. rewrite Hc. apply name_eqb_eq. exact Hm. Qed.

    Lemma out_fields_mat : forall pf, modelled_field cv pf = true -> field_mat T cv pf p p'.
    Proof.
      intros pf Hmod. destruct (modelled_reader pf Hmod) as [fa [Hin He]].
      destruct (H_a fa Hin) as [y [Hy Hys]]. pose proof (fa_shape_of fa Hin) as Hsh.
      unfold yspec in Hys. unfold fa_shape in Hsh. unfold field_mat.
      destruct (fa_expr fa) as [pf0|pf0 hf|pf0 cf|pf0 lf|c pf0|c pf0 hf| |] eqn:Ee; try contradiction;
        cbn in He; try discriminate; apply Some_inj in He; subst pf0.
      - (* FField *)
        assert (He : fexpr_pf (fa_expr fa) = Some pf) by (rewrite Ee; reflexivity).
        destruct Hsh as [[t [Hf [Hd [Hst Hck]]]]|[t [Hf Hls]]]; rewrite Hf in Hys.
        + assert (Hfit : fits t y = true) by (subst y; eapply pfval_fits; eassumption).
          destruct (out_scalar fa pf t y Hin He Hf Hy Hys Hfit) as [Hfin Hsc].
          destruct (assoc pf p) as [v|] eqn:Ea; subst y.
          * destruct v; cbn in Hsc; try contradiction; exact Hfin.
          * right. left. exists t. auto.
        + destruct (assoc pf p) as [v|] eqn:Ea; subst y.
          * destruct (wf_rep _ _ _ Hf Ea) as [x [l [Ev _]]]. subst v.
            assert (Hw := wall_list fa pf t x l Hin He Hf Hy).
            destruct (final_list _ _ _ _ _ _ F pf (fa_field fa) x l Hy Hw) as [Hfin _]. exact Hfin.
          * left. assert (Hw := wnone_list fa pf t Hin He Hf Hy). exact (final_none _ _ _ _ _ _ F pf Hw).
      - (* FIfHas *)
        assert (He : fexpr_pf (fa_expr fa) = Some pf) by (rewrite Ee; reflexivity).
        destruct Hsh as [Hh [t [Hf [Hst Hck]]]]. subst hf.
        destruct (assoc pf p) as [v|] eqn:Ea; subst y.
        + assert (Hfit : fits t v = true) by (eapply wf_sca; eassumption).
          assert (Hv : v = pfval t pf) by (unfold pfval; rewrite Ea; reflexivity).
          destruct (out_scalar fa pf t v Hin He Hf Hy Hv Hfit) as [Hfin Hsc].
          destruct v; cbn in Hsc; try contradiction; exact Hfin.
        + left. assert (Hw := wnone_scalar fa pf t Hin Ee Hf Ea). exact (final_none _ _ _ _ _ _ F pf Hw).
      - (* FListOrEmpty *)
        assert (He : fexpr_pf (fa_expr fa) = Some pf) by (rewrite Ee; reflexivity).
        destruct Hsh as [Hh [t [Hf Hls]]]. subst lf. rewrite Hf in Hys.
        destruct (assoc pf p) as [v|] eqn:Ea; subst y.
        + destruct (wf_rep _ _ _ Hf Ea) as [x [l [Ev _]]]. subst v.
          assert (Hw := wall_list fa pf t x l Hin He Hf Hy).
          destruct (final_list _ _ _ _ _ _ F pf (fa_field fa) x l Hy Hw) as [Hfin _]. exact Hfin.
        + left. assert (Hw := wnone_list fa pf t Hin He Hf Hy). exact (final_none _ _ _ _ _ _ F pf Hw).
      - (* FConv *)
        assert (He : fexpr_pf (fa_expr fa) = Some pf) by (rewrite Ee; reflexivity).
        assert (Hsub : fexpr_sub (fa_expr fa) = Some c) by (rewrite Ee; reflexivity).
        destruct Hsh as [m [cv' [Hf [Hc [Hm Hrs]]]]].
        assert (Hsc : sub_conv cv pf = Some c) by (eapply sub_conv_reader; eauto).
        pose proof (msg_of_shape _ _ _ Hc Hm) as Hmo.
        destruct (assoc pf p) as [v|] eqn:Ea.
        + destruct (wf_msg _ _ _ _ Hf Hsc Ea) as [sub [Ev _]]. subst v. cbn [sub_fields] in *.
          destruct Hys as [_ [_ [[fs' Hfs] [sub' [Hto [_ [HV _]]]]]]]. subst y.
          exists sub'. split; [exact Hf|]. split; [eapply out_rec; eassumption|].
          intros c0 Hc0. assert (c0 = c) by congruence. subst c0. split; [exact Hmo|].
          rewrite <- Hmo. exact HV.
        + destruct Hys as [_ [_ [[fs' Hfs] [sub' [Hto [_ [HV _]]]]]]]. subst y.
          right. right. exists m, sub', c. split; [exact Hf|]. split; [exact Hsc|]. split; [exact Hmo|].
          split; [eapply out_rec; eassumption|]. rewrite <- Hmo. exact HV.
      - (* FConvIfHas *)
        assert (He : fexpr_pf (fa_expr fa) = Some pf) by (rewrite Ee; reflexivity).
        assert (Hsub : fexpr_sub (fa_expr fa) = Some c) by (rewrite Ee; reflexivity).
        destruct Hsh as [Hh [m [cv' [Hf [Hc [Hm [Hrs Hneg]]]]]]]. subst hf.
        assert (Hsc : sub_conv cv pf = Some c) by (eapply sub_conv_reader; eauto).
        pose proof (msg_of_shape _ _ _ Hc Hm) as Hmo.
        destruct (assoc pf p) as [v|] eqn:Ea.
        + destruct (wf_msg _ _ _ _ Hf Hsc Ea) as [sub [Ev _]]. subst v. cbn [sub_fields] in *.
          destruct Hys as [_ [_ [[fs' Hfs] [sub' [Hto [_ [HV _]]]]]]]. subst y.
          exists sub'. split; [exact Hf|]. split; [eapply out_rec; eassumption|].
          intros c0 Hc0. assert (c0 = c) by congruence. subst c0. split; [exact Hmo|].
          rewrite <- Hmo. exact HV.
        + subst y. left. assert (Hw := wnone_rec fa pf m c pf Hin Ee Hf Hy).
          exact (final_none _ _ _ _ _ _ F pf Hw).
    Qed.

    Lemma out_fields_lossy : lossy_level T lossy_rec cv p = true -> field_lossy T cv p p'.
    Proof.
      intros Hl. unfold lossy_level in Hl. apply existsb_exists in Hl. destruct Hl as [fa [Hin Hl]].
      destruct (H_a fa Hin) as [y [Hy Hys]]. pose proof (fa_shape_of fa Hin) as Hsh.
      unfold lossy_farg in Hl. unfold yspec in Hys. unfold fa_shape in Hsh. unfold field_lossy.
      destruct (fa_expr fa) as [pf|pf hf|pf cf|pf lf|c pf|c pf hf| |] eqn:Ee; try discriminate.
      - (* FField, absent scalar *)
        assert (He : fexpr_pf (fa_expr fa) = Some pf) by (rewrite Ee; reflexivity).
        destruct (assoc pf p) as [v|] eqn:Ea; [discriminate|].
        unfold is_scalar_f in Hl.
        destruct Hsh as [[t [Hf [Hd [Hst Hck]]]]|[t [Hf Hls]]]; rewrite Hf in Hys, Hl; [|discriminate].
        assert (Hv : y = pfval t pf) by (unfold pfval; rewrite Ea; exact Hys).
        assert (Hfit : fits t y = true) by (rewrite Hys; exact Hd).
        destruct (out_scalar fa pf t y Hin He Hf Hy Hv Hfit) as [Hfin _].
        exists pf. split.
        + unfold modelled_field. apply orb_true_iff. left. apply existsb_exists. exists fa.
          split; [assumption|apply reads_self; exact He].
        + left. split; [exact Ea|]. fold p' in Hfin. rewrite Hfin. discriminate.
      - (* FConv *)
        assert (He : fexpr_pf (fa_expr fa) = Some pf) by (rewrite Ee; reflexivity).
        assert (Hsub : fexpr_sub (fa_expr fa) = Some c) by (rewrite Ee; reflexivity).
        destruct Hsh as [m [cv' [Hf [Hc [Hm Hrs]]]]].
        assert (Hsc : sub_conv cv pf = Some c) by (eapply sub_conv_reader; eauto).
        exists pf. split.
        { unfold modelled_field. apply orb_true_iff. left. apply existsb_exists. exists fa.
          split; [assumption|apply reads_self; exact He]. }
        destruct (assoc pf p) as [v|] eqn:Ea.
        + destruct (wf_msg _ _ _ _ Hf Hsc Ea) as [sub [Ev _]]. subst v. cbn [sub_fields] in *.
          destruct Hys as [_ [_ [[fs' Hfs] [sub' [Hto [_ [_ HE]]]]]]]. subst y.
          destruct (HE Hl) as [phi [Hm1 [Hm2 Hm3]]].
          right. exists m, sub, sub', c, phi. repeat split; try assumption.
          eapply out_rec; eassumption.
        + destruct Hys as [_ [_ [[fs' Hfs] [sub' [Hto _]]]]]. subst y.
          left. split; [reflexivity|]. erewrite out_rec; try eassumption. discriminate.
      - (* FConvIfHas *)
        assert (He : fexpr_pf (fa_expr fa) = Some pf) by (rewrite Ee; reflexivity).
        assert (Hsub : fexpr_sub (fa_expr fa) = Some c) by (rewrite Ee; reflexivity).
        destruct Hsh as [Hh [m [cv' [Hf [Hc [Hm [Hrs Hneg]]]]]]]. subst hf.
        assert (Hsc : sub_conv cv pf = Some c) by (eapply sub_conv_reader; eauto).
        destruct (assoc pf p) as [v|] eqn:Ea; [|discriminate].
        destruct (wf_msg _ _ _ _ Hf Hsc Ea) as [sub [Ev _]]. subst v. cbn [sub_fields] in *.
        destruct Hys as [_ [_ [[fs' Hfs] [sub' [Hto [_ [_ HE]]]]]]]. subst y.
        destruct (HE Hl) as [phi [Hm1 [Hm2 Hm3]]].
        exists pf. split.
        { unfold modelled_field. apply orb_true_iff. left. apply existsb_exists. exists fa.
          split; [assumption|apply reads_self; exact He]. }
        right. exists m, sub, sub', c, phi. repeat split; try assumption.
        eapply out_rec; eassumption.
    Qed.
  End Out.
End Parsed.

  (* ---------- the level lemma ---------- *)
  Lemma level_payload : exists fs,
    from_level T from_rec cv p = Ok (VRec (cv_cls cv) fs)
    /\ dom_level T dom_rec cv (VRec (cv_cls cv) fs) = true
    /\ exists p', to_level T to_rec cv (VRec (cv_cls cv) fs) = Ok p'
         /\ (lossy_level T lossy_rec cv p = false ->
             forall pf, modelled_field cv pf = true -> field_same T cv pf p p')
         /\ (forall pf, modelled_field cv pf = true -> field_mat T cv pf p p')
         /\ (lossy_level T lossy_rec cv p = true -> field_lossy T cv p p').
  Proof.
    destruct parse_level as [fs [Hfrom [Ha Hknown]]]. exists fs. split; [exact Hfrom|].
    pose proof (dom_level_a fs Hknown Ha) as Hdom. split; [exact Hdom|].
    destruct (level_thm T to_rec from_rec dom_rec H_dom cv _ Hdom) as [p' [a' [Hto _]]].
    exists p'. split; [exact Hto|]. split; [intros Hl pf Hm; eapply reser_fields; eassumption|].
    pose proof Hto as Hto'. unfold to_level in Hto'.
    destruct (mapM (eval_stmt T to_rec mt (VRec (cv_cls cv) fs)) (cv_to cv)) as [ows|] eqn:Em; cbn in Hto'; [|discriminate].
    inversion Hto'; subst p'. pose proof (mapM_ok _ _ _ Em) as F. split.
    - intros pf Hm. eapply out_fields_mat; eassumption.
    - intros Hl. eapply out_fields_lossy; eassumption.
  Qed.
End PLevelProofs.

(* ---------- from fields to paths ---------- *)
Lemma field_same_pread : forall T cn cv p p', assoc cn (t_convs T) = Some cv ->
  (forall pf, modelled_field cv pf = true -> field_same T cv pf p p') ->
  forall phi, modelled_path T cn phi = true -> pread_at p' phi = pread_at p phi.
Proof.
  intros T cn cv p p' Hc H phi Hm. destruct phi as [|f rest]; [discriminate|].
  cbn [modelled_path] in Hm. rewrite Hc in Hm. destruct rest as [|g rest].
  - specialize (H f Hm). unfold field_same in H. rewrite !pread_at_one.
    destruct (assoc f p) as [v|]; [|rewrite H; reflexivity].
    destruct v; try (rewrite H; reflexivity). destruct H as [sub' [H _]]. rewrite H. reflexivity.
  - destruct (sub_conv cv f) as [c|] eqn:Es; [|discriminate].
    assert (Hmf : modelled_field cv f = true).
    { unfold sub_conv in Es. destruct (find (reads f) (cv_from cv)) as [fa|] eqn:Ef; [|discriminate].
      apply find_some in Ef. destruct Ef as [Hin Hr]. unfold modelled_field. apply orb_true_iff. left.
      apply existsb_exists. eauto. }
    specialize (H f Hmf). unfold field_same in H. rewrite !pread_at_cons.
    destruct (assoc f p) as [v|]; [|rewrite H; reflexivity].
    destruct v; try (rewrite H; reflexivity). destruct H as [sub' [H Hs]]. rewrite H.
    apply (Hs c Es). exact Hm.
Qed.

Lemma table_ok_conv : forall T cn cv, table_ok T = true -> assoc cn (t_convs T) = Some cv -> conv_ok T cv = true.
Proof.
  intros T cn cv H Hc. unfold table_ok in H. rewrite forallb_forall in H.
  apply (H (cn, cv)). apply assoc_in. exact Hc.
Qed.

Lemma pread_at_nil : forall phi, pread_at [] phi = None.
Proof. destruct phi as [|f [|g r]]; reflexivity. Qed.

Lemma field_mat_path : forall T cn cv p p', assoc cn (t_convs T) = Some cv ->
  (forall pf, modelled_field cv pf = true -> field_mat T cv pf p p') ->
  forall phi, modelled_path T cn phi = true -> path_same_or_mat T (cv_msg cv) p' p phi.
Proof.
  intros T cn cv p p' Hc H phi Hm. destruct phi as [|f rest]; [discriminate|].
  cbn [modelled_path] in Hm. rewrite Hc in Hm. destruct rest as [|g rest].
  - specialize (H f Hm). unfold field_mat in H. unfold path_same_or_mat. rewrite !pread_at_one.
    cbn [path_default].
    destruct (assoc f p) as [v|].
    + left. destruct v; try (rewrite H; reflexivity). destruct H as [sub' [_ [H _]]]. rewrite H. reflexivity.
    + destruct H as [H|[[t [Hf H]]|[m [sub0 [c [Hf [_ [_ [H _]]]]]]]]].
      * left. rewrite H. reflexivity.
      * right. rewrite H, Hf. split; [reflexivity|]. split; [destruct t; reflexivity|discriminate].
      * right. rewrite H, Hf. split; [reflexivity|]. split; [reflexivity|discriminate].
  - destruct (sub_conv cv f) as [c|] eqn:Es; [|discriminate].
    assert (Hmf : modelled_field cv f = true).
    { unfold sub_conv in Es. destruct (find (reads f) (cv_from cv)) as [fa|] eqn:Ef; [|discriminate].
      apply find_some in Ef. destruct Ef as [Hin Hr]. unfold modelled_field. apply orb_true_iff. left.
      apply existsb_exists. eauto. }
    specialize (H f Hmf). unfold field_mat in H. unfold path_same_or_mat. rewrite !pread_at_cons.
    destruct (assoc f p) as [v|].
    + destruct v; try (left; rewrite H; reflexivity).
      destruct H as [sub' [Hf [H Hs]]]. rewrite H. destruct (Hs c Es) as [Hmo Hs'].
      destruct (Hs' _ Hm) as [E|[E1 [E2 E3]]]; [left; exact E|].
      right. split; [exact E1|]. cbn [path_default]. rewrite Hf. split; assumption.
    + destruct H as [H|[[t [Hf H]]|[m [sub0 [c' [Hf [Hsc [Hmo [H Hs]]]]]]]]].
      * left. rewrite H. reflexivity.
      * left. rewrite H. destruct t; reflexivity.
      * rewrite H. assert (c' = c) by congruence. subst c'.
        destruct (Hs _ Hm) as [E|[E1 [E2 E3]]].
        -- left. rewrite E. apply pread_at_nil.
        -- right. split; [reflexivity|]. cbn [path_default]. rewrite Hf. split; assumption.
Qed.

Lemma field_lossy_path : forall T cn cv p p', assoc cn (t_convs T) = Some cv ->
  field_lossy T cv p p' ->
  exists phi, modelled_path T cn phi = true /\ pread_at p phi = None /\ pread_at p' phi <> None.
Proof.
  intros T cn cv p p' Hc [pf [Hm [[H1 H2]|[m [sub [sub' [c [phi [H1 [H2 [H3 [H4 [H5 H6]]]]]]]]]]]]].
  - exists [pf]. split; [|split].
    + cbn [modelled_path]. rewrite Hc. exact Hm.
    + rewrite pread_at_one, H1. reflexivity.
    + rewrite pread_at_one. destruct (assoc pf p') as [v|]; [|contradiction]. destruct v; discriminate.
  - destruct phi as [|g r]; [discriminate|]. exists (pf :: g :: r). split; [|split].
    + cbn [modelled_path]. rewrite Hc, H3. exact H4.
    + rewrite pread_at_cons, H1. exact H5.
    + rewrite pread_at_cons, H2. exact H6.
Qed.

(* ---------- all nesting depths ---------- *)
Theorem payload_main : forall T, table_ok T = true -> forall n cn p,
  wf_payload n T cn p = true -> gap_payload n T cn p = false ->
  exists y, rspec T (to_proto_f n T) (from_proto_f n T) (in_domain_f n T) (lossy_payload n T) cn p y.
Proof.
  intros T Hok. induction n as [|n IH]; intros cn p Hwf Hgap; [discriminate|].
  cbn [wf_payload gap_payload] in Hwf, Hgap.
  destruct (assoc cn (t_convs T)) as [cv|] eqn:Hc; [|discriminate].
  destruct (level_payload T (to_proto_f n T) (from_proto_f n T) (in_domain_f n T)
              (wf_payload n T) (lossy_payload n T) (gap_payload n T) IH
              (set_fields_preserved_thm T n) cv p (table_ok_conv _ _ _ Hok Hc) Hwf Hgap)
    as [fs [Hfrom [Hdom [p' [Hto [Hsame [Hmat Hloss]]]]]]].
  exists (VRec (cv_cls cv) fs). unfold rspec.
  cbn [from_proto_f to_proto_f in_domain_f lossy_payload]. rewrite Hc.
  split; [exact Hfrom|]. split; [exact Hdom|]. split.
  - exists fs. unfold cls_of. rewrite Hc. reflexivity.
  - exists p'. split; [exact Hto|]. split; [|split].
    + intros Hl. eapply field_same_pread; [exact Hc|]. exact (Hsame Hl).
    + unfold msg_of. rewrite Hc. eapply field_mat_path; [exact Hc|exact Hmat].
    + intros Hl. eapply field_lossy_path; [exact Hc|exact (Hloss Hl)].
Qed.

Lemma gap_implies_lossy : forall T n cn p, gap_payload n T cn p = true -> lossy_payload n T cn p = true.
Proof.
  intros T. induction n as [|n IH]; intros cn p H; [discriminate|].
  cbn [gap_payload lossy_payload] in *. destruct (assoc cn (t_convs T)) as [cv|]; [|discriminate].
  unfold gap_level in H. unfold lossy_level. apply existsb_exists in H. destruct H as [fa [Hin H]].
  apply existsb_exists. exists fa. split; [assumption|].
  unfold gap_farg in H. unfold lossy_farg.
  destruct (fa_expr fa) as [pf|pf hf|pf cf|pf lf|c pf|c pf hf| |]; try discriminate.
  - destruct (assoc pf p); [discriminate|]. apply andb_true_iff in H. destruct H as [H _]. exact H.
  - destruct (assoc pf p); [|reflexivity]. apply IH. exact H.
  - destruct (assoc pf p); [|discriminate]. apply IH. exact H.
Qed.

Lemma not_lossy_not_gap : forall T n cn p, lossy_payload n T cn p = false -> gap_payload n T cn p = false.
Proof.
  intros T n cn p H. destruct (gap_payload n T cn p) eqn:E; [|reflexivity].
  apply gap_implies_lossy in E. congruence.
Qed.

(* every well-formed received payload (outside the gap class) parses into the computed domain *)
Theorem wf_payload_in_domain_thm : forall T, table_ok T = true -> forall n cn p,
  wf_payload n T cn p = true -> gap_payload n T cn p = false ->
  exists a, from_proto_f n T cn p = Ok a /\ in_domain_f n T cn a = true.
Proof.
  intros T Hok n cn p Hwf Hgap. destruct (payload_main T Hok n cn p Hwf Hgap) as [y [H1 [H2 _]]]. eauto.
Qed.

(* the FULL re-serialisation statement: equality of every modelled proto field path, presence
   included, for every well-formed payload outside the lossy class *)
Theorem reserialise_full_thm : forall T, table_ok T = true -> forall n cn p,
  wf_payload n T cn p = true -> lossy_payload n T cn p = false ->
  exists a p', from_proto_f n T cn p = Ok a /\ to_proto_f n T cn a = Ok p' /\
    forall phi, modelled_path T cn phi = true -> pread_at p' phi = pread_at p phi.
Proof.
  intros T Hok n cn p Hwf Hl.
  destruct (payload_main T Hok n cn p Hwf (not_lossy_not_gap _ _ _ _ Hl)) as [y [H1 [_ [_ [p' [H3 [H4 _]]]]]]].
  exists y, p'. auto.
Qed.

(* a well-formed payload outside the gap class also re-serialises without raising *)
Theorem reserialise_total_thm : forall T, table_ok T = true -> forall n cn p,
  wf_payload n T cn p = true -> gap_payload n T cn p = false ->
  exists a p', from_proto_f n T cn p = Ok a /\ in_domain_f n T cn a = true /\ to_proto_f n T cn a = Ok p'.
Proof.
  intros T Hok n cn p Hwf Hgap.
  destruct (payload_main T Hok n cn p Hwf Hgap) as [y [H1 [H2 [_ [p' [H3 _]]]]]]. exists y, p'. auto.
Qed.

(* without any condition on presence: re-serialisation only ever MATERIALISES — every modelled
   path reads the same as in the received payload, or it was absent and now reads its proto
   default (a sub-message: present); nothing present is dropped or altered *)
Theorem reserialise_materialises_only_thm : forall T, table_ok T = true -> forall n cn p,
  wf_payload n T cn p = true -> gap_payload n T cn p = false ->
  exists a p', from_proto_f n T cn p = Ok a /\ to_proto_f n T cn a = Ok p' /\
    forall phi, modelled_path T cn phi = true -> path_same_or_mat T (msg_of T cn) p' p phi.
Proof.
  intros T Hok n cn p Hwf Hgap.
  destruct (payload_main T Hok n cn p Hwf Hgap) as [y [H1 [_ [_ [p' [H3 [_ [H4 _]]]]]]]].
  exists y, p'. auto.
Qed.

(* the lossy class is exact: such a payload does change on a modelled path *)
Theorem lossy_exact_thm : forall T, table_ok T = true -> forall n cn p,
  wf_payload n T cn p = true -> gap_payload n T cn p = false -> lossy_payload n T cn p = true ->
  exists a p' phi, from_proto_f n T cn p = Ok a /\ to_proto_f n T cn a = Ok p' /\
    modelled_path T cn phi = true /\ pread_at p phi = None /\ pread_at p' phi <> None.
Proof.
  intros T Hok n cn p Hwf Hgap Hl.
  destruct (payload_main T Hok n cn p Hwf Hgap) as [y [H1 [_ [_ [p' [H3 [_ [_ H4]]]]]]]].
  destruct (H4 Hl) as [phi [A [B C]]]. exists y, p', phi. auto.
Qed.
