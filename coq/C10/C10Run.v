(* Glue between the sx line format and the C10 model instantiated with the GENERATED table
   (unverified, trusted, small).
   val:  (0) None | (1 B utf8) str | (2 sign B big-endian-abs) int | (3 b) bool | (4 B) bytes
         | (5 B 8-bytes-big-endian) float   (numbers travel as bytes: the driver's N is an OCaml int)
         | (6 (v ...)) list | (7 B class ((B field v) ...)) record
   res:  (0 x) Ok | (1 code) Err                                                              *)
From Coq Require Import Ascii.
From YV Require Import Common.Tac Common.Sx C10.C10Model C10.C10Payload C10.C10Edit Gen.C10Table.

Definition str_of_bytes (l : list N) : name :=
  fold_right (fun n s => NC (ascii_of_N n) s) NE l.
Fixpoint bytes_of_str (s : name) : list N :=
  match s with NE => [] | NC c r => N_of_ascii c :: bytes_of_str r end.

Definition N_of_be (l : list N) : N := fold_left (fun acc b => acc * 256 + b)%N l 0%N.
Fixpoint be_of_N (len : nat) (n : N) (acc : list N) : list N :=
  match len with O => acc | S k => be_of_N k (n / 256)%N ((n mod 256)%N :: acc) end.

Fixpoint val_of_sx (s : sx) : val :=
  match s with
  | SL (SN tag :: rest) =>
    match tag, rest with
    | 1%N, [SB b] => VStr b
    | 2%N, [SN sg; SB m] => VInt (if (sg =? 0)%N then Z.of_N (N_of_be m) else (- Z.of_N (N_of_be m))%Z)
    | 3%N, [SN b] => VBool (negb (b =? 0)%N)
    | 4%N, [SB b] => VBytes b
    | 5%N, [SB bits] => VFlt (N_of_be bits)
    | 6%N, [SL items] => VList (map val_of_sx items)
    | 7%N, [SB c; SL fs] =>
      VRec (str_of_bytes c)
           (map (fun f => match f with
                          | SL [SB k; v] => (str_of_bytes k, val_of_sx v)
                          | _ => (NE, VNone)
                          end) fs)
    | _, _ => VNone
    end
  | _ => VNone
  end.

Fixpoint sx_of_val (v : val) : sx :=
  match v with
  | VNone => SL [SN 0]
  | VStr s => SL [SN 1; SB s]
  | VInt z => SL [SN 2; SN (if (z <? 0)%Z then 1 else 0); SB (be_of_N 16 (Z.abs_N z) [])]
  | VBool b => SL [SN 3; sx_bool b]
  | VBytes b => SL [SN 4; SB b]
  | VFlt bits => SL [SN 5; SB (be_of_N 8 bits [])]
  | VList l => SL [SN 6; SL (map sx_of_val l)]
  | VRec c fs => SL [SN 7; SB (bytes_of_str c);
                     SL (map (fun kv => SL [SB (bytes_of_str (fst kv)); sx_of_val (snd kv)]) fs)]
  end.

Definition sx_of_res {A} (f : A -> sx) (r : res A) : sx :=
  match r with Ok a => SL [SN 0; f a] | Err c => SL [SN 1; SN c] end.

Definition sx_of_pmsg (p : pmsg) : sx :=
  SL (map (fun kv => SL [SB (bytes_of_str (fst kv)); sx_of_val (snd kv)]) p).
Definition pmsg_of_sx (s : sx) : pmsg := sub_fields (val_of_sx (SL [SN 7; SB []; s])).

Definition fuel : nat := 64.
Definition conv_arg (arg : sx) : name := str_of_bytes (sx_get_b (sx_nth arg 0)).

(* (B conv  val) -> res pmsg *)
Definition run_to (arg : sx) : sx :=
  sx_of_res sx_of_pmsg (to_proto_f fuel table (conv_arg arg) (val_of_sx (sx_nth arg 1))).

(* (B conv  ((B field val) ...)) -> res val *)
Definition run_from (arg : sx) : sx :=
  sx_of_res sx_of_val (from_proto_f fuel table (conv_arg arg) (pmsg_of_sx (sx_nth arg 1))).

(* (B conv  val) -> res val *)
Definition run_rt (arg : sx) : sx :=
  sx_of_res sx_of_val (roundtrip_f fuel table (conv_arg arg) (val_of_sx (sx_nth arg 1))).

(* (B conv  val) -> bool : the computed domain *)
Definition run_dom (arg : sx) : sx :=
  sx_bool (in_domain_f fuel table (conv_arg arg) (val_of_sx (sx_nth arg 1))).

(* (B conv  pmsg) -> res pmsg : parse-then-reserialise *)
Definition run_reser (arg : sx) : sx :=
  sx_of_res sx_of_pmsg
    (bind (from_proto_f fuel table (conv_arg arg) (pmsg_of_sx (sx_nth arg 1)))
          (to_proto_f fuel table (conv_arg arg))).

(* ---------- received payloads (C10Payload) ---------- *)
(* (B conv  pmsg) -> (wf lossy gap) *)
Definition run_classify (arg : sx) : sx :=
  let cn := conv_arg arg in
  let p := pmsg_of_sx (sx_nth arg 1) in
  SL [sx_bool (wf_payload fuel table cn p); sx_bool (lossy_payload fuel table cn p);
      sx_bool (gap_payload fuel table cn p)].

(* (B conv) -> ((B field  B sub-converter-or-empty) ...) : the modelled fields of a converter *)
Definition run_modelled (arg : sx) : sx :=
  match assoc (conv_arg arg) (t_convs table) with
  | None => SL []
  | Some cv =>
    SL (map (fun f => SL [SB (bytes_of_str f);
                          SB (match sub_conv cv f with Some c => bytes_of_str c | None => [] end)])
            (modelled_fields cv))
  end.

(* (B conv  pmsg  ((B f ...) ...)) -> ((modelled  () | (val)) ...) : presence-aware reads *)
Definition run_pread (arg : sx) : sx :=
  let cn := conv_arg arg in
  let p := pmsg_of_sx (sx_nth arg 1) in
  SL (map (fun ph =>
             let phi := map (fun s => str_of_bytes (sx_get_b s)) (sx_get_l ph) in
             SL [sx_bool (modelled_path table cn phi);
                 match pread_at p phi with Some v => SL [sx_of_val v] | None => SL [] end])
          (sx_get_l (sx_nth arg 2))).

(* the check the payload theorems are instantiated under *)
Definition run_table_ok (arg : sx) : sx := sx_bool (table_ok table).

(* ---------- edit after parse (C10Edit) ---------- *)
(* (B conv  val  (((B f ...) val) ...)) -> (edited-object  in-domain  res-roundtrip) :
   the assignments applied in order with set_path, then the model's round trip of the result *)
Definition run_edit (arg : sx) : sx :=
  let cn := conv_arg arg in
  let a := val_of_sx (sx_nth arg 1) in
  let edits := map (fun e => (map (fun s => str_of_bytes (sx_get_b s)) (sx_get_l (sx_nth e 0)),
                              val_of_sx (sx_nth e 1))) (sx_get_l (sx_nth arg 2)) in
  let a' := set_paths edits a in
  SL [sx_of_val a'; sx_bool (in_domain_f fuel table cn a'); sx_of_res sx_of_val (roundtrip_f fuel table cn a')].
