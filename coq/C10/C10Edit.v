(* C10 — editing an attribute object (assignment through a property setter) in the model.
   Definitions only (extracted).  An attribute object of the model IS its value (class name + field
   list, first-match lookup): there is no place where state outside the fields could live.
     get_path phi a      : a.f1.f2...fk
     set_path phi v a    : the object after  a.f1.f2...fk = v   (nothing else changes)
     diverges phi psi    : the two paths part ways before either ends (neither is a prefix)     *)
From Coq Require Import Ascii.
From YV Require Import Common.Tac C10.C10Model.

Fixpoint set_assoc (k : name) (v : val) (l : list (name * val)) : list (name * val) :=
  match l with
  | [] => []
  | (k', x) :: r => if name_eqb k' k then (k', v) :: r else (k', x) :: set_assoc k v r
  end.

Fixpoint get_path (phi : list name) (a : val) : option val :=
  match phi with
  | [] => Some a
  | f :: rest => match vget a f with Some x => get_path rest x | None => None end
  end.

Fixpoint set_path (phi : list name) (v : val) (a : val) : val :=
  match phi with
  | [] => v
  | f :: rest =>
    match a with
    | VRec c fs =>
      match assoc f fs with
      | Some x => VRec c (set_assoc f (set_path rest v x) fs)
      | None => a
      end
    | _ => a
    end
  end.

Fixpoint diverges (phi psi : list name) : bool :=
  match phi, psi with
  | f :: r, g :: s => if name_eqb f g then diverges r s else true
  | _, _ => false
  end.

(* a sequence of assignments, in order *)
Definition set_paths (edits : list (list name * val)) (a : val) : val :=
  fold_left (fun acc e => set_path (fst e) (snd e) acc) edits a.
