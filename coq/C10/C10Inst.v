(* C10 instantiation for the GENERATED table: the reserialisation corollary, non-vacuity probes
   (coq/Gen/C10Probes.v, written by the check from the pinned baseline structure) and the
   witnesses of the three defects of the unrepaired converter (fixes/C10-*.patch). *)
From YV Require Import Common.Tac C10.C10Model C10.C10Proofs Gen.C10Table Gen.C10Probes.

(* A payload received from a peer: parse it, re-serialise what was parsed.  If the parsed object
   is in the computed domain, re-serialisation does not raise and parsing the re-serialised
   payload shows every field of the library's model with the same value. *)
Theorem reserialise_thm : forall T n cn p a,
  from_proto_f n T cn p = Ok a -> in_domain_f n T cn a = true ->
  exists p' a', to_proto_f n T cn a = Ok p' /\ from_proto_f n T cn p' = Ok a' /\ covers a a'.
Proof. intros T n cn p a _ H. apply set_fields_preserved_thm. exact H. Qed.

Definition probe_ok (pr : name * val) : bool := in_domain_f 64 table (fst pr) (snd pr).
Definition payload_ok (pr : name * pmsg) : bool :=
  match from_proto_f 64 table (fst pr) (snd pr) with
  | Ok a => in_domain_f 64 table (fst pr) a
  | Err _ => false
  end.

(* non-vacuity + regression: reviewed objects (incl. conversation = "", a location carrying a
   sender-key distribution message, an audio message with a streaming sidecar, quoted messages
   nested three deep) are inside the domain computed from the current source *)
Theorem probes_in_domain_thm : forallb probe_ok probes = true.
Proof. vm_compute. reflexivity. Qed.

Theorem payloads_in_domain_thm : forallb payload_ok payloads = true.
Proof. vm_compute. reflexivity. Qed.

(* ---------- the unrepaired converter (kept so the regression is recognised) ---------- *)
Open Scope name_scope.
Definition legacy : C10Model.table := {| t_schema := schema; t_convs := [
  ("message", {| cv_cls := "MessageAttributes"; cv_msg := "Message";
     cv_to := [ {| ts_guard := GTruthy; ts_pf := "conversation"; ts_src := "conversation"; ts_kind := KAssign |} ];
     cv_from := [ {| fa_field := "conversation"; fa_expr := FIfTruthy "conversation" "conversation";
                     fa_store := SPlain; fa_ck := CkNone |} ] |});
  ("location", {| cv_cls := "LocationAttributes"; cv_msg := "Message.LocationMessage";
     cv_to := [ {| ts_guard := GNotNone; ts_pf := "_axolotl_sender_key_distribution_message";
                   ts_src := "axolotl_sender_key_distribution_message"; ts_kind := KAssign |} ];
     cv_from := [ {| fa_field := "axolotl_sender_key_distribution_message";
                     fa_expr := FIfHas "axolotl_sender_key_distribution_message" "axolotl_sender_key_distribution_message";
                     fa_store := SPlain; fa_ck := CkNone |} ] |});
  ("audio", {| cv_cls := "AudioAttributes"; cv_msg := "Message.AudioMessage";
     cv_to := [];
     cv_from := [ {| fa_field := "streaming_sidecar"; fa_expr := FOmitted; fa_store := SPlain; fa_ck := CkNone |} ] |})
  ] |}.

(* truthiness guard: a set, empty conversation comes back None *)
Lemma empty_conversation_refuted :
  roundtrip_f 2 legacy "message" (VRec "MessageAttributes" [("conversation", VStr [])])
  = Ok (VRec "MessageAttributes" [("conversation", VNone)])
  /\ in_domain_f 2 legacy "message" (VRec "MessageAttributes" [("conversation", VStr [])]) = false.
Proof. split; vm_compute; reflexivity. Qed.

(* misspelt proto field: AttributeError *)
Lemma location_sender_key_refuted :
  to_proto_f 2 legacy "location"
    (VRec "LocationAttributes" [("axolotl_sender_key_distribution_message", VBytes [1%N])]) = Err 1
  /\ in_domain_f 2 legacy "location"
    (VRec "LocationAttributes" [("axolotl_sender_key_distribution_message", VBytes [1%N])]) = false.
Proof. split; vm_compute; reflexivity. Qed.

(* attribute never mapped: dropped *)
Lemma audio_sidecar_refuted :
  roundtrip_f 2 legacy "audio" (VRec "AudioAttributes" [("streaming_sidecar", VBytes [1%N])])
  = Ok (VRec "AudioAttributes" [("streaming_sidecar", VNone)])
  /\ in_domain_f 2 legacy "audio" (VRec "AudioAttributes" [("streaming_sidecar", VBytes [1%N])]) = false.
Proof. split; vm_compute; reflexivity. Qed.

(* ====================== received payloads (C10Payload / C10PayloadProofs) ====================== *)
From YV Require Import C10.C10Payload C10.C10PayloadProofs.

(* the table generated from the CURRENT source passes the computed check of the payload theorems *)
Theorem table_ok_thm : table_ok table = true.
Proof. vm_compute. reflexivity. Qed.

Theorem wf_payload_in_domain_table_thm : forall n cn p,
  wf_payload n table cn p = true -> gap_payload n table cn p = false ->
  exists a, from_proto_f n table cn p = Ok a /\ in_domain_f n table cn a = true.
Proof. exact (wf_payload_in_domain_thm table table_ok_thm). Qed.

Theorem reserialise_full_table_thm : forall n cn p,
  wf_payload n table cn p = true -> lossy_payload n table cn p = false ->
  exists a p', from_proto_f n table cn p = Ok a /\ to_proto_f n table cn a = Ok p' /\
    forall phi, modelled_path table cn phi = true -> pread_at p' phi = pread_at p phi.
Proof. exact (reserialise_full_thm table table_ok_thm). Qed.

(* ---------- non-vacuity: a nested received payload meeting the hypotheses ---------- *)
(* Message{ extended_text_message{ text "hi", context_info{ stanza_id "s1", participant "p",
     mentioned_jid ["a";"b"], quoted_message{ extended_text_message{ text "in",
       context_info{ stanza_id "s0", quoted_message{ conversation "deep" } } } } } },
     location_message{ degrees_latitude 0.0 (present, default value), name "" (present, empty) } } *)
Definition ex_nested : pmsg := [
  ("extended_text_message", VRec "Message.ExtendedTextMessage" [
     ("text", VStr [104%N; 105%N]);
     ("context_info", VRec "ContextInfo" [
        ("stanza_id", VStr [115%N; 49%N]);
        ("participant", VStr [112%N]);
        ("mentioned_jid", VList [VStr [97%N]; VStr [98%N]]);
        ("quoted_message", VRec "Message" [
           ("extended_text_message", VRec "Message.ExtendedTextMessage" [
              ("text", VStr [105%N; 110%N]);
              ("context_info", VRec "ContextInfo" [
                 ("stanza_id", VStr [115%N; 48%N]);
                 ("quoted_message", VRec "Message" [
                    ("conversation", VStr [100%N; 101%N; 101%N; 112%N])])])])])])]);
  ("location_message", VRec "Message.LocationMessage" [
     ("degrees_latitude", VFlt 0%N);
     ("name", VStr [])])
].

Definition deep_path : path :=
  ["extended_text_message"; "context_info"; "quoted_message"; "extended_text_message"; "context_info";
   "quoted_message"; "conversation"].

Example nested_payload_meets_hypotheses :
  wf_payload 8 table "message" ex_nested = true
  /\ lossy_payload 8 table "message" ex_nested = false
  /\ modelled_path table "message" deep_path = true
  /\ pread_at ex_nested deep_path = Some (VStr [100%N; 101%N; 101%N; 112%N])
  /\ modelled_path table "message" ["location_message"; "name"] = true
  /\ pread_at ex_nested ["location_message"; "name"] = Some (VStr [])
  /\ pread_at ex_nested ["location_message"; "address"] = None.
Proof. repeat split; vm_compute; reflexivity. Qed.

(* ... and the conclusion computed on it: the nested conversation, the present empty name and the
   present 0.0 latitude are still there, the absent address is still absent *)
Example nested_payload_reserialised :
  exists p', reserialise_f 8 table "message" ex_nested = Ok p'
    /\ pread_at p' deep_path = Some (VStr [100%N; 101%N; 101%N; 112%N])
    /\ pread_at p' ["location_message"; "name"] = Some (VStr [])
    /\ pread_at p' ["location_message"; "degrees_latitude"] = Some (VFlt 0%N)
    /\ pread_at p' ["location_message"; "address"] = None.
Proof. eexists. repeat split; vm_compute; reflexivity. Qed.

(* no depth bound: a quote chain of ANY depth d (message -> extended text -> context info ->
   quoted message -> ...) is well-formed and outside the lossy class, hence covered by the full
   statement; three fuel units per quote level *)
Fixpoint quote_chain (d : nat) : pmsg :=
  match d with
  | O => [("conversation", VStr [100%N])]
  | S d' => [("extended_text_message", VRec "Message.ExtendedTextMessage" [
               ("text", VStr [116%N]);
               ("context_info", VRec "ContextInfo" [
                  ("stanza_id", VStr [115%N]);
                  ("quoted_message", VRec "Message" (quote_chain d'))])])]
  end.
Fixpoint fuel3 (d : nat) : nat := match d with O => 1%nat | S d' => S (S (S (fuel3 d'))) end.

Ltac step_with H :=
  cbn [wf_payload lossy_payload];
  match goal with
  | |- context [wf_level _ (wf_payload ?n table)] => set (W := wf_payload n table) in *; clearbody W
  | |- context [lossy_level _ (lossy_payload ?n table)] => set (W := lossy_payload n table) in *; clearbody W
  end;
  vm_compute; rewrite H; reflexivity.

Lemma wf_step_m : forall n sub, wf_payload n table "extendedtext" sub = true ->
  wf_payload (S n) table "message" [("extended_text_message", VRec "Message.ExtendedTextMessage" sub)] = true.
Proof. intros n sub H. step_with H. Qed.
Lemma wf_step_e : forall n sub, wf_payload n table "contextinfo" sub = true ->
  wf_payload (S n) table "extendedtext" [("text", VStr [116%N]); ("context_info", VRec "ContextInfo" sub)] = true.
Proof. intros n sub H. step_with H. Qed.
Lemma wf_step_c : forall n sub, wf_payload n table "message" sub = true ->
  wf_payload (S n) table "contextinfo" [("stanza_id", VStr [115%N]); ("quoted_message", VRec "Message" sub)] = true.
Proof. intros n sub H. step_with H. Qed.
Lemma lossy_step_m : forall n sub, lossy_payload n table "extendedtext" sub = false ->
  lossy_payload (S n) table "message" [("extended_text_message", VRec "Message.ExtendedTextMessage" sub)] = false.
Proof. intros n sub H. step_with H. Qed.
Lemma lossy_step_e : forall n sub, lossy_payload n table "contextinfo" sub = false ->
  lossy_payload (S n) table "extendedtext" [("text", VStr [116%N]); ("context_info", VRec "ContextInfo" sub)] = false.
Proof. intros n sub H. step_with H. Qed.
Lemma lossy_step_c : forall n sub, lossy_payload n table "message" sub = false ->
  lossy_payload (S n) table "contextinfo" [("stanza_id", VStr [115%N]); ("quoted_message", VRec "Message" sub)] = false.
Proof. intros n sub H. step_with H. Qed.

Lemma quote_chain_meets_hypotheses : forall d,
  wf_payload (fuel3 d) table "message" (quote_chain d) = true
  /\ lossy_payload (fuel3 d) table "message" (quote_chain d) = false.
Proof.
  induction d as [|d [IH1 IH2]].
  - split; vm_compute; reflexivity.
  - cbn [fuel3 quote_chain]. split.
    + apply wf_step_m, wf_step_e, wf_step_c. exact IH1.
    + apply lossy_step_m, lossy_step_e, lossy_step_c. exact IH2.
Qed.

Theorem quote_chain_reserialises_thm : forall d,
  exists a p', from_proto_f (fuel3 d) table "message" (quote_chain d) = Ok a
    /\ to_proto_f (fuel3 d) table "message" a = Ok p'
    /\ forall phi, modelled_path table "message" phi = true -> pread_at p' phi = pread_at (quote_chain d) phi.
Proof.
  intro d. destruct (quote_chain_meets_hypotheses d) as [H1 H2].
  exact (reserialise_full_table_thm _ _ _ H1 H2).
Qed.

(* ---------- the lossy classes of the current source, with witnesses ---------- *)
(* class 1: an absent scalar that the from-side reads without HasField (video: every field) comes
   back present with its default *)
Definition wit_absent_scalar : pmsg :=
  [("video_message", VRec "Message.VideoMessage" [("url", VStr [117%N])])].

Lemma reserialise_absent_scalar_refuted :
  exists p p', wf_payload 8 table "message" p = true
    /\ lossy_payload 8 table "message" p = true
    /\ reserialise_f 8 table "message" p = Ok p'
    /\ modelled_path table "message" ["video_message"; "caption"] = true
    /\ pread_at p ["video_message"; "caption"] = None
    /\ pread_at p' ["video_message"; "caption"] = Some (VStr []).
Proof. exists wit_absent_scalar. eexists. repeat split; vm_compute; reflexivity. Qed.

(* class 2: an absent sub-message that is parsed unconditionally (protocol_message.key) comes back
   present and filled with defaults *)
Definition wit_absent_submessage : pmsg :=
  [("protocol_message", VRec "Message.ProtocolMessage" [("type", VInt 0)])].

Lemma reserialise_absent_submessage_refuted :
  exists p p', wf_payload 8 table "message" p = true
    /\ lossy_payload 8 table "message" p = true
    /\ reserialise_f 8 table "message" p = Ok p'
    /\ modelled_path table "message" ["protocol_message"; "key"] = true
    /\ pread_at p ["protocol_message"; "key"] = None
    /\ pread_at p' ["protocol_message"; "key"] = Some (VRec "MessageKey" [])
    /\ pread_at p' ["protocol_message"; "key"; "id"] = Some (VStr []).
Proof. exists wit_absent_submessage. eexists. repeat split; vm_compute; reflexivity. Qed.

(* the gap class: DocumentMessage without file_length parses to an object OUTSIDE the computed
   domain (file_length is read once with and once without HasField); it still re-serialises, with
   file_length = 0 materialised *)
Definition wit_gap : pmsg :=
  [("document_message", VRec "Message.DocumentMessage" [("url", VStr [117%N])])].

Lemma payload_domain_gap_refuted :
  exists p a p', wf_payload 8 table "message" p = true
    /\ gap_payload 8 table "message" p = true
    /\ from_proto_f 8 table "message" p = Ok a
    /\ in_domain_f 8 table "message" a = false
    /\ to_proto_f 8 table "message" a = Ok p'
    /\ pread_at p ["document_message"; "file_length"] = None
    /\ pread_at p' ["document_message"; "file_length"] = Some (VInt 0).
Proof. exists wit_gap. eexists. eexists. repeat split; vm_compute; reflexivity. Qed.

(* the unrepaired converter at proto level: a PRESENT empty conversation is dropped *)
Lemma legacy_present_empty_conversation_refuted :
  exists p p', reserialise_f 2 legacy "message" p = Ok p'
    /\ pread_at p ["conversation"] = Some (VStr []) /\ pread_at p' ["conversation"] = None
    /\ table_ok legacy = false.
Proof. exists [("conversation", VStr [])]. eexists. repeat split; vm_compute; reflexivity. Qed.

(* ---------- the same three classes on a PINNED excerpt of the converter as it is today ----------
   (survives a repair of the source: when proto_to_video & co. learn HasField, the witnesses above,
   which speak about the GENERATED table, have to go; these stay as the regression guard) *)
Definition mk_st (g : guard) (pf src : name) (k : tkind) : tstmt :=
  {| ts_guard := g; ts_pf := pf; ts_src := src; ts_kind := k |}.
Definition mk_fa (f : name) (e : fexpr) (s : store) (c : ck) : farg :=
  {| fa_field := f; fa_expr := e; fa_store := s; fa_ck := c |}.

Definition unrepaired_payload_table : C10Model.table := {| t_schema := schema; t_convs := [
  ("message_key", {| cv_cls := "MessageKeyAttributes"; cv_msg := "MessageKey";
     cv_to := [mk_st GAlways "remote_jid" "remote_jid" KAssign; mk_st GAlways "from_me" "from_me" KAssign;
               mk_st GAlways "id" "id" KAssign; mk_st GAlways "participant" "participant" KAssign];
     cv_from := [mk_fa "remote_jid" (FField "remote_jid") SPlain CkNone; mk_fa "from_me" (FField "from_me") SPlain CkNone;
                 mk_fa "id" (FField "id") SPlain CkNone; mk_fa "participant" (FField "participant") SPlain CkNone] |});
  ("protocol", {| cv_cls := "ProtocolAttributes"; cv_msg := "Message.ProtocolMessage";
     cv_to := [mk_st GAlways "key" "key" (KMerge "message_key"); mk_st GAlways "type" "type" KAssign];
     cv_from := [mk_fa "key" (FConv "message_key" "key") SPlain (CkCls "MessageKeyAttributes");
                 mk_fa "type" (FField "type") SPlain (CkIn [0%Z])] |});
  ("video", {| cv_cls := "VideoAttributes"; cv_msg := "Message.VideoMessage";
     cv_to := [mk_st GNotNone "caption" "caption" KAssign;
               mk_st GNotNone "url" "downloadablemedia_attributes.url" KAssign];
     cv_from := [mk_fa "downloadablemedia_attributes.url" (FField "url") SPlain CkNone;
                 mk_fa "caption" (FField "caption") SPlain CkNone] |});
  ("document", {| cv_cls := "DocumentAttributes"; cv_msg := "Message.DocumentMessage";
     cv_to := [mk_st GNotNone "file_length" "file_length" KAssign;
               mk_st GAlways "file_length" "downloadablemedia_attributes.file_length" KAssign;
               mk_st GNotNone "url" "downloadablemedia_attributes.url" KAssign];
     cv_from := [mk_fa "downloadablemedia_attributes.url" (FIfHas "url" "url") SPlain CkNone;
                 mk_fa "downloadablemedia_attributes.file_length" (FField "file_length") SPlain CkNone;
                 mk_fa "file_length" (FIfHas "file_length" "file_length") SPlain CkNone] |});
  ("message", {| cv_cls := "MessageAttributes"; cv_msg := "Message";
     cv_to := [mk_st GTruthy "video_message" "video" (KMerge "video");
               mk_st GTruthy "document_message" "document" (KMerge "document");
               mk_st GTruthy "protocol_message" "protocol" (KMerge "protocol")];
     cv_from := [mk_fa "video" (FConvIfHas "video" "video_message" "video_message") SPlain CkNone;
                 mk_fa "document" (FConvIfHas "document" "document_message" "document_message") SPlain CkNone;
                 mk_fa "protocol" (FConvIfHas "protocol" "protocol_message" "protocol_message") SPlain CkNone] |})
  ] |}.

Lemma unrepaired_payload_classes :
  table_ok unrepaired_payload_table = true
  /\ (exists p', wf_payload 8 unrepaired_payload_table "message" wit_absent_scalar = true
        /\ lossy_payload 8 unrepaired_payload_table "message" wit_absent_scalar = true
        /\ reserialise_f 8 unrepaired_payload_table "message" wit_absent_scalar = Ok p'
        /\ pread_at wit_absent_scalar ["video_message"; "caption"] = None
        /\ pread_at p' ["video_message"; "caption"] = Some (VStr []))
  /\ (exists p', wf_payload 8 unrepaired_payload_table "message" wit_absent_submessage = true
        /\ lossy_payload 8 unrepaired_payload_table "message" wit_absent_submessage = true
        /\ reserialise_f 8 unrepaired_payload_table "message" wit_absent_submessage = Ok p'
        /\ pread_at wit_absent_submessage ["protocol_message"; "key"] = None
        /\ pread_at p' ["protocol_message"; "key"; "id"] = Some (VStr []))
  /\ (exists a, wf_payload 8 unrepaired_payload_table "message" wit_gap = true
        /\ gap_payload 8 unrepaired_payload_table "message" wit_gap = true
        /\ from_proto_f 8 unrepaired_payload_table "message" wit_gap = Ok a
        /\ in_domain_f 8 unrepaired_payload_table "message" a = false).
Proof.
  split; [vm_compute; reflexivity|]. split; [|split]; eexists; repeat split; vm_compute; reflexivity.
Qed.

(* ====================== edit after parse (C10Edit / C10EditProofs) ====================== *)
From YV Require Import C10.C10Edit C10.C10EditProofs.

(* non-vacuity: an object PARSED from a payload (extended text quoting a conversation, with mentions
   and a location carrying a present empty name), then edited on nested objects, is in the domain *)
Definition ex_edit_payload : pmsg := [
  ("extended_text_message", VRec "Message.ExtendedTextMessage" [
     ("text", VStr [104%N; 105%N]);
     ("context_info", VRec "ContextInfo" [
        ("stanza_id", VStr [115%N; 49%N]);
        ("mentioned_jid", VList [VStr [97%N]; VStr [98%N]]);
        ("quoted_message", VRec "Message" [("conversation", VStr [100%N; 101%N; 101%N; 112%N])])])]);
  ("location_message", VRec "Message.LocationMessage" [("degrees_latitude", VFlt 0%N); ("name", VStr [])])
].
Definition parsed_edit : val := Eval vm_compute in
  match from_proto_f 8 table "message" ex_edit_payload with Ok a => a | Err _ => VNone end.
Definition quoted_conv_path : list name := ["extended_text"; "context_info"; "quoted_message"; "conversation"].
Definition new_text : val := VStr [110%N; 101%N; 119%N].

Example edit_after_parse_meets_hypotheses :
  (get_path quoted_conv_path parsed_edit,
   in_domain_f 8 table "message"
     (set_paths [(quoted_conv_path, new_text); (["extended_text"; "context_info"; "mentioned_jid"], VList [VStr [99%N]]);
                 (["location"; "name"], VNone)] parsed_edit))
  = (Some (VStr [100%N; 101%N; 101%N; 112%N]), true).
Proof. vm_compute. reflexivity. Qed.

(* ... and the conclusion computed: the round trip of the edited object returns the NEW values and
   leaves the rest alone *)
Example edit_after_parse_roundtrip :
  match roundtrip_f 8 table "message"
          (set_paths [(quoted_conv_path, new_text);
                      (["extended_text"; "context_info"; "mentioned_jid"], VList [VStr [99%N]])] parsed_edit) with
  | Ok b => (get_path quoted_conv_path b, get_path ["extended_text"; "context_info"; "mentioned_jid"] b,
             get_path ["extended_text"; "text"] b, get_path ["location"; "name"] b)
  | Err _ => (None, None, None, None)
  end = (Some new_text, Some (VList [VStr [99%N]]), Some (VStr [104%N; 105%N]), Some (VStr [])).
Proof. vm_compute. reflexivity. Qed.

(* the level hypothesis of edit_in_domain_roundtrip_thm is satisfiable: editing the text of the
   extended text keeps that object in every sub-domain it was in (computed check, sound by
   dom_le_b_sound) *)
Definition ext_level : val := Eval vm_compute in
  match get_path ["extended_text"] parsed_edit with Some x => x | None => VNone end.

Example edit_level_hypothesis :
  dom_le 4 table ext_level (set_path ["text"] (VStr [120%N]) ext_level).
Proof. apply dom_le_b_sound. vm_compute. reflexivity. Qed.
