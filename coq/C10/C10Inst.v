(* C10 instantiation for the GENERATED table: the reserialisation corollary, non-vacuity probes
   (coq/Gen/C10Probes.v, written by the check from the pinned baseline structure) and the
   witnesses of the three defects of the unrepaired converter (fixes/C10-*.patch). *)
From YV Require Import Common.Tac C10.C10Model C10.C10Proofs Gen.C10Table Gen.C10Probes.

(* A payload received from a peer: parse it, re-serialise what was parsed.  If the parsed object
   is in the computed domain, re-serialisation does not raise and parsing the re-serialised
   payload shows every field of the library's model with the same value. *)
Theorem reserialise_thm : forall T n cn p a,
  from_proto_f n T cn p = Ok a -> in_domain_f n T cn a = true ->
  exists p' a', to_proto_f n T cn a = Ok p' /\ from_proto_f n T cn p' = Ok a' /\ covers a a'.
Proof. intros T n cn p a _ H. apply set_fields_preserved_thm. exact H. Qed.

Definition probe_ok (pr : name * val) : bool := in_domain_f 64 table (fst pr) (snd pr).
Definition payload_ok (pr : name * pmsg) : bool :=
  match from_proto_f 64 table (fst pr) (snd pr) with
  | Ok a => in_domain_f 64 table (fst pr) a
  | Err _ => false
  end.

(* non-vacuity + regression: reviewed objects (incl. conversation = "", a location carrying a
   sender-key distribution message, an audio message with a streaming sidecar, quoted messages
   nested three deep) are inside the domain computed from the current source *)
Theorem probes_in_domain_thm : forallb probe_ok probes = true.
Proof. vm_compute. reflexivity. Qed.

Theorem payloads_in_domain_thm : forallb payload_ok payloads = true.
Proof. vm_compute. reflexivity. Qed.

(* ---------- the unrepaired converter (kept so the regression is recognised) ---------- *)
Open Scope name_scope.
Definition legacy : C10Model.table := {| t_schema := schema; t_convs := [
  ("message", {| cv_cls := "MessageAttributes"; cv_msg := "Message";
     cv_to := [ {| ts_guard := GTruthy; ts_pf := "conversation"; ts_src := "conversation"; ts_kind := KAssign |} ];
     cv_from := [ {| fa_field := "conversation"; fa_expr := FIfTruthy "conversation" "conversation";
                     fa_store := SPlain; fa_ck := CkNone |} ] |});
  ("location", {| cv_cls := "LocationAttributes"; cv_msg := "Message.LocationMessage";
     cv_to := [ {| ts_guard := GNotNone; ts_pf := "_axolotl_sender_key_distribution_message";
                   ts_src := "axolotl_sender_key_distribution_message"; ts_kind := KAssign |} ];
     cv_from := [ {| fa_field := "axolotl_sender_key_distribution_message";
                     fa_expr := FIfHas "axolotl_sender_key_distribution_message" "axolotl_sender_key_distribution_message";
                     fa_store := SPlain; fa_ck := CkNone |} ] |});
  ("audio", {| cv_cls := "AudioAttributes"; cv_msg := "Message.AudioMessage";
     cv_to := [];
     cv_from := [ {| fa_field := "streaming_sidecar"; fa_expr := FOmitted; fa_store := SPlain; fa_ck := CkNone |} ] |})
  ] |}.

(* truthiness guard: a set, empty conversation comes back None *)
Lemma empty_conversation_refuted :
  roundtrip_f 2 legacy "message" (VRec "MessageAttributes" [("conversation", VStr [])])
  = Ok (VRec "MessageAttributes" [("conversation", VNone)])
  /\ in_domain_f 2 legacy "message" (VRec "MessageAttributes" [("conversation", VStr [])]) = false.
Proof. split; vm_compute; reflexivity. Qed.

(* misspelt proto field: AttributeError *)
Lemma location_sender_key_refuted :
  to_proto_f 2 legacy "location"
    (VRec "LocationAttributes" [("axolotl_sender_key_distribution_message", VBytes [1%N])]) = Err 1
  /\ in_domain_f 2 legacy "location"
    (VRec "LocationAttributes" [("axolotl_sender_key_distribution_message", VBytes [1%N])]) = false.
Proof. split; vm_compute; reflexivity. Qed.

(* attribute never mapped: dropped *)
Lemma audio_sidecar_refuted :
  roundtrip_f 2 legacy "audio" (VRec "AudioAttributes" [("streaming_sidecar", VBytes [1%N])])
  = Ok (VRec "AudioAttributes" [("streaming_sidecar", VNone)])
  /\ in_domain_f 2 legacy "audio" (VRec "AudioAttributes" [("streaming_sidecar", VBytes [1%N])]) = false.
Proof. split; vm_compute; reflexivity. Qed.
