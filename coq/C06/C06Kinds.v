(* C06 / C07 — the table of fixed-shape stanza / entity kinds the theorems quantify over.

   One row per kind of harness/c06kinds.py that has a fixed guard-relevant shape; the harness
   checks on every run that the features of the real entities / stanzas it generates for a kind
   equal the row (tag, xmlns, type, class chain, child tags, proto/mediatype, payload flags), so
   the rows are the library's kinds and not an invention of the model.  Everything a guard does
   not fix (ids, JIDs, participant, call ids, free type strings, free children) is a field,
   universally quantified in the theorems.  Kinds with a free *guard-relevant* string (unknown
   notification types, unknown xmlns, unsupported media types, unknown tags ...) are covered by
   the generic theorems instead.                                                             *)
From YV Require Import C06.C06Base C06.C06Dispatch.

Inductive answer := ANone | ANotifAck | ADelivery | ARead | ACallReceipt | ACallAck | APong.

Record kind := mkKind {
  k_name : string;
  k_send : bool;                  (* true: outgoing entity, false: incoming stanza *)
  k_module : option modflag;      (* optional module the kind belongs to *)
  k_tag : string;
  k_xmlns : ostr;
  k_type : ostr;
  k_type_free : bool;             (* type is a field (no guard reads it for this tag) *)
  k_mro : list string;
  k_children : list string;
  k_children_free : bool;         (* children are a field (no guard reads them for this tag) *)
  k_has_proto : bool;
  k_mediatype : ostr;
  k_conv : bool; k_ext : bool; k_skdm : bool;
  k_more : bool;                  (* the payload has a (known) field other than the key distribution *)
  k_up : option string;           (* recv: class that must reach the application *)
  k_answer : answer               (* recv: mandatory answer *)
}.

Record fields := mkFields {
  fd_id : ostr; fd_from : ostr; fd_to : ostr; fd_participant : ostr; fd_type : ostr;
  fd_callid : ostr; fd_children : list (string * ostr)
}.

Definition feat_of (k : kind) (d : fields) : feat :=
  mkFeat (k_tag k) (k_xmlns k) (if k_type_free k then fd_type d else k_type k)
         (fd_id d) (fd_from d) (fd_to d) (fd_participant d) (k_mro k)
         (if k_children_free k then fd_children d else map (fun t => (t, fd_callid d)) (k_children k))
         (k_has_proto k) (k_mediatype k) (k_conv k) (k_ext k) (k_skdm k) (k_more k) false.

Definition supported (c : flags) (k : kind) : bool :=
  match k_module k with None => true | Some m => flag_on c m end.

Definition expected_answer (k : kind) (d : fields) : list stanza :=
  match k_answer k with
  | ANone => []
  | ANotifAck => [SAck (fd_id d) "notification" (nz (if k_type_free k then fd_type d else k_type k))
                       (fd_from d) (nz (fd_participant d))]
  | ADelivery => [SReceipt (fd_id d) (fd_from d) (nz (fd_participant d)) None None]
  | ARead => [SReceipt (fd_id d) (fd_from d) (nz (fd_participant d)) (Some "read") None]
  | ACallReceipt => [SReceipt (fd_id d) (fd_from d) None None (nz (fd_callid d))]
  | ACallAck => [SAck (fd_id d) "call" None (fd_from d) None]
  | APong => [SPong (fd_id d) "s.whatsapp.net" "w:p"]
  end.

Definition kinds : list kind := [
  mkKind "recv.message.text.conversation" false None "message" None (Some "text") false [] ["proto"] false true None true false false true (Some "TextMessageProtocolEntity") ANone;
  mkKind "recv.message.text.extended" false None "message" None (Some "text") false [] ["proto"] false true None false true false true (Some "ExtendedTextMessageProtocolEntity") ANone;
  mkKind "recv.message.text.skdm+conversation" false None "message" None (Some "text") false [] ["proto"] false true None true false true true (Some "TextMessageProtocolEntity") ANone;
  mkKind "recv.message.text.skdm-only" false None "message" None (Some "text") false [] ["proto"] false true None false false true false None ANone;
  mkKind "recv.message.text.unsupported.protocol" false None "message" None (Some "text") false [] ["proto"] false true None false false false true None ADelivery;
  mkKind "recv.message.text.unsupported.unknown-field" false None "message" None (Some "text") false [] ["proto"] false true None false false false true None ADelivery;
  mkKind "recv.message.text.unsupported.empty" false None "message" None (Some "text") false [] ["proto"] false true None false false false false None ADelivery;
  mkKind "recv.message.text.unsupported.skdm+protocol" false None "message" None (Some "text") false [] ["proto"] false true None false false true true None ADelivery;
  mkKind "recv.message.media.image" false (Some MMedia) "message" None (Some "media") false [] ["proto"] false true (Some "image") false false false true (Some "ImageDownloadableMediaMessageProtocolEntity") ANone;
  mkKind "recv.message.media.image.skdm+media" false (Some MMedia) "message" None (Some "media") false [] ["proto"] false true (Some "image") false false true true (Some "ImageDownloadableMediaMessageProtocolEntity") ANone;
  mkKind "recv.message.media.image.skdm-only" false (Some MMedia) "message" None (Some "media") false [] ["proto"] false true (Some "image") false false true false None ANone;
  mkKind "recv.message.media.sticker" false (Some MMedia) "message" None (Some "media") false [] ["proto"] false true (Some "sticker") false false false true (Some "StickerDownloadableMediaMessageProtocolEntity") ANone;
  mkKind "recv.message.media.sticker.skdm+media" false (Some MMedia) "message" None (Some "media") false [] ["proto"] false true (Some "sticker") false false true true (Some "StickerDownloadableMediaMessageProtocolEntity") ANone;
  mkKind "recv.message.media.sticker.skdm-only" false (Some MMedia) "message" None (Some "media") false [] ["proto"] false true (Some "sticker") false false true false None ANone;
  mkKind "recv.message.media.audio" false (Some MMedia) "message" None (Some "media") false [] ["proto"] false true (Some "audio") false false false true (Some "AudioDownloadableMediaMessageProtocolEntity") ANone;
  mkKind "recv.message.media.audio.skdm+media" false (Some MMedia) "message" None (Some "media") false [] ["proto"] false true (Some "audio") false false true true (Some "AudioDownloadableMediaMessageProtocolEntity") ANone;
  mkKind "recv.message.media.audio.skdm-only" false (Some MMedia) "message" None (Some "media") false [] ["proto"] false true (Some "audio") false false true false None ANone;
  mkKind "recv.message.media.ptt" false (Some MMedia) "message" None (Some "media") false [] ["proto"] false true (Some "ptt") false false false true (Some "AudioDownloadableMediaMessageProtocolEntity") ANone;
  mkKind "recv.message.media.ptt.skdm+media" false (Some MMedia) "message" None (Some "media") false [] ["proto"] false true (Some "ptt") false false true true (Some "AudioDownloadableMediaMessageProtocolEntity") ANone;
  mkKind "recv.message.media.ptt.skdm-only" false (Some MMedia) "message" None (Some "media") false [] ["proto"] false true (Some "ptt") false false true false None ANone;
  mkKind "recv.message.media.video" false (Some MMedia) "message" None (Some "media") false [] ["proto"] false true (Some "video") false false false true (Some "VideoDownloadableMediaMessageProtocolEntity") ANone;
  mkKind "recv.message.media.video.skdm+media" false (Some MMedia) "message" None (Some "media") false [] ["proto"] false true (Some "video") false false true true (Some "VideoDownloadableMediaMessageProtocolEntity") ANone;
  mkKind "recv.message.media.video.skdm-only" false (Some MMedia) "message" None (Some "media") false [] ["proto"] false true (Some "video") false false true false None ANone;
  mkKind "recv.message.media.gif" false (Some MMedia) "message" None (Some "media") false [] ["proto"] false true (Some "gif") false false false true (Some "VideoDownloadableMediaMessageProtocolEntity") ANone;
  mkKind "recv.message.media.gif.skdm+media" false (Some MMedia) "message" None (Some "media") false [] ["proto"] false true (Some "gif") false false true true (Some "VideoDownloadableMediaMessageProtocolEntity") ANone;
  mkKind "recv.message.media.gif.skdm-only" false (Some MMedia) "message" None (Some "media") false [] ["proto"] false true (Some "gif") false false true false None ANone;
  mkKind "recv.message.media.location" false (Some MMedia) "message" None (Some "media") false [] ["proto"] false true (Some "location") false false false true (Some "LocationMediaMessageProtocolEntity") ANone;
  mkKind "recv.message.media.location.skdm+media" false (Some MMedia) "message" None (Some "media") false [] ["proto"] false true (Some "location") false false true true (Some "LocationMediaMessageProtocolEntity") ANone;
  mkKind "recv.message.media.location.skdm-only" false (Some MMedia) "message" None (Some "media") false [] ["proto"] false true (Some "location") false false true false None ANone;
  mkKind "recv.message.media.contact" false (Some MMedia) "message" None (Some "media") false [] ["proto"] false true (Some "contact") false false false true (Some "ContactMediaMessageProtocolEntity") ANone;
  mkKind "recv.message.media.contact.skdm+media" false (Some MMedia) "message" None (Some "media") false [] ["proto"] false true (Some "contact") false false true true (Some "ContactMediaMessageProtocolEntity") ANone;
  mkKind "recv.message.media.contact.skdm-only" false (Some MMedia) "message" None (Some "media") false [] ["proto"] false true (Some "contact") false false true false None ANone;
  mkKind "recv.message.media.document" false (Some MMedia) "message" None (Some "media") false [] ["proto"] false true (Some "document") false false false true (Some "DocumentDownloadableMediaMessageProtocolEntity") ANone;
  mkKind "recv.message.media.document.skdm+media" false (Some MMedia) "message" None (Some "media") false [] ["proto"] false true (Some "document") false false true true (Some "DocumentDownloadableMediaMessageProtocolEntity") ANone;
  mkKind "recv.message.media.document.skdm-only" false (Some MMedia) "message" None (Some "media") false [] ["proto"] false true (Some "document") false false true false None ANone;
  mkKind "recv.message.media.url" false (Some MMedia) "message" None (Some "media") false [] ["proto"] false true (Some "url") false true false true (Some "ExtendedTextMediaMessageProtocolEntity") ANone;
  mkKind "recv.message.media.url.skdm+media" false (Some MMedia) "message" None (Some "media") false [] ["proto"] false true (Some "url") false true true true (Some "ExtendedTextMediaMessageProtocolEntity") ANone;
  mkKind "recv.message.media.url.skdm-only" false (Some MMedia) "message" None (Some "media") false [] ["proto"] false true (Some "url") false false true false None ANone;
  mkKind "recv.receipt" false None "receipt" None None true [] [] true false None false false false false (Some "IncomingReceiptProtocolEntity") ANone;
  mkKind "recv.receipt.retry" false None "receipt" None (Some "retry") false [] ["retry"; "registration"] false false None false false false false (Some "IncomingReceiptProtocolEntity") ANone;
  mkKind "recv.ack" false None "ack" None None false [] [] false false None false false false false (Some "IncomingAckProtocolEntity") ANone;
  mkKind "recv.presence" false None "presence" None None true [] [] false false None false false false false (Some "PresenceProtocolEntity") ANone;
  mkKind "recv.chatstate" false None "chatstate" None None false [] [] true false None false false false false (Some "IncomingChatstateProtocolEntity") ANone;
  mkKind "recv.iq.ping" false None "iq" (Some "urn:xmpp:ping") (Some "get") false [] [] true false None false false false false None APong;
  mkKind "recv.iq.sync-result" false None "iq" None (Some "result") false [] ["sync"] false false None false false false false (Some "ResultSyncIqProtocolEntity") ANone;
  mkKind "recv.notification.picture.set" false None "notification" None (Some "picture") false [] ["set"] false false None false false false false (Some "SetPictureNotificationProtocolEntity") ANotifAck;
  mkKind "recv.notification.picture.delete" false None "notification" None (Some "picture") false [] ["delete"] false false None false false false false (Some "DeletePictureNotificationProtocolEntity") ANotifAck;
  mkKind "recv.notification.status" false None "notification" None (Some "status") false [] ["set"] false false None false false false false (Some "StatusNotificationProtocolEntity") ANotifAck;
  mkKind "recv.notification.contacts.add" false None "notification" None (Some "contacts") false [] ["add"] false false None false false false false (Some "AddContactNotificationProtocolEntity") ANotifAck;
  mkKind "recv.notification.contacts.remove" false None "notification" None (Some "contacts") false [] ["remove"] false false None false false false false (Some "RemoveContactNotificationProtocolEntity") ANotifAck;
  mkKind "recv.notification.contacts.update" false None "notification" None (Some "contacts") false [] ["update"] false false None false false false false (Some "UpdateContactNotificationProtocolEntity") ANotifAck;
  mkKind "recv.notification.contacts.sync" false None "notification" None (Some "contacts") false [] ["sync"] false false None false false false false (Some "ContactsSyncNotificationProtocolEntity") ANotifAck;
  mkKind "recv.notification.w:gp2.subject" false (Some MGroups) "notification" None (Some "w:gp2") false [] ["subject"] false false None false false false false (Some "SubjectGroupsNotificationProtocolEntity") ANotifAck;
  mkKind "recv.notification.w:gp2.create" false (Some MGroups) "notification" None (Some "w:gp2") false [] ["create"] false false None false false false false (Some "CreateGroupsNotificationProtocolEntity") ANotifAck;
  mkKind "recv.notification.w:gp2.remove" false (Some MGroups) "notification" None (Some "w:gp2") false [] ["remove"] false false None false false false false (Some "RemoveGroupsNotificationProtocolEntity") ANotifAck;
  mkKind "recv.notification.w:gp2.add" false (Some MGroups) "notification" None (Some "w:gp2") false [] ["add"] false false None false false false false (Some "AddGroupsNotificationProtocolEntity") ANotifAck;
  mkKind "recv.notification.subject" false None "notification" None (Some "subject") false [] ["body"] false false None false false false false None ANotifAck;
  mkKind "recv.notification.encrypt.count" false None "notification" None (Some "encrypt") false [] ["count"] false false None false false false false None ANotifAck;
  mkKind "recv.notification.encrypt.identity" false None "notification" None (Some "encrypt") false [] ["identity"] false false None false false false false None ANotifAck;
  mkKind "recv.call.offer" false None "call" None None false [] ["offer"] false false None false false false false (Some "CallProtocolEntity") ACallReceipt;
  mkKind "recv.ib.dirty" false None "ib" None None false [] ["dirty"] false false None false false false false (Some "DirtyIbProtocolEntity") ANone;
  mkKind "recv.ib.offline" false None "ib" None None false [] ["offline"] false false None false false false false (Some "OfflineIbProtocolEntity") ANone;
  mkKind "recv.ib.account" false None "ib" None None false [] ["account"] false false None false false false false (Some "AccountIbProtocolEntity") ANone;
  mkKind "recv.auth.stream:features" false None "stream:features" None None false [] [] true false None false false false false (Some "StreamFeaturesProtocolEntity") ANone;
  mkKind "recv.auth.success" false None "success" None None false [] [] false false None false false false false (Some "SuccessProtocolEntity") ANone;
  mkKind "recv.auth.failure" false None "failure" None None false [] [] false false None false false false false (Some "FailureProtocolEntity") ANone;
  mkKind "recv.auth.stream:error.conflict" false None "stream:error" None None false [] ["conflict"; "text"] false false None false false false false (Some "StreamErrorProtocolEntity") ANone;
  mkKind "recv.auth.stream:error.ack" false None "stream:error" None None false [] ["ack"] false false None false false false false (Some "StreamErrorProtocolEntity") ANone;
  mkKind "recv.auth.stream:error.xml-not-well-formed" false None "stream:error" None None false [] ["xml-not-well-formed"] false false None false false false false (Some "StreamErrorProtocolEntity") ANone;
  mkKind "send.message.text" true None "message" None (Some "text") false ["TextMessageProtocolEntity"; "ProtomessageProtocolEntity"; "MessageProtocolEntity"; "ProtocolEntity"] [] false false None false false false false None ANone;
  mkKind "send.message.text.broadcast" true None "message" None (Some "text") false ["BroadcastTextMessage"; "TextMessageProtocolEntity"; "ProtomessageProtocolEntity"; "MessageProtocolEntity"; "ProtocolEntity"] [] false false None false false false false None ANone;
  mkKind "send.message.extendedtext" true None "message" None (Some "text") false ["ExtendedTextMessageProtocolEntity"; "ProtomessageProtocolEntity"; "MessageProtocolEntity"; "ProtocolEntity"] [] false false None false false false false None ANone;
  mkKind "send.message.media.image" true (Some MMedia) "message" None (Some "media") false ["ImageDownloadableMediaMessageProtocolEntity"; "DownloadableMediaMessageProtocolEntity"; "MediaMessageProtocolEntity"; "ProtomessageProtocolEntity"; "MessageProtocolEntity"; "ProtocolEntity"] [] false false None false false false false None ANone;
  mkKind "send.message.media.sticker" true (Some MMedia) "message" None (Some "media") false ["StickerDownloadableMediaMessageProtocolEntity"; "DownloadableMediaMessageProtocolEntity"; "MediaMessageProtocolEntity"; "ProtomessageProtocolEntity"; "MessageProtocolEntity"; "ProtocolEntity"] [] false false None false false false false None ANone;
  mkKind "send.message.media.audio" true (Some MMedia) "message" None (Some "media") false ["AudioDownloadableMediaMessageProtocolEntity"; "DownloadableMediaMessageProtocolEntity"; "MediaMessageProtocolEntity"; "ProtomessageProtocolEntity"; "MessageProtocolEntity"; "ProtocolEntity"] [] false false None false false false false None ANone;
  mkKind "send.message.media.video" true (Some MMedia) "message" None (Some "media") false ["VideoDownloadableMediaMessageProtocolEntity"; "DownloadableMediaMessageProtocolEntity"; "MediaMessageProtocolEntity"; "ProtomessageProtocolEntity"; "MessageProtocolEntity"; "ProtocolEntity"] [] false false None false false false false None ANone;
  mkKind "send.message.media.document" true (Some MMedia) "message" None (Some "media") false ["DocumentDownloadableMediaMessageProtocolEntity"; "DownloadableMediaMessageProtocolEntity"; "MediaMessageProtocolEntity"; "ProtomessageProtocolEntity"; "MessageProtocolEntity"; "ProtocolEntity"] [] false false None false false false false None ANone;
  mkKind "send.message.media.location" true (Some MMedia) "message" None (Some "media") false ["LocationMediaMessageProtocolEntity"; "MediaMessageProtocolEntity"; "ProtomessageProtocolEntity"; "MessageProtocolEntity"; "ProtocolEntity"] [] false false None false false false false None ANone;
  mkKind "send.message.media.contact" true (Some MMedia) "message" None (Some "media") false ["ContactMediaMessageProtocolEntity"; "MediaMessageProtocolEntity"; "ProtomessageProtocolEntity"; "MessageProtocolEntity"; "ProtocolEntity"] [] false false None false false false false None ANone;
  mkKind "send.message.media.url" true (Some MMedia) "message" None (Some "media") false ["ExtendedTextMediaMessageProtocolEntity"; "MediaMessageProtocolEntity"; "ProtomessageProtocolEntity"; "MessageProtocolEntity"; "ProtocolEntity"] [] false false None false false false false None ANone;
  mkKind "send.receipt" true None "receipt" None None false ["OutgoingReceiptProtocolEntity"; "ReceiptProtocolEntity"; "ProtocolEntity"] [] false false None false false false false None ANone;
  mkKind "send.receipt.retry" true None "receipt" None None false ["RetryOutgoingReceiptProtocolEntity"; "OutgoingReceiptProtocolEntity"; "ReceiptProtocolEntity"; "ProtocolEntity"] [] false false None false false false false None ANone;
  mkKind "send.ack" true None "ack" None None false ["OutgoingAckProtocolEntity"; "AckProtocolEntity"; "ProtocolEntity"] [] false false None false false false false None ANone;
  mkKind "send.presence.available" true None "presence" None (Some "available") false ["AvailablePresenceProtocolEntity"; "PresenceProtocolEntity"; "ProtocolEntity"] [] false false None false false false false None ANone;
  mkKind "send.presence.unavailable" true None "presence" None (Some "unavailable") false ["UnavailablePresenceProtocolEntity"; "PresenceProtocolEntity"; "ProtocolEntity"] [] false false None false false false false None ANone;
  mkKind "send.presence.subscribe" true None "presence" None (Some "subscribe") false ["SubscribePresenceProtocolEntity"; "PresenceProtocolEntity"; "ProtocolEntity"] [] false false None false false false false None ANone;
  mkKind "send.presence.unsubscribe" true None "presence" None (Some "unsubscribe") false ["UnsubscribePresenceProtocolEntity"; "PresenceProtocolEntity"; "ProtocolEntity"] [] false false None false false false false None ANone;
  mkKind "send.presence.generic" true None "presence" None None true ["PresenceProtocolEntity"; "ProtocolEntity"] [] false false None false false false false None ANone;
  mkKind "send.chatstate" true None "chatstate" None None false ["OutgoingChatstateProtocolEntity"; "ChatstateProtocolEntity"; "ProtocolEntity"] [] false false None false false false false None ANone;
  mkKind "send.notification" true None "notification" None None true ["NotificationProtocolEntity"; "ProtocolEntity"] [] false false None false false false false None ANone;
  mkKind "send.call" true None "call" None None true ["CallProtocolEntity"; "ProtocolEntity"] [] false false None false false false false None ANone;
  mkKind "send.iq.push" true None "iq" (Some "urn:xmpp:whatsapp:push") (Some "get") false ["PushIqProtocolEntity"; "IqProtocolEntity"; "ProtocolEntity"] [] false false None false false false false None ANone;
  mkKind "send.iq.props" true None "iq" (Some "w") (Some "get") false ["PropsIqProtocolEntity"; "IqProtocolEntity"; "ProtocolEntity"] [] false false None false false false false None ANone;
  mkKind "send.iq.unregister" true (Some MProfiles) "iq" None (Some "get") false ["UnregisterIqProtocolEntity"; "IqProtocolEntity"; "ProtocolEntity"] [] false false None false false false false None ANone;
  mkKind "send.iq.keys.get" true None "iq" (Some "encrypt") (Some "get") false ["GetKeysIqProtocolEntity"; "IqProtocolEntity"; "ProtocolEntity"] [] false false None false false false false None ANone;
  mkKind "send.iq.keys.set" true None "iq" (Some "encrypt") (Some "set") false ["SetKeysIqProtocolEntity"; "IqProtocolEntity"; "ProtocolEntity"] [] false false None false false false false None ANone;
  mkKind "send.iq.sync.get" true None "iq" (Some "urn:xmpp:whatsapp:sync") (Some "get") false ["GetSyncIqProtocolEntity"; "SyncIqProtocolEntity"; "IqProtocolEntity"; "ProtocolEntity"] [] false false None false false false false None ANone;
  mkKind "send.iq.clean" true None "iq" (Some "urn:xmpp:whatsapp:dirty") (Some "set") false ["CleanIqProtocolEntity"; "IqProtocolEntity"; "ProtocolEntity"] [] false false None false false false false None ANone;
  mkKind "send.iq.privacylist" true (Some MPrivacy) "iq" (Some "jabber:iq:privacy") (Some "get") false ["PrivacyListIqProtocolEntity"; "IqProtocolEntity"; "ProtocolEntity"] [] false false None false false false false None ANone;
  mkKind "send.iq.ping" true None "iq" (Some "w:p") (Some "get") false ["PingIqProtocolEntity"; "IqProtocolEntity"; "ProtocolEntity"] [] false false None false false false false None ANone;
  mkKind "send.iq.lastseen" true None "iq" (Some "jabber:iq:last") (Some "get") false ["LastseenIqProtocolEntity"; "IqProtocolEntity"; "ProtocolEntity"] [] false false None false false false false None ANone;
  mkKind "send.iq.groups.create" true (Some MGroups) "iq" (Some "w:g2") (Some "set") false ["CreateGroupsIqProtocolEntity"; "GroupsIqProtocolEntity"; "IqProtocolEntity"; "ProtocolEntity"] [] false false None false false false false None ANone;
  mkKind "send.iq.groups.info" true (Some MGroups) "iq" (Some "w:g2") (Some "get") false ["InfoGroupsIqProtocolEntity"; "GroupsIqProtocolEntity"; "IqProtocolEntity"; "ProtocolEntity"] [] false false None false false false false None ANone;
  mkKind "send.iq.groups.leave" true (Some MGroups) "iq" (Some "w:g2") (Some "set") false ["LeaveGroupsIqProtocolEntity"; "GroupsIqProtocolEntity"; "IqProtocolEntity"; "ProtocolEntity"] [] false false None false false false false None ANone;
  mkKind "send.iq.groups.list" true (Some MGroups) "iq" (Some "w:g2") (Some "get") false ["ListGroupsIqProtocolEntity"; "GroupsIqProtocolEntity"; "IqProtocolEntity"; "ProtocolEntity"] [] false false None false false false false None ANone;
  mkKind "send.iq.groups.subject" true (Some MGroups) "iq" (Some "w:g2") (Some "set") false ["SubjectGroupsIqProtocolEntity"; "GroupsIqProtocolEntity"; "IqProtocolEntity"; "ProtocolEntity"] [] false false None false false false false None ANone;
  mkKind "send.iq.groups.participants" true (Some MGroups) "iq" (Some "w:g2") (Some "set") false ["ParticipantsGroupsIqProtocolEntity"; "GroupsIqProtocolEntity"; "IqProtocolEntity"; "ProtocolEntity"] [] false false None false false false false None ANone;
  mkKind "send.iq.groups.participants.add" true (Some MGroups) "iq" (Some "w:g2") (Some "set") false ["AddParticipantsIqProtocolEntity"; "ParticipantsGroupsIqProtocolEntity"; "GroupsIqProtocolEntity"; "IqProtocolEntity"; "ProtocolEntity"] [] false false None false false false false None ANone;
  mkKind "send.iq.groups.participants.promote" true (Some MGroups) "iq" (Some "w:g2") (Some "set") false ["PromoteParticipantsIqProtocolEntity"; "ParticipantsGroupsIqProtocolEntity"; "GroupsIqProtocolEntity"; "IqProtocolEntity"; "ProtocolEntity"] [] false false None false false false false None ANone;
  mkKind "send.iq.groups.participants.demote" true (Some MGroups) "iq" (Some "w:g2") (Some "set") false ["DemoteParticipantsIqProtocolEntity"; "ParticipantsGroupsIqProtocolEntity"; "GroupsIqProtocolEntity"; "IqProtocolEntity"; "ProtocolEntity"] [] false false None false false false false None ANone;
  mkKind "send.iq.groups.participants.remove" true (Some MGroups) "iq" (Some "w:g2") (Some "set") false ["RemoveParticipantsIqProtocolEntity"; "ParticipantsGroupsIqProtocolEntity"; "GroupsIqProtocolEntity"; "IqProtocolEntity"; "ProtocolEntity"] [] false false None false false false false None ANone;
  mkKind "send.iq.picture.get" true (Some MProfiles) "iq" (Some "w:profile:picture") (Some "get") false ["GetPictureIqProtocolEntity"; "PictureIqProtocolEntity"; "IqProtocolEntity"; "ProtocolEntity"] [] false false None false false false false None ANone;
  mkKind "send.iq.picture.set" true (Some MProfiles) "iq" (Some "w:profile:picture") (Some "set") false ["SetPictureIqProtocolEntity"; "PictureIqProtocolEntity"; "IqProtocolEntity"; "ProtocolEntity"] [] false false None false false false false None ANone;
  mkKind "send.iq.picture.list" true (Some MProfiles) "iq" (Some "w:profile:picture") (Some "get") false ["ListPicturesIqProtocolEntity"; "PictureIqProtocolEntity"; "IqProtocolEntity"; "ProtocolEntity"] [] false false None false false false false None ANone;
  mkKind "send.iq.privacy.get" true (Some MProfiles) "iq" (Some "privacy") (Some "get") false ["GetPrivacyIqProtocolEntity"; "IqProtocolEntity"; "ProtocolEntity"] [] false false None false false false false None ANone;
  mkKind "send.iq.privacy.set" true (Some MProfiles) "iq" (Some "privacy") (Some "set") false ["SetPrivacyIqProtocolEntity"; "IqProtocolEntity"; "ProtocolEntity"] [] false false None false false false false None ANone;
  mkKind "send.iq.statuses.get" true (Some MProfiles) "iq" (Some "status") (Some "get") false ["GetStatusesIqProtocolEntity"; "IqProtocolEntity"; "ProtocolEntity"] [] false false None false false false false None ANone;
  mkKind "send.iq.status.set" true (Some MProfiles) "iq" (Some "status") (Some "set") false ["SetStatusIqProtocolEntity"; "IqProtocolEntity"; "ProtocolEntity"] [] false false None false false false false None ANone;
  mkKind "send.iq.requestupload" true (Some MMedia) "iq" (Some "w:m") (Some "set") false ["RequestUploadIqProtocolEntity"; "IqProtocolEntity"; "ProtocolEntity"] [] false false None false false false false None ANone
].

(* requests that register reply callbacks: (send kind, class for a result reply, class for an error reply) *)
Definition requests : list (string * string * option string) := [
  ("send.iq.ping", "IqProtocolEntity", Some "ErrorIqProtocolEntity");
  ("send.iq.sync.get", "ResultSyncIqProtocolEntity", Some "ErrorIqProtocolEntity");
  ("send.iq.lastseen", "ResultLastseenIqProtocolEntity", Some "ErrorIqProtocolEntity");
  ("send.iq.groups.create", "SuccessCreateGroupsIqProtocolEntity", Some "ErrorIqProtocolEntity");
  ("send.iq.groups.info", "InfoGroupsResultIqProtocolEntity", Some "ErrorIqProtocolEntity");
  ("send.iq.groups.leave", "SuccessLeaveGroupsIqProtocolEntity", Some "ErrorIqProtocolEntity");
  ("send.iq.groups.list", "ListGroupsResultIqProtocolEntity", Some "ErrorIqProtocolEntity");
  ("send.iq.groups.subject", "IqProtocolEntity", Some "ErrorIqProtocolEntity");
  ("send.iq.groups.participants", "ListParticipantsResultIqProtocolEntity", Some "ErrorIqProtocolEntity");
  ("send.iq.groups.participants.add", "SuccessAddParticipantsIqProtocolEntity", Some "FailureAddParticipantsIqProtocolEntity");
  ("send.iq.groups.participants.promote", "IqProtocolEntity", Some "ErrorIqProtocolEntity");
  ("send.iq.groups.participants.demote", "IqProtocolEntity", Some "ErrorIqProtocolEntity");
  ("send.iq.groups.participants.remove", "SuccessRemoveParticipantsIqProtocolEntity", Some "ErrorIqProtocolEntity");
  ("send.iq.picture.get", "ResultGetPictureIqProtocolEntity", Some "ErrorIqProtocolEntity");
  ("send.iq.picture.set", "ResultGetPictureIqProtocolEntity", Some "ErrorIqProtocolEntity");
  ("send.iq.picture.list", "ResultGetPictureIqProtocolEntity", Some "ErrorIqProtocolEntity");
  ("send.iq.privacy.get", "ResultPrivacyIqProtocolEntity", Some "ErrorIqProtocolEntity");
  ("send.iq.privacy.set", "ResultPrivacyIqProtocolEntity", Some "ErrorIqProtocolEntity");
  ("send.iq.statuses.get", "ResultStatusesIqProtocolEntity", Some "ErrorIqProtocolEntity");
  ("send.iq.status.set", "IqProtocolEntity", Some "ErrorIqProtocolEntity");
  ("send.iq.requestupload", "ResultRequestUploadIqProtocolEntity", Some "ErrorIqProtocolEntity")
].

Definition find_kind (n : string) : option kind := find (fun k => String.eqb (k_name k) n) kinds.
