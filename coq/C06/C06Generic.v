(* C06 — generic theorems: all strings / all feature vectors, proved by case analysis on string
   equality with the guard constants (not by sampling). *)
From Coq Require Import Arith Lia.
From YV Require Import C06.C06Base C06.C06Dispatch C06.C06Kinds Gen.C06Layers Gen.C06HandleMaps.

Ltac str_case :=
  match goal with
  | |- context [String.eqb ?t ?c] =>
    is_var t; let E := fresh "E" in
    destruct (String.eqb t c) eqn:E; [ apply String.eqb_eq in E; subst t; cbn | ]
  end.
Ltac unf :=
  unfold send_iq, send_profiles, send_groups, send_media, send_presence, sent, sent_registered,
         recv_auth, recv_messages, recv_media, recv_ib, recv_iq, recv_notifications, recv_contacts,
         recv_groups, recv_calls, notification_ack, ack, receipt, groups_callbacks, head_class,
         is_instance, media_class, call_is_offer, oeq in *; cbn.
Ltac if_case :=
  match goal with
  | |- context [if ?b then _ else _] => let E := fresh "E" in destruct b eqn:E; cbn in E; try discriminate E; cbn
  end.

(* ---------------------------------------------------------------- registry is irrelevant off the iq tag *)
Lemma registry_recv_not_iq st l f : String.eqb (f_tag f) "iq" = false -> registry_recv st l f = None.
Proof. intros H. unfold registry_recv. rewrite H. reflexivity. Qed.

(* ---------------------------------------------------------------- the send || receive layer pair *)
(* Everything that is not a message is handed upward exactly once and nothing else happens,
   unless it is a reply to one of the pair's own key requests or a retry receipt for a message
   the send layer still holds (both consumed by design: the retry protocol, C03).
   Receipts go up through the send layer, everything else through the receive layer. *)
Definition pair_consumes (st : registry) (f : feat) : bool :=
  match registry_recv st LAxSend f, registry_recv st LAxRecv f with
  | None, None => String.eqb (f_tag f) "receipt" && f_enq f && oeq (f_type f) "retry"
  | _, _ => true
  end.

Theorem axolotl_split_thm : forall st f,
  String.eqb (f_tag f) "message" = false -> pair_consumes st f = false ->
  pair_recv st f = [Forward] /\
  (if String.eqb (f_tag f) "receipt"
   then axsend_recv st f = [Forward] /\ axrecv_recv st f = []
   else axsend_recv st f = [] /\ axrecv_recv st f = [Forward]).
Proof.
  intros st f Hm Hc. unfold pair_consumes in Hc. unfold pair_recv, axsend_recv, axrecv_recv.
  destruct (registry_recv st LAxSend f); [discriminate|].
  destruct (registry_recv st LAxRecv f); [discriminate|].
  rewrite Hm. destruct (String.eqb (f_tag f) "receipt") eqn:Er; cbn in *.
  - destruct (f_enq f); cbn in *; [| auto].
    rewrite Hc. auto.
  - auto.
Qed.

(* plaintext messages (no enc child) pass the pair exactly once as well *)
Theorem axolotl_plain_message_thm : forall st f,
  String.eqb (f_tag f) "message" = true -> has_child f "enc" = false ->
  pair_recv st f = [Forward].
Proof.
  intros st f Hm He. unfold pair_recv, axsend_recv, axrecv_recv.
  rewrite !registry_recv_not_iq.
  - rewrite Hm, He. apply String.eqb_eq in Hm. rewrite Hm. reflexivity.
  - apply String.eqb_eq in Hm. rewrite Hm. reflexivity.
  - apply String.eqb_eq in Hm. rewrite Hm. reflexivity.
Qed.

(* the control layer forwards everything except encrypt count/identity notifications and replies
   to its own requests *)
Theorem control_forward_thm : forall v st f,
  registry_recv st LAxControl f = None ->
  (String.eqb (f_tag f) "notification" && oeq (f_type f) "encrypt"
     && (has_child f "count" || has_child f "identity")) = false ->
  ctl_recv v st f = [Forward].
Proof.
  intros v st f Hr Hn. unfold ctl_recv. rewrite Hr.
  destruct (String.eqb (f_tag f) "notification" && oeq (f_type f) "encrypt"); cbn in *; [|reflexivity].
  destruct (has_child f "count"); cbn in *; [discriminate|].
  rewrite Hn. reflexivity.
Qed.

(* hence: with the encryption layers present the protocol group sees the stanza exactly once *)
Theorem stack_transparent_thm : forall v c st f,
  String.eqb (f_tag f) "message" = false ->
  registry_recv st LAxControl f = None -> pair_consumes st f = false ->
  (String.eqb (f_tag f) "notification" && oeq (f_type f) "encrypt"
     && (has_child f "count" || has_child f "identity")) = false ->
  stack_recv v c true st f = through_lower true (par_recv v c st f).
Proof.
  intros v c st f Hm Hr Hc Hn. unfold stack_recv.
  rewrite (control_forward_thm v st f Hr Hn).
  destruct (axolotl_split_thm st f Hm Hc) as [Hp _]. rewrite Hp. cbn.
  rewrite !app_nil_r. reflexivity.
Qed.

(* ---------------------------------------------------------------- no tag, no reaction *)
Definition known_tags : list string :=
  ["stream:features"; "failure"; "success"; "stream:error"; "message"; "receipt"; "ack"; "presence";
   "iq"; "ib"; "notification"; "chatstate"; "call"].

Theorem unknown_tag_silent_thm : forall v c st f,
  mem (f_tag f) known_tags = false ->
  par_recv v c st f = [] /\ par_send v c f = [].
Proof.
  intros v c st f H. destruct f as [tag x t i fr to p mro ch hp mt cv ex sk enq]. cbn in H.
  repeat (match type of H with (String.eqb tag ?c || _) = false =>
            let E := fresh "E" in destruct (String.eqb tag c) eqn:E; [discriminate H|]; cbn in H end).
  destruct c as [[] [] [] []]; split; cbn;
    unfold layer_recv, layer_send, registry_recv, claims; cbn; rewrite ?E, ?E0, ?E1, ?E2, ?E3, ?E4, ?E5, ?E6, ?E7, ?E8, ?E9, ?E10, ?E11; reflexivity.
Qed.

(* ---------------------------------------------------------------- iq entities of the base class, any xmlns / type string *)
Definition generic_iq (x t i to : ostr) : feat :=
  mkFeat "iq" x t i None to None ["IqProtocolEntity"; "ProtocolEntity"] [] false None false false false false false.

Definition iq_layer_xmlns : list string :=
  ["w:p"; "urn:xmpp:whatsapp:push"; "w"; "urn:xmpp:whatsapp:account"; "encrypt"; "urn:xmpp:whatsapp:sync";
   "jabber:iq:last"].

(* for EVERY xmlns and type string and every module selection a base-class iq leaves at most once *)
Theorem generic_iq_at_most_once_thm : forall c x t i to,
  length (downs (par_send repaired c (generic_iq x t i to))) <= 1.
Proof.
  intros c x t i to. unfold generic_iq. destruct c as [[] [] [] []]; destruct x as [x|]; destruct t as [t|]; cbn; unf;
  repeat (first [ str_case | if_case ]); cbn; lia.
Qed.

Theorem generic_iq_core_once_thm : forall c x t i to, mem x iq_layer_xmlns = true ->
  downs (par_send repaired c (generic_iq (Some x) t i to)) = [SEntity (generic_iq (Some x) t i to)].
Proof.
  intros c x t i to H. cbn in H. unfold generic_iq.
  repeat (match type of H with (String.eqb x ?k || _) = true =>
            let E := fresh "E" in destruct (String.eqb x k) eqn:E;
            [ apply String.eqb_eq in E; subst x; clear H; destruct c as [[] [] [] []]; destruct t as [t|]; cbn; unf;
              repeat (first [ str_case | if_case ]); reflexivity | cbn in H ] end).
  discriminate H.
Qed.
