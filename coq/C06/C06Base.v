(* C06/C07 — base vocabulary of the dispatch model: layer ids, module flags, strings.
   Shared by the generated tables (coq/Gen/C06Layers.v, coq/Gen/C06HandleMaps.v) and the
   hand-written model (C06Dispatch.v).  Definitions only.                               *)
From Coq Require Export String List Bool.
Export ListNotations.
Open Scope string_scope.
Open Scope list_scope.

(* one constructor per layer class of yowsup/stacks/yowstack.py *)
Inductive lid :=
| LAuth | LMessages | LReceipts | LAcks | LPresence | LIb | LIq | LNotifications
| LContacts | LChatstate | LCalls | LGroups | LMedia | LPrivacy | LProfiles
| LAxControl | LAxSend | LAxRecv.

Definition lid_eqb (a b : lid) : bool :=
  match a, b with
  | LAuth, LAuth | LMessages, LMessages | LReceipts, LReceipts | LAcks, LAcks
  | LPresence, LPresence | LIb, LIb | LIq, LIq | LNotifications, LNotifications
  | LContacts, LContacts | LChatstate, LChatstate | LCalls, LCalls | LGroups, LGroups
  | LMedia, LMedia | LPrivacy, LPrivacy | LProfiles, LProfiles
  | LAxControl, LAxControl | LAxSend, LAxSend | LAxRecv, LAxRecv => true
  | _, _ => false
  end.

(* the four keyword flags of YowStackBuilder.getProtocolLayers *)
Record flags := mkFlags { fl_groups : bool; fl_media : bool; fl_privacy : bool; fl_profiles : bool }.

Inductive modflag := MGroups | MMedia | MPrivacy | MProfiles.

Definition flag_on (c : flags) (m : modflag) : bool :=
  match m with
  | MGroups => fl_groups c | MMedia => fl_media c
  | MPrivacy => fl_privacy c | MProfiles => fl_profiles c
  end.

(* shape of the part of getDefaultLayers above the core layers *)
Inductive sitem := SOne (l : lid) | SPar (ls : list lid) | SProtocolGroup.

Definition ostr := option string.

(* python:  attr == "const"   (None never equals a string) *)
Definition oeq (o : ostr) (c : string) : bool :=
  match o with Some s => String.eqb s c | None => false end.

(* python truthiness of an attribute value *)
Definition truthy (o : ostr) : bool :=
  match o with Some EmptyString => false | Some _ => true | None => false end.

(* `if value: node.setAttribute(...)` *)
Definition nz (o : ostr) : ostr := if truthy o then o else None.

Definition mem (s : string) (l : list string) : bool := existsb (String.eqb s) l.
