(* Glue between the sx line format and the C06/C07 dispatch model (unverified, trusted, small). *)
From Coq Require Import NArith Ascii.
Require Extraction.
(* sxdriver.ml writes s.[i] (= unqualified String.get): keep the extracted Coq String module out of its way *)
Extraction Blacklist String List Bool.
From YV Require Import Common.Sx C06.C06Base C06.C06Dispatch C06.C06Kinds.
Local Open Scope list_scope.

Definition string_of_bytes (l : list N) : string :=
  fold_right (fun n s => String (ascii_of_N n) s) EmptyString l.
Fixpoint bytes_of_string (s : string) : list N :=
  match s with EmptyString => [] | String a r => N_of_ascii a :: bytes_of_string r end.

Definition get_s (x : sx) : string := string_of_bytes (sx_get_b x).
Definition get_o (x : sx) : ostr :=
  match sx_get_l x with y :: _ => Some (get_s y) | [] => None end.
Definition put_s (s : string) : sx := SB (bytes_of_string s).
Definition put_o (o : ostr) : sx := match o with Some s => SL [put_s s] | None => SL [] end.

(* (tag xmlns type id from to participant (mro..) ((child callid)..) has_proto mediatype conv ext skdm more enq) *)
Definition get_feat (x : sx) : feat :=
  let n := sx_nth x in
  mkFeat (get_s (n 0%nat)) (get_o (n 1%nat)) (get_o (n 2%nat)) (get_o (n 3%nat)) (get_o (n 4%nat))
         (get_o (n 5%nat)) (get_o (n 6%nat)) (map get_s (sx_get_l (n 7%nat)))
         (map (fun c => (get_s (sx_nth c 0), get_o (sx_nth c 1))) (sx_get_l (n 8%nat)))
         (sx_get_bool (n 9%nat)) (get_o (n 10%nat)) (sx_get_bool (n 11%nat)) (sx_get_bool (n 12%nat))
         (sx_get_bool (n 13%nat)) (sx_get_bool (n 14%nat)) (sx_get_bool (n 15%nat)).

Definition put_stanza (s : stanza) : sx :=
  match s with
  | SEntity _ => SL [SN 0]
  | SAck i c t to p => SL [SN 1; put_o i; put_o (Some c); put_o t; put_o to; put_o p]
  | SReceipt i to p t c => SL [SN 2; put_o i; put_o to; put_o p; put_o t; put_o c]
  | SPong i to x => SL [SN 3; put_o i; put_o (Some to); put_o (Some x)]
  | SGetKeys => SL [SN 4]
  | SSetKeys => SL [SN 5]
  end.

Definition put_action (a : action) : sx :=
  match a with
  | Up c => SL [SN 0; put_s c]
  | Down s => SL [SN 1; put_stanza s]
  | Raise => SL [SN 2]
  | Register _ _ _ _ => SL [SN 3]
  | Crypto => SL [SN 4]
  | Forward => SL [SN 6]
  end.

Definition get_variant (x : sx) : variant :=
  mkVariant (sx_get_bool (sx_nth x 0)) (sx_get_bool (sx_nth x 1)) (sx_get_bool (sx_nth x 2))
            (sx_get_bool (sx_nth x 3)) (sx_get_bool (sx_nth x 4)).
Definition get_flags (x : sx) : flags :=
  mkFlags (sx_get_bool (sx_nth x 0)) (sx_get_bool (sx_nth x 1)) (sx_get_bool (sx_nth x 2)) (sx_get_bool (sx_nth x 3)).

Fixpoint trace (v : variant) (c : flags) (ax : bool) (st : registry) (ops : list sx) : list sx :=
  match ops with
  | [] => []
  | op :: rest =>
    let f := get_feat (sx_nth op 1) in
    if sx_get_bool (sx_nth op 0) then          (* 1 = send an entity from the top *)
      let '(a, b) := stack_send v c ax f in
      SL [SL (map put_action a); SL (map put_action b)]
         :: trace v c ax (st_after_send v c st f) rest
    else                                        (* 0 = inject a stanza at the bottom *)
      SL [SL (map put_action (stack_recv v c ax st f)); SL []]
         :: trace v c ax (st_after_recv c ax st f) rest
  end.

(* arg: ((v1 v2 v3 v4 v5) (groups media privacy profiles) ax (op ...)),  op = (dir feat) *)
Definition run_trace (arg : sx) : sx :=
  SL (trace (get_variant (sx_nth arg 0)) (get_flags (sx_nth arg 1)) (sx_get_bool (sx_nth arg 2)) []
            (sx_get_l (sx_nth arg 3))).

Definition put_mod (m : option modflag) : sx :=
  match m with None => SL [] | Some MGroups => SL [put_s "groups"] | Some MMedia => SL [put_s "media"]
          | Some MPrivacy => SL [put_s "privacy"] | Some MProfiles => SL [put_s "profiles"] end.

Definition put_kind (k : kind) : sx :=
  SL [put_s (k_name k); sx_bool (k_send k); put_mod (k_module k); put_s (k_tag k); put_o (k_xmlns k);
      put_o (k_type k); sx_bool (k_type_free k); SL (map put_s (k_mro k)); SL (map put_s (k_children k));
      sx_bool (k_children_free k); sx_bool (k_has_proto k); put_o (k_mediatype k); sx_bool (k_conv k);
      sx_bool (k_ext k); sx_bool (k_skdm k); sx_bool (k_more k); put_o (k_up k);
      SN (match k_answer k with ANone => 0 | ANotifAck => 1 | ADelivery => 2 | ARead => 3
                           | ACallReceipt => 4 | ACallAck => 5 | APong => 6 end)%N].

(* the kind table and the request table the theorems quantify over *)
Definition run_kind_table (arg : sx) : sx :=
  SL [SL (map put_kind kinds);
      SL (map (fun r => match r with (n, ok, err) => SL [put_s n; put_s ok; put_o err] end) requests)].
