(* C06 — replies to requests that registered a callback: exactly one entity, of the class the
   callback builds, reaches the application; the other layers of the group stay silent. *)
From Coq Require Import Arith Lia.
From YV Require Import C06.C06Base C06.C06Dispatch C06.C06Kinds Gen.C06Layers Gen.C06HandleMaps.

Definition reply_feat (x t : ostr) (i : string) (fr to p : ostr) (ch : list (string * ostr)) : feat :=
  mkFeat "iq" x t (Some i) fr to p [] ch false None false false false false false.

(* a reply is not itself a server ping; only the reply to a contact sync (registered by LContacts) carries <sync/> *)
Definition plain_reply (l : lid) (x : ostr) (ch : list (string * ostr)) : Prop :=
  oeq x "urn:xmpp:ping" = false /\
  (lid_eqb l LContacts || negb (existsb (fun c => String.eqb (fst c) "sync") ch)) = true.

Definition registering : list lid := [LIq; LPresence; LContacts; LGroups; LMedia; LProfiles].

Lemma reply_single : forall c l, In l registering -> existsb (lid_eqb l) (protocol_layers c) = true ->
  forall i ok err x fr to p ch, plain_reply l x ch ->
    (let a := par_recv repaired c [(l, i, Some ok, err)] (reply_feat x (Some "result") i fr to p ch) in
     (ups a, downs a, raises a) = ([ok], [], 0)) /\
    (let a := par_recv repaired c [(l, i, Some ok, err)] (reply_feat x (Some "error") i fr to p ch) in
     (ups a, downs a, raises a) = (match err with Some e => [e] | None => [] end, [], 0)).
Proof.
  intros c l Hl Hin i ok err x fr to p ch [Hp Hsy].
  destruct c as [[] [] [] []];
  (repeat (destruct Hl as [<-|Hl]; [ first [ (vm_compute in Hin; discriminate Hin) | idtac ] | ])); try contradiction;
  cbv zeta; unfold reply_feat; cbn;
  unfold layer_recv, registry_recv, reg_find, has_child; cbn;
  rewrite ?String.eqb_refl; cbn;
  unfold recv_iq, recv_contacts, has_child; cbn; rewrite ?Hp; cbn in Hsy;
  try (apply Bool.negb_true_iff in Hsy; rewrite ?Hsy); cbn;
  destruct err; split; reflexivity.
Qed.

Definition request_layer (k : kind) : lid :=
  match k_module k with
  | Some MGroups => LGroups | Some MMedia => LMedia | Some MProfiles => LProfiles | Some MPrivacy => LPrivacy
  | None => if oeq (k_xmlns k) "w:p" then LIq
            else if oeq (k_xmlns k) "urn:xmpp:whatsapp:sync" then LContacts else LPresence
  end.

Definition registers_as (c : flags) (k : kind) (ok : string) (err : option string) : Prop :=
  forall d i, fd_id d = Some i ->
    apply_registers [] (par_send repaired c (feat_of k d)) = [(request_layer k, i, Some ok, err)].

Lemma requests_register :
  Forall (fun r => match r with (n, ok, err) =>
            exists k, find_kind n = Some k /\ In (request_layer k) registering /\
                      forall c, supported c k = true ->
                                existsb (lid_eqb (request_layer k)) (protocol_layers c) = true /\
                                registers_as c k ok err end) requests.
Proof.
  unfold requests.
  repeat (apply Forall_cons; [
    eexists; split; [ vm_compute; reflexivity | split; [ vm_compute; tauto | ] ];
    intros [[] [] [] []] Hs; try (vm_compute in Hs; discriminate Hs);
    (split; [ vm_compute; reflexivity | intros [di df dt dp dty dc dch] i Hid; cbn in Hid; subst di; vm_compute; reflexivity ]) | ]).
  apply Forall_nil.
Qed.

Definition reply_once_prop (c : flags) (k : kind) (ok : string) (err : option string) : Prop :=
  forall d i x fr to p ch, fd_id d = Some i -> plain_reply (request_layer k) x ch ->
    let st := apply_registers [] (par_send repaired c (feat_of k d)) in
    (let a := par_recv repaired c st (reply_feat x (Some "result") i fr to p ch) in
     (ups a, downs a, raises a) = ([ok], [], 0)) /\
    (let a := par_recv repaired c st (reply_feat x (Some "error") i fr to p ch) in
     (ups a, downs a, raises a) = (match err with Some e => [e] | None => [] end, [], 0)).

Theorem reply_once_thm : forall n ok err, In (n, ok, err) requests ->
  exists k, find_kind n = Some k /\ forall c, supported c k = true -> reply_once_prop c k ok err.
Proof.
  intros n ok err Hin. pose proof requests_register as T. rewrite Forall_forall in T.
  specialize (T _ Hin). cbn in T. destruct T as [k [Hk [Hreg Hc]]].
  exists k. split; [exact Hk|]. intros c Hs d i x fr to p ch Hid Hpl.
  destruct (Hc c Hs) as [Hmem Hras]. cbv zeta. rewrite (Hras d i Hid).
  exact (reply_single c (request_layer k) Hreg Hmem i ok err x fr to p ch Hpl).
Qed.
