(* C06 — replies to requests that registered a callback: exactly one entity, of the class the
   callback builds, reaches the application; the other layers of the group stay silent. *)
From Coq Require Import Arith Lia.
From YV Require Import C06.C06Base C06.C06Dispatch C06.C06Kinds Gen.C06Layers Gen.C06HandleMaps.

Definition reply_feat (x t : ostr) (i : string) (fr to p : ostr) (ch : list (string * ostr)) : feat :=
  mkFeat "iq" x t (Some i) fr to p [] ch false None false false false false false.

(* a reply is not itself a server ping; only the reply to a contact sync (registered by LContacts) carries <sync/> *)
Definition plain_reply (l : lid) (x : ostr) (ch : list (string * ostr)) : Prop :=
  oeq x "urn:xmpp:ping" = false /\
  (lid_eqb l LContacts || negb (existsb (fun c => String.eqb (fst c) "sync") ch)) = true.

Definition registering : list lid := [LIq; LPresence; LContacts; LGroups; LMedia; LProfiles].

Lemma reply_single : forall c l, In l registering -> existsb (lid_eqb l) (protocol_layers c) = true ->
  forall i ok err x fr to p ch, plain_reply l x ch ->
    (let a := par_recv repaired c [(l, i, Some ok, err)] (reply_feat x (Some "result") i fr to p ch) in
     (ups a, downs a, raises a) = ([ok], [], 0)) /\
    (let a := par_recv repaired c [(l, i, Some ok, err)] (reply_feat x (Some "error") i fr to p ch) in
     (ups a, downs a, raises a) = (match err with Some e => [e] | None => [] end, [], 0)).
Proof.
  intros c l Hl Hin i ok err x fr to p ch [Hp Hsy].
  destruct c as [[] [] [] []];
  (repeat (destruct Hl as [<-|Hl]; [ first [ (vm_compute in Hin; discriminate Hin) | idtac ] | ])); try contradiction;
  cbv zeta; unfold reply_feat; cbn;
  unfold layer_recv, registry_recv, reg_find, has_child; cbn;
  rewrite ?String.eqb_refl; cbn;
  unfold recv_iq, recv_contacts, has_child; cbn; rewrite ?Hp; cbn in Hsy;
  try (apply Bool.negb_true_iff in Hsy; rewrite ?Hsy); cbn;
  destruct err; split; reflexivity.
Qed.

Definition request_layer (k : kind) : lid :=
  match k_module k with
  | Some MGroups => LGroups | Some MMedia => LMedia | Some MProfiles => LProfiles | Some MPrivacy => LPrivacy
  | None => if oeq (k_xmlns k) "w:p" then LIq
            else if oeq (k_xmlns k) "urn:xmpp:whatsapp:sync" then LContacts else LPresence
  end.

Definition registers_as (c : flags) (k : kind) (ok : string) (err : option string) : Prop :=
  forall d i, fd_id d = Some i ->
    apply_registers [] (par_send repaired c (feat_of k d)) = [(request_layer k, i, Some ok, err)].

Lemma requests_register :
  Forall (fun r => match r with (n, ok, err) =>
            exists k, find_kind n = Some k /\ In (request_layer k) registering /\
                      forall c, supported c k = true ->
                                existsb (lid_eqb (request_layer k)) (protocol_layers c) = true /\
                                registers_as c k ok err end) requests.
Proof.
  unfold requests.
  repeat (apply Forall_cons; [
    eexists; split; [ vm_compute; reflexivity | split; [ vm_compute; tauto | ] ];
    intros [[] [] [] []] Hs; try (vm_compute in Hs; discriminate Hs);
    (split; [ vm_compute; reflexivity | intros [di df dt dp dty dc dch] i Hid; cbn in Hid; subst di; vm_compute; reflexivity ]) | ]).
  apply Forall_nil.
Qed.

Definition reply_once_prop (c : flags) (k : kind) (ok : string) (err : option string) : Prop :=
  forall d i x fr to p ch, fd_id d = Some i -> plain_reply (request_layer k) x ch ->
    let st := apply_registers [] (par_send repaired c (feat_of k d)) in
    (let a := par_recv repaired c st (reply_feat x (Some "result") i fr to p ch) in
     (ups a, downs a, raises a) = ([ok], [], 0)) /\
    (let a := par_recv repaired c st (reply_feat x (Some "error") i fr to p ch) in
     (ups a, downs a, raises a) = (match err with Some e => [e] | None => [] end, [], 0)).

Theorem reply_once_thm : forall n ok err, In (n, ok, err) requests ->
  exists k, find_kind n = Some k /\ forall c, supported c k = true -> reply_once_prop c k ok err.
Proof.
  intros n ok err Hin. pose proof requests_register as T. rewrite Forall_forall in T.
  specialize (T _ Hin). cbn in T. destruct T as [k [Hk [Hreg Hc]]].
  exists k. split; [exact Hk|]. intros c Hs d i x fr to p ch Hid Hpl.
  destruct (Hc c Hs) as [Hmem Hras]. cbv zeta. rewrite (Hras d i Hid).
  exact (reply_single c (request_layer k) Hreg Hmem i ok err x fr to p ch Hpl).
Qed.

(* ---------------------------------------------------------------- the pending request survives other traffic
   Between the request and its reply anything else may arrive -- in particular a non-reply iq (the server's
   ping, type get) or a reply for some other id, even one that happens to carry the pending request's id
   but is not of type result / error.  None of that touches the entry, so the reply still yields exactly
   the one entity.  (processIqRegistry removes an entry only for a result / error with that id.) *)
Definition is_reply_for (i : string) (f : feat) : bool :=
  String.eqb (f_tag f) "iq" && (oeq (f_type f) "result" || oeq (f_type f) "error") &&
  match f_id f with Some j => String.eqb j i | None => false end.

Lemma remove_other : forall ls l i ok err j, String.eqb j i = false ->
  fold_left (fun s l' => reg_remove s l' j) ls [(l, i, ok, err)] = [(l : lid, i, ok, err) : reg_entry].
Proof.
  induction ls as [|l' ls IH]; intros l i ok err j Hj; [reflexivity|].
  cbn [fold_left]. unfold reg_remove at 2. cbn [filter].
  rewrite Hj, Bool.andb_false_r. cbn [negb].
  apply IH. exact Hj.
Qed.

Lemma consume_other : forall ls l i ok err f, is_reply_for i f = false ->
  consume [(l, i, ok, err)] ls f = [(l, i, ok, err)].
Proof.
  intros ls l i ok err f H. unfold consume, is_reply_for in *.
  destruct (String.eqb (f_tag f) "iq" && (oeq (f_type f) "result" || oeq (f_type f) "error")); [|reflexivity].
  cbn [andb] in H. destruct (f_id f) as [j|]; [|reflexivity].
  apply remove_other. exact H.
Qed.

Theorem pending_survives_thm : forall c ax l i ok err fs,
  forallb (fun f => negb (is_reply_for i f)) fs = true ->
  fold_left (st_after_recv c ax) fs [(l, i, ok, err)] = [(l, i, ok, err)].
Proof.
  intros c ax l i ok err fs. induction fs as [|f fs IH]; intros H; [reflexivity|].
  cbn [forallb] in H. apply Bool.andb_true_iff in H. destruct H as [Hf Hr].
  cbn [fold_left]. unfold st_after_recv at 2. rewrite consume_other; [exact (IH Hr)|].
  apply Bool.negb_true_iff. exact Hf.
Qed.

Theorem reply_once_after_traffic_thm : forall n ok err, In (n, ok, err) requests ->
  exists k, find_kind n = Some k /\ forall c, supported c k = true ->
    forall ax d i x fr to p ch fs, fd_id d = Some i -> plain_reply (request_layer k) x ch ->
    forallb (fun f => negb (is_reply_for i f)) fs = true ->
    let st := fold_left (st_after_recv c ax) fs (apply_registers [] (par_send repaired c (feat_of k d))) in
    (let a := par_recv repaired c st (reply_feat x (Some "result") i fr to p ch) in
     (ups a, downs a, raises a) = ([ok], [], 0)) /\
    (let a := par_recv repaired c st (reply_feat x (Some "error") i fr to p ch) in
     (ups a, downs a, raises a) = (match err with Some e => [e] | None => [] end, [], 0)).
Proof.
  intros n ok err Hin. pose proof requests_register as T. rewrite Forall_forall in T.
  specialize (T _ Hin). cbn in T. destruct T as [k [Hk [Hreg Hc]]].
  exists k. split; [exact Hk|]. intros c Hs ax d i x fr to p ch fs Hid Hpl Hfs.
  destruct (Hc c Hs) as [Hmem Hras]. cbv zeta. rewrite (Hras d i Hid).
  rewrite (pending_survives_thm c ax _ i (Some ok) err fs Hfs).
  exact (reply_single c (request_layer k) Hreg Hmem i ok err x fr to p ch Hpl).
Qed.

(* the traffic hypothesis is satisfiable by the interesting case: a server ping (type get) carrying the very id *)
Example ping_with_pending_id_is_traffic :
  is_reply_for "7" (mkFeat "iq" (Some "urn:xmpp:ping") (Some "get") (Some "7") (Some "s.whatsapp.net") None None []
                           [] false None false false false false false) = false.
Proof. reflexivity. Qed.

(* the shape a careless "pop first, look at the type afterwards" registry has: any iq with the id consumes *)
Definition consume_popfirst (st : registry) (ls : list lid) (f : feat) : registry :=
  if String.eqb (f_tag f) "iq" then
    match f_id f with Some i => fold_left (fun s l => reg_remove s l i) ls st | None => st end
  else st.

Theorem popfirst_refuted : exists ls l i ok err f, is_reply_for i f = false /\
  consume_popfirst [(l, i, ok, err)] ls f = [] /\ consume [(l, i, ok, err)] ls f = [(l, i, ok, err)].
Proof.
  exists [LPresence], LPresence, "7"%string, (Some "ResultLastseenIq"%string), None,
    (mkFeat "iq" (Some "urn:xmpp:ping") (Some "get") (Some "7") (Some "s.whatsapp.net") None None []
            [] false None false false false false false).
  vm_compute. repeat split.
Qed.

(* ---------------------------------------------------------------- routing does not depend on the past
   What the stack does with a stanza that is not a reply (anything but an iq of type result / error) is the same
   whatever was sent or received before on that stack instance: no request registered earlier, in either
   direction, changes which layers see it.  (Sending never reads the registry at all: par_send / stack_send
   have no registry argument.)  A routing cache keyed by the tag and filled by the first stanza of either
   direction (seed C06-6) is exactly a dependence on the past this excludes. *)
Definition is_reply (f : feat) : bool :=
  String.eqb (f_tag f) "iq" && (oeq (f_type f) "result" || oeq (f_type f) "error").

Lemma registry_recv_nonreply : forall st l f, is_reply f = false -> registry_recv st l f = None.
Proof.
  intros st l f H. unfold registry_recv, is_reply in *.
  destruct (String.eqb (f_tag f) "iq"); [|reflexivity]. cbn [andb] in H.
  apply Bool.orb_false_iff in H. destruct H as [H1 H2].
  destruct (reg_find st l (f_id f)) as [[[[? ?] ?] ?]|]; [|reflexivity].
  rewrite H1, H2. reflexivity.
Qed.

Theorem recv_history_independent_thm : forall v c ax st f, is_reply f = false ->
  stack_recv v c ax st f = stack_recv v c ax [] f.
Proof.
  intros v c ax st f H.
  assert (Hp : par_recv v c st f = par_recv v c [] f).
  { unfold par_recv. apply flat_map_ext. intros l. unfold layer_recv.
    rewrite !registry_recv_nonreply by exact H. reflexivity. }
  unfold stack_recv. destruct ax; [|exact Hp].
  unfold ctl_recv, pair_recv, axsend_recv, axrecv_recv.
  rewrite !registry_recv_nonreply by exact H. rewrite Hp. reflexivity.
Qed.

(* ---------------------------------------------------------------- the callback may send again (re-entrancy)
   processIqRegistry forgets the pending request FIRST and runs its callback afterwards.  The callback hands the answer
   to the application, which may - from inside that very call - send the same request entity again (same id): the
   re-sent request is then registered like any other, and its answer is delivered.  A registry that runs the callback
   first and forgets the id afterwards (seed C06-13: the removal moved into a `finally`) un-registers the retry. *)
Definition process_then_callback (st : registry) (l : lid) (i : string) (cb : registry -> registry) : registry :=
  cb (reg_remove st l i).
Definition callback_then_remove (st : registry) (l : lid) (i : string) (cb : registry -> registry) : registry :=
  reg_remove (cb st) l i.
Definition resend (l : lid) (i : string) (ok err : option string) : registry -> registry :=
  fun st => (l, i, ok, err) :: st.

Lemma lid_eqb_refl' : forall l, lid_eqb l l = true.
Proof. destruct l; reflexivity. Qed.

Theorem retry_in_handler_registered_thm : forall st l i ok err x fr to p ch,
  let st' := process_then_callback st l i (resend l i ok err) in
  reg_find st' l (Some i) = Some (l, i, ok, err) /\
  registry_recv st' l (reply_feat x (Some "result") i fr to p ch) =
    Some (match ok with Some c => [Up c] | None => [] end) /\
  registry_recv st' l (reply_feat x (Some "error") i fr to p ch) =
    Some (match err with Some c => [Up c] | None => [] end).
Proof.
  intros st l i ok err x fr to p ch st'.
  assert (H : reg_find st' l (Some i) = Some (l, i, ok, err)).
  { unfold st', process_then_callback, resend, reg_find. cbn [find].
    rewrite lid_eqb_refl', String.eqb_refl. reflexivity. }
  split; [exact H|].
  unfold registry_recv, reply_feat. cbn [f_tag f_id f_type].
  change (String.eqb "iq" "iq") with true. cbv iota.
  rewrite H. split; reflexivity.
Qed.

Lemma find_none_all {A} (f : A -> bool) : forall l, (forall e, In e l -> f e = false) -> find f l = None.
Proof.
  induction l as [|a l IH]; intros H; [reflexivity|]. cbn [find].
  rewrite (H a (or_introl eq_refl)). apply IH. intros e He. apply H. right. exact He.
Qed.

Theorem callback_then_remove_refuted_thm : forall st l i ok err x t fr to p ch,
  registry_recv (callback_then_remove st l i (resend l i ok err)) l (reply_feat x t i fr to p ch) = None.
Proof.
  intros st l i ok err x t fr to p ch.
  unfold registry_recv, reply_feat. cbn [f_tag f_id f_type].
  change (String.eqb "iq" "iq") with true. cbv iota.
  assert (H : reg_find (callback_then_remove st l i (resend l i ok err)) l (Some i) = None).
  { unfold callback_then_remove, reg_remove, reg_find.
    apply find_none_all. intros e He. apply filter_In in He. destruct He as [_ He].
    destruct e as [[[l' i'] ok'] err']. apply Bool.negb_true_iff in He. exact He. }
  rewrite H. reflexivity.
Qed.
