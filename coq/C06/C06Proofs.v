(* C06 — proofs about the dispatch model.  The table theorems are complete case analyses over
   the 16 flag selections and the rows of C06Kinds.kinds, with every field symbolic; the generic
   theorems are case analyses on string equality with the guard constants. *)
From Coq Require Import Arith Lia.
From YV Require Import C06.C06Base C06.C06Dispatch C06.C06Kinds Gen.C06Layers Gen.C06HandleMaps.

(* ---------------------------------------------------------------- the generated tables are the ones modelled *)
Lemma stack_shape_thm : default_upper = [SOne LAxControl; SPar [LAxSend; LAxRecv]; SProtocolGroup].
Proof. reflexivity. Qed.

(* ---------------------------------------------------------------- send table *)
Definition send_once_prop (c : flags) (k : kind) (d : fields) : Prop :=
  let a := par_send repaired c (feat_of k d) in
  downs a = [SEntity (feat_of k d)] /\ ups a = [] /\ raises a = 0 /\ Nat.leb (length (registers a)) 1 = true.

Definition send_silent_prop (c : flags) (k : kind) (d : fields) : Prop :=
  par_send repaired c (feat_of k d) = [].

Lemma tuple3 {A B C} (a a' : A) (b b' : B) (c c' : C) :
  (a, b, c) = (a', b', c') -> a = a' /\ b = b' /\ c = c'.
Proof. intros H; inversion H; auto. Qed.
Lemma tuple4 {A B C D} (a a' : A) (b b' : B) (c c' : C) (d d' : D) :
  (a, b, c, d) = (a', b', c', d') -> a = a' /\ b = b' /\ c = c' /\ d = d'.
Proof. intros H; inversion H; auto. Qed.

Ltac kill_hyp H := vm_compute in H; discriminate H.

Ltac table_tac tac :=
  unfold kinds;
  repeat (apply Forall_cons; [ tac | ]); first [ apply Forall_nil | apply Forall_cons; [ tac | ] ].

Lemma send_table :
  Forall (fun k => forall c d, k_send k = true ->
            (supported c k = true -> send_once_prop c k d) /\
            (supported c k = false -> send_silent_prop c k d)) kinds.
Proof.
  table_tac ltac:(solve [intros c d Hs; first [ kill_hyp Hs | destruct c as [[] [] [] []]; split; intros Hsup; first [ kill_hyp Hsup |
                         unfold send_once_prop, send_silent_prop; cbv zeta; try apply tuple4; vm_compute; reflexivity ] ] ]).
Qed.

Theorem send_once_thm : forall c k d, In k kinds -> k_send k = true -> supported c k = true ->
  send_once_prop c k d.
Proof.
  intros c k d Hin Hs Hsup. pose proof send_table as T. rewrite Forall_forall in T.
  destruct (T k Hin c d Hs) as [A _]. exact (A Hsup).
Qed.

Theorem send_off_silent_thm : forall c k d, In k kinds -> k_send k = true -> supported c k = false ->
  par_send repaired c (feat_of k d) = [].
Proof.
  intros c k d Hin Hs Hsup. pose proof send_table as T. rewrite Forall_forall in T.
  destruct (T k Hin c d Hs) as [_ A]. exact (A Hsup).
Qed.

(* downward through the encryption layers: a non-message stanza arrives at the bottom exactly once *)
Theorem lower_send_once_thm : forall s, String.eqb (stanza_tag s) "message" = false ->
  lower_send s = [Down s].
Proof. intros s H. unfold lower_send, axsend_send, axrecv_send, ctl_send. rewrite H. reflexivity. Qed.

(* ---------------------------------------------------------------- recv table *)
Definition expected_up (k : kind) : list string := match k_up k with Some c => [c] | None => [] end.

Definition recv_once_prop (c : flags) (ax : bool) (k : kind) (d : fields) : Prop :=
  let a := stack_recv repaired c ax [] (feat_of k d) in
  ups a = expected_up k /\ raises a = 0 /\ answers a = expected_answer k d.

Definition recv_silent_prop (c : flags) (ax : bool) (k : kind) (d : fields) : Prop :=
  let a := stack_recv repaired c ax [] (feat_of k d) in
  ups a = [] /\ raises a = 0 /\
  answers a = match k_answer k with ANotifAck => expected_answer k d | _ => [] end.

Lemma recv_table :
  Forall (fun k => forall c ax d, k_send k = false ->
            (supported c k = true -> recv_once_prop c ax k d) /\
            (supported c k = false -> recv_silent_prop c ax k d)) kinds.
Proof.
  table_tac ltac:(solve [intros c ax d Hs; first [ kill_hyp Hs | destruct c as [[] [] [] []], ax; split; intros Hsup; first [ kill_hyp Hsup |
                         unfold recv_once_prop, recv_silent_prop; cbv zeta; apply tuple3; vm_compute; reflexivity ] ] ]).
Qed.

Theorem recv_once_thm : forall c ax k d, In k kinds -> k_send k = false -> supported c k = true ->
  recv_once_prop c ax k d.
Proof.
  intros c ax k d Hin Hs Hsup. pose proof recv_table as T. rewrite Forall_forall in T.
  destruct (T k Hin c ax d Hs) as [A _]. exact (A Hsup).
Qed.

Theorem recv_off_silent_thm : forall c ax k d, In k kinds -> k_send k = false -> supported c k = false ->
  recv_silent_prop c ax k d.
Proof.
  intros c ax k d Hin Hs Hsup. pose proof recv_table as T. rewrite Forall_forall in T.
  destruct (T k Hin c ax d Hs) as [_ A]. exact (A Hsup).
Qed.
