(* C06 / C07 — executable model of stanza / entity dispatch through the assembled stack.

   Source modelled (as it is, guards in source order):
     yowsup/layers/__init__.py         YowProtocolLayer.receive/send/processIqRegistry/_sendIq,
                                       YowParallelLayer.receive/send (fan-out, shared toUpper/toLower)
     yowsup/layers/protocol_*/layer.py every handler named in a handleMap
     yowsup/layers/auth/layer_authentication.py
     yowsup/layers/axolotl/layer_control.py, layer_send.py, layer_receive.py  (receive/send entry points)
   Which layers exist (per flag selection) and which tags each layer claims come from the
   generated files Gen/C06Layers.v and Gen/C06HandleMaps.v.

   A stanza / entity is abstracted to the features the guards read.  Definitions only.   *)
From YV Require Import C06.C06Base Gen.C06Layers Gen.C06HandleMaps.

(* ---------------------------------------------------------------- features *)
Record feat := mkFeat {
  f_tag : string;
  f_xmlns : ostr;            (* node["xmlns"] / entity.getXmlns() *)
  f_type : ostr;             (* node["type"]  / entity.getType()  *)
  f_id : ostr;
  f_from : ostr;
  f_to : ostr;
  f_participant : ostr;
  f_mro : list string;       (* entity class and its bases, most derived first (send side) *)
  f_children : list (string * ostr);   (* child tags in order, each with its call-id attribute *)
  f_has_proto : bool;
  f_mediatype : ostr;        (* proto@mediatype *)
  f_conv : bool;             (* decoded payload: conversation non-empty *)
  f_ext : bool;              (*                  extended text present *)
  f_skdm : bool;             (*                  sender-key distribution present *)
  f_more : bool;             (*                  a (known) field other than the key distribution is set *)
  f_enq : bool               (* the send layer still holds a sent message with this id *)
}.

(* candidate fixes shipped under fixes/: the model covers the repaired and the unrepaired code *)
Record variant := mkVariant {
  v_ctl_participant : bool;   (* control layer passes participant= to its encrypt-notification acks *)
  v_account_return : bool;    (* AccountIbProtocolEntity.fromProtocolTreeNode returns the entity (repaired upstream) *)
  v_unregister : bool;        (* the profiles layer forwards UnregisterIqProtocolEntity *)
  v_text_skdm_only : bool;    (* messages layer: no receipt only for a payload that is NOTHING BUT a key distribution
                                 (unrepaired: no receipt whenever a key distribution is on board) *)
  v_media_skdm_guard : bool   (* media layer ignores a payload that is nothing but a key distribution
                                 (unrepaired: dispatches on the mediatype attribute alone) *)
}.
Definition repaired : variant := mkVariant true true true true true.
Definition unrepaired : variant := mkVariant false false false false false.

(* the payload is the pkmsg part of a group message: ListFields() == [sender_key_distribution_message] *)
Definition skdm_only (f : feat) : bool := f_skdm f && negb (f_more f).

Inductive stanza :=
| SEntity (e : feat)                                   (* entity.toProtocolTreeNode() of the entity sent *)
| SAck (id : ostr) (cls : string) (type to participant : ostr)
| SReceipt (id to participant type callid : ostr)
| SPong (id : ostr) (to : string) (xmlns : string)
| SGetKeys                                             (* iq xmlns=encrypt type=get issued by an axolotl layer *)
| SSetKeys.                                            (* iq xmlns=encrypt type=set issued by the control layer *)

Inductive action :=
| Up (cls : string)                     (* an entity of this class handed to toUpper *)
| Down (s : stanza)                     (* a stanza handed to toLower *)
| Raise                                 (* the handler raised *)
| Register (l : lid) (id : ostr) (ok err : option string)   (* _sendIq: reply classes of the callbacks *)
| Forward                               (* axolotl layers: the node itself handed to toUpper *)
| Crypto.                               (* enters encryption / decryption (C03's subject) *)

(* iq registry of every layer: (layer, id, class produced by the success callback, by the error callback) *)
Definition registry := list (lid * string * option string * option string).

Definition has_child (f : feat) (t : string) : bool :=
  existsb (fun c => String.eqb (fst c) t) (f_children f).

Definition child_callid (f : feat) (t : string) : ostr :=
  match find (fun c => String.eqb (fst c) t) (f_children f) with
  | Some c => snd c
  | None => None
  end.

Definition head_class (f : feat) : string :=
  match f_mro f with c :: _ => c | [] => "" end.

Definition is_instance (f : feat) (c : string) : bool := mem c (f_mro f).

(* ---------------------------------------------------------------- receive handlers *)
Definition stream_error_types : list string := ["conflict"; "ack"; "xml-not-well-formed"].

Definition recv_auth (f : feat) : list action :=
  if String.eqb (f_tag f) "stream:features" then [Up "StreamFeaturesProtocolEntity"]
  else if String.eqb (f_tag f) "failure" then [Up "FailureProtocolEntity"]
  else if String.eqb (f_tag f) "success" then [Up "SuccessProtocolEntity"]
  else if String.eqb (f_tag f) "stream:error" then
    if existsb (fun c => mem (fst c) stream_error_types) (f_children f)
    then [Up "StreamErrorProtocolEntity"] else [Raise]
  else [Raise].

(* OutgoingReceiptProtocolEntity(...).toProtocolTreeNode() *)
Definition receipt (id to participant : ostr) (read : bool) (callid : ostr) : stanza :=
  SReceipt id to (nz participant) (if read then Some "read" else None) (nz callid).

(* OutgoingAckProtocolEntity(...).toProtocolTreeNode() *)
Definition ack (id : ostr) (cls : string) (type to participant : ostr) : stanza :=
  SAck id cls (nz type) to (nz participant).

Definition recv_messages (v : variant) (f : feat) : list action :=
  if f_has_proto f then
    match f_mediatype f with
    | None =>
      if f_conv f then [Up "TextMessageProtocolEntity"]
      else if f_ext f then [Up "ExtendedTextMessageProtocolEntity"]
      else if negb (if v_text_skdm_only v then skdm_only f else f_skdm f)
           then [Down (receipt (f_id f) (f_from f) (f_participant f) false None)]
      else []
    | Some _ => []
    end
  else [].

Definition media_class (mt : ostr) : option string :=
  if oeq mt "image" then Some "ImageDownloadableMediaMessageProtocolEntity"
  else if oeq mt "sticker" then Some "StickerDownloadableMediaMessageProtocolEntity"
  else if oeq mt "audio" || oeq mt "ptt" then Some "AudioDownloadableMediaMessageProtocolEntity"
  else if oeq mt "video" || oeq mt "gif" then Some "VideoDownloadableMediaMessageProtocolEntity"
  else if oeq mt "location" then Some "LocationMediaMessageProtocolEntity"
  else if oeq mt "contact" then Some "ContactMediaMessageProtocolEntity"
  else if oeq mt "document" then Some "DocumentDownloadableMediaMessageProtocolEntity"
  else if oeq mt "url" then Some "ExtendedTextMediaMessageProtocolEntity"
  else None.

Definition recv_media (v : variant) (f : feat) : list action :=
  if String.eqb (f_tag f) "message" then
    if oeq (f_type f) "media" then
      if f_has_proto f then
        if v_media_skdm_guard v && skdm_only f then [] else
        match media_class (f_mediatype f) with
        | Some c => [Up c]
        | None => [Down (receipt (f_id f) (f_from f) (f_participant f) true None)]
        end
      else [Raise]                                   (* None.getAttributeValue *)
    else []
  else [].                                           (* recvIq: empty body *)

Definition recv_ib (v : variant) (f : feat) : list action :=
  if has_child f "dirty" then [Up "DirtyIbProtocolEntity"]
  else if has_child f "offline" then [Up "OfflineIbProtocolEntity"]
  else if has_child f "account" then
    [Up (if v_account_return v then "AccountIbProtocolEntity" else "<None>")]
  else [].

Definition recv_iq (f : feat) : list action :=
  if oeq (f_xmlns f) "urn:xmpp:ping" then [Down (SPong (f_id f) "s.whatsapp.net" "w:p")] else [].

Definition notification_ack (f : feat) : stanza :=
  ack (f_id f) "notification" (f_type f) (f_from f) (f_participant f).

Definition recv_notifications (f : feat) : list action :=
  if oeq (f_type f) "picture" then
    if has_child f "set" then [Up "SetPictureNotificationProtocolEntity"; Down (notification_ack f)]
    else if has_child f "delete" then [Up "DeletePictureNotificationProtocolEntity"; Down (notification_ack f)]
    else [Raise]
  else if oeq (f_type f) "status" then [Up "StatusNotificationProtocolEntity"; Down (notification_ack f)]
  else [Down (notification_ack f)].

Definition recv_contacts (f : feat) : list action :=
  if String.eqb (f_tag f) "notification" then
    if oeq (f_type f) "contacts" then
      if has_child f "remove" then [Up "RemoveContactNotificationProtocolEntity"]
      else if has_child f "add" then [Up "AddContactNotificationProtocolEntity"]
      else if has_child f "update" then [Up "UpdateContactNotificationProtocolEntity"]
      else if has_child f "sync" then [Up "ContactsSyncNotificationProtocolEntity"]
      else []
    else []
  else
    if oeq (f_type f) "result" && has_child f "sync" then [Up "ResultSyncIqProtocolEntity"] else [].

Definition recv_groups (f : feat) : list action :=
  if oeq (f_type f) "w:gp2" then
    if has_child f "subject" then [Up "SubjectGroupsNotificationProtocolEntity"]
    else if has_child f "create" then [Up "CreateGroupsNotificationProtocolEntity"]
    else if has_child f "remove" then [Up "RemoveGroupsNotificationProtocolEntity"]
    else if has_child f "add" then [Up "AddGroupsNotificationProtocolEntity"]
    else []
  else [].

(* CallProtocolEntity.fromProtocolTreeNode: the first of these children decides type and call id *)
Definition call_is_offer (f : feat) : bool := has_child f "offer".

Definition recv_calls (f : feat) : list action :=
  (if call_is_offer f
   then Down (receipt (f_id f) (f_from f) None false (child_callid f "offer"))
   else Down (ack (f_id f) "call" None (f_from f) None))
  :: [Up "CallProtocolEntity"].

Definition handler_recv (v : variant) (l : lid) (f : feat) : list action :=
  match l with
  | LAuth => recv_auth f
  | LMessages => recv_messages v f
  | LMedia => recv_media v f
  | LReceipts => [Up "IncomingReceiptProtocolEntity"]
  | LAcks => [Up "IncomingAckProtocolEntity"]
  | LPresence => [Up "PresenceProtocolEntity"]
  | LChatstate => [Up "IncomingChatstateProtocolEntity"]
  | LIb => recv_ib v f
  | LIq => recv_iq f
  | LNotifications => recv_notifications f
  | LContacts => recv_contacts f
  | LGroups => recv_groups f
  | LCalls => recv_calls f
  | LPrivacy | LProfiles => []
  | LAxControl | LAxSend | LAxRecv => []
  end.

(* ---------------------------------------------------------------- send handlers *)
Definition sent (f : feat) : list action := [Down (SEntity f)].
Definition sent_registered (l : lid) (f : feat) (ok err : option string) : list action :=
  [Register l (f_id f) ok err; Down (SEntity f)].

Definition ERR := Some "ErrorIqProtocolEntity".
(* ResultIqProtocolEntity.fromProtocolTreeNode is the inherited IqProtocolEntity one: the object built is an IqProtocolEntity *)
Definition RES := Some "IqProtocolEntity".

Definition send_iq (f : feat) : list action :=
  if oeq (f_xmlns f) "w:p" then sent_registered LIq f RES ERR
  else if oeq (f_xmlns f) "urn:xmpp:whatsapp:push" || oeq (f_xmlns f) "w"
          || oeq (f_xmlns f) "urn:xmpp:whatsapp:account" || oeq (f_xmlns f) "encrypt" then sent f
  else [].

Definition send_media (f : feat) : list action :=
  if String.eqb (f_tag f) "message" then
    if oeq (f_type f) "media" then sent f else []
  else
    if oeq (f_type f) "set" && oeq (f_xmlns f) "w:m"
    then sent_registered LMedia f (Some "ResultRequestUploadIqProtocolEntity") ERR else [].

Definition send_presence (f : feat) : list action :=
  if String.eqb (f_tag f) "presence" then sent f
  else if oeq (f_xmlns f) "jabber:iq:last"
       then sent_registered LPresence f (Some "ResultLastseenIqProtocolEntity") ERR else [].

(* YowGroupsProtocolLayer.HANDLE with the callbacks chosen in sendIq *)
Definition groups_callbacks (c : string) : option (option string * option string) :=
  if String.eqb c "SubjectGroupsIqProtocolEntity" then Some (RES, ERR)
  else if String.eqb c "CreateGroupsIqProtocolEntity" then Some (Some "SuccessCreateGroupsIqProtocolEntity", ERR)
  else if String.eqb c "ParticipantsGroupsIqProtocolEntity" then Some (Some "ListParticipantsResultIqProtocolEntity", ERR)
  else if String.eqb c "AddParticipantsIqProtocolEntity"
       then Some (Some "SuccessAddParticipantsIqProtocolEntity", Some "FailureAddParticipantsIqProtocolEntity")
  else if String.eqb c "PromoteParticipantsIqProtocolEntity" then Some (RES, ERR)
  else if String.eqb c "DemoteParticipantsIqProtocolEntity" then Some (RES, ERR)
  else if String.eqb c "RemoveParticipantsIqProtocolEntity" then Some (Some "SuccessRemoveParticipantsIqProtocolEntity", ERR)
  else if String.eqb c "ListGroupsIqProtocolEntity" then Some (Some "ListGroupsResultIqProtocolEntity", ERR)
  else if String.eqb c "LeaveGroupsIqProtocolEntity" then Some (Some "SuccessLeaveGroupsIqProtocolEntity", ERR)
  else if String.eqb c "InfoGroupsIqProtocolEntity" then Some (Some "InfoGroupsResultIqProtocolEntity", ERR)
  else None.

Definition send_groups (f : feat) : list action :=
  match groups_callbacks (head_class f) with
  | Some (ok, err) => sent_registered LGroups f ok err
  | None => []
  end.

Definition send_profiles (v : variant) (f : feat) : list action :=
  if oeq (f_xmlns f) "w:profile:picture" then
    if oeq (f_type f) "get" then sent_registered LProfiles f (Some "ResultGetPictureIqProtocolEntity") ERR
    else if oeq (f_type f) "set" then sent_registered LProfiles f (Some "ResultGetPictureIqProtocolEntity") ERR
    else if oeq (f_type f) "delete" then sent_registered LProfiles f RES ERR
    else []
  else if oeq (f_xmlns f) "privacy" then sent_registered LProfiles f (Some "ResultPrivacyIqProtocolEntity") ERR
  else if is_instance f "GetStatusesIqProtocolEntity"
       then sent_registered LProfiles f (Some "ResultStatusesIqProtocolEntity") ERR
  else if is_instance f "SetStatusIqProtocolEntity" then sent_registered LProfiles f RES ERR
  else if v_unregister v && is_instance f "UnregisterIqProtocolEntity" then sent f
  else [].

Definition handler_send (v : variant) (l : lid) (f : feat) : list action :=
  match l with
  | LAuth => []
  | LMessages => if oeq (f_type f) "text" then sent f else []
  | LMedia => send_media f
  | LReceipts | LAcks | LChatstate => sent f
  | LPresence => send_presence f
  | LIb => if String.eqb (head_class f) "CleanIqProtocolEntity" then sent f else []
  | LIq => send_iq f
  | LNotifications => if String.eqb (f_tag f) "notification" then sent f else []
  | LCalls => if String.eqb (f_tag f) "call" then sent f else []
  | LContacts => if oeq (f_xmlns f) "urn:xmpp:whatsapp:sync"
                 then sent_registered LContacts f (Some "ResultSyncIqProtocolEntity") ERR else []
  | LGroups => send_groups f
  | LPrivacy => if oeq (f_xmlns f) "jabber:iq:privacy" then sent f else []
  | LProfiles => send_profiles v f
  | LAxControl | LAxSend | LAxRecv => []
  end.

(* ---------------------------------------------------------------- YowProtocolLayer *)
Definition claims (l : lid) (tag : string) (sending : bool) : bool :=
  existsb (fun e => match e with (t, r, s) => String.eqb tag t && (if sending then s else r) end)
          (handle_map l).

Definition reg_entry := (lid * string * option string * option string)%type.

Definition reg_find (st : registry) (l : lid) (id : ostr) : option reg_entry :=
  find (fun e => match e, id with
                 | (l', i', _, _), Some i => lid_eqb l l' && String.eqb i i'
                 | _, None => false                      (* `None in self.iqRegistry` *)
                 end) st.

Definition reg_remove (st : registry) (l : lid) (i : string) : registry :=
  filter (fun e => match e with (l', i', _, _) => negb (lid_eqb l l' && String.eqb i i') end) st.

(* processIqRegistry: Some acts = consumed (only result / error replies consume a pending request) *)
Definition registry_recv (st : registry) (l : lid) (f : feat) : option (list action) :=
  if String.eqb (f_tag f) "iq" then
    match reg_find st l (f_id f) with
    | Some (_, _, ok, err) =>
      if oeq (f_type f) "result" then Some (match ok with Some c => [Up c] | None => [] end)
      else if oeq (f_type f) "error" then Some (match err with Some c => [Up c] | None => [] end)
      else None
    | None => None
    end
  else None.

Definition layer_recv (v : variant) (st : registry) (l : lid) (f : feat) : list action :=
  match registry_recv st l f with
  | Some acts => acts
  | None => if claims l (f_tag f) false then handler_recv v l f else []
  end.

Definition layer_send (v : variant) (l : lid) (f : feat) : list action :=
  if claims l (f_tag f) true then handler_send v l f else [].

(* registry after the actions of one stanza/entity *)
Definition consume (st : registry) (ls : list lid) (f : feat) : registry :=
  if String.eqb (f_tag f) "iq" && (oeq (f_type f) "result" || oeq (f_type f) "error") then
    match f_id f with
    | Some i => fold_left (fun s l => reg_remove s l i) ls st
    | None => st
    end
  else st.

Definition apply_registers (st : registry) (acts : list action) : registry :=
  fold_left (fun s a => match a with
                        | Register l (Some i) ok err => (l, i, ok, err) :: reg_remove s l i
                        | _ => s
                        end) acts st.

(* ---------------------------------------------------------------- YowParallelLayer of the protocol layers *)
Definition par_recv (v : variant) (c : flags) (st : registry) (f : feat) : list action :=
  flat_map (fun l => layer_recv v st l f) (protocol_layers c).

Definition par_send (v : variant) (c : flags) (f : feat) : list action :=
  flat_map (fun l => layer_send v l f) (protocol_layers c).

(* ---------------------------------------------------------------- the three encryption layers (entry points) *)
Definition ctl_ack (v : variant) (f : feat) : stanza :=
  ack (f_id f) "notification" (f_type f) (f_from f) (if v_ctl_participant v then f_participant f else None).

Definition ctl_recv (v : variant) (st : registry) (f : feat) : list action :=
  match registry_recv st LAxControl f with
  | Some _ => []
  | None =>
    if String.eqb (f_tag f) "notification" && oeq (f_type f) "encrypt" then
      if has_child f "count" then [Down (ctl_ack v f); Down SSetKeys; Register LAxControl None None None]
      else if has_child f "identity" then [Down (ctl_ack v f); Down SGetKeys; Register LAxControl None None None]
      else [Forward]
    else [Forward]
  end.

Definition axsend_recv (st : registry) (f : feat) : list action :=
  match registry_recv st LAxSend f with
  | Some _ => []
  | None =>
    if String.eqb (f_tag f) "receipt" then
      if negb (f_enq f) then [Forward]
      else if oeq (f_type f) "retry"
           then [Down (ack (f_id f) "receipt" (f_type f) (f_from f) (f_participant f)); Down SGetKeys;
                 Register LAxSend None None None]
      else [Forward]
    else []
  end.

Definition axrecv_recv (st : registry) (f : feat) : list action :=
  match registry_recv st LAxRecv f with
  | Some _ => []
  | None =>
    if String.eqb (f_tag f) "message" then
      if has_child f "enc" then [Crypto] else [Forward]
    else if negb (String.eqb (f_tag f) "receipt") then [Forward]
    else []
  end.

Definition pair_recv (st : registry) (f : feat) : list action :=
  axsend_recv st f ++ axrecv_recv st f.

(* downward: number of copies of a stanza with this tag that get through the pair and the control layer *)
Definition axsend_send (tag : string) (skip_enc : bool) : list action :=
  if String.eqb tag "message" && negb skip_enc then [Crypto] else [Forward].
Definition axrecv_send (tag : string) : list action := [].      (* AxolotlBaseLayer.send: pass *)
Definition ctl_send (tag : string) : list action := [Forward].

Definition stanza_tag (s : stanza) : string :=
  match s with
  | SEntity e => f_tag e
  | SAck _ _ _ _ _ => "ack"
  | SReceipt _ _ _ _ _ => "receipt"
  | SPong _ _ _ | SGetKeys | SSetKeys => "iq"
  end.

Definition count_forward (acts : list action) : nat :=
  length (filter (fun a => match a with Forward => true | _ => false end) acts).

Definition not_forward (acts : list action) : list action :=
  filter (fun a => match a with Forward => false | _ => true end) acts.

(* what arrives at the bottom for one stanza handed down by the protocol group *)
Definition lower_send (s : stanza) : list action :=
  let t := stanza_tag s in
  let a := axsend_send t false ++ axrecv_send t in
  not_forward a ++ flat_map (fun _ => map (fun _ => Down s) (filter (fun a => match a with Forward => true | _ => false end) (ctl_send t)))
                            (seq 0 (count_forward a)).

Definition through_lower (ax : bool) (acts : list action) : list action :=
  if ax then flat_map (fun a => match a with Down s => lower_send s | x => [x] end) acts else acts.

Fixpoint repeat_app {A} (n : nat) (l : list A) : list A :=
  match n with O => [] | S n' => l ++ repeat_app n' l end.

(* a stanza injected at the bottom of the stack; ax = the encryption layers are present *)
Definition stack_recv (v : variant) (c : flags) (ax : bool) (st : registry) (f : feat) : list action :=
  if ax then
    let a1 := ctl_recv v st f in
    let a2 := pair_recv st f in
    let upper := through_lower true (par_recv v c st f) in
    not_forward a1
    ++ repeat_app (count_forward a1)
         (flat_map (fun a => match a with Down s => map (fun _ => Down s) (ctl_send (stanza_tag s)) | x => [x] end)
                   (not_forward a2)
          ++ repeat_app (count_forward a2) upper)
  else par_recv v c st f.

(* an entity pushed at the top: (what leaves the protocol group, what reaches the bottom) *)
Definition stack_send (v : variant) (c : flags) (ax : bool) (f : feat) : list action * list action :=
  let a := par_send v c f in
  (a, through_lower ax a).

(* registry after a step *)
Definition st_after_send (v : variant) (c : flags) (st : registry) (f : feat) : registry :=
  apply_registers st (par_send v c f).

Definition st_after_recv (c : flags) (ax : bool) (st : registry) (f : feat) : registry :=
  consume st (protocol_layers c ++ if ax then [LAxControl; LAxSend; LAxRecv] else []) f.

(* ---------------------------------------------------------------- projections used by the theorems *)
Definition ups (acts : list action) : list string :=
  flat_map (fun a => match a with Up c => [c] | _ => [] end) acts.
Definition downs (acts : list action) : list stanza :=
  flat_map (fun a => match a with Down s => [s] | _ => [] end) acts.
Definition raises (acts : list action) : nat :=
  length (filter (fun a => match a with Raise => true | _ => false end) acts).
Definition registers (acts : list action) : list action :=
  filter (fun a => match a with Register _ _ _ _ => true | _ => false end) acts.
Definition is_ack (s : stanza) : bool := match s with SAck _ _ _ _ _ => true | _ => false end.
Definition is_receipt (s : stanza) : bool := match s with SReceipt _ _ _ _ _ => true | _ => false end.
Definition is_pong (s : stanza) : bool := match s with SPong _ _ _ => true | _ => false end.
Definition acks (acts : list action) : list stanza := filter is_ack (downs acts).
Definition receipts (acts : list action) : list stanza := filter is_receipt (downs acts).
Definition pongs (acts : list action) : list stanza := filter is_pong (downs acts).
(* answers = everything sent down except the encryption layers' own key traffic *)
Definition answers (acts : list action) : list stanza :=
  filter (fun s => match s with SGetKeys | SSetKeys => false | _ => true end) (downs acts).
