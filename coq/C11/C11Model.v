(* C11 instance of the lock-chain model (C12/C12Chain.v): the send path
      upper layers (>= 5) -> coder (4) -> noise.send (3) -> noise write (2) -> segments (1) -> network (0).

   node 4  YowCoderLayer.send:        toLower(encode d)                       lock = coder.lock
   node 3  YowNoiseLayer.send:        WANoiseTransport.send: c := enc ctr d; ctr += 1;
                                      stream.write_segment(c) = enqueue c   (no lock of its own: it runs
                                      inside the coder's toLower)
   node 2  _handle_stream_event:      q := dequeue; toLower(q)                lock = noise.lock
   node 1  YowNoiseSegmentsLayer.send: toLower(hdr q); toLower(q)             lock = segments.lock
   node 0  YowNetworkLayer.send:      append to the socket
   node k >= 5: any layer: toLower(o) for each o in upper k d                 lock = its own

   The datum handed to node 2 is ghost (the real call passes nothing; node 2 takes what it finds
   in the queue) -- the invariant proves they coincide.  `sent` is a ghost log of the plaintexts
   in encryption order.                                                                       *)
From YV Require Import Common.Tac C12.C12Chain.

Section C11.
Variable data : Type.
Variable encode : data -> data.            (* WriteEncoder.protocolTreeNodeToBytes *)
Variable enc : nat -> data -> data.        (* CipherState.encrypt_with_ad with nonce n *)
Variable hdr : data -> data.               (* struct.pack('>I', len d)[1:] *)
Variable upper : nat -> data -> list data. (* what layer k >= 5 hands to toLower for input d *)

Record wstate := WState { ctr : nat; queue : list data; wire : list data; sent : list data }.

Definition has_lock11 (x : nat) : bool := negb (Nat.eqb x 3).

Definition body11 (x : nat) (d : data) (s : wstate) : wstate * list (nat * data) :=
  match x with
  | 0 => (WState (ctr s) (queue s) (wire s ++ [d]) (sent s), [])
  | 1 => (s, [(0, hdr d); (0, d)])
  | 2 => match queue s with
         | q :: qs => (WState (ctr s) qs (wire s) (sent s), [(1, q)])
         | [] => (s, [])
         end
  | 3 => (WState (S (ctr s)) (queue s ++ [enc (ctr s) d]) (wire s) (sent s ++ [d]), [(2, enc (ctr s) d)])
  | 4 => (s, [(3, encode d)])
  | S k => (s, map (fun o => (k, o)) (upper x d))
  end.

Definition s0 : wstate := WState 0 [] [] [].

(* the frames the peer must see for plaintexts ps encrypted with nonces n, n+1, ... *)
Fixpoint frames (n : nat) (ps : list data) : list data :=
  match ps with
  | [] => []
  | p :: r => hdr (enc n p) :: enc n p :: frames (S n) r
  end.

(* plaintexts that a call (y, d) will hand to the noise layer *)
Fixpoint flat_up (k : nat) (d : data) : list data :=     (* node 4 + k *)
  match k with
  | O => [encode d]
  | S k' => concat (map (flat_up k') (upper (4 + k) d))
  end.
Definition pexpand (c : nat * data) : list data :=
  if Nat.ltb (fst c) 3 then [] else if Nat.eqb (fst c) 3 then [snd c] else flat_up (fst c - 4) (snd c).

Definition entry_ok (opss : list (list (nat * data))) : Prop :=
  forall o c, In o opss -> In c o -> 4 <= fst c.

End C11.

Arguments WState {data}. Arguments ctr {data}. Arguments queue {data}.
Arguments wire {data}. Arguments sent {data}.
