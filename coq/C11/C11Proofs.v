(* C11: concurrent senders never corrupt the encrypted stream.  Invariants over failure-free
   runs of the chain instance C11Model, any number of threads, any send lists, any schedule. *)
From YV Require Import Common.Tac C12.C12Chain C12.C12Proofs C11.C11Model.
From Coq Require Import Permutation.

(* ---------- list helpers ---------- *)
Lemma all_nil {A B} (g : A -> list B) l :
  (forall i x, nth_error l i = Some x -> g x = []) -> concat (map g l) = [].
Proof.
  induction l as [|a l IH]; intros H; [reflexivity|]. simpl.
  rewrite (H 0 a eq_refl). simpl. apply IH. intros i x E. apply (H (S i) x E).
Qed.

Lemma concat_single {A B} (g : A -> list B) : forall l t a, nth_error l t = Some a ->
  (forall t' a', t' <> t -> nth_error l t' = Some a' -> g a' = []) -> concat (map g l) = g a.
Proof.
  induction l as [|b l IH]; intros [|t] a E H; simpl in *; try discriminate.
  - inversion E; subst. rewrite all_nil; [apply app_nil_r|].
    intros i x Ex. apply (H (S i) x); [discriminate|exact Ex].
  - rewrite (H 0 b); [|discriminate|reflexivity]. simpl. apply (IH t a E).
    intros t' a' Hne Ea. apply (H (S t') a'); [congruence|exact Ea].
Qed.

Lemma nth_split_set {A} : forall (l : list A) t a b, nth_error l t = Some a ->
  exists l1 l2, l = l1 ++ a :: l2 /\ set_nth t b l = l1 ++ b :: l2.
Proof.
  induction l as [|x l IH]; intros [|t] a b E; simpl in *; try discriminate.
  - inversion E; subst. exists [], l. auto.
  - destruct (IH t a b E) as (l1 & l2 & -> & E2). exists (x :: l1), l2. simpl. rewrite E2. auto.
Qed.

Lemma concat_same {A B} (g : A -> list B) l t a b :
  nth_error l t = Some a -> g b = g a -> concat (map g (set_nth t b l)) = concat (map g l).
Proof.
  intros E H. destruct (nth_split_set l t a b E) as (l1 & l2 & -> & ->).
  rewrite !map_app, !concat_app. simpl. rewrite H. reflexivity.
Qed.

Section C11Proofs.
Variable data : Type.
Variable encode : data -> data.
Variable enc : nat -> data -> data.
Variable hdr : data -> data.
Variable upper : nat -> data -> list data.

Definition ror11 (_ : nat) : bool := true.
Notation body := (body11 data encode enc hdr upper).
Notation frame := (frame data).
Notation thread := (thread data).
Notation config := (config data (@wstate data)).
Notation exec := (exec data (@wstate data) has_lock11 ror11 body).
Notation reach := (reach data (@wstate data) has_lock11 ror11 body (s0 data)).
Notation reach_nf := (reach_nf data (@wstate data) has_lock11 ror11 body (s0 data)).
Notation tspec := (tspec data (@wstate data) has_lock11 ror11 body).
Notation frames := (frames data enc hdr).
Notation pexpand := (pexpand data encode upper).

Lemma body_lower11 : forall x d s y d', In (y, d') (snd (body x d s)) -> y < x.
Proof.
  intros x d s y d' H. unfold body11 in H.
  destruct x as [|[|[|[|[|x]]]]]; simpl in H.
  - contradiction.
  - destruct H as [H|[H|[]]]; inversion H; lia.
  - destruct (queue s); simpl in H; [contradiction|]. destruct H as [H|[]]; inversion H; lia.
  - destruct H as [H|[]]; inversion H; lia.
  - destruct H as [H|[]]; inversion H; lia.
  - apply in_map_iff in H. destruct H as (o & E & _). inversion E; lia.
Qed.

Lemma body_callee : forall x d s c, In c (snd (body x d s)) -> S (fst c) = x.
Proof.
  intros x d s c H. unfold body11 in H.
  destruct x as [|[|[|[|[|x]]]]]; simpl in H.
  - contradiction.
  - destruct H as [<-|[<-|[]]]; reflexivity.
  - destruct (queue s); simpl in H; [contradiction|]. destruct H as [<-|[]]; reflexivity.
  - destruct H as [<-|[]]; reflexivity.
  - destruct H as [<-|[]]; reflexivity.
  - apply in_map_iff in H. destruct H as (o & <- & _). reflexivity.
Qed.

Lemma body_high : forall x d s, 4 <= x -> fst (body x d s) = s.
Proof. intros x d s H. destruct x as [|[|[|[|[|x]]]]]; try lia; reflexivity. Qed.

Lemma reach_nf_reach opss c : reach_nf opss c -> reach opss c.
Proof. induction 1; [apply reach_init|eapply reach_step; eauto]. Qed.

(* ---------- chain shape ---------- *)
Definition pendok (f : frame) : Prop := Forall (fun c => S (fst c) = fnode f) (fpend f).

Fixpoint contig (k : nat) (st : list frame) : Prop :=
  match st with
  | [] => 4 <= k
  | g :: rest => fnode g = S k /\ fheld g = true /\ contig (S k) rest
  end.

Definition shape (th : thread) : Prop :=
  raising th = false /\ Forall pendok (stack th) /\ Forall (fun c => 4 <= fst c) (ops th) /\
  match stack th with [] => True | f :: rest => contig (fnode f) rest end.

Definition inv_shape (c : config) : Prop := forall t th, nth_error (thr c) t = Some th -> shape th.

Lemma tspec_shape t lk s th lk' s' th' l :
  tspec t lk s th false lk' s' th' l -> shape th -> wf_thread data th -> shape th'.
Proof.
  intros H (R & P & O & C) [W _]. unfold shape.
  remember false as fl eqn:Efl. destruct H; try discriminate Efl; try congruence; simpl.
  - (* start *)
    rewrite H1 in O. inversion O; subst. repeat split; auto.
    constructor; [|constructor]. unfold pendok; simpl. apply Forall_forall. intros c Hc.
    apply (body_callee x d s). rewrite H2. exact Hc.
  - (* call *)
    rewrite H0 in *. inversion P as [|? ? Pf Pfs]; subst.
    assert (Ey : fnode f = S y).
    { unfold pendok in Pf. rewrite H2 in Pf. inversion Pf; subst. simpl in *. auto. }
    rewrite Ey in C. repeat split; auto.
    constructor; [|exact P]. unfold pendok; simpl. apply Forall_forall. intros c Hc.
    apply (body_callee y d s). rewrite H3. exact Hc.
  - (* acquire *)
    rewrite H0 in *. inversion P; subst. repeat split; auto.
  - rewrite H0 in *. inversion P; subst. repeat split; auto.
  - (* done *) repeat split; auto.
  - (* return *)
    rewrite H0 in *. inversion P as [|? ? _ P2]; subst. inversion P2 as [|? ? Pg P3]; subst.
    destruct C as (Eg & Hg & Cg). rewrite <- Eg in Cg. repeat split; auto.
    constructor; [|exact P3]. unfold pendok in *; simpl.
    destruct (fpend g); simpl; [constructor|inversion Pg; assumption].
Qed.

Lemma inv_shape_step c t c' : exec c (t, false) = Some c' -> inv_wf data _ c -> inv_shape c -> inv_shape c'.
Proof.
  intros H W I. apply exec_inv in H. destruct H as (th & lk' & s' & th' & l & En & Hs & ->).
  simpl in *. intros t2 th2 E2. simpl in E2. destruct (Nat.eq_dec t2 t) as [->|Hne].
  - rewrite (nth_set_eq _ _ _ _ En) in E2. inversion E2; subst. eapply tspec_shape; eauto.
  - rewrite nth_set_neq in E2 by exact Hne. eauto.
Qed.

Definition entry_ok' (opss : list (list (nat * data))) : Prop :=
  Forall (fun o => Forall (fun c => 4 <= fst c) o) opss.

Lemma reach_nf_shape opss c : entry_ok' opss -> reach_nf opss c -> inv_shape c.
Proof.
  intros EO R. induction R as [|c t c' R IH Hs].
  - intros t th E. unfold init in E. simpl in E. apply nth_error_In in E. apply in_map_iff in E.
    destruct E as (o & <- & Ho). unfold shape; simpl. repeat split; auto.
    unfold entry_ok' in EO. rewrite Forall_forall in EO. auto.
  - eapply inv_shape_step; eauto.
    apply (reach_inv_wa data _ has_lock11 ror11 body body_lower11 (s0 data) opss c (reach_nf_reach _ _ R)).
Qed.

(* a thread is "below the coder" when the innermost layer it is in is noise.send or lower *)
Definition below (th : thread) : Prop := exists f rest, stack th = f :: rest /\ fnode f <= 3.

Lemma contig_has4 : forall rest k, contig k rest -> k <= 3 -> In 4 (held_nodes data rest).
Proof.
  induction rest as [|g rest IH]; intros k C Hk; simpl in C; [lia|].
  destruct C as (Eg & Hg & C). rewrite held_cons, Hg.
  destruct (Nat.eq_dec (S k) 4) as [E4|Hne]; [left; congruence|right].
  apply (IH (S k)); [exact C|lia].
Qed.

Lemma below_holds4 th : shape th -> below th -> In 4 (held_nodes data (stack th)).
Proof.
  intros (_ & _ & _ & C) (f & rest & Es & Hk). rewrite Es in *.
  rewrite held_cons. pose proof (contig_has4 _ _ C Hk). destruct (fheld f); [right|]; assumption.
Qed.

Lemma contig_ge : forall rest k, contig k rest -> forall g, In g rest -> k < fnode g.
Proof.
  induction rest as [|g rest IH]; intros k C g' Hin; [contradiction|].
  destruct C as (Eg & _ & C). destruct Hin as [->|Hin]; [lia|]. specialize (IH _ C _ Hin). lia.
Qed.

(* ---------- pending work of a call stack ---------- *)
Section Agg.
Variable e : nat * data -> list data.
Definition eall (l : list (nat * data)) : list data := concat (map e l).
Definition agg (st : list frame) : list data :=
  match st with
  | [] => []
  | f :: rest => eall (fpend f) ++ concat (map (fun g => eall (tl (fpend g))) rest)
  end.
Hypothesis e_high : forall c, 3 <= fst c -> e c = [].

Lemma eall_high (f : frame) : pendok f -> 4 <= fnode f -> eall (fpend f) = [] /\ eall (tl (fpend f)) = [].
Proof.
  intros P H. unfold pendok in P. assert (A : forall l, Forall (fun c => S (fst c) = fnode f) l -> eall l = []).
  { induction l as [|c l IH]; intros F; [reflexivity|]. inversion F; subst. unfold eall in *. simpl.
    rewrite e_high by lia. simpl. auto. }
  split; [apply A; exact P|]. apply A. destruct (fpend f); [constructor|inversion P; assumption].
Qed.

Lemma agg_high th : shape th -> ~ below th -> agg (stack th) = [].
Proof.
  intros (_ & P & _ & C) NB. destruct (stack th) as [|f rest] eqn:Es; [reflexivity|].
  assert (Hf : 4 <= fnode f). { destruct (le_lt_dec 4 (fnode f)); [assumption|]. exfalso. apply NB. exists f, rest. split; [exact Es|lia]. }
  simpl. inversion P; subst. rewrite (proj1 (eall_high f H1 Hf)). simpl.
  apply all_nil. intros i g Eg. apply nth_error_In in Eg.
  pose proof (contig_ge _ _ C _ Eg). rewrite Forall_forall in H2. apply (eall_high g); [auto|lia].
Qed.
End Agg.

Definition wexpand (c : nat * data) : list data :=
  match fst c with
  | 0 => [snd c]
  | 1 => [hdr (snd c); snd c]
  | 2 => [hdr (snd c); snd c]
  | _ => []
  end.
Definition qexpand (c : nat * data) : list data := if Nat.eqb (fst c) 2 then [snd c] else [].

Lemma wexpand_high c : 3 <= fst c -> wexpand c = [].
Proof. unfold wexpand. destruct (fst c) as [|[|[|n]]]; intros; try lia; reflexivity. Qed.
Lemma qexpand_high c : 3 <= fst c -> qexpand c = [].
Proof. unfold qexpand. intros. destruct (Nat.eqb_spec (fst c) 2); [lia|reflexivity]. Qed.

Definition futs (c : config) : list data := concat (map (fun th => agg wexpand (stack th)) (thr c)).
Definition qfut (c : config) : list data := concat (map (fun th => agg qexpand (stack th)) (thr c)).

(* the invariant tying wire, nonce counter and queue together *)
Definition W (c : config) : Prop :=
  wire (sh c) ++ futs c = frames 0 (sent (sh c)) /\ ctr (sh c) = length (sent (sh c)) /\
  queue (sh c) = qfut c.

Lemma frames_app : forall a n b, frames n (a ++ b) = frames n a ++ frames (n + length a) b.
Proof.
  induction a as [|p a IH]; intros n b; simpl.
  - rewrite Nat.add_0_r. reflexivity.
  - rewrite IH. replace (S n + length a) with (n + S (length a)) by lia. reflexivity.
Qed.

(* per-thread effect of the steps that do not touch the shared state *)
Lemma agg_ret e (f g : frame) fs : fpend f = [] ->
  agg e (f :: g :: fs) = agg e (Frame (fnode g) false (tl (fpend g)) :: fs).
Proof. intros Ep. simpl. rewrite Ep. reflexivity. Qed.

Lemma agg_call e (f : frame) fs y d cs calls : fpend f = (y, d) :: cs ->
  agg e (Frame y false calls :: f :: fs) = eall e calls ++ eall e cs ++ concat (map (fun g => eall e (tl (fpend g))) fs).
Proof. intros Ep. simpl. rewrite Ep. reflexivity. Qed.

Lemma agg_top e (f : frame) fs y d cs : fpend f = (y, d) :: cs ->
  agg e (f :: fs) = e (y, d) ++ eall e cs ++ concat (map (fun g => eall e (tl (fpend g))) fs).
Proof. intros Ep. simpl. rewrite Ep. unfold eall. simpl. rewrite app_assoc. reflexivity. Qed.


(* ---------- exclusivity below the coder ---------- *)
Lemma others_high opss c t th : reach opss c -> inv_shape c -> nth_error (thr c) t = Some th ->
  In 4 (held_nodes data (stack th)) ->
  forall t' th', t' <> t -> nth_error (thr c) t' = Some th' -> ~ below th'.
Proof.
  intros R IS En H4 t' th' Hne En' B.
  pose proof (below_holds4 th' (IS _ _ En') B) as H4'.
  destruct (reach_inv_wa data _ has_lock11 ror11 body body_lower11 _ _ _ R) as [_ IA].
  pose proof (IA _ _ _ En H4 eq_refl) as E1. pose proof (IA _ _ _ En' H4' eq_refl) as E2. congruence.
Qed.

Lemma call_holds4 (th : thread) f fs : shape th -> stack th = f :: fs -> fheld f = true -> fnode f <= 4 ->
  In 4 (held_nodes data (stack th)).
Proof.
  intros (_ & _ & _ & C) Es Hh Hk. rewrite Es in *. rewrite held_cons, Hh.
  destruct (Nat.eq_dec (fnode f) 4) as [E|Hne]; [left; exact E|right].
  apply (contig_has4 _ _ C). lia.
Qed.

Lemma agg_single e (l : list thread) t th th' :
  (forall t' a', t' <> t -> nth_error l t' = Some a' -> agg e (stack a') = []) ->
  nth_error l t = Some th ->
  concat (map (fun a => agg e (stack a)) l) = agg e (stack th) /\
  concat (map (fun a => agg e (stack a)) (set_nth t th' l)) = agg e (stack th').
Proof.
  intros H En. split.
  - apply (concat_single (fun a => agg e (stack a)) l t th En H).
  - apply (concat_single (fun a => agg e (stack a)) (set_nth t th' l) t th').
    + eapply nth_set_eq; eauto.
    + intros t' a' Hne E. rewrite nth_set_neq in E by exact Hne. eauto.
Qed.

Lemma W_local c t th th' lk' :
  nth_error (thr c) t = Some th ->
  agg wexpand (stack th') = agg wexpand (stack th) -> agg qexpand (stack th') = agg qexpand (stack th) ->
  W c -> W (Config lk' (sh c) (set_nth t th' (thr c))).
Proof.
  intros En Hw Hq (W1 & W2 & W3). unfold W, futs, qfut in *. simpl.
  rewrite (concat_same (fun a => agg wexpand (stack a)) _ _ _ _ En Hw).
  rewrite (concat_same (fun a => agg qexpand (stack a)) _ _ _ _ En Hq). auto.
Qed.

Lemma W_step opss c t c' :
  reach opss c -> inv_shape c -> exec c (t, false) = Some c' -> W c -> W c'.
Proof.
  intros R IS H HW. pose proof H as H'. apply exec_inv in H.
  destruct H as (th & lk' & s' & th' & l & En & Hs & ->). simpl in En, Hs.
  pose proof (reach_inv_wa data _ has_lock11 ror11 body body_lower11 _ _ _ R) as [IWF _].
  pose proof (IS _ _ En) as Sh. pose proof (tspec_shape _ _ _ _ _ _ _ _ Hs Sh (IWF _ _ En)) as Sh'.
  remember false as fl eqn:Efl. destruct Hs; try discriminate Efl;
    try (destruct Sh as (Rz & _); congruence).
  - (* start *)
    assert (Hx : 4 <= x). { destruct Sh as (_ & _ & O & _). rewrite H1 in O. inversion O; auto. }
    pose proof (body_high x d (sh c) Hx) as Eb. rewrite H2 in Eb. simpl in Eb. subst s'.
    assert (NB' : ~ below (Thread [Frame x false calls] false rest (results th))).
    { intros (f0 & r0 & E0 & Hk). simpl in E0. inversion E0; subst. simpl in Hk. lia. }
    apply (W_local c t th); auto; rewrite H0; simpl stack.
    + apply (agg_high wexpand wexpand_high _ Sh' NB').
    + apply (agg_high qexpand qexpand_high _ Sh' NB').
  - (* call *)
    destruct (le_lt_dec 4 y) as [Hy|Hy].
    + (* above the noise layer: nothing shared is touched *)
      pose proof (body_high y d (sh c) Hy) as Eb. rewrite H3 in Eb. simpl in Eb. subst s'.
      assert (Ef : fnode f = S y).
      { destruct Sh as (_ & P & _). rewrite H0 in P. inversion P as [|? ? Pf _]; subst.
        unfold pendok in Pf. rewrite H2 in Pf. inversion Pf; auto. }
      assert (NB : ~ below th).
      { intros (f0 & r0 & E0 & Hk). rewrite H0 in E0. inversion E0; subst. lia. }
      assert (NB' : ~ below (Thread (Frame y false calls :: f :: fs) false (ops th) (results th))).
      { intros (f0 & r0 & E0 & Hk). simpl in E0. inversion E0; subst. simpl in Hk. lia. }
      apply (W_local c t th); auto.
      * rewrite (agg_high wexpand wexpand_high _ Sh' NB'), (agg_high wexpand wexpand_high _ Sh NB). reflexivity.
      * rewrite (agg_high qexpand qexpand_high _ Sh' NB'), (agg_high qexpand qexpand_high _ Sh NB). reflexivity.
    + (* into noise.send or lower: the thread holds the coder lock, nobody else is below *)
      assert (Ef : fnode f = S y).
      { destruct Sh as (_ & P & _). rewrite H0 in P. inversion P as [|? ? Pf _]; subst.
        unfold pendok in Pf. rewrite H2 in Pf. inversion Pf; auto. }
      assert (H4 : In 4 (held_nodes data (stack th))) by (apply (call_holds4 th f fs); auto; lia).
      assert (Oth : forall e, (forall c0, 3 <= fst c0 -> e c0 = []) ->
                forall t' a', t' <> t -> nth_error (thr c) t' = Some a' -> agg e (stack a') = []).
      { intros e He t' a' Hne Ea. apply (agg_high e He); [apply (IS _ _ Ea)|].
        exact (others_high opss c t th R IS En H4 t' a' Hne Ea). }
      destruct HW as (W1 & W2 & W3). unfold W, futs, qfut in *. simpl.
      destruct (agg_single wexpand (thr c) t th
                  (Thread (Frame y false calls :: f :: fs) false (ops th) (results th))
                  (Oth wexpand wexpand_high) En) as [Fw Fw'].
      destruct (agg_single qexpand (thr c) t th
                  (Thread (Frame y false calls :: f :: fs) false (ops th) (results th))
                  (Oth qexpand qexpand_high) En) as [Fq Fq'].
      rewrite Fw', Fq'. rewrite Fw in W1. rewrite Fq in W3. simpl stack.
      rewrite H0 in W1, W3. rewrite (agg_top wexpand _ _ _ _ _ H2) in W1. rewrite (agg_top qexpand _ _ _ _ _ H2) in W3.
      rewrite (agg_call wexpand _ _ _ _ _ _ H2), (agg_call qexpand _ _ _ _ _ _ H2).
      set (Xw := eall wexpand cs ++ concat (map (fun g => eall wexpand (tl (fpend g))) fs)) in *.
      set (Xq := eall qexpand cs ++ concat (map (fun g => eall qexpand (tl (fpend g))) fs)) in *.
      unfold body11 in H3.
      destruct y as [|[|[|[|y]]]]; [| | | |lia].
      * (* network.send: the write *)
        inversion H3; subst s' calls; clear H3. simpl. unfold wexpand, qexpand in W1, W3. simpl in W1, W3.
        rewrite <- app_assoc. simpl. auto.
      * (* segments.send: header, payload *)
        inversion H3; subst s' calls; clear H3. unfold eall. simpl. unfold wexpand, qexpand in *. simpl in *. auto.
      * (* _handle_stream_event: dequeue *)
        unfold qexpand in W3. simpl in W3. rewrite W3 in H3.
        inversion H3; subst s' calls; clear H3. unfold eall. simpl. unfold wexpand, qexpand in *. simpl in *. auto.
      * (* noise.send: encrypt (nonce := nonce + 1), enqueue *)
        inversion H3; subst s' calls; clear H3.
        assert (NB : ~ below th).
        { intros (f0 & r0 & E0 & Hk). rewrite H0 in E0. inversion E0; subst. lia. }
        pose proof (agg_high wexpand wexpand_high _ Sh NB) as Zw.
        pose proof (agg_high qexpand qexpand_high _ Sh NB) as Zq.
        rewrite H0 in Zw, Zq. rewrite (agg_top wexpand _ _ _ _ _ H2) in Zw. rewrite (agg_top qexpand _ _ _ _ _ H2) in Zq.
        fold Xw in Zw. fold Xq in Zq.
        unfold wexpand in Zw, W1. unfold qexpand in Zq, W3. simpl in Zw, Zq, W1, W3.
        rewrite Zw in *. rewrite Zq in *. unfold eall. simpl. unfold wexpand, qexpand. simpl.
        rewrite app_nil_r in *. rewrite frames_app. simpl. rewrite <- W1, <- W2.
        rewrite W3. simpl. rewrite app_length. simpl. repeat split; auto. lia.
  - (* acquire (lock) *)
    apply (W_local c t th); auto; rewrite H0; reflexivity.
  - apply (W_local c t th); auto; rewrite H0; reflexivity.
  - (* done *)
    apply (W_local c t th); auto; rewrite H0; simpl; unfold eall; rewrite H2; reflexivity.
  - (* return *)
    apply (W_local c t th); auto; rewrite H0; symmetry; apply agg_ret; exact H2.
Qed.

Lemma W_init opss : W (init data _ (s0 data) opss).
Proof.
  unfold W, futs, qfut, init. simpl. rewrite !map_map. simpl.
  assert (Z : forall (l : list (list (nat * data))), concat (map (fun _ => @nil data) l) = []).
  { induction l; simpl; auto. }
  rewrite !Z. auto.
Qed.

Lemma reach_nf_W opss c : entry_ok' opss -> reach_nf opss c -> W c.
Proof.
  intros EO R. induction R as [|c t c' R IH Hs]; [apply W_init|].
  eapply W_step; eauto; [apply reach_nf_reach; exact R|eapply reach_nf_shape; eauto].
Qed.


(* ---------- exactly once ---------- *)
Definition pf (th : thread) : list data := agg pexpand (stack th) ++ concat (map pexpand (ops th)).
Definition pfuts (c : config) : list data := concat (map pf (thr c)).
Definition total (opss : list (list (nat * data))) : list data :=
  concat (map (fun o => concat (map pexpand o)) opss).
Definition E (opss : list (list (nat * data))) (c : config) : Prop :=
  Permutation (sent (sh c) ++ pfuts c) (total opss).

Lemma pexpand_body x d s : x <> 3 ->
  eall pexpand (snd (body x d s)) = pexpand (x, d) /\ sent (fst (body x d s)) = sent s.
Proof.
  intros Hx. unfold body11, eall.
  destruct x as [|[|[|[|[|x]]]]]; try congruence; simpl; auto.
  - destruct (queue s); simpl; auto.
  - split; [|reflexivity]. unfold C11Model.pexpand at 2. simpl. rewrite map_map. simpl.
    f_equal. apply map_ext. intros o. unfold C11Model.pexpand. simpl. rewrite Nat.sub_0_r. reflexivity.
Qed.

Lemma E_local opss c t th th' lk' s' :
  nth_error (thr c) t = Some th -> sent s' = sent (sh c) -> pf th' = pf th ->
  E opss c -> E opss (Config lk' s' (set_nth t th' (thr c))).
Proof.
  intros En Hs Hp HE. unfold E, pfuts in *. simpl. rewrite Hs.
  rewrite (concat_same pf _ _ _ _ En Hp). exact HE.
Qed.

Lemma E_step opss c t c' : inv_shape c -> exec c (t, false) = Some c' -> E opss c -> E opss c'.
Proof.
  intros IS H HE. apply exec_inv in H.
  destruct H as (th & lk' & s' & th' & l & En & Hs & ->). simpl in En, Hs.
  pose proof (IS _ _ En) as Sh.
  remember false as fl eqn:Efl. destruct Hs; try discriminate Efl;
    try (destruct Sh as (Rz & _); congruence).
  - (* start *)
    assert (Hx : x <> 3). { destruct Sh as (_ & _ & O & _). rewrite H1 in O. inversion O; subst. simpl in *. lia. }
    destruct (pexpand_body x d (sh c) Hx) as [Eb Es]. rewrite H2 in Eb, Es. simpl in Eb, Es.
    apply (E_local opss c t th); auto. unfold pf. rewrite H0, H1. simpl. rewrite Eb, app_nil_r. reflexivity.
  - (* call *)
    destruct (Nat.eq_dec y 3) as [->|Hy].
    + unfold body11 in H3. inversion H3; subst s' calls; clear H3.
      unfold E, pfuts in *. simpl.
      destruct (nth_split_set (thr c) t th
                  (Thread (Frame 3 false [(2, enc (ctr (sh c)) d)] :: f :: fs) false (ops th) (results th)) En)
        as (l1 & l2 & El & ->).
      rewrite El in HE. rewrite !map_app, !concat_app in *. simpl in *.
      unfold pf at 2. unfold pf at 2 in HE. simpl stack. simpl ops.
      rewrite H0 in HE. rewrite (agg_top pexpand _ _ _ _ _ H2) in HE.
      rewrite (agg_call pexpand _ _ _ _ _ _ H2).
      unfold eall at 1. unfold C11Model.pexpand at 1 in HE. simpl in HE. simpl.
      etransitivity; [|exact HE].
      rewrite <- !app_assoc. apply Permutation_app_head. simpl.
      apply Permutation_middle.
    + destruct (pexpand_body y d (sh c) Hy) as [Eb Es]. rewrite H3 in Eb, Es. simpl in Eb, Es.
      apply (E_local opss c t th); auto. unfold pf. simpl stack. simpl ops. rewrite H0.
      rewrite (agg_top pexpand _ _ _ _ _ H2), (agg_call pexpand _ _ _ _ _ _ H2), Eb. reflexivity.
  - apply (E_local opss c t th); auto. unfold pf. rewrite H0. reflexivity.
  - apply (E_local opss c t th); auto. unfold pf. rewrite H0. reflexivity.
  - apply (E_local opss c t th); auto. unfold pf. rewrite H0. simpl. unfold eall. rewrite H2. reflexivity.
  - apply (E_local opss c t th); auto. unfold pf. rewrite H0. simpl stack. simpl ops.
    rewrite (agg_ret pexpand f g fs H2). reflexivity.
Qed.

Lemma E_init opss : E opss (init data _ (s0 data) opss).
Proof.
  unfold E, pfuts, total, init. simpl. rewrite map_map. unfold pf. simpl. reflexivity.
Qed.

Lemma reach_nf_E opss c : entry_ok' opss -> reach_nf opss c -> E opss c.
Proof.
  intros EO R. induction R as [|c t c' R IH Hs]; [apply E_init|].
  eapply E_step; eauto. eapply reach_nf_shape; eauto.
Qed.

(* ---------- theorems ---------- *)

(* hand-over-hand: whoever is below the coder holds the coder's lock, hence at most one thread *)
Theorem below_holds_coder_thm opss c t th :
  entry_ok' opss -> reach_nf opss c -> nth_error (thr c) t = Some th -> below th ->
  holds th 4 /\ locks c 4 = Some t.
Proof.
  intros EO R En B. pose proof (reach_nf_shape _ _ EO R) as IS.
  pose proof (below_holds4 th (IS _ _ En) B) as H4. split.
  - apply (holds_iff data has_lock11 ror11). exact H4.
  - destruct (reach_inv_wa data _ has_lock11 ror11 body body_lower11 _ _ _ (reach_nf_reach _ _ R)) as [_ IA].
    apply (IA _ _ _ En H4 eq_refl).
Qed.

Theorem serialised_thm opss c t1 t2 th1 th2 :
  entry_ok' opss -> reach_nf opss c ->
  nth_error (thr c) t1 = Some th1 -> nth_error (thr c) t2 = Some th2 ->
  below th1 -> below th2 -> t1 = t2.
Proof.
  intros EO R E1 E2 B1 B2.
  destruct (below_holds_coder_thm _ _ _ _ EO R E1 B1) as [_ L1].
  destruct (below_holds_coder_thm _ _ _ _ EO R E2 B2) as [_ L2]. congruence.
Qed.

(* the socket has received a prefix of the canonical stream hdr(c0) c0 hdr(c1) c1 ... with
   c_j = enc j p_j; what is missing is exactly the pending writes of the (unique) thread below
   the coder; the nonce counter equals the number of plaintexts encrypted *)
Theorem frames_whole_thm opss c :
  entry_ok' opss -> reach_nf opss c ->
  wire (sh c) ++ futs c = frames 0 (sent (sh c)) /\ ctr (sh c) = length (sent (sh c)) /\
  (forall t th, nth_error (thr c) t = Some th -> ~ below th -> agg wexpand (stack th) = []) /\
  (forall t th, nth_error (thr c) t = Some th -> below th -> futs c = agg wexpand (stack th)).
Proof.
  intros EO R. pose proof (reach_nf_shape _ _ EO R) as IS.
  destruct (reach_nf_W _ _ EO R) as (W1 & W2 & _). split; [exact W1|]. split; [exact W2|]. split.
  - intros t th En NB. apply (agg_high wexpand wexpand_high _ (IS _ _ En) NB).
  - intros t th En B. unfold futs. apply (concat_single (fun a => agg wexpand (stack a)) _ t th En).
    intros t' a' Hne Ea. apply (agg_high wexpand wexpand_high _ (IS _ _ Ea)).
    intros B'. apply Hne. eapply serialised_thm; eauto.
Qed.

(* when nobody is below the coder the wire is whole frames, nonces 0,1,2,... in order *)
Theorem counter_order_thm opss c :
  entry_ok' opss -> reach_nf opss c ->
  (forall t th, nth_error (thr c) t = Some th -> ~ below th) ->
  wire (sh c) = frames 0 (sent (sh c)).
Proof.
  intros EO R NB. destruct (frames_whole_thm _ _ EO R) as (W1 & _ & Z & _).
  unfold futs in W1. rewrite all_nil in W1; [rewrite app_nil_r in W1; exact W1|].
  intros i x Ex. apply (Z i x Ex). apply (NB i x Ex).
Qed.

(* at termination every plaintext handed to the stack was encrypted and written exactly once *)
Theorem exactly_once_thm opss c :
  entry_ok' opss -> reach_nf opss c ->
  (forall t th, nth_error (thr c) t = Some th -> finished th) ->
  Permutation (sent (sh c)) (total opss) /\ wire (sh c) = frames 0 (sent (sh c)).
Proof.
  intros EO R Fin. split.
  - pose proof (reach_nf_E _ _ EO R) as HE. unfold E, pfuts in HE.
    rewrite all_nil in HE; [rewrite app_nil_r in HE; exact HE|].
    intros i x Ex. destruct (Fin i x Ex) as [Es Eo]. unfold pf. rewrite Es, Eo. reflexivity.
  - apply (counter_order_thm _ _ EO R). intros t th En (f & rest & Es & _).
    destruct (Fin t th En) as [Es' _]. congruence.
Qed.

Theorem no_deadlock11_thm opss c t th :
  reach_nf opss c -> nth_error (thr c) t = Some th -> (stack th <> [] \/ ops th <> []) ->
  exists t', exec c (t', false) <> None.
Proof.
  intros R En Hun.
  apply (no_deadlock_thm data _ has_lock11 ror11 body body_lower11 (fun _ => eq_refl) _ _ _ _ _
           (reach_nf_reach _ _ R) En Hun).
Qed.


(* a prefix of the canonical stream is whole frames, or whole frames plus ONE header whose
   payload is the first element of the rest *)
Lemma prefix_shape : forall ps n w f, w ++ f = frames n ps ->
  exists j,
    (w = frames n (firstn j ps) /\ f = frames (n + j) (skipn j ps)) \/
    (exists p r, skipn j ps = p :: r /\ w = frames n (firstn j ps) ++ [hdr (enc (n + j) p)] /\
                 f = enc (n + j) p :: frames (S (n + j)) r).
Proof.
  induction ps as [|p r IH]; intros n w f H; simpl in H.
  - apply app_eq_nil in H. destruct H as [-> ->]. exists 0. left. simpl. auto.
  - destruct w as [|x [|y w']]; simpl in H.
    + exists 0. left. simpl. rewrite Nat.add_0_r. auto.
    + inversion H; subst. exists 0. right. exists p, r. simpl. rewrite Nat.add_0_r. auto.
    + inversion H as [[Hx Hy Hw]]. destruct (IH (S n) w' f Hw) as [j [[E1 E2]|(p' & r' & E0 & E1 & E2)]].
      * exists (S j). left. simpl. rewrite E1 at 1. replace (n + S j) with (S n + j) by lia. auto.
      * exists (S j). right. exists p', r'. simpl. replace (n + S j) with (S n + j) by lia.
        split; [exact E0|]. split; [|exact E2]. rewrite E1 at 1. reflexivity.
Qed.

(* the wire is always whole frames (nonces 0..j-1), plus possibly ONE header; in that case the
   header's payload is the very next pending write below the coder (futs = the pending writes of
   the unique thread below the coder, frames_whole_thm) *)
Theorem dangling_header_thm opss c :
  entry_ok' opss -> reach_nf opss c ->
  exists j,
    (wire (sh c) = frames 0 (firstn j (sent (sh c))) /\ futs c = frames j (skipn j (sent (sh c)))) \/
    (exists p r, skipn j (sent (sh c)) = p :: r /\
                 wire (sh c) = frames 0 (firstn j (sent (sh c))) ++ [hdr (enc j p)] /\
                 futs c = enc j p :: frames (S j) r).
Proof.
  intros EO R. destruct (frames_whole_thm _ _ EO R) as (W1 & _).
  exact (prefix_shape _ 0 _ _ W1).
Qed.

End C11Proofs.
