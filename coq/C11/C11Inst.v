(* Concrete instances: non-vacuity of the C11 theorems and the unprotected-entry witness. *)
From YV Require Import Common.Tac C12.C12Chain C12.C12Inst C11.C11Model C11.C11Proofs.

Definition enc_n (n d : nat) : nat := 100 * (n + 1) + d.
Definition hdr_n (d : nat) : nat := 500 + d.
Definition up_n (_ : nat) (d : nat) : list nat := [d].
Definition body_n := body11 nat (fun d => d) enc_n hdr_n up_n.
Definition run_n := run nat (@wstate nat) has_lock11 ror11 body_n.
Definition init_n opss := init nat (@wstate nat) (s0 nat) opss.

Fixpoint rep {A} (n : nat) (a : A) : list A := match n with O => [] | S k => a :: rep k a end.

Lemma reach_nf_run opss : forall acts c c',
  reach_nf nat (@wstate nat) has_lock11 ror11 body_n (s0 nat) opss c ->
  run_n c (map (fun t => (t, false)) acts) = Some c' ->
  reach_nf nat (@wstate nat) has_lock11 ror11 body_n (s0 nat) opss c'.
Proof.
  induction acts as [|a r IH]; intros c c' R H; simpl in H.
  - inversion H; subst; exact R.
  - unfold run_n in H. simpl in H.
    destruct (exec nat (@wstate nat) has_lock11 ror11 body_n c (a, false)) as [c1|] eqn:E; [|discriminate].
    apply (IH c1); [eapply reach_nf_step; eauto|exact H].
Qed.

(* two threads, one entering at a layer above the coder (5) and one at the coder (4), interleaved:
   thread 1 takes the coder lock while thread 0 is still above it; both frames end up whole *)
Definition good_ops : list (list (nat * nat)) := [[(5, 7)]; [(4, 8)]].
Definition good_sched : list nat := [0; 0; 1; 1; 0] ++ rep 15 1 ++ rep 17 0.
Definition good_cfg := match run_n (init_n good_ops) (map (fun t => (t, false)) good_sched) with
                       | Some c => c | None => init_n [] end.

Example good_run :
  entry_ok' nat good_ops /\
  reach_nf nat (@wstate nat) has_lock11 ror11 body_n (s0 nat) good_ops good_cfg /\
  wire (sh good_cfg) = [hdr_n (enc_n 0 8); enc_n 0 8; hdr_n (enc_n 1 7); enc_n 1 7] /\
  (forall t th, nth_error (thr good_cfg) t = Some th -> finished th).
Proof.
  split; [repeat constructor|]. split.
  - unfold good_cfg.
    destruct (run_n (init_n good_ops) (map (fun t => (t, false)) good_sched)) as [c|] eqn:E.
    + eapply reach_nf_run; [apply reach_nf_init|exact E].
    + exfalso. vm_compute in E. discriminate.
  - split; [vm_compute; reflexivity|].
    intros [|[|t]] th E; [vm_compute in E; inversion E; subst; split; reflexivity|vm_compute in E; inversion E; subst; split; reflexivity|].
    exfalso. vm_compute in E. destruct t; discriminate.
Qed.

(* positive control: entering at the segments layer (node 1), i.e. NOT through the coder's and the
   noise layer's locks, two threads can put two headers next to each other on the wire *)
Definition bad_ops : list (list (nat * nat)) := [[(1, 7)]; [(1, 8)]].
Definition bad_sched : list nat := [0; 0; 0; 0; 1; 1; 1].
Definition bad_cfg := match run_n (init_n bad_ops) (map (fun t => (t, false)) bad_sched) with
                      | Some c => c | None => init_n [] end.

Theorem unprotected_refuted_thm :
  reach_nf nat (@wstate nat) has_lock11 ror11 body_n (s0 nat) bad_ops bad_cfg /\
  wire (sh bad_cfg) = [hdr_n 7; hdr_n 8] /\ ~ entry_ok' nat bad_ops.
Proof.
  split; [|split].
  - unfold bad_cfg.
    destruct (run_n (init_n bad_ops) (map (fun t => (t, false)) bad_sched)) as [c|] eqn:E.
    + eapply reach_nf_run; [apply reach_nf_init|exact E].
    + exfalso. vm_compute in E. discriminate.
  - vm_compute. reflexivity.
  - intros H. inversion H as [|? ? H1 _]; subst. inversion H1; subst. simpl in *. lia.
Qed.
